// Demonstration for finding F5 (property C05): a TCP-up commit that lands after the
// supervisor processed the close event moved State() to NotSelected AFTER Close returned.
// The accept goroutine is "descheduled" deterministically by a listener whose Accept hands
// out the accepted connection only once the listener is being closed (i.e. during Close).
package f5

import (
	"context"
	"net"
	"sync"
	"testing"
	"time"

	"github.com/arloliu/go-secs/v2/hsms"
	"github.com/arloliu/go-secs/v2/hsmsss"
)

type lateListener struct {
	net.Listener
	mu      sync.Mutex
	held    net.Conn
	closing chan struct{}
	once    sync.Once
}

func (l *lateListener) Accept() (net.Conn, error) {
	l.mu.Lock()
	first := l.held == nil
	l.mu.Unlock()
	if !first {
		<-l.closing
		return nil, net.ErrClosed
	}
	c, err := l.Listener.Accept()
	if err != nil {
		return nil, err
	}
	l.mu.Lock()
	l.held = c
	l.mu.Unlock()
	<-l.closing // hold the accepted connection until teardown has begun
	time.Sleep(50 * time.Millisecond)
	return c, nil
}

func (l *lateListener) Close() error {
	l.once.Do(func() { close(l.closing) })
	return l.Listener.Close()
}

func TestStateStaysNotConnectedAfterClose(t *testing.T) {
	var ll *lateListener
	listen := func(ctx context.Context, network, addr string) (net.Listener, error) {
		ln, err := (&net.ListenConfig{}).Listen(ctx, network, addr)
		if err != nil {
			return nil, err
		}
		ll = &lateListener{Listener: ln, closing: make(chan struct{})}
		return ll, nil
	}
	probe, _ := net.Listen("tcp", "127.0.0.1:0")
	port := probe.Addr().(*net.TCPAddr).Port
	probe.Close()
	cfg, err := hsmsss.NewConfig("127.0.0.1", port, hsmsss.WithPassive(), hsmsss.WithListener(listen),
		hsmsss.WithConnectionOption(hsms.WithCloseTimeout(2*time.Second)))
	if err != nil {
		t.Fatal(err)
	}
	conn, err := hsmsss.New(cfg)
	if err != nil {
		t.Fatal(err)
	}
	if err := conn.Open(context.Background(), hsms.OpenBackground); err != nil {
		t.Fatal(err)
	}
	peer, err := net.Dial("tcp", ll.Addr().String())
	if err != nil {
		t.Fatal(err)
	}
	defer peer.Close()
	time.Sleep(100 * time.Millisecond) // the accept goroutine now holds the connection
	_ = conn.Close()
	for i := 0; i < 20; i++ {
		if s := conn.State(); s != hsms.NotConnectedState {
			t.Fatalf("State() = %v after Close returned (must be NotConnected and stay so)", s)
		}
		time.Sleep(10 * time.Millisecond)
	}
}
