// Demonstration for finding F7 (property C06): a peer that answers a W-bit primary with a
// control response (Linktest.rsp) carrying the primary's system bytes made
// SendDataMessage return (nil, nil). Run from a scratch module that replaces go-secs with
// the tree under test (see README in this directory).
package f7

import (
	"context"
	"encoding/binary"
	"io"
	"net"
	"testing"
	"time"

	"github.com/arloliu/go-secs/v2/hsms"
	"github.com/arloliu/go-secs/v2/hsmsss"
)

func readFrame(t *testing.T, c net.Conn) []byte {
	var l [4]byte
	if _, err := io.ReadFull(c, l[:]); err != nil {
		t.Fatalf("read len: %v", err)
	}
	b := make([]byte, binary.BigEndian.Uint32(l[:]))
	if _, err := io.ReadFull(c, b); err != nil {
		t.Fatalf("read frame: %v", err)
	}
	return b
}

func writeHeader(c net.Conn, h []byte) {
	out := append([]byte{0, 0, 0, 10}, h...)
	_, _ = c.Write(out)
}

func TestControlResponseUnderPrimarySystemBytes(t *testing.T) {
	ln, err := net.Listen("tcp", "127.0.0.1:0")
	if err != nil {
		t.Fatal(err)
	}
	defer ln.Close()
	go func() {
		c, err := ln.Accept()
		if err != nil {
			return
		}
		defer c.Close()
		sel := readFrame(t, c) // Select.req
		rsp := append([]byte{}, sel[:10]...)
		rsp[5] = 2 // Select.rsp, status 0
		rsp[3] = 0
		writeHeader(c, rsp)
		prim := readFrame(t, c) // S1F1 W
		lt := make([]byte, 10)
		lt[0], lt[1] = 0xFF, 0xFF
		lt[5] = 6 // Linktest.rsp reusing the primary's system bytes
		copy(lt[6:], prim[6:10])
		writeHeader(c, lt)
		time.Sleep(500 * time.Millisecond)
	}()
	port := ln.Addr().(*net.TCPAddr).Port
	cfg, err := hsmsss.NewConfig("127.0.0.1", port, hsmsss.WithActive(), hsmsss.WithConnectionOption(hsms.WithT3(2*time.Second)))
	if err != nil {
		t.Fatal(err)
	}
	conn, err := hsmsss.New(cfg)
	if err != nil {
		t.Fatal(err)
	}
	ctx, cancel := context.WithTimeout(context.Background(), 3*time.Second)
	defer cancel()
	if err := conn.Open(ctx, hsms.OpenWaitSelected); err != nil {
		t.Fatal(err)
	}
	defer conn.Close()
	reply, err := conn.SendDataMessage(ctx, 1, 1, true, nil)
	if reply == nil && err == nil {
		t.Fatalf("SendDataMessage returned (nil, nil) for a reply-expected send")
	}
	t.Logf("reply=%v err=%v", reply, err)
}
