package demo

import (
	"testing"

	"github.com/arloliu/go-secs/v2/hsms"
	"github.com/arloliu/go-secs/v2/secs2"
)

// F6 (C01): NewListItem admitted EmptyItem children. The list header counts them, but an
// EmptyItem emits no bytes, so the encoding announced more children than it contained: the
// library's own decoder rejected it, and NewDataMessage put the malformed body on the wire.
func TestListWithEmptyItemChildEncodesDecodably(t *testing.T) {
	trees := []secs2.Item{
		secs2.L(secs2.A("x"), secs2.NewEmptyItem()),
		secs2.L(secs2.NewEmptyItem()),
		secs2.L(secs2.U1(1), secs2.L(secs2.NewEmptyItem(), secs2.B(2)), secs2.NewEmptyItem()),
	}
	for _, it := range trees {
		if it.Error() != nil {
			continue // refusing the tree outright would also be sound
		}
		enc := it.ToBytes()
		if len(enc) != it.EncodedLen() {
			t.Fatalf("EncodedLen %d != len(ToBytes) %d for %s", it.EncodedLen(), len(enc), it.ToSML())
		}
		back, err := secs2.Decode(enc)
		if err != nil {
			t.Fatalf("error-free item %q encodes to % X, which the decoder rejects: %v", it.ToSML(), enc, err)
		}
		if !secs2.Equal(it, back) {
			t.Fatalf("round trip changed the item: %q -> %q", it.ToSML(), back.ToSML())
		}
		msg, err := hsms.NewDataMessage(1, 1, false, 0, [4]byte{}, it)
		if err != nil {
			continue
		}
		if _, err := hsms.DecodeHSMSMessage(msg.ToBytes()); err != nil {
			t.Fatal(err)
		}
		dm, _ := hsms.DecodeHSMSMessage(msg.ToBytes())
		if _, err := dm.(*hsms.DataMessage).Item(); err != nil {
			t.Fatalf("message built from an error-free item has an undecodable body: %v", err)
		}
	}
}
