// Demonstrations for finding F8 (property C10): Open held the Open/Close serialisation mutex
// (a) while waiting for Selected and (b) during the initial dial, so a concurrent Close was not
// bounded by the close timeout.
package f8

import (
	"context"
	"net"
	"testing"
	"time"

	"github.com/arloliu/go-secs/v2/hsms"
	"github.com/arloliu/go-secs/v2/hsmsss"
)

// (a) passive endpoint, nobody connects, Open(OpenWaitSelected) with a 3 s caller deadline;
// Close with a 200 ms close timeout must not take ~3 s.
func TestCloseNotHeldByOpenWaitSelected(t *testing.T) {
	ln, err := net.Listen("tcp", "127.0.0.1:0")
	if err != nil {
		t.Fatal(err)
	}
	port := ln.Addr().(*net.TCPAddr).Port
	ln.Close()
	cfg, err := hsmsss.NewConfig("127.0.0.1", port, hsmsss.WithPassive(), hsmsss.WithConnectionOption(hsms.WithCloseTimeout(200*time.Millisecond)))
	if err != nil {
		t.Fatal(err)
	}
	conn, err := hsmsss.New(cfg)
	if err != nil {
		t.Fatal(err)
	}
	ctx, cancel := context.WithTimeout(context.Background(), 3*time.Second)
	defer cancel()
	opened := make(chan error, 1)
	go func() { opened <- conn.Open(ctx, hsms.OpenWaitSelected) }()
	time.Sleep(300 * time.Millisecond) // Open is now waiting for a peer that never comes
	start := time.Now()
	_ = conn.Close()
	took := time.Since(start)
	<-opened
	if took > 1500*time.Millisecond {
		t.Fatalf("Close took %v with a 200ms close timeout: it was held by the concurrent Open's wait", took)
	}
	t.Logf("Close took %v", took)
}

// (b) active endpoint whose dial stalls until its context is cancelled (a black-holed peer);
// Close must still return within the close timeout plus slack. KNOWN FINDING (not repaired):
// the initial dial runs under the same mutex.
func TestCloseNotHeldByInitialDial(t *testing.T) {
	dial := func(ctx context.Context, network, addr string) (net.Conn, error) {
		select {
		case <-ctx.Done():
			return nil, ctx.Err()
		case <-time.After(4 * time.Second): // a stalled connect attempt
			return nil, context.DeadlineExceeded
		}
	}
	cfg, err := hsmsss.NewConfig("127.0.0.1", 5999, hsmsss.WithActive(), hsmsss.WithDialer(dial), hsmsss.WithConnectionOption(hsms.WithCloseTimeout(200*time.Millisecond)))
	if err != nil {
		t.Fatal(err)
	}
	conn, err := hsmsss.New(cfg)
	if err != nil {
		t.Fatal(err)
	}
	opened := make(chan error, 1)
	go func() { opened <- conn.Open(context.Background(), hsms.OpenBackground) }()
	time.Sleep(300 * time.Millisecond)
	start := time.Now()
	_ = conn.Close()
	took := time.Since(start)
	<-opened
	if took > 1500*time.Millisecond {
		t.Fatalf("Close took %v with a 200ms close timeout: it was held by the initial dial", took)
	}
}
