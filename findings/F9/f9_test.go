//go:build 386 || arm || mips || mipsle

package demo

// F9 (C14, 32-bit targets only): the non-strict ASCII fast path computed `maxSize+2` in int.
// nextItemSize admits hints up to math.MaxInt32, so on a target whose int is 32 bits the sum
// wraps negative, the "data long enough" guard passes, checkASCIICloseQuote computes idx+1
// (wrapping again) and indexes p.data[idx] far out of range: a 25-byte input panics.
//
// This file only builds for 32-bit targets. The sandbox the checks were developed in cannot
// execute 32-bit binaries (no IA-32 emulation), so the failing run was not observed there; the
// test was compiled with GOARCH=386 (`go test -c`). The argument is static: C14-R7 reports
// `(*sml.Parser).parseASCIIFast: no-wrap ($maxSize + 2)` under linux/386, and only that.

import (
	"testing"

	"github.com/arloliu/go-secs/v2/sml"
)

func TestASCIIHintNearMaxInt32DoesNotPanic(t *testing.T) {
	for _, in := range []string{
		"S1F1 W\n<A[2147483647] \"x\">\n.",
		"S1F1 W\n<A[2147483646] \"x\">\n.",
	} {
		func() {
			defer func() {
				if r := recover(); r != nil {
					t.Fatalf("sml.Parse panicked on %q: %v", in, r)
				}
			}()
			if _, err := sml.Parse(in); err == nil {
				t.Fatalf("expected a syntax error for an oversized hint in %q", in)
			}
		}()
	}
}
