package demo

import (
	"runtime"
	"testing"

	"github.com/arloliu/go-secs/v2/sml"
)

// F1 (C14): the parser pre-allocated from the declared item size. A 30-byte input claiming
// 100 000 000 elements allocated 800 MB before reading a single value.
func TestSizeHintDoesNotDriveAllocation(t *testing.T) {
	inputs := []string{
		"S1F1 W\n<U8[100000000] 1>\n.",
		"S1F1 W\n<I8[100000000] 1>\n.",
		"S1F1 W\n<F8[100000000] 1>\n.",
		"S1F1 W\n<B[100000000] 1>\n.",
		"S1F1 W\n<BOOLEAN[100000000] T>\n.",
		"S1F1 W\n<L[100000000] <A 'x'>>\n.",
	}
	for _, in := range inputs {
		var before, after runtime.MemStats
		runtime.GC()
		runtime.ReadMemStats(&before)
		msgs, err := sml.Parse(in)
		runtime.ReadMemStats(&after)
		if err != nil || len(msgs) != 1 {
			t.Fatalf("Parse(%q) = %v, %v", in, msgs, err)
		}
		if got := after.TotalAlloc - before.TotalAlloc; got > 1<<20 {
			t.Fatalf("Parse(%q) allocated %d bytes for a %d-byte input", in, got, len(in))
		}
	}
	// strict ASCII path (Builder.Grow)
	var before, after runtime.MemStats
	runtime.GC()
	runtime.ReadMemStats(&before)
	_, err := sml.ParseStrict("S1F1 W\n<A[100000000] \"x\">\n.")
	runtime.ReadMemStats(&after)
	if err != nil {
		t.Fatal(err)
	}
	if got := after.TotalAlloc - before.TotalAlloc; got > 1<<20 {
		t.Fatalf("ParseStrict allocated %d bytes for a 30-byte input", got)
	}
}
