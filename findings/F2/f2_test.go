package demo

import (
	"os"
	"os/exec"
	"strings"
	"testing"

	"github.com/arloliu/go-secs/v2/sml"
)

// F2 (C14): parseItem <-> parseList recursed once per nesting level with no limit; a few MB of
// "<L " exhausted the goroutine stack, which is a fatal error (process crash, not recoverable).
// The parse runs in a child process so the crash can be observed.
func TestDeepNestingIsRejectedNotFatal(t *testing.T) {
	if os.Getenv("F2_CHILD") == "1" {
		in := "S1F1 W\n" + strings.Repeat("<L ", 3000000) + strings.Repeat(">", 3000000) + "\n."
		_, err := sml.Parse(in)
		if err == nil {
			os.Exit(3) // accepted: no limit
		}
		os.Exit(0)
	}
	cmd := exec.Command(os.Args[0], "-test.run", "TestDeepNestingIsRejectedNotFatal")
	cmd.Env = append(os.Environ(), "F2_CHILD=1")
	out, err := cmd.CombinedOutput()
	if err != nil {
		s := string(out)
		if len(s) > 300 {
			s = s[:300]
		}
		t.Fatalf("child parsing 3,000,000 nested lists died: %v\n%s", err, s)
	}
}
