package demo

import (
	"testing"

	"github.com/arloliu/go-secs/v2/sml"
)

// F3 (C14): checkASCIICloseQuote bounded its indexes by the length of the whole input while
// indexing the unread window p.data = input[pos:]. A quoted ASCII run followed by trailing
// whitespace up to end of input walked past the window: index out of range.
func TestNonStrictASCIITrailingSpaceDoesNotPanic(t *testing.T) {
	for _, in := range []string{"S1F1\n<A 'x' ", "S1F1 W\n<A[1] \"x\"  \t", "S1F1\n<L <A 'abc'\n"} {
		func() {
			defer func() {
				if r := recover(); r != nil {
					t.Fatalf("sml.Parse(%q) panicked: %v", in, r)
				}
			}()
			if _, err := sml.Parse(in); err == nil {
				t.Fatalf("sml.Parse(%q): expected a syntax error", in)
			}
		}()
	}
}
