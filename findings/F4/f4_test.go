package demo

import (
	"testing"

	"github.com/arloliu/go-secs/v2/hsms"
	"github.com/arloliu/go-secs/v2/secs2"
	"github.com/arloliu/go-secs/v2/sml"
)

// F4 (C13): the strict encoder did not escape '>' inside a quoted run, while the strict parser
// treats an unescaped '>' inside a run as "unclosed quote" (it already accepts "\>"). Any ASCII
// value containing '>' failed to parse back from its own strict encoding.
func TestStrictASCIIWithAngleBracketRoundTrips(t *testing.T) {
	for _, s := range []string{">", "a>b", "x -> y", "<tag>", "a\\>b", "'>'", "\">\""} {
		for _, q := range []sml.QuoteStyle{sml.QuoteDouble, sml.QuoteSingle} {
			msg, err := hsms.NewDataMessage(1, 1, true, 0, [4]byte{}, secs2.L(secs2.A(s), secs2.U1(7)))
			if err != nil {
				t.Fatal(err)
			}
			enc := sml.NewEncoder(sml.WithEncoderStrictMode(true), sml.WithASCIIQuote(q))
			text, err := enc.EncodeMessage(msg)
			if err != nil {
				t.Fatal(err)
			}
			back, err := sml.ParseStrict(text)
			if err != nil {
				t.Fatalf("value %q quote %d: strict text %q does not parse back: %v", s, q, text, err)
			}
			it, _ := back[0].Item()
			orig, _ := msg.Item()
			if len(back) != 1 || !secs2.Equal(it, orig) {
				t.Fatalf("value %q: round trip changed the body: %q", s, text)
			}
		}
	}
}
