package main

import (
	"fmt"
	"go/types"
	"os"
	"sort"
	"strings"

	"golang.org/x/tools/go/ssa"
)

// bndRun is a finished engine run, kept so that a second rule of the same property can
// report another kind of obligation from it without re-running the inference.
type bndRun struct {
	e   *bndEngine
	res *bndResult
}

// bndReport runs a bounds engine and turns its result into obligations of a rule.
// floor is the hand-confirmed minimum number of obligations (a fragment that silently
// shrinks must not pass vacuously).
func bndReport(r *Run, rule string, e *bndEngine, floor int) *bndResult {
	res := e.run()
	if r.bnd == nil {
		r.bnd = map[string]*bndRun{}
	}
	r.bnd[e.name] = &bndRun{e, res}
	for _, fn := range e.fns {
		r.Analysed(r.W.FnName(fn))
	}
	seen := map[string]int{}
	nOb := 0
	for i, o := range res.obs {
		if o.kind == "no-wrap" {
			continue // reported by the no-integer-wrap rule of the same property
		}
		construct := o.what
		if o.ctx.envS != "" {
			construct += " [" + o.ctx.envS + "]"
		}
		seen[construct]++
		if n := seen[construct]; n > 1 {
			construct += fmt.Sprintf(" #%d", n)
		}
		nOb++
		if os.Getenv("SECSCHECK_BND_DEBUG") == "3" {
			fmt.Printf("  obligation %v %s\n", res.proved[i], construct)
		}
		if res.proved[i] {
			why := strings.Join(o.descs, "; ")
			if res.failDesc[i] == "unreachable" {
				why = "unreachable under this specialisation"
			}
			r.OK(rule, construct, o.at.Pos(), "%s", why)
		} else {
			r.Fail(rule, construct, o.at.Pos(), "cannot be established from the guards, contracts and invariants in force: %s", res.failDesc[i])
		}
	}
	r.Floor(rule, "bounds/size/divisor obligations", nOb, floor)
	r.Stats[rule+":functions"] = len(e.fns)
	r.Stats[rule+":candidates"] = res.cands
	r.Stats[rule+":candidates-surviving"] = res.alive
	r.Stats[rule+":houdini-iterations"] = e.houdiniIt
	r.Stats[rule+":prover-queries"] = e.proofs
	if os.Getenv("SECSCHECK_BND_DEBUG") != "" {
		sort.Strings(res.survivors)
		for _, s := range res.survivors {
			fmt.Println("  survivor:", s)
		}
		for _, fn := range e.fns {
			for _, cd := range e.pre[fn] {
				if !cd.alive && os.Getenv("SECSCHECK_BND_DEBUG") == "2" {
					fmt.Printf("  dead pre %s: %s (%s)\n", fn.Name(), cd.desc, cd.died)
				}
			}
			for _, c := range e.ctxs[fn] {
				for _, b := range fn.Blocks {
					for _, cd := range c.blockCands[b] {
						if cd.alive {
							fmt.Printf("  block %s#%d [%s]: %s\n", fn.Name(), b.Index, c.envS, cd.desc)
						} else if os.Getenv("SECSCHECK_BND_DEBUG") == "2" {
							fmt.Printf("  dead block %s#%d [%s]: %s (%s)\n", fn.Name(), b.Index, c.envS, cd.desc, cd.died)
						}
					}
				}
			}
		}
		for _, ts := range e.tracked {
			for _, cd := range e.inv[ts] {
				if !cd.alive {
					fmt.Printf("  dead inv: %s (%s)\n", cd.desc, cd.died)
				}
			}
		}
	}
	return res
}

// trackedWritersOK checks that every store to a field of a tracked struct, anywhere in the
// module, happens through the receiver of one of the analysed methods (so that the
// inferred struct invariants cannot be broken behind the analysis' back).
func trackedWritersOK(r *Run, rule string, e *bndEngine, res *bndResult) {
	for _, ts := range e.tracked {
		// fields mentioned by a surviving invariant
		used := map[string]bool{}
		for _, cd := range e.inv[ts] {
			if !cd.alive {
				continue
			}
			for a := range cd.L.C {
				n := strings.TrimSuffix(strings.TrimPrefix(strings.TrimPrefix(a, "len("), "F:"), ")")
				used[n] = true
			}
		}
		n := 0
		for _, fn := range r.W.SrcFns() {
			eachInstr(fn, func(in ssa.Instruction) {
				st, ok := in.(*ssa.Store)
				if !ok {
					return
				}
				fa, ok := st.Addr.(*ssa.FieldAddr)
				if !ok || e.isTrackedPtr(fa.X.Type()) != ts {
					return
				}
				f := ts.fields[fa.Field]
				if !used[f.Name()] {
					return
				}
				n++
				construct := fmt.Sprintf("store to %s.%s in %s", ts.named.Obj().Name(), f.Name(), r.W.FnName(fn))
				okRecv := e.frag[fn] && len(fn.Params) > 0 && fa.X == ssa.Value(fn.Params[0]) && fn.Signature.Recv() != nil
				if okRecv {
					r.OK(rule, construct, st.Pos(), "through the receiver of an analysed method (invariants re-proved at its exits)")
				} else if !r.W.IsProd(fn) {
					// test helpers are outside the property's scope
				} else {
					r.Fail(rule, construct, st.Pos(), "a field constrained by an inferred invariant is written outside the analysed receiver methods")
				}
			})
		}
		r.Stats[rule+":writers of invariant fields of "+ts.named.Obj().Name()] = n
	}
}

func namedOf(w *World, pkg, name string) *types.Named { return w.Named(pkg, name) }
