package main

// C17-R6 (send-side split arithmetic) and C18-R2 (ENQ/EOT contention handshake).

import (
	"fmt"
	"go/token"
	"go/types"
	"strings"

	"golang.org/x/tools/go/ssa"
)

func init() {
	registry["C17"].Rules = append(registry["C17"].Rules,
		Rule{Name: "C17-R6-split-arithmetic", Doc: "splitBody cuts the body into blocks of min(244, remaining) bytes starting at offset 0 with no gap or overlap (the next block starts where the previous one ended), numbers them from 1 by 1, sets the E-bit exactly on the block that ends at the body's length, emits one header-only block 1 with the E-bit for an empty body, stops only at the end of the body (or when the consumer stops), and rejects device ids above 0x7FFF, streams above 127 and bodies above 244·32767 bytes; splitFrame takes device id and direction bit from the configuration and stream, function, W-bit and system bytes from HSMS header bytes 2, 3 and 6–9", Run: c17Split})
	registry["C18"].Rules = append(registry["C18"].Rules,
		Rule{Name: "C18-R2-contention", Doc: "sendBlockOnce: ENQ is written first; while waiting, EOT alone starts the data transfer, ENQ makes a slave (and never a master) report contention without writing anything, every other byte is ignored, a T2 expiry or read error is a retryable failure; sendBlockData writes the block once and reports OK only for ACK; in sendBlock the contention arm grants the line with EOT before receiving and is the only place that does", Run: c18Contention})
}

// stableCapturedCell: fv is a variable captured by reference whose cell is written only in the
// enclosing function, before the closure is created, and by nobody afterwards — so every load
// of it inside the closure reads one and the same value.
func stableCapturedCell(fv *ssa.FreeVar) bool {
	bs := freeVarBindings(fv)
	if len(bs) != 1 {
		return false
	}
	al, ok := bs[0].(*ssa.Alloc)
	if !ok || al.Referrers() == nil {
		return false
	}
	var stores []*ssa.Store
	var closures []*ssa.MakeClosure
	for _, ref := range *al.Referrers() {
		switch x := ref.(type) {
		case *ssa.Store:
			if x.Addr != ssa.Value(al) {
				return false // the address itself escapes into memory
			}
			stores = append(stores, x)
		case *ssa.UnOp:
			if x.Op != token.MUL {
				return false
			}
		case *ssa.MakeClosure:
			closures = append(closures, x)
		case *ssa.FieldAddr:
			// reading a field of the captured struct is fine; writing through it is not
			if x.Referrers() != nil {
				for _, r2 := range *x.Referrers() {
					if u, ok := r2.(*ssa.UnOp); !ok || u.Op != token.MUL {
						if _, isDbg := r2.(*ssa.DebugRef); !isDbg {
							return false
						}
					}
				}
			}
		case *ssa.DebugRef:
		default:
			return false
		}
	}
	// inside every capturing closure the cell is only read
	for _, mc := range closures {
		fn, ok := mc.Fn.(*ssa.Function)
		if !ok {
			return false
		}
		for i, b := range mc.Bindings {
			if b != ssa.Value(al) || i >= len(fn.FreeVars) {
				continue
			}
			refs := fn.FreeVars[i].Referrers()
			if refs == nil {
				continue
			}
			for _, ref := range *refs {
				if u, ok := ref.(*ssa.UnOp); ok && u.Op == token.MUL {
					continue
				}
				if _, ok := ref.(*ssa.DebugRef); ok {
					continue
				}
				return false
			}
		}
	}
	// no store is reachable from a closure creation
	for _, mc := range closures {
		seen := map[*ssa.BasicBlock]bool{}
		var work []*ssa.BasicBlock
		work = append(work, mc.Block().Succs...)
		for len(work) > 0 {
			b := work[len(work)-1]
			work = work[:len(work)-1]
			if seen[b] {
				continue
			}
			seen[b] = true
			work = append(work, b.Succs...)
		}
		for _, st := range stores {
			if seen[st.Block()] {
				return false
			}
			if st.Block() == mc.Block() && blockIndexOf(st) > blockIndexOf(mc) {
				return false
			}
		}
	}
	return true
}

// resolveCell looks through loads of a local variable cell that is stored exactly once: the
// load denotes the stored value.
func resolveCell(v ssa.Value) ssa.Value {
	for i := 0; i < 8; i++ {
		u, ok := v.(*ssa.UnOp)
		if !ok || u.Op != token.MUL {
			return v
		}
		al, ok := u.X.(*ssa.Alloc)
		if !ok || al.Referrers() == nil {
			return v
		}
		var stored ssa.Value
		n := 0
		for _, ref := range *al.Referrers() {
			if st, ok := ref.(*ssa.Store); ok && st.Addr == ssa.Value(al) {
				stored = st.Val
				n++
			}
		}
		if n != 1 {
			return v
		}
		v = stored
	}
	return v
}

// upperBoundOnPath returns the tightest constant upper bound the path's decisions put on a
// term selected by pick (x ≤ k).
func upperBoundOnPath(p *Path, pick func(ssa.Value) bool) (int64, bool) {
	best, have := int64(0), false
	note := func(k int64) {
		if !have || k < best {
			best, have = k, true
		}
	}
	for _, f := range p.Conds {
		b, ok := f.Cond.(*ssa.BinOp)
		if !ok {
			continue
		}
		op := b.Op
		x, y := b.X, b.Y
		kx, xConst := constInt(x)
		ky, yConst := constInt(y)
		if xConst && !yConst {
			// k op y  ≡  y op' k
			x, ky, yConst = y, kx, true
			switch op {
			case token.LSS:
				op = token.GTR
			case token.LEQ:
				op = token.GEQ
			case token.GTR:
				op = token.LSS
			case token.GEQ:
				op = token.LEQ
			}
		}
		if !yConst || !pick(stripConv(x)) {
			continue
		}
		switch {
		case op == token.GTR && !f.Val, op == token.LEQ && f.Val:
			note(ky)
		case op == token.GEQ && !f.Val, op == token.LSS && f.Val:
			note(ky - 1)
		case op == token.EQL && f.Val:
			note(ky)
		}
	}
	return best, have
}

func c17Split(r *Run) {
	const rule = "C17-R6-split-arithmetic"
	w := r.W
	sb := w.Fn("secs1", "splitBody")
	r.Analysed(w.FnName(sb))
	maxBody := w.ConstInt("secs1", "maxBlockBodySize")
	maxNum := w.ConstInt("secs1", "maxBlockNumber")
	r.Check(maxBody == 244, rule, "maxBlockBodySize = 244", w.Obj("secs1", "maxBlockBodySize").Pos(), "244", fmt.Sprintf("SEMI E4 allows at most 244 body bytes per block, constant is %d", maxBody))
	r.Check(maxNum == 32767, rule, "maxBlockNumber = 32767", w.Obj("secs1", "maxBlockNumber").Pos(), "32767", fmt.Sprintf("the block number is a 15-bit field, constant is %d", maxNum))

	// ---- the guards of splitBody ----
	var totalVal ssa.Value // the value stored in the captured `total`
	var clos *ssa.Function
	eachInstr(sb, func(in ssa.Instruction) {
		if mc, ok := in.(*ssa.MakeClosure); ok {
			if f, ok := mc.Fn.(*ssa.Function); ok {
				clos = f
			}
		}
	})
	if clos == nil || len(sb.AnonFuncs) != 1 {
		r.Undecided(rule, "splitBody returns one iterator closure", sb.Pos(), "found %d closures", len(sb.AnonFuncs))
		return
	}
	r.Analysed(w.FnName(clos))
	bodyParam, hdrParam := sb.Params[0], sb.Params[1]
	isLenOfBody := func(v ssa.Value) bool {
		c, ok := resolveCell(v).(*ssa.Call)
		return ok && c.Call.IsInvoke() && c.Call.Method.Name() == "Len" && resolveCell(c.Call.Value) == ssa.Value(bodyParam)
	}
	fieldOfHdr := func(name string) func(ssa.Value) bool {
		return func(v ssa.Value) bool {
			s := render(v)
			return strings.HasSuffix(s, "."+name) && strings.Contains(s, hdrParam.Name())
		}
	}
	paths, ok := enumPaths(sb, 200)
	if !ok {
		r.Undecided(rule, "splitBody paths", sb.Pos(), "too many")
		return
	}
	nSucc := 0
	for _, p := range paths {
		if _, isRet := p.Exit.(*ssa.Return); !isRet {
			continue
		}
		rets := p.Rets()
		if len(rets) != 2 || !isNilConst(rets[1]) {
			continue
		}
		nSucc++
		k, ok := upperBoundOnPath(p, fieldOfHdr("deviceID"))
		r.Check(ok && k == 0x7FFF, rule, "splitBody succeeds exactly for device id ≤ 0x7FFF", p.Exit.Pos(), "bound = 0x7FFF", fmt.Sprintf("a device id that does not fit the 15-bit field must be rejected (it would spill into the R-bit) and every one that fits accepted; the guards admit ≤ %d", k))
		k, ok = upperBoundOnPath(p, fieldOfHdr("stream"))
		r.Check(ok && k == 0x7F, rule, "splitBody succeeds exactly for stream ≤ 127", p.Exit.Pos(), "bound = 127", fmt.Sprintf("a stream above 127 must be rejected (it would spill into the W-bit) and every stream up to 127 accepted; the guards admit ≤ %d", k))
		k, ok = upperBoundOnPath(p, func(v ssa.Value) bool { return isLenOfBody(p.ResolveLocalLoad(v)) || isLenOfBody(v) })
		r.Check(ok && k == maxBody*maxNum, rule, "splitBody succeeds exactly for bodies ≤ 244·32767 bytes", p.Exit.Pos(), "bound = 244·32767", fmt.Sprintf("a body that needs more than 32767 blocks must be rejected (the block number would overflow into the E-bit) and every smaller one accepted; the guards admit ≤ %d", k))
	}
	r.Floor(rule, "splitBody success paths", nSucc, 1)

	// ---- captured variables of the iterator ----
	capOf := func(name string) *ssa.FreeVar {
		for _, fv := range clos.FreeVars {
			if fv.Name() == name {
				return fv
			}
		}
		return nil
	}
	boundTo := func(fv *ssa.FreeVar) ssa.Value { // the single value stored in the captured cell
		if fv == nil || !stableCapturedCell(fv) {
			return nil
		}
		al := freeVarBindings(fv)[0].(*ssa.Alloc)
		var vals []ssa.Value
		for _, ref := range *al.Referrers() {
			if st, ok := ref.(*ssa.Store); ok {
				vals = append(vals, st.Val)
			}
		}
		if len(vals) != 1 {
			return nil
		}
		return vals[0]
	}
	var fvTotal, fvBody, fvHdr *ssa.FreeVar
	for _, fv := range clos.FreeVars {
		switch v := boundTo(fv); {
		case v == nil:
		case isLenOfBody(v):
			fvTotal, totalVal = fv, v
		case v == ssa.Value(bodyParam):
			fvBody = fv
		case v == ssa.Value(hdrParam):
			fvHdr = fv
		}
	}
	_ = capOf
	_ = totalVal
	if !r.Check(fvTotal != nil && fvBody != nil && fvHdr != nil, rule, "iterator works on the validated header, the body and its length, fixed before it was created", clos.Pos(), "captured once", "the iterator's captured header / body / total length are not write-once values taken from splitBody's own arguments") {
		return
	}
	isLoadOf := func(v ssa.Value, fv *ssa.FreeVar) bool {
		u, ok := v.(*ssa.UnOp)
		return ok && u.Op == token.MUL && u.X == ssa.Value(fv)
	}

	// ---- the blocks it yields ----
	e := newBndEngine(w, "c17-split", []*ssa.Function{clos}, nil)
	e.entries[clos] = true
	e.run()
	if len(e.ctxs[clos]) == 0 {
		r.Undecided(rule, "iterator analysed", clos.Pos(), "no context")
		return
	}
	c := e.ctxs[clos][0]
	total := c.lin(fvTotalLoad(clos, fvTotal))
	hs := loopHeaders(clos)
	if len(hs) != 1 {
		r.Undecided(rule, "iterator: one loop", clos.Pos(), "found %d", len(hs))
		return
	}
	hdr := hs[0]
	type yieldSite struct {
		call    *ssa.Call
		bh      *ssa.Call // buildHeader call stored into .header
		chunk   *ssa.Call // Chunk call stored into .body (nil: no body)
		inLoop  bool
		nStores int
	}
	var ys []yieldSite
	eachInstr(clos, func(in ssa.Instruction) {
		call, ok := in.(*ssa.Call)
		if !ok || call.Call.Value != ssa.Value(clos.Params[0]) {
			return
		}
		y := yieldSite{call: call, inLoop: hdr.Dominates(call.Block())}
		if ld, ok := call.Call.Args[0].(*ssa.UnOp); ok && ld.Op == token.MUL {
			if al, ok := ld.X.(*ssa.Alloc); ok {
				for _, ref := range *al.Referrers() {
					fa, ok := ref.(*ssa.FieldAddr)
					if !ok {
						continue
					}
					for _, r2 := range *fa.Referrers() {
						st, ok := r2.(*ssa.Store)
						if !ok {
							continue
						}
						y.nStores++
						if cc, ok := st.Val.(*ssa.Call); ok {
							if g := calleeOf(cc).Static; g != nil && g.Name() == "buildHeader" {
								y.bh = cc
							} else if cc.Call.IsInvoke() && cc.Call.Method.Name() == "Chunk" {
								y.chunk = cc
							}
						}
					}
				}
			}
		}
		ys = append(ys, y)
	})
	r.Check(len(ys) == 2, rule, "iterator yields at two places (empty body; loop)", clos.Pos(), "2", fmt.Sprintf("found %d yield sites", len(ys)))
	nLoop := 0
	for _, y := range ys {
		pos := y.call.Pos()
		b, idx := y.call.Block(), blockIndexOf(y.call)
		if y.bh == nil || !isLoadOf(y.bh.Call.Args[0], fvHdr) {
			r.Fail(rule, "yielded block carries buildHeader(validated header, …)", pos, "the block header is not built from the validated message header")
			continue
		}
		if !y.inLoop {
			// header-only block for an empty body
			q1, ok1 := leq(total, linConst(0), "")
			r.Check(ok1 && c.proveAt(b, idx, q1), rule, "header-only block only for an empty body", pos, "total = 0", "the single header-only block must be emitted exactly when the body is empty")
			k, ok := constInt(y.bh.Call.Args[1])
			r.Check(ok && k == 1, rule, "empty body: block number 1", pos, "1", "the only block of an empty message is block 1")
			r.Check(isTrueConst(y.bh.Call.Args[2]), rule, "empty body: E-bit set", pos, "true", "the only block of an empty message is its last block")
			r.Check(y.chunk == nil && y.nStores == 1, rule, "empty body: no body bytes", pos, "header only", "an empty message is one header-only block")
			// nothing else follows
			_, isRet := b.Instrs[len(b.Instrs)-1].(*ssa.Return)
			r.Check(isRet, rule, "empty body: exactly one block", pos, "return after the block", "nothing may follow the header-only block")
			continue
		}
		nLoop++
		if y.chunk == nil || !isLoadOf(y.chunk.Call.Value, fvBody) {
			r.Fail(rule, "block body is a chunk of the message body", pos, "the block body is not body.Chunk(off, n) of the captured message body")
			continue
		}
		offV, nV := y.chunk.Call.Args[0], y.chunk.Call.Args[1]
		off, n := c.lin(offV), c.lin(nV)
		// off is the loop-carried offset starting at 0
		offPhi, _ := offV.(*ssa.Phi)
		if offPhi == nil || offPhi.Block() != hdr {
			r.Fail(rule, "chunk offset is the loop-carried offset", pos, "the chunk offset is not the loop's running offset")
			continue
		}
		for k, pb := range hdr.Preds {
			if !hdr.Dominates(pb) {
				v, ok := constInt(offPhi.Edges[k])
				r.Check(ok && v == 0, rule, "first block starts at offset 0", pos, "0", "the first block must start at the first body byte")
			}
		}
		ge1, ok1 := leq(linConst(1), n, "")
		le244, ok2 := leq(n, linConst(244), "")
		end, okE := off.add(n)
		inBody, ok3 := leq(end, total, "")
		r.Check(ok1 && c.proveAt(b, idx, ge1), rule, "every block of a non-empty body carries ≥ 1 byte", pos, "n ≥ 1", "an empty block inside a message")
		r.Check(ok2 && c.proveAt(b, idx, le244), rule, "every block carries ≤ 244 body bytes", pos, "n ≤ 244", "a block body may not exceed 244 bytes")
		r.Check(okE && ok3 && c.proveAt(b, idx, inBody), rule, "every chunk lies inside the body", pos, "off+n ≤ total", "a chunk reaches past the end of the body")
		// a block shorter than 244 bytes must be the one that ends the body (no short block in the middle)
		{
			fs := c.factsAt(b, idx)
			short, _ := leq(n, linConst(243), "block shorter than 244")
			fs.ineqs = append(fs.ineqs, short)
			q, okq := leq(total, end, "")
			r.Check(okE && okq && c.entailsSat(fs, q), rule, "a block shorter than 244 bytes ends the body", pos, "n < 244 ⇒ off+n = total", "a short block in the middle of a message: blocks must be filled to 244 bytes except the last")
		}
		// block number: loop-carried, from 1 by 1
		bnPhi, _ := stripConv(y.bh.Call.Args[1]).(*ssa.Phi)
		if bnPhi == nil || bnPhi.Block() != hdr {
			r.Fail(rule, "block number is loop-carried", pos, "the block number passed to buildHeader is not the loop's running number")
		} else {
			for k, pb := range hdr.Preds {
				if !hdr.Dominates(pb) {
					v, ok := constInt(bnPhi.Edges[k])
					r.Check(ok && v == 1, rule, "block numbers start at 1", pos, "1", "the first block of a message is block 1")
				} else {
					d, ok := c.lin(bnPhi.Edges[k]).sub(c.lin(bnPhi))
					r.Check(ok && d.isConst() && d.K == 1, rule, "block number grows by one per block", pos, "+1", "consecutive blocks must be numbered consecutively")
				}
			}
		}
		// E-bit ⇔ off+n = total
		lastOK := false
		if bo, ok := y.bh.Call.Args[2].(*ssa.BinOp); ok && bo.Op == token.EQL && okE {
			if d, ok := c.lin(bo.X).sub(c.lin(bo.Y)); ok {
				if want, ok := end.sub(total); ok {
					neg, _ := want.scale(-1)
					lastOK = d.String() == want.String() || d.String() == neg.String()
				}
			}
		}
		r.Check(lastOK, rule, "E-bit set exactly on the block that ends the body", pos, "last ⇔ off+n = total", "the E-bit must be set on the last block and only there")
		// the next block starts where this one ended (or the body is finished)
		for k, pb := range hdr.Preds {
			if !hdr.Dominates(pb) {
				continue
			}
			next := c.lin(offPhi.Edges[k])
			fs := c.factsAt(pb, len(pb.Instrs))
			full, _ := leq(linConst(244), n, "full block")
			fs.ineqs = append(fs.ineqs, full)
			q1, o1 := leq(next, end, "")
			q2, o2 := leq(end, next, "")
			contiguous := okE && o1 && o2 && c.entailsSat(fs, q1) && c.entailsSat(fs, q2)
			r.Check(contiguous, rule, "after a full block the next block starts where it ended", pos, "off' = off+n", "blocks must be contiguous: no gap and no overlap between consecutive chunks")
			fs2 := c.factsAt(pb, len(pb.Instrs))
			short, _ := leq(n, linConst(243), "short block")
			fs2.ineqs = append(fs2.ineqs, short)
			q3, o3 := leq(total, next, "")
			r.Check(o3 && c.entailsSat(fs2, q3), rule, "after a short (final) block the loop is finished", pos, "off' ≥ total", "nothing may follow the last block")
		}
	}
	r.Check(nLoop == 1, rule, "one block per loop iteration", clos.Pos(), "1", fmt.Sprintf("%d yields inside the loop", nLoop))
	// the loop ends only at the end of the body or because the consumer stopped
	for _, b := range clos.Blocks {
		ret, ok := b.Instrs[len(b.Instrs)-1].(*ssa.Return)
		if !ok || !hdr.Dominates(b) {
			continue
		}
		stopped := false
		for _, y := range ys {
			if y.inLoop {
				for _, f := range c.facts[b] {
					if f.Cond == ssa.Value(y.call) && !f.Val {
						stopped = true
					}
				}
			}
		}
		if stopped {
			r.OK(rule, "iterator stops when the consumer stops", ret.Pos(), "yield returned false")
			continue
		}
		var offPhi *ssa.Phi
		for _, in := range hdr.Instrs {
			if phi, ok := in.(*ssa.Phi); ok && isIntType(phi.Type()) && typeBits(phi.Type()) >= 32 {
				offPhi = phi
			}
		}
		done := false
		if offPhi != nil {
			q, okq := leq(total, c.lin(offPhi), "")
			done = okq && c.proveAt(b, len(b.Instrs)-1, q)
		}
		r.Check(done, rule, "iterator ends only when the whole body was emitted", ret.Pos(), "off ≥ total", "the loop can end before the body is exhausted: a message would go out truncated with no E-bit")
	}

	// ---- splitFrame: where the block-invariant header fields come from ----
	sf := w.Fn("secs1", "transport.splitFrame")
	r.Analysed(w.FnName(sf))
	var mhAlloc *ssa.Alloc
	for _, in := range sf.Blocks[0].Instrs {
		if al, ok := in.(*ssa.Alloc); ok {
			if n, ok := al.Type().(*types.Pointer).Elem().(*types.Named); ok && n.Obj().Name() == "messageHeader" {
				mhAlloc = al
			}
		}
	}
	if mhAlloc == nil {
		r.Undecided(rule, "splitFrame builds a messageHeader", sf.Pos(), "not found in the entry block")
		return
	}
	hp := sf.Params[1]
	pe := newBitEval(&Path{Fn: sf, Blocks: []*ssa.BasicBlock{sf.Blocks[0]}})
	hb := func(i int) bv { return atomBV(fmt.Sprintf("$%s[%d]", hp.Name(), i), 8) }
	st := mhAlloc.Type().(*types.Pointer).Elem().Underlying().(*types.Struct)
	seen := map[string]bool{}
	for _, ref := range *mhAlloc.Referrers() {
		fa, ok := ref.(*ssa.FieldAddr)
		if !ok {
			continue
		}
		fname := st.Field(fa.Field).Name()
		for _, r2 := range *fa.Referrers() {
			s, ok := r2.(*ssa.Store)
			if !ok {
				continue
			}
			seen[fname] = true
			construct := "splitFrame: messageHeader." + fname
			switch fname {
			case "deviceID", "rBit":
				want := map[string]string{"deviceID": "DeviceID", "rBit": "IsEquip"}[fname]
				cc, ok := s.Val.(*ssa.Call)
				good := ok && calleeOf(cc).Static != nil && calleeOf(cc).Static.Name() == want && strings.HasSuffix(typeShort(calleeOf(cc).Static.Signature.Recv().Type()), "secs1.Config")
				r.Check(good, rule, construct+" from the configuration ("+want+")", s.Pos(), "cfg."+want+"()", "the device id / direction bit of an outgoing block must come from this connection's configuration")
			case "stream":
				got := pe.eval(s.Val)
				want := hb(2)
				want[7] = bsrc{}
				r.Check(bitsEqual(got, want), rule, construct+" = header[2] & 0x7F", s.Pos(), want.String(), "stream must be the low seven bits of HSMS header byte 2, got "+got.String())
			case "function":
				got := pe.eval(s.Val)
				r.Check(bitsEqual(got, hb(3)), rule, construct+" = header[3]", s.Pos(), hb(3).String(), "function must be HSMS header byte 3, got "+got.String())
			case "waitBit":
				got := pe.eval(s.Val)
				want := bv{hb(2)[7]}
				r.Check(bitsEqual(got, want), rule, construct+" = bit 7 of header[2]", s.Pos(), want.String(), "the W-bit must be bit 7 of HSMS header byte 2, got "+got.String())
			case "systemBytes":
				good := false
				if ld, ok := s.Val.(*ssa.UnOp); ok && ld.Op == token.MUL {
					if cv, ok := ld.X.(*ssa.SliceToArrayPointer); ok {
						if sl, ok := cv.X.(*ssa.Slice); ok && sl.X == ssa.Value(hp) && sl.Low != nil {
							lo, okLo := constInt(sl.Low)
							n, okN := arrayLenOf(cv.Type().(*types.Pointer).Elem())
							good = okLo && lo == 6 && okN && n == 4
						}
					}
				}
				r.Check(good, rule, construct+" = header[6:10]", s.Pos(), "header[6:10]", "the system bytes must be HSMS header bytes 6–9")
			}
		}
	}
	for _, f := range []string{"deviceID", "rBit", "stream", "function", "waitBit", "systemBytes"} {
		if !seen[f] {
			r.Fail(rule, "splitFrame: messageHeader."+f+" is filled", sf.Pos(), "the field is left at its zero value")
		}
	}
	// and that header is the one handed to splitBody
	okArg := false
	for _, call := range callsIn(sf, isFn(sb)) {
		if ld, ok := call.Common().Args[1].(*ssa.UnOp); ok && ld.Op == token.MUL && ld.X == ssa.Value(mhAlloc) {
			okArg = true
		}
	}
	r.Check(okArg, rule, "splitFrame hands that header to splitBody", sf.Pos(), "splitBody(body, mh)", "splitBody is not called with the header built from configuration and HSMS header")
}

func fvTotalLoad(clos *ssa.Function, fv *ssa.FreeVar) ssa.Value {
	for _, ref := range *fv.Referrers() {
		if u, ok := ref.(*ssa.UnOp); ok && u.Op == token.MUL {
			return u
		}
	}
	return fv
}

func isNilConst(v ssa.Value) bool {
	c, ok := v.(*ssa.Const)
	return ok && c.Value == nil
}

func isTrueConst(v ssa.Value) bool {
	c, ok := v.(*ssa.Const)
	return ok && c.Value != nil && c.Value.String() == "true"
}

// ---------- C18-R2 ----------

func c18Contention(r *Run) {
	const rule = "C18-R2-contention"
	w := r.W
	once := w.Fn("secs1", "lineIO.sendBlockOnce")
	data := w.Fn("secs1", "lineIO.sendBlockData")
	sb := w.Fn("secs1", "lineIO.sendBlock")
	r.Analysed(w.FnName(once))
	r.Analysed(w.FnName(data))
	r.Analysed(w.FnName(sb))
	cv := func(name string) int64 { return w.ConstInt("secs1", name) }
	enq, eot, ack, nak := cv("enq"), cv("eot"), cv("ack"), cv("nak")
	r.Check(enq == 0x05 && eot == 0x04 && ack == 0x06 && nak == 0x15, rule, "line-control characters ENQ/EOT/ACK/NAK = 05/04/06/15", once.Pos(), "E4 values", fmt.Sprintf("ENQ=%#x EOT=%#x ACK=%#x NAK=%#x", enq, eot, ack, nak))
	res := func(name string) int64 { return w.ConstInt("secs1", name) }
	sOK, sRetry, sCont, sAbort := res("sendOK"), res("sendRetry"), res("sendContention"), res("sendAbort")

	effects := func(p *Path) string {
		var out []string
		for _, in := range p.Instrs() {
			c, ok := in.(*ssa.Call)
			if !ok {
				continue
			}
			if g := calleeOf(c).Static; g != nil {
				switch g.Name() {
				case "writeByte":
					k, _ := constInt(c.Call.Args[len(c.Call.Args)-1])
					out = append(out, fmt.Sprintf("writeByte(%#x)", k))
				case "writeAll", "readByte", "sendBlockData", "receiveBlock", "readFull", "drainUntilSilence":
					out = append(out, g.Name())
				}
			}
		}
		return strings.Join(out, ";")
	}
	resultOf := func(p *Path) (int64, bool, string) {
		rets := p.Rets()
		if len(rets) == 0 {
			return 0, false, ""
		}
		k, ok := constInt(rets[0])
		return k, ok, render(rets[0])
	}

	// --- sendBlockOnce: prologue ---
	hs := loopHeaders(once)
	if len(hs) != 1 {
		r.Undecided(rule, "sendBlockOnce: one wait loop", once.Pos(), "found %d", len(hs))
		return
	}
	h := hs[0]
	// everything before the loop: the first line effect is writeByte(ENQ), its failure aborts
	var first *ssa.Call
	eachInstr(once, func(in ssa.Instruction) {
		if c, ok := in.(*ssa.Call); ok && first == nil {
			if g := calleeOf(c).Static; g != nil && (g.Name() == "writeByte" || g.Name() == "readByte" || g.Name() == "writeAll" || g.Name() == "sendBlockData") {
				if c.Block() == once.Blocks[0] {
					first = c
				}
			}
		}
	})
	okFirst := false
	if first != nil && calleeOf(first).Static.Name() == "writeByte" {
		k, ok := constInt(first.Call.Args[len(first.Call.Args)-1])
		okFirst = ok && k == enq && !h.Dominates(first.Block())
	}
	r.Check(okFirst, rule, "sendBlockOnce requests the line with ENQ before anything else", once.Pos(), "writeByte(ENQ) first", "the attempt must start by sending ENQ")
	// no ENQ inside the loop
	iters, ok := enumIterPaths(once, h, 2000)
	if !ok {
		r.Undecided(rule, "sendBlockOnce wait-loop paths", once.Pos(), "too many")
		return
	}
	// the byte read in the iteration
	n := 0
	classes := map[string]bool{}
	for _, p := range iters {
		eff := effects(p)
		var read ssa.Value
		for _, in := range p.Instrs() {
			if c, ok := in.(*ssa.Call); ok {
				if g := calleeOf(c).Static; g != nil && g.Name() == "readByte" {
					read = c
				}
			}
		}
		// decisions on the byte and on the role
		isEOT, isENQ, slave := 0, 0, 0 // 0 unknown, 1 yes, -1 no
		readFailed := 0
		for _, f := range p.Conds {
			b, ok := f.Cond.(*ssa.BinOp)
			if ok && (b.Op == token.EQL || b.Op == token.NEQ) {
				val := f.Val
				if b.Op == token.NEQ {
					val = !val
				}
				if k, isK := constInt(b.Y); isK && read != nil && strings.Contains(render(b.X), "readByte") {
					s := 1
					if !val {
						s = -1
					}
					switch k {
					case eot:
						isEOT = s
					case enq:
						isENQ = s
					}
				}
				if isNilConst(b.Y) && read != nil && strings.Contains(render(b.X), "readByte") {
					// err != nil / err == nil
					if b.Op == token.NEQ && f.Val || b.Op == token.EQL && !f.Val {
						readFailed = 1
					} else {
						readFailed = -1
					}
				}
			}
			s := render(f.Cond)
			if strings.HasSuffix(s, ".isEquip") {
				if f.Val {
					slave = -1
				} else {
					slave = 1
				}
			}
		}
		n++
		k, isK, rs := resultOf(p)
		construct := fmt.Sprintf("sendBlockOnce wait iteration [%s | %s]", shortCond(p), eff)
		switch {
		case read == nil:
			// cancelled or T2 expired before reading
			classes["no-read"] = true
			if p.Exit == nil {
				r.Fail(rule, construct, once.Pos(), "the wait loop continues without reading the line: it would spin")
				continue
			}
			good := isK && (k == sAbort || k == sRetry) && !strings.Contains(eff, "write")
			r.Check(good, rule, construct+": leaving without a byte is abort (cancelled) or retry (T2)", p.Exit.Pos(), rs, "leaving the wait without having read anything must be sendAbort (cancellation) or sendRetry (T2 expired), got "+rs)
		case readFailed == 1:
			classes["read-error"] = true
			good := p.Exit != nil && isK && k == sRetry && eff == "readByte"
			r.Check(good, rule, construct+": a read error/T2 expiry is a retryable failure", once.Pos(), "sendRetry", "got "+rs+" with effects "+eff)
		case isEOT == 1:
			classes["eot"] = true
			good := p.Exit != nil && eff == "readByte;sendBlockData" && strings.Contains(rs, "sendBlockData")
			r.Check(good, rule, construct+": EOT grants the line — the block is sent and its outcome returned", once.Pos(), "return sendBlockData(blk)", "after EOT the attempt must transmit the block and return that outcome; effects "+eff+", result "+rs)
		case isENQ == 1 && slave == 1:
			classes["enq-slave"] = true
			good := p.Exit != nil && isK && k == sCont && eff == "readByte"
			r.Check(good, rule, construct+": ENQ seen by a slave is contention, detected without touching the line", once.Pos(), "sendContention", "a slave that sees ENQ must report contention and write nothing (the yield is sendBlock's); got "+rs+" with effects "+eff)
		case isENQ == 1 && slave == -1:
			classes["enq-master"] = true
			good := p.Exit == nil && eff == "readByte"
			r.Check(good, rule, construct+": a master ignores a contending ENQ and keeps waiting", once.Pos(), "continue", "the master must never yield: it ignores ENQ and keeps waiting for EOT; got "+rs+" with effects "+eff)
		case isENQ == 1:
			r.Fail(rule, construct, once.Pos(), "ENQ is handled without deciding whether this end is master or slave")
		default:
			classes["other"] = true
			good := p.Exit == nil && eff == "readByte"
			r.Check(good, rule, construct+": any other byte is ignored within the T2 budget", once.Pos(), "continue", "noise must be ignored (keep waiting), got "+rs+" with effects "+eff)
		}
	}
	for _, cl := range []string{"no-read", "read-error", "eot", "enq-slave", "enq-master", "other"} {
		r.Check(classes[cl], rule, "sendBlockOnce handles class "+cl, once.Pos(), "present", "no path of the wait loop handles this class")
	}
	r.Floor(rule, "sendBlockOnce wait-loop iteration paths", n, 6)

	// --- sendBlockData ---
	dps, ok := enumPaths(data, 100)
	if !ok {
		r.Undecided(rule, "sendBlockData paths", data.Pos(), "too many")
		return
	}
	for _, p := range dps {
		if _, isRet := p.Exit.(*ssa.Return); !isRet {
			continue
		}
		eff := effects(p)
		k, isK, rs := resultOf(p)
		ackSeen := 0
		for _, f := range p.Conds {
			if b, ok := f.Cond.(*ssa.BinOp); ok && (b.Op == token.EQL || b.Op == token.NEQ) {
				if kk, isKK := constInt(b.Y); isKK && kk == ack && strings.Contains(render(b.X), "readByte") {
					val := f.Val
					if b.Op == token.NEQ {
						val = !val
					}
					if val {
						ackSeen = 1
					} else {
						ackSeen = -1
					}
				}
			}
		}
		construct := fmt.Sprintf("sendBlockData [%s | %s]", shortCond(p), eff)
		switch eff {
		case "writeAll":
			r.Check(isK && k == sAbort, rule, construct+": a write error aborts", p.Exit.Pos(), "sendAbort", "got "+rs)
		case "writeAll;readByte":
			switch ackSeen {
			case 1:
				r.Check(isK && k == sOK, rule, construct+": ACK ⇒ OK", p.Exit.Pos(), "sendOK", "got "+rs)
			default:
				r.Check(isK && k == sRetry, rule, construct+": anything but ACK (NAK, noise, silence) is a retryable failure", p.Exit.Pos(), "sendRetry", "only ACK may report the block as sent; got "+rs)
			}
		default:
			r.Fail(rule, construct, p.Exit.Pos(), "the block must be written exactly once and answered by exactly one read")
		}
	}

	// --- sendBlock: who grants the line during a yield ---
	nEOT := 0
	eachInstr(sb, func(in ssa.Instruction) {
		c, ok := in.(*ssa.Call)
		if !ok {
			return
		}
		g := calleeOf(c).Static
		if g == nil || g.Name() != "writeByte" {
			return
		}
		k, _ := constInt(c.Call.Args[len(c.Call.Args)-1])
		if k != eot {
			r.Fail(rule, fmt.Sprintf("sendBlock writes %#x", k), c.Pos(), "the only line-control character sendBlock itself may write is the EOT of a contention yield")
			return
		}
		nEOT++
		// it must be under result == sendContention and precede receiveBlock
		under := false
		for f := range factsIn(sb)[c.Block()] {
			if b, ok := f.Cond.(*ssa.BinOp); ok && b.Op == token.EQL && f.Val {
				if kk, isK := constInt(b.Y); isK && kk == sCont && strings.Contains(render(b.X), "sendBlockOnce") {
					under = true
				}
			}
		}
		r.Check(under, rule, "sendBlock grants the line (EOT) only after a detected contention", c.Pos(), "result == sendContention", "EOT is written outside the contention arm")
		followed := false
		for _, rc := range callsIn(sb, func(cl Callee) bool { return cl.Static != nil && cl.Static.Name() == "receiveBlock" }) {
			if instrDominates(c, rc.(ssa.Instruction)) {
				followed = true
			}
		}
		r.Check(followed, rule, "the yield's EOT precedes taking the master's block", c.Pos(), "writeByte(EOT) ≺ receiveBlock", "the block must be received after the line was granted")
	})
	r.Check(nEOT == 1, rule, "sendBlock has exactly one yield", sb.Pos(), "1", fmt.Sprintf("%d EOT writes", nEOT))
}
