package main

import (
	"go/types"

	"golang.org/x/tools/go/ssa"
)

func init() {
	register(&PropSpec{
		ID: "C02",
		Rules: []Rule{
			{Name: "C02-R1-bounds", Doc: "every index, slice, binary.BigEndian read, non-constant divisor and allocation size reachable from Decode/DecodeOwned/DecodeOwnedFrame is proven in range from the dominating guards plus contracts inferred inductively (Houdini) — so no input can make the decoder panic on a bounds check, and every allocation is bounded by the input length (slab chunks by a constant)", Run: c02Bounds},
		},
		NotDec:  []string{"that accepted bytes decode to the values the E5 grammar assigns", "total allocation over a whole decode (only each allocation's size is bounded by the input length)", "re-encode equality of the result"},
		Trusted: []string{"integer arithmetic on offsets/lengths does not overflow (buffers < 2^31 bytes)", "nil-dereference and interface-method panics are outside this rule"},
	})
}

func secs2DecodeFragment(w *World) []*ssa.Function {
	entries := []*ssa.Function{w.Fn("secs2", "Decode"), w.Fn("secs2", "DecodeOwned"), w.Fn("secs2", "DecodeOwnedFrame")}
	return fragmentFrom(w, entries, func(p string) bool { return p == "secs2" || p == "internal/framecodec" })
}

func byteSliceParam(fn *ssa.Function) *ssa.Parameter {
	for _, p := range fn.Params {
		if s, ok := p.Type().Underlying().(*types.Slice); ok {
			if b, ok := s.Elem().Underlying().(*types.Basic); ok && b.Kind() == types.Uint8 {
				return p
			}
		}
	}
	return nil
}

func c02Bounds(r *Run) {
	const rule = "C02-R1-bounds"
	w := r.W
	frag := secs2DecodeFragment(w)
	e := newBndEngine(w, "secs2-decode", frag, []*types.Named{w.Named("secs2", "itemSlab")})
	e.allocBound = func(c *fnCtx, at ssa.Instruction) (Lin, string, bool) {
		if p := byteSliceParam(c.fn); p != nil {
			return c.linLen(p), "len(" + p.Name() + ")", true
		}
		return linConst(128), "128 (slab chunk cap)", true
	}
	e.checkWrap = true // the wrap obligations are reported by the R7 rule
	res := bndReport(r, rule, e, 40)
	trackedWritersOK(r, rule, e, res)
}
