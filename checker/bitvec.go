package main

// LAY — bit-provenance evaluation along one SSA path: every integer value is a vector of
// bit sources (constant 0/1, bit k of an input atom, or unknown). Used to extract the byte
// layout headers are built with and accessors read, independent of how the code spells
// the shifts and masks.

import (
	"fmt"
	"go/constant"
	"go/token"
	"go/types"
	"strings"

	"golang.org/x/tools/go/ssa"
)

type bsrc struct {
	k   int8 // 0 const 0, 1 const 1, 2 atom bit, 3 unknown
	a   string
	i   int
	neg bool
}

func (b bsrc) String() string {
	switch b.k {
	case 0:
		return "0"
	case 1:
		return "1"
	case 2:
		s := fmt.Sprintf("%s.%d", b.a, b.i)
		if b.neg {
			return "!" + s
		}
		return s
	}
	return "?"
}

type bv []bsrc // index 0 = least significant bit

func (v bv) String() string {
	var parts []string
	for i := len(v) - 1; i >= 0; i-- {
		parts = append(parts, v[i].String())
	}
	return "[" + strings.Join(parts, " ") + "]"
}

func constBV(x uint64, w int) bv {
	out := make(bv, w)
	for i := 0; i < w; i++ {
		if x>>uint(i)&1 == 1 {
			out[i] = bsrc{k: 1}
		}
	}
	return out
}

func atomBV(name string, w int) bv {
	out := make(bv, w)
	for i := range out {
		out[i] = bsrc{k: 2, a: name, i: i}
	}
	return out
}

func unknownBV(w int) bv {
	out := make(bv, w)
	for i := range out {
		out[i] = bsrc{k: 3}
	}
	return out
}

func (v bv) resize(w int) bv {
	out := make(bv, w)
	copy(out, v)
	return out
}

func typeBits(t types.Type) int {
	b, ok := t.Underlying().(*types.Basic)
	if !ok {
		return 0
	}
	switch b.Kind() {
	case types.Bool:
		return 1
	case types.Int8, types.Uint8:
		return 8
	case types.Int16, types.Uint16:
		return 16
	case types.Int32, types.Uint32:
		return 32
	case types.Int64, types.Uint64, types.Int, types.Uint, types.Uintptr:
		return 64
	}
	return 0
}

// bitEval interprets one path.
type bitEval struct {
	p    *Path
	vals map[ssa.Value]bv
	mem  map[memKey][]bv // local byte arrays (or byte-array fields of local structs): content per element
	// slices made fresh on the path (make([]byte, n) with constant n) are modelled like arrays
	bad  []string
	busy map[ssa.Value]bool
}

// memKey names a tracked byte array: a local array / fresh slice (field = -1) or the
// byte-array field `field` of a local struct.
type memKey struct {
	base  ssa.Value
	field int
}

func newBitEval(p *Path) *bitEval {
	return &bitEval{p: p, vals: map[ssa.Value]bv{}, mem: map[memKey][]bv{}}
}

func byteArrayLen(t types.Type) (int64, bool) {
	arr, ok := t.Underlying().(*types.Array)
	if !ok {
		return 0, false
	}
	if b, ok := arr.Elem().Underlying().(*types.Basic); ok && b.Kind() == types.Uint8 {
		return arr.Len(), true
	}
	return 0, false
}

func (e *bitEval) zeroMem(k memKey, n int64) {
	m := make([]bv, n)
	for i := range m {
		m[i] = constBV(0, 8)
	}
	e.mem[k] = m
}

// memBase resolves an address/slice expression to (tracked array, offset).
func (e *bitEval) memBase(v ssa.Value) (memKey, int, bool) {
	switch x := v.(type) {
	case *ssa.Alloc:
		k := memKey{x, -1}
		if _, ok := e.mem[k]; ok {
			return k, 0, true
		}
		if n, ok := byteArrayLen(derefType(x.Type())); ok {
			e.zeroMem(k, n)
			return k, 0, true
		}
	case *ssa.FieldAddr:
		if a, ok := x.X.(*ssa.Alloc); ok {
			k := memKey{a, x.Field}
			if _, ok := e.mem[k]; ok {
				return k, 0, true
			}
			if n, ok := byteArrayLen(derefType(x.Type())); ok {
				e.zeroMem(k, n)
				return k, 0, true
			}
		}
	case *ssa.MakeSlice:
		k := memKey{x, -1}
		if _, ok := e.mem[k]; ok {
			return k, 0, true
		}
		if n, ok := constInt(x.Len); ok && n <= 64 {
			e.zeroMem(k, n)
			return k, 0, true
		}
	case *ssa.Slice:
		base, off, ok := e.memBase(x.X)
		if !ok {
			return memKey{}, 0, false
		}
		lo := 0
		if x.Low != nil {
			k, isK := constInt(x.Low)
			if !isK {
				return memKey{}, 0, false
			}
			lo = int(k)
		}
		return base, off + lo, true
	}
	return memKey{}, 0, false
}

// atomName gives a stable name to an input location (parameter, field element, …).
func (e *bitEval) atomName(v ssa.Value) string { return renderWith(v, e.p.Resolve) }

func (e *bitEval) eval(v ssa.Value) bv {
	v = e.p.Resolve(v)
	if r, ok := e.vals[v]; ok {
		return r
	}
	w := typeBits(v.Type())
	if w == 0 {
		return nil
	}
	if e.busy == nil {
		e.busy = map[ssa.Value]bool{}
	}
	if e.busy[v] {
		// a loop-carried value: opaque
		return atomBV(e.atomName(v), w)
	}
	e.busy[v] = true
	defer delete(e.busy, v)
	var out bv
	switch x := v.(type) {
	case *ssa.Const:
		if x.Value == nil {
			out = constBV(0, w)
		} else if x.Value.Kind() == constant.Bool {
			if constant.BoolVal(x.Value) {
				out = constBV(1, 1)
			} else {
				out = constBV(0, 1)
			}
		} else if u, ok := constant.Uint64Val(constant.ToInt(x.Value)); ok {
			out = constBV(u, w)
		} else if i, ok := constant.Int64Val(constant.ToInt(x.Value)); ok {
			out = constBV(uint64(i), w)
		}
	case *ssa.Parameter:
		out = atomBV("$"+x.Name(), w)
	case *ssa.Convert:
		src := e.eval(x.X)
		if src != nil && isIntType(x.X.Type()) {
			if len(src) >= w || isUnsigned(x.X.Type()) {
				out = src.resize(w)
			}
		}
	case *ssa.ChangeType:
		out = e.eval(x.X)
	case *ssa.BinOp:
		a, b := e.eval(x.X), e.eval(x.Y)
		if a != nil && b != nil {
			out = e.binop(x.Op, a, b, w, isUnsigned(x.X.Type()))
		}
	case *ssa.UnOp:
		if x.Op == token.MUL {
			if ia, ok := x.X.(*ssa.IndexAddr); ok {
				if k, isK := constInt(ia.Index); isK {
					if base, off, ok := e.memBase(ia.X); ok && int(k)+off < len(e.mem[base]) {
						out = e.mem[base][int(k)+off]
					}
				}
			}
		}
		if x.Op == token.NOT {
			if a := e.eval(x.X); len(a) == 1 && a[0].k <= 2 {
				b := a[0]
				switch b.k {
				case 0:
					b.k = 1
				case 1:
					b.k = 0
				default:
					b.neg = !b.neg
				}
				out = bv{b}
			}
		}
	case *ssa.Call:
		out = e.evalBE(x)
	}
	if out == nil {
		// an opaque input: name it by its rendered expression so that the same location is the same atom
		out = atomBV(e.atomName(v), w)
	}
	e.vals[v] = out
	return out
}

func (e *bitEval) binop(op token.Token, a, b bv, w int, uns bool) bv {
	constOf := func(v bv) (uint64, bool) {
		var x uint64
		for i, s := range v {
			switch s.k {
			case 1:
				x |= 1 << uint(i)
			case 0:
			default:
				return 0, false
			}
		}
		return x, true
	}
	out := make(bv, w)
	a, b = a.resize(max(w, len(a))), b.resize(max(w, len(b)))
	if op == token.ADD || op == token.SUB {
		ca, oka := constOf(a)
		cb, okb := constOf(b)
		if oka && okb {
			if op == token.ADD {
				return constBV(ca+cb, w)
			}
			return constBV(ca-cb, w)
		}
		if op == token.ADD {
			// no position where both operands can be non-zero: no carries, the sum is the union
			disjoint := true
			for i := 0; i < w; i++ {
				if a[i].k != 0 && b[i].k != 0 {
					disjoint = false
				}
			}
			if disjoint {
				for i := 0; i < w; i++ {
					if a[i].k != 0 {
						out[i] = a[i]
					} else {
						out[i] = b[i]
					}
				}
				return out
			}
		}
		return nil
	}
	switch op {
	case token.AND, token.OR, token.XOR, token.AND_NOT:
		for i := 0; i < w; i++ {
			x, y := a[i], b[i]
			if op == token.AND_NOT {
				switch y.k {
				case 0:
					y.k = 1
				case 1:
					y.k = 0
				default:
					y = bsrc{k: 3}
				}
			}
			switch op {
			case token.AND, token.AND_NOT:
				switch {
				case x.k == 0 || y.k == 0:
					out[i] = bsrc{}
				case x.k == 1:
					out[i] = y
				case y.k == 1:
					out[i] = x
				case x == y:
					out[i] = x
				default:
					out[i] = bsrc{k: 3}
				}
			case token.OR:
				switch {
				case x.k == 1 || y.k == 1:
					out[i] = bsrc{k: 1}
				case x.k == 0:
					out[i] = y
				case y.k == 0:
					out[i] = x
				case x == y:
					out[i] = x
				default:
					out[i] = bsrc{k: 3}
				}
			case token.XOR:
				switch {
				case x.k == 0:
					out[i] = y
				case y.k == 0:
					out[i] = x
				default:
					out[i] = bsrc{k: 3}
				}
			}
		}
		return out
	case token.SHL, token.SHR:
		k, ok := constOf(b)
		if !ok || k > 64 {
			return unknownBV(w)
		}
		for i := 0; i < w; i++ {
			var src int
			if op == token.SHL {
				src = i - int(k)
			} else {
				src = i + int(k)
			}
			if src >= 0 && src < len(a) {
				if op == token.SHR && !uns && src >= len(a) {
					out[i] = bsrc{k: 3}
				} else {
					out[i] = a[src]
				}
			} else if op == token.SHR && !uns {
				out[i] = bsrc{k: 3}
			}
		}
		return out
	case token.EQL, token.NEQ:
		// comparison with a constant when at most one bit of the other side is symbolic
		for _, pr := range [][2]bv{{a, b}, {b, a}} {
			c, ok := constOf(pr[1])
			if !ok {
				continue
			}
			var sym []int
			mismatch := false
			for i, s := range pr[0] {
				cb := c >> uint(i) & 1
				switch s.k {
				case 0, 1:
					if uint64(s.k) != cb {
						mismatch = true
					}
				case 2:
					sym = append(sym, i)
				default:
					return unknownBV(1)
				}
			}
			if mismatch {
				if op == token.EQL {
					return constBV(0, 1)
				}
				return constBV(1, 1)
			}
			if len(sym) == 0 {
				if op == token.EQL {
					return constBV(1, 1)
				}
				return constBV(0, 1)
			}
			if len(sym) == 1 {
				s := pr[0][sym[0]]
				want := c>>uint(sym[0])&1 == 1
				// (bit == want) for EQL, (bit != want) for NEQ
				if (op == token.EQL) != want {
					s.neg = !s.neg
				}
				return bv{s}
			}
		}
		return unknownBV(1)
	}
	return nil
}

// run interprets the path's stores and calls that write tracked byte arrays.
func (e *bitEval) run() {
	for _, in := range e.p.Instrs() {
		switch x := in.(type) {
		case *ssa.Store:
			if ia, ok := x.Addr.(*ssa.IndexAddr); ok {
				base, off, ok := e.memBase(ia.X)
				if !ok {
					continue
				}
				k, isK := constInt(ia.Index)
				if !isK || int(k)+off >= len(e.mem[base]) {
					e.bad = append(e.bad, "store at a non-constant index into "+render(ia.X))
					continue
				}
				val := e.eval(x.Val)
				if len(val) != 8 {
					e.bad = append(e.bad, "non-byte store")
					continue
				}
				e.mem[base][int(k)+off] = val
			} else if base, off, ok := e.memBase(x.Addr); ok && off == 0 {
				// whole-array store: header = other (array value)
				src := e.atomName(x.Val)
				if ld, ok := e.p.Resolve(x.Val).(*ssa.UnOp); ok && ld.Op == token.MUL {
					if sb, so, ok := e.memBase(ld.X); ok && so == 0 {
						for i := range e.mem[base] {
							e.mem[base][i] = e.mem[sb][i]
						}
						continue
					}
					src = e.atomName(ld.X)
				}
				for i := range e.mem[base] {
					e.mem[base][i] = atomBV(fmt.Sprintf("%s[%d]", src, i), 8)
				}
			} else if a, ok := x.Addr.(*ssa.Alloc); ok {
				// whole-struct store (n := *msg): every byte-array field takes the source's bytes
				if st, ok := derefType(a.Type()).Underlying().(*types.Struct); ok {
					srcName := e.atomName(x.Val)
					if ld, ok := e.p.Resolve(x.Val).(*ssa.UnOp); ok && ld.Op == token.MUL {
						srcName = e.atomName(ld.X)
					}
					for fi := 0; fi < st.NumFields(); fi++ {
						if n, ok := byteArrayLen(st.Field(fi).Type()); ok {
							k := memKey{a, fi}
							e.zeroMem(k, n)
							for i := range e.mem[k] {
								e.mem[k][i] = atomBV(fmt.Sprintf("%s.%s[%d]", srcName, st.Field(fi).Name(), i), 8)
							}
						}
					}
				}
			}
		case *ssa.Call:
			cal := calleeOf(x)
			args := x.Call.Args
			if cal.Builtin == "copy" && len(args) == 2 {
				base, off, ok := e.memBase(args[0])
				if !ok {
					continue
				}
				n := len(e.mem[base]) - off
				if sl, ok := args[0].(*ssa.Slice); ok && sl.High != nil {
					if k, isK := constInt(sl.High); isK {
						lo := 0
						if sl.Low != nil {
							l, _ := constInt(sl.Low)
							lo = int(l)
						}
						n = int(k) - lo
					}
				}
				// source: tracked memory or an opaque byte sequence
				if sb, so, ok := e.memBase(args[1]); ok {
					m := len(e.mem[sb]) - so
					for i := 0; i < n && i < m; i++ {
						e.mem[base][off+i] = e.mem[sb][so+i]
					}
					continue
				}
				srcName := ""
				slo, shi := 0, -1
				src := args[1]
				if sl, ok := src.(*ssa.Slice); ok {
					if sl.Low != nil {
						l, isK := constInt(sl.Low)
						if !isK {
							e.bad = append(e.bad, "copy from a non-constant offset")
							continue
						}
						slo = int(l)
					}
					if sl.High != nil {
						h, isK := constInt(sl.High)
						if isK {
							shi = int(h)
						}
					}
					src = sl.X
				}
				srcName = e.atomName(src)
				if an, ok := arrayLenOf(src.Type()); ok && shi < 0 {
					shi = int(an)
				}
				for i := 0; i < n; i++ {
					if shi >= 0 && slo+i >= shi {
						break
					}
					e.mem[base][off+i] = atomBV(fmt.Sprintf("%s[%d]", srcName, slo+i), 8)
				}
				continue
			}
			if cal.Static != nil && fnPkgPath(cal.Static) == "encoding/binary" && len(args) == 3 && strings.HasPrefix(cal.Static.Name(), "PutUint") {
				width := map[string]int{"PutUint16": 2, "PutUint32": 4, "PutUint64": 8}[cal.Static.Name()]
				base, off, ok := e.memBase(args[1])
				if !ok || width == 0 {
					continue
				}
				val := e.eval(args[2])
				little := strings.Contains(typeShort(cal.Static.Signature.Recv().Type()), "little")
				for i := 0; i < width && off+i < len(e.mem[base]); i++ {
					bi := width - 1 - i // big endian: byte i holds bits of significance width-1-i
					if little {
						bi = i
					}
					b := make(bv, 8)
					for k := 0; k < 8; k++ {
						if bi*8+k < len(val) {
							b[k] = val[bi*8+k]
						}
					}
					e.mem[base][off+i] = b
				}
			}
		}
	}
}

// evalUintN evaluates binary.BigEndian.UintNN(slice) as a bit vector over the slice's bytes.
func (e *bitEval) evalBE(call *ssa.Call) bv {
	cal := calleeOf(call)
	if cal.Static == nil || fnPkgPath(cal.Static) != "encoding/binary" {
		return nil
	}
	width := map[string]int{"Uint16": 2, "Uint32": 4, "Uint64": 8}[cal.Static.Name()]
	if width == 0 {
		return nil
	}
	little := strings.Contains(typeShort(cal.Static.Signature.Recv().Type()), "little")
	arg := call.Call.Args[1]
	out := make(bv, width*8)
	byteAt := func(i int) bv {
		if base, off, ok := e.memBase(arg); ok && off+i < len(e.mem[base]) {
			return e.mem[base][off+i]
		}
		lo := 0
		src := arg
		if sl, ok := arg.(*ssa.Slice); ok {
			if sl.Low != nil {
				l, _ := constInt(sl.Low)
				lo = int(l)
			}
			src = sl.X
		}
		return atomBV(fmt.Sprintf("%s[%d]", e.atomName(src), lo+i), 8)
	}
	for i := 0; i < width; i++ {
		bi := width - 1 - i
		if little {
			bi = i
		}
		b := byteAt(i)
		for k := 0; k < 8; k++ {
			out[bi*8+k] = b[k]
		}
	}
	return out
}
