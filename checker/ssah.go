package main

import (
	"fmt"
	"go/constant"
	"go/token"
	"go/types"
	"sort"
	"strings"

	"golang.org/x/tools/go/ssa"
)

// ---------- callee resolution ----------

// Callee describes the resolved target of a call instruction.
type Callee struct {
	Static  *ssa.Function // statically known target (incl. closures and bound methods)
	Method  *types.Func   // interface method for invoke-mode calls
	Builtin string        // name of builtin
	Dynamic bool          // call through a function value that could not be resolved
}

func calleeOf(c ssa.CallInstruction) Callee {
	cc := c.Common()
	if cc.IsInvoke() {
		return Callee{Method: cc.Method}
	}
	if f := cc.StaticCallee(); f != nil {
		return Callee{Static: f}
	}
	if b, ok := cc.Value.(*ssa.Builtin); ok {
		return Callee{Builtin: b.Name()}
	}
	return Callee{Dynamic: true}
}

// calleeName renders a callee as "pkgpath.Func", "(pkgpath.T).M" form using types.Func
// full names; used only for effect tables over external packages and for messages.
func calleeName(c Callee) string {
	switch {
	case c.Static != nil:
		if c.Static.Object() != nil {
			return c.Static.Object().(*types.Func).FullName()
		}
		return c.Static.String()
	case c.Method != nil:
		return c.Method.FullName()
	case c.Builtin != "":
		return "builtin." + c.Builtin
	}
	return "<dynamic>"
}

// baseName is the method/function name without generic instantiation suffix.
func baseName(f *ssa.Function) string {
	if f == nil {
		return ""
	}
	if o := f.Object(); o != nil {
		return o.Name()
	}
	n := f.Name()
	if i := strings.IndexByte(n, '['); i >= 0 {
		n = n[:i]
	}
	return n
}

// origin returns the generic origin of fn (or fn itself).
func originFn(f *ssa.Function) *ssa.Function {
	if f == nil {
		return nil
	}
	if o := f.Origin(); o != nil {
		return o
	}
	return f
}

// sameFn compares functions modulo generic instantiation.
func sameFn(a, b *ssa.Function) bool {
	return a != nil && b != nil && originFn(a) == originFn(b)
}

// unwrapBound resolves "bound method" and thunk wrappers to the wrapped method.
func unwrapBound(f *ssa.Function) *ssa.Function {
	if f == nil {
		return nil
	}
	if f.Synthetic != "" && f.Object() != nil {
		// bound method closure / thunk: its Object is the wrapped method
		if fn, ok := f.Object().(*types.Func); ok {
			if g := f.Prog.FuncValue(fn); g != nil {
				return g
			}
		}
	}
	return f
}

// Site is one instruction in one function.
type Site struct {
	Fn    *ssa.Function
	Instr ssa.Instruction
}

func (s Site) Pos() token.Pos {
	if s.Instr == nil {
		return token.NoPos
	}
	if p := s.Instr.Pos(); p.IsValid() {
		return p
	}
	// fall back to the closest positioned instruction in the block
	b := s.Instr.Block()
	for _, in := range b.Instrs {
		if in.Pos().IsValid() {
			return in.Pos()
		}
	}
	return s.Fn.Pos()
}

// eachInstr visits every instruction of fn.
func eachInstr(fn *ssa.Function, f func(ssa.Instruction)) {
	for _, b := range fn.Blocks {
		for _, in := range b.Instrs {
			f(in)
		}
	}
}

// callsIn returns the call/go/defer instructions in fn whose resolved callee satisfies pred.
func callsIn(fn *ssa.Function, pred func(Callee) bool) []ssa.CallInstruction {
	var out []ssa.CallInstruction
	eachInstr(fn, func(in ssa.Instruction) {
		if c, ok := in.(ssa.CallInstruction); ok {
			if pred(calleeOf(c)) {
				out = append(out, c)
			}
		}
	})
	return out
}

func isFn(target *ssa.Function) func(Callee) bool {
	return func(c Callee) bool {
		return c.Static != nil && (sameFn(c.Static, target) || sameFn(unwrapBound(c.Static), target))
	}
}

func isMethodNamed(recvPkgPath, recvType, name string) func(Callee) bool {
	return func(c Callee) bool {
		var fn *types.Func
		if c.Static != nil && c.Static.Object() != nil {
			fn, _ = c.Static.Object().(*types.Func)
		} else if c.Method != nil {
			fn = c.Method
		}
		if fn == nil || fn.Name() != name {
			return false
		}
		sig := fn.Type().(*types.Signature)
		if sig.Recv() == nil {
			return false
		}
		return typeIs(sig.Recv().Type(), recvPkgPath, recvType)
	}
}

// typeIs reports whether t (or *t) is the named type pkgpath.name (generic origin compared).
func typeIs(t types.Type, pkgPath, name string) bool {
	if p, ok := t.(*types.Pointer); ok {
		t = p.Elem()
	}
	n, ok := t.(*types.Named)
	if !ok {
		return false
	}
	o := n.Origin().Obj()
	return o.Name() == name && o.Pkg() != nil && o.Pkg().Path() == pkgPath
}

// Use is a reference to a function anywhere in the module: a direct call, a go/defer, or a
// value use (method value, closure argument).
type Use struct {
	Site
	Kind string // "call", "go", "defer", "value"
}

// usesOf finds every use of target in module functions.
func (w *World) usesOf(target *ssa.Function) []Use {
	var out []Use
	for _, fn := range w.srcFns {
		eachInstr(fn, func(in ssa.Instruction) {
			if c, ok := in.(ssa.CallInstruction); ok {
				cal := calleeOf(c)
				if cal.Static != nil && (sameFn(cal.Static, target) || sameFn(unwrapBound(cal.Static), target)) {
					k := "call"
					switch in.(type) {
					case *ssa.Go:
						k = "go"
					case *ssa.Defer:
						k = "defer"
					}
					out = append(out, Use{Site{fn, in}, k})
					return
				}
			}
			// value uses: operands that are the function or a closure/bound wrapper of it
			for _, op := range in.Operands(nil) {
				if *op == nil {
					continue
				}
				var f *ssa.Function
				switch v := (*op).(type) {
				case *ssa.Function:
					f = v
				case *ssa.MakeClosure:
					continue // the MakeClosure instruction itself is visited as an instruction
				}
				if mc, ok := in.(*ssa.MakeClosure); ok && op == &mc.Fn {
					f, _ = mc.Fn.(*ssa.Function)
				}
				if f == nil {
					continue
				}
				if sameFn(f, target) || sameFn(unwrapBound(f), target) {
					if c, ok := in.(ssa.CallInstruction); ok && c.Common().Value == *op {
						continue // already handled as call
					}
					out = append(out, Use{Site{fn, in}, "value"})
				}
			}
		})
	}
	return out
}

// ifaceCallSites finds invoke-mode calls of the interface method named name declared on
// interface pkgpath.iface, in module functions.
func (w *World) invokeSites(pred func(*types.Func) bool) []Site {
	var out []Site
	for _, fn := range w.srcFns {
		eachInstr(fn, func(in ssa.Instruction) {
			if c, ok := in.(ssa.CallInstruction); ok && c.Common().IsInvoke() {
				if pred(c.Common().Method) {
					out = append(out, Site{fn, in})
				}
			}
			// interface method values (x.M used as a func value): a bound-method closure
			if mc, ok := in.(*ssa.MakeClosure); ok {
				if f, ok := mc.Fn.(*ssa.Function); ok && f.Synthetic != "" && f.Object() != nil {
					if m, ok := f.Object().(*types.Func); ok {
						if sig, ok := m.Type().(*types.Signature); ok && sig.Recv() != nil && types.IsInterface(sig.Recv().Type()) && pred(m) {
							out = append(out, Site{fn, in})
						}
					}
				}
			}
		})
	}
	return out
}

// ---------- fields ----------

func derefType(t types.Type) types.Type {
	if p, ok := t.Underlying().(*types.Pointer); ok {
		return p.Elem()
	}
	return t
}

// fieldOf returns the struct field selected by a FieldAddr/Field instruction.
func fieldOf(v ssa.Value) *types.Var {
	switch x := v.(type) {
	case *ssa.FieldAddr:
		st, ok := derefType(x.X.Type()).Underlying().(*types.Struct)
		if !ok {
			return nil
		}
		return st.Field(x.Field)
	case *ssa.Field:
		st, ok := x.X.Type().Underlying().(*types.Struct)
		if !ok {
			return nil
		}
		return st.Field(x.Field)
	}
	return nil
}

func sameVar(a, b *types.Var) bool {
	return a != nil && b != nil && a.Origin() == b.Origin()
}

// isFieldRef reports whether v is an address of, or a load from, field f (through any base).
func isFieldRef(v ssa.Value, f *types.Var) bool {
	switch x := v.(type) {
	case *ssa.FieldAddr, *ssa.Field:
		return sameVar(fieldOf(x), f)
	case *ssa.UnOp:
		if x.Op == token.MUL {
			return isFieldRef(x.X, f)
		}
	}
	return false
}

// fieldSites returns all instructions that take the address of field f (FieldAddr) or read
// it by value (Field), per module function.
func (w *World) fieldSites(f *types.Var) []Site {
	var out []Site
	for _, fn := range w.srcFns {
		eachInstr(fn, func(in ssa.Instruction) {
			if v, ok := in.(ssa.Value); ok {
				if sameVar(fieldOf(v), f) {
					out = append(out, Site{fn, in})
				}
			}
		})
	}
	return out
}

// FieldUse classifies how one FieldAddr result is used.
type FieldUse struct {
	Site
	Kind   string // "load", "store", "method:<Name>", "addr-escape", "elemstore", ...
	Instr2 ssa.Instruction
}

// fieldUses enumerates uses of field f across the module, classified.
func (w *World) fieldUses(f *types.Var) []FieldUse {
	var out []FieldUse
	for _, s := range w.fieldSites(f) {
		v := s.Instr.(ssa.Value)
		if _, ok := v.(*ssa.Field); ok {
			out = append(out, FieldUse{s, "load", s.Instr})
			continue
		}
		refs := v.Referrers()
		if refs == nil {
			continue
		}
		// follow embedded sub-fields (padded atomics: m.f.Uint64.Add): uses of the embedded
		// field's address count as uses of the outer field
		type refOf struct {
			in    ssa.Instruction
			owner ssa.Value
		}
		var all []refOf
		for _, r := range *refs {
			all = append(all, refOf{r, v})
		}
		for i := 0; i < len(all); i++ {
			if sub, ok := all[i].in.(*ssa.FieldAddr); ok {
				if sf := fieldOf(sub); sf != nil && sf.Embedded() && sub.Referrers() != nil {
					for _, r := range *sub.Referrers() {
						all = append(all, refOf{r, sub})
					}
				}
			}
		}
		for _, ro := range all {
			r, v := ro.in, ro.owner
			if sub, ok := r.(*ssa.FieldAddr); ok {
				if sf := fieldOf(sub); sf != nil && sf.Embedded() {
					continue
				}
			}
			switch x := r.(type) {
			case *ssa.UnOp:
				if x.Op == token.MUL {
					out = append(out, FieldUse{s, "load", r})
					continue
				}
				out = append(out, FieldUse{s, "addr-escape", r})
			case *ssa.Store:
				if x.Addr == v {
					out = append(out, FieldUse{s, "store", r})
				} else {
					out = append(out, FieldUse{s, "addr-escape", r})
				}
			case ssa.CallInstruction:
				cal := calleeOf(x)
				cc := x.Common()
				name := ""
				if cal.Static != nil && len(cc.Args) > 0 && cc.Args[0] == v && cal.Static.Signature.Recv() != nil {
					name = baseName(cal.Static)
				}
				if name != "" {
					k := "method:" + name
					switch r.(type) {
					case *ssa.Defer:
						k = "defer-method:" + name
					case *ssa.Go:
						k = "go-method:" + name
					}
					out = append(out, FieldUse{s, k, r})
				} else {
					out = append(out, FieldUse{s, "addr-escape", r})
				}
			case *ssa.DebugRef:
			case *ssa.FieldAddr, *ssa.IndexAddr:
				out = append(out, FieldUse{s, "subaddr", r})
			default:
				out = append(out, FieldUse{s, "addr-escape", r})
			}
		}
	}
	return out
}

// ---------- dominance & reachability ----------

func blockIndexOf(in ssa.Instruction) int {
	for i, x := range in.Block().Instrs {
		if x == in {
			return i
		}
	}
	return -1
}

// instrDominates reports whether a executes before b on every path reaching b.
func instrDominates(a, b ssa.Instruction) bool {
	if a.Block() == b.Block() {
		return blockIndexOf(a) < blockIndexOf(b)
	}
	return a.Block().Dominates(b.Block())
}

// reachableAvoiding reports whether `to` is reachable from `from` (block level, exclusive of
// from's own instruction prefix) without passing through any block in avoid.
func blocksReachable(from *ssa.BasicBlock, avoid map[*ssa.BasicBlock]bool) map[*ssa.BasicBlock]bool {
	seen := map[*ssa.BasicBlock]bool{}
	var walk func(b *ssa.BasicBlock)
	walk = func(b *ssa.BasicBlock) {
		if seen[b] || avoid[b] {
			return
		}
		seen[b] = true
		for _, s := range b.Succs {
			walk(s)
		}
	}
	walk(from)
	return seen
}

// canReachWithout reports whether some path from the point just after `from` reaches `to`
// without executing any instruction in `barrier`. Instruction-precise within blocks.
func canReachWithout(from, to ssa.Instruction, barrier map[ssa.Instruction]bool) bool {
	// search over (block, startIndex)
	type node struct {
		b *ssa.BasicBlock
	}
	scan := func(b *ssa.BasicBlock, start int) (hitTo, blocked bool) {
		for i := start; i < len(b.Instrs); i++ {
			in := b.Instrs[i]
			if in == to {
				return true, false
			}
			if barrier[in] {
				return false, true
			}
		}
		return false, false
	}
	hit, blocked := scan(from.Block(), blockIndexOf(from)+1)
	if hit {
		return true
	}
	if blocked {
		return false
	}
	seen := map[*ssa.BasicBlock]bool{}
	stack := append([]*ssa.BasicBlock{}, from.Block().Succs...)
	for len(stack) > 0 {
		b := stack[len(stack)-1]
		stack = stack[:len(stack)-1]
		if seen[b] {
			continue
		}
		seen[b] = true
		hit, blocked := scan(b, 0)
		if hit {
			return true
		}
		if blocked {
			continue
		}
		stack = append(stack, b.Succs...)
	}
	return false
}

// entryReachesWithout: is `to` reachable from function entry without executing a barrier?
func entryReachesWithout(fn *ssa.Function, to ssa.Instruction, barrier map[ssa.Instruction]bool) bool {
	if len(fn.Blocks) == 0 {
		return false
	}
	seen := map[*ssa.BasicBlock]bool{}
	stack := []*ssa.BasicBlock{fn.Blocks[0]}
	for len(stack) > 0 {
		b := stack[len(stack)-1]
		stack = stack[:len(stack)-1]
		if seen[b] {
			continue
		}
		seen[b] = true
		blocked := false
		for _, in := range b.Instrs {
			if in == to {
				return true
			}
			if barrier[in] {
				blocked = true
				break
			}
		}
		if !blocked {
			stack = append(stack, b.Succs...)
		}
	}
	return false
}

// returnsOf lists the Return instructions of fn.
func returnsOf(fn *ssa.Function) []*ssa.Return {
	var out []*ssa.Return
	eachInstr(fn, func(in ssa.Instruction) {
		if r, ok := in.(*ssa.Return); ok {
			out = append(out, r)
		}
	})
	return out
}

// ---------- must-facts (path conditions that hold on every path to a block) ----------

type Fact struct {
	Cond ssa.Value
	Val  bool
}

type factSet map[Fact]bool

// normFact strips negations.
func normFact(v ssa.Value, val bool) Fact {
	for {
		if u, ok := v.(*ssa.UnOp); ok && u.Op == token.NOT {
			v = u.X
			val = !val
			continue
		}
		return Fact{v, val}
	}
}

// factsIn computes, for every block, the set of branch facts that hold on EVERY path from
// entry to the block's start (forward must-analysis, intersection at joins).
func factsIn(fn *ssa.Function) map[*ssa.BasicBlock]factSet {
	in := map[*ssa.BasicBlock]factSet{}
	if len(fn.Blocks) == 0 {
		return in
	}
	// nil = top (unvisited)
	edgeFacts := func(p, s *ssa.BasicBlock) factSet {
		out := factSet{}
		for f := range in[p] {
			out[f] = true
		}
		if iff, ok := p.Instrs[len(p.Instrs)-1].(*ssa.If); ok && p.Succs[0] != p.Succs[1] {
			if s == p.Succs[0] {
				out[normFact(iff.Cond, true)] = true
			} else {
				out[normFact(iff.Cond, false)] = true
			}
		}
		return out
	}
	in[fn.Blocks[0]] = factSet{}
	changed := true
	for changed {
		changed = false
		for _, b := range fn.Blocks[1:] {
			var acc factSet
			first := true
			for _, p := range b.Preds {
				if in[p] == nil {
					continue // top
				}
				ef := edgeFacts(p, b)
				if first {
					acc = ef
					first = false
				} else {
					for f := range acc {
						if !ef[f] {
							delete(acc, f)
						}
					}
				}
			}
			if first {
				continue
			}
			if in[b] == nil || len(in[b]) != len(acc) {
				in[b] = acc
				changed = true
			}
		}
	}
	return in
}

// ---------- rendering SSA values as canonical expressions ----------

type renderer struct {
	depth int
	seen  map[ssa.Value]bool
}

// render produces a canonical, position-free expression for v over parameters, constants,
// field loads, len, calls. It is used to compare conditions/terms semantically.
func render(v ssa.Value) string {
	r := &renderer{seen: map[ssa.Value]bool{}}
	return r.r(v)
}

func constString(c *ssa.Const) string {
	if c.Value == nil {
		return "nil"
	}
	switch c.Value.Kind() {
	case constant.Int:
		return c.Value.ExactString()
	case constant.String:
		return fmt.Sprintf("%q", constant.StringVal(c.Value))
	case constant.Bool:
		return c.Value.String()
	}
	return c.Value.ExactString()
}

func (r *renderer) r(v ssa.Value) string {
	if v == nil {
		return "<nil>"
	}
	r.depth++
	defer func() { r.depth-- }()
	if r.depth > 40 {
		return "…"
	}
	switch x := v.(type) {
	case *ssa.Const:
		return constString(x)
	case *ssa.Parameter:
		return "$" + x.Name()
	case *ssa.FreeVar:
		return "^" + x.Name()
	case *ssa.Global:
		return "@" + x.Name()
	case *ssa.Function:
		return "func:" + x.Name()
	case *ssa.Builtin:
		return x.Name()
	case *ssa.FieldAddr:
		f := fieldOf(x)
		return strings.TrimPrefix(r.r(x.X), "&") + "." + f.Name()
	case *ssa.Field:
		f := fieldOf(x)
		return r.r(x.X) + "." + f.Name()
	case *ssa.IndexAddr:
		return strings.TrimPrefix(r.r(x.X), "&") + "[" + r.r(x.Index) + "]"
	case *ssa.Index:
		return r.r(x.X) + "[" + r.r(x.Index) + "]"
	case *ssa.Lookup:
		return r.r(x.X) + "[" + r.r(x.Index) + "]"
	case *ssa.UnOp:
		switch x.Op {
		case token.MUL:
			// load: render the address expression (fields render as paths)
			if a, ok := x.X.(*ssa.Alloc); ok {
				return "*" + r.alloc(a)
			}
			return r.r(x.X)
		case token.NOT:
			return "!" + r.r(x.X)
		case token.ARROW:
			return "<-" + r.r(x.X)
		}
		return x.Op.String() + r.r(x.X)
	case *ssa.BinOp:
		a, b := r.r(x.X), r.r(x.Y)
		op := x.Op
		switch op {
		case token.GTR:
			a, b, op = b, a, token.LSS
		case token.GEQ:
			a, b, op = b, a, token.LEQ
		case token.EQL, token.NEQ, token.ADD, token.MUL, token.AND, token.OR, token.XOR:
			if a > b {
				a, b = b, a
			}
		}
		return "(" + a + " " + op.String() + " " + b + ")"
	case *ssa.Call:
		cal := calleeOf(x)
		cc := x.Common()
		var args []string
		for _, a := range cc.Args {
			args = append(args, r.r(a))
		}
		switch {
		case cal.Method != nil:
			return r.r(cc.Value) + "." + cal.Method.Name() + "(" + strings.Join(args, ",") + ")"
		case cal.Static != nil:
			f := cal.Static
			if f.Signature.Recv() != nil && len(args) > 0 {
				return args[0] + "." + baseName(f) + "(" + strings.Join(args[1:], ",") + ")"
			}
			n := baseName(f)
			if f.Pkg != nil && !strings.HasPrefix(f.Pkg.Pkg.Path(), modPath) {
				n = f.Pkg.Pkg.Name() + "." + n
			}
			return n + "(" + strings.Join(args, ",") + ")"
		case cal.Builtin != "":
			return cal.Builtin + "(" + strings.Join(args, ",") + ")"
		}
		return "dyn:" + r.r(cc.Value) + "(" + strings.Join(args, ",") + ")"
	case *ssa.Convert:
		return typeShort(x.Type()) + "(" + r.r(x.X) + ")"
	case *ssa.ChangeType:
		return r.r(x.X)
	case *ssa.ChangeInterface:
		return r.r(x.X)
	case *ssa.MakeInterface:
		return r.r(x.X)
	case *ssa.TypeAssert:
		return r.r(x.X) + ".(" + typeShort(x.AssertedType) + ")"
	case *ssa.Extract:
		return fmt.Sprintf("%s#%d", r.r(x.Tuple), x.Index)
	case *ssa.Slice:
		lo, hi := "", ""
		if x.Low != nil {
			lo = r.r(x.Low)
		}
		if x.High != nil {
			hi = r.r(x.High)
		}
		return r.r(x.X) + "[" + lo + ":" + hi + "]"
	case *ssa.Alloc:
		return "&" + r.alloc(x)
	case *ssa.Phi:
		if r.seen[x] {
			return "phi↺"
		}
		r.seen[x] = true
		defer delete(r.seen, x)
		var es []string
		for _, e := range x.Edges {
			es = append(es, r.r(e))
		}
		sort.Strings(es)
		// dedupe
		var ds []string
		for i, e := range es {
			if i == 0 || e != es[i-1] {
				ds = append(ds, e)
			}
		}
		if len(ds) == 1 {
			return ds[0]
		}
		return "phi(" + strings.Join(ds, "|") + ")"
	case *ssa.MakeClosure:
		return "closure:" + x.Fn.Name()
	case *ssa.MakeSlice:
		return "make(" + typeShort(x.Type()) + "," + r.r(x.Len) + "," + r.r(x.Cap) + ")"
	case *ssa.MakeChan:
		return "makechan(" + r.r(x.Size) + ")"
	case *ssa.MakeMap:
		return "makemap"
	case *ssa.Select:
		return "select"
	case *ssa.Next:
		return "next(" + r.r(x.Iter) + ")"
	case *ssa.Range:
		return "range(" + r.r(x.X) + ")"
	case *ssa.SliceToArrayPointer:
		return r.r(x.X)
	}
	return fmt.Sprintf("?%T", v)
}

func (r *renderer) alloc(a *ssa.Alloc) string {
	// a parameter spilled to a local because it is indexed/address-taken: render as the
	// parameter when the only store to it is the parameter itself
	if refs := a.Referrers(); refs != nil {
		var only ssa.Value
		n := 0
		for _, ref := range *refs {
			if st, ok := ref.(*ssa.Store); ok && st.Addr == a {
				n++
				only = st.Val
			}
		}
		if p, ok := only.(*ssa.Parameter); ok && n == 1 {
			return "$" + p.Name()
		}
		// a local initialised exactly once from a call result (x := f(); x[i]): render as the call
		if c, ok := only.(*ssa.Call); ok && n == 1 && r.depth < 12 {
			return r.r(c)
		}
	}
	if a.Comment != "" {
		return "local:" + a.Comment
	}
	return "local"
}

func typeShort(t types.Type) string {
	return types.TypeString(t, func(p *types.Package) string { return p.Name() })
}

// constInt returns the integer value of v if it is an integer constant (through
// conversions).
func constInt(v ssa.Value) (int64, bool) {
	for {
		switch x := v.(type) {
		case *ssa.Const:
			if x.Value != nil && x.Value.Kind() == constant.Int {
				if i, ok := constant.Int64Val(x.Value); ok {
					return i, true
				}
				if u, ok := constant.Uint64Val(x.Value); ok {
					return int64(u), true
				}
			}
			return 0, false
		case *ssa.Convert:
			v = x.X
		case *ssa.ChangeType:
			v = x.X
		default:
			return 0, false
		}
	}
}

// stripConv removes value-preserving wrappers.
func stripConv(v ssa.Value) ssa.Value {
	for {
		switch x := v.(type) {
		case *ssa.Convert:
			v = x.X
		case *ssa.ChangeType:
			v = x.X
		case *ssa.MakeInterface:
			v = x.X
		case *ssa.ChangeInterface:
			v = x.X
		default:
			return v
		}
	}
}

// mentions reports whether the expression tree of v contains a value satisfying pred.
func mentions(v ssa.Value, pred func(ssa.Value) bool) bool {
	seen := map[ssa.Value]bool{}
	var walk func(v ssa.Value, d int) bool
	walk = func(v ssa.Value, d int) bool {
		if v == nil || seen[v] || d > 30 {
			return false
		}
		seen[v] = true
		if pred(v) {
			return true
		}
		if in, ok := v.(ssa.Instruction); ok {
			for _, op := range in.Operands(nil) {
				if *op != nil && walk(*op, d+1) {
					return true
				}
			}
		}
		return false
	}
	return walk(v, 0)
}

// isCallTo reports whether v is a call whose callee satisfies pred.
func isCallTo(v ssa.Value, pred func(Callee) bool) bool {
	c, ok := v.(*ssa.Call)
	return ok && pred(calleeOf(c))
}

// globalConst resolves a package-level constant's integer value.
func (w *World) ConstInt(pkg, name string) int64 {
	o := w.Obj(pkg, name)
	c, ok := o.(*types.Const)
	if !ok {
		bail("anchor %s.%s is not a constant", pkg, name)
	}
	if i, ok := constant.Int64Val(constant.ToInt(c.Val())); ok {
		return i
	}
	if u, ok := constant.Uint64Val(constant.ToInt(c.Val())); ok {
		return int64(u)
	}
	bail("anchor %s.%s is not an integer constant", pkg, name)
	return 0
}

// errVarOf: if v is a load of a package-level error variable, return its name.
func globalLoadName(v ssa.Value) string {
	v = stripConv(v)
	if u, ok := v.(*ssa.UnOp); ok && u.Op == token.MUL {
		if g, ok := u.X.(*ssa.Global); ok {
			return g.Name()
		}
	}
	return ""
}

// types_IsInterfaceIdentical: go/ssa's nil-check form of a method value on an interface
// (x.(I) with I identical to x's static type), which cannot fail for a non-nil x.
func types_IsInterfaceIdentical(x *ssa.TypeAssert) bool {
	return types.IsInterface(x.AssertedType) && types.Identical(x.AssertedType, x.X.Type())
}
