package main

import (
	"encoding/json"
	"fmt"
	"go/token"
	"os"
	"path/filepath"
	"sort"
	"strings"
	"time"
)

type Status string

const (
	StOK        Status = "discharged"
	StViolation Status = "violation"
	StUndecided Status = "undecided"
)

// Obligation is one (rule, construct) instance that was decided.
type Obligation struct {
	Rule       string `json:"rule"`
	Construct  string `json:"construct"`
	Pos        string `json:"pos"`
	Status     Status `json:"verdict"`
	Because    string `json:"because"`
	Nontrivial bool   `json:"nontrivial"`
	Known      string `json:"known_finding,omitempty"`
	// Config is the extra build configuration (goos/goarch) the obligation was generated
	// under in the thorough tier; empty for the default configuration. It is not part of
	// the obligation's identity: known findings are keyed on (property, rule, construct).
	Config string `json:"config,omitempty"`
}

// label is the construct as shown to the user (with the build configuration, if any).
func (o Obligation) label() string {
	if o.Config != "" {
		return o.Construct + " @" + o.Config
	}
	return o.Construct
}

type KnownFinding struct {
	Property  string `json:"property"`
	Rule      string `json:"rule"`
	Construct string `json:"construct"`
	What      string `json:"what"`
}

type KnownFile struct {
	Findings []KnownFinding `json:"findings"`
	Fixed    []string       `json:"fixed"`
}

// Run is the state of one property check.
type Run struct {
	W       *World
	Prop    string
	Tier    string
	Obs     []Obligation
	Stats   map[string]int
	curRule string
	// ruleAlias, when set, renames the obligations of a rule function that is shared between
	// two properties (e.g. the control-message layout tables serve C08 and C03).
	ruleAlias string
	known     []KnownFinding
	Explain   []string
	NotDec    []string
	Trusted   []string
	funcsSet  map[string]bool
	bnd       map[string]*bndRun
}

func newRun(w *World, prop, tier string, known []KnownFinding) *Run {
	return &Run{W: w, Prop: prop, Tier: tier, Stats: map[string]int{}, known: known, funcsSet: map[string]bool{}}
}

func (r *Run) add(rule, construct string, pos token.Pos, st Status, nontrivial bool, because string) {
	r.Obs = append(r.Obs, Obligation{Rule: rule, Construct: construct, Pos: r.W.Pos(pos), Status: st, Because: because, Nontrivial: nontrivial})
}

// OK records a discharged obligation whose discharge needed a real argument (a guard
// found, a table cell compared, an origin proven).
func (r *Run) OK(rule, construct string, pos token.Pos, because string, a ...any) {
	r.add(rule, construct, pos, StOK, true, fmt.Sprintf(because, a...))
}

// Trivial records a discharged obligation that needed no argument (e.g. "no instance").
func (r *Run) Trivial(rule, construct string, pos token.Pos, because string, a ...any) {
	r.add(rule, construct, pos, StOK, false, fmt.Sprintf(because, a...))
}

func (r *Run) Fail(rule, construct string, pos token.Pos, because string, a ...any) {
	r.add(rule, construct, pos, StViolation, true, fmt.Sprintf(because, a...))
}

func (r *Run) Undecided(rule, construct string, pos token.Pos, because string, a ...any) {
	r.add(rule, construct, pos, StUndecided, true, fmt.Sprintf(because, a...))
}

// Check records OK when cond holds, Fail otherwise.
func (r *Run) Check(cond bool, rule, construct string, pos token.Pos, okMsg, failMsg string) bool {
	if cond {
		r.OK(rule, construct, pos, "%s", okMsg)
	} else {
		r.Fail(rule, construct, pos, "%s", failMsg)
	}
	return cond
}

// Floor fails when a rule matched fewer instances than confirmed by hand on the pinned
// tree: a rule that matches nothing passes vacuously forever.
func (r *Run) Floor(rule, what string, got, min int) {
	r.Stats[rule+":"+what] = got
	if got < min {
		r.add(rule, "instance-floor:"+what, token.NoPos, StUndecided, true,
			fmt.Sprintf("matched %d instances of %s, below the hand-confirmed floor %d: the rule would pass vacuously", got, what, min))
	} else {
		r.add(rule, "instance-floor:"+what, token.NoPos, StOK, false, fmt.Sprintf("matched %d instances of %s (floor %d)", got, what, min))
	}
}

func (r *Run) Analysed(fn string) { r.funcsSet[fn] = true }

// runRule runs one rule, converting anchor failures and analyser panics into undecided
// obligations (fail closed).
func (r *Run) runRule(name string, f func()) {
	defer func() {
		if x := recover(); x != nil {
			if ae, ok := x.(anchorErr); ok {
				r.add(name, "anchor", token.NoPos, StUndecided, true, "unresolved anchor: "+ae.msg)
				return
			}
			r.add(name, "analyser", token.NoPos, StUndecided, true, fmt.Sprintf("analyser panic: %v", x))
			if os.Getenv("SECSCHECK_DEBUG") != "" {
				panic(x)
			}
		}
	}()
	f()
}

func loadKnown(path string) ([]KnownFinding, error) {
	b, err := os.ReadFile(path)
	if err != nil {
		if os.IsNotExist(err) {
			return nil, nil
		}
		return nil, err
	}
	var kf KnownFile
	if err := json.Unmarshal(b, &kf); err != nil {
		return nil, err
	}
	return kf.Findings, nil
}

type replayFile struct {
	Property  string `json:"property"`
	Rule      string `json:"rule"`
	Construct string `json:"construct"`
	Pos       string `json:"pos"`
	Kind      Status `json:"kind"`
	Because   string `json:"because"`
	Replay    string `json:"how_to_replay"`
	Config    string `json:"config,omitempty"`
}

// finish prints the report, writes evidence + replay files and returns the exit code.
func (r *Run) finish(verifDir string, seed int64, start time.Time, only *replayFile) int {
	// mark known findings
	for i := range r.Obs {
		o := &r.Obs[i]
		if o.Status != StViolation {
			continue
		}
		for _, k := range r.known {
			if k.Property == r.Prop && k.Rule == o.Rule && k.Construct == o.Construct {
				o.Known = k.What
			}
		}
	}
	if only != nil {
		var keep []Obligation
		for _, o := range r.Obs {
			if o.Rule == only.Rule && o.Construct == only.Construct && o.Config == only.Config {
				keep = append(keep, o)
			}
		}
		r.Obs = keep
	}
	evDir := filepath.Join(verifDir, "evidence")
	rpDir := filepath.Join(evDir, "replay")
	_ = os.MkdirAll(rpDir, 0o755)
	if only == nil {
		olds, _ := filepath.Glob(filepath.Join(rpDir, r.Prop+"-*.json"))
		for _, f := range olds {
			_ = os.Remove(f)
		}
	}

	nOK, nViol, nKnown, nNontriv := 0, 0, 0, 0
	distinct := map[string]bool{}
	byRule := map[string][3]int{}
	for _, o := range r.Obs {
		c := byRule[o.Rule]
		switch {
		case o.Status == StOK:
			nOK++
			c[0]++
			if o.Nontrivial {
				k := o.Rule + "|" + o.Construct
				if !distinct[k] {
					distinct[k] = true
					nNontriv++
				}
			}
		case o.Known != "":
			nKnown++
			c[2]++
		default:
			nViol++
			c[1]++
		}
		byRule[o.Rule] = c
	}
	rules := make([]string, 0, len(byRule))
	for k := range byRule {
		rules = append(rules, k)
	}
	sort.Strings(rules)
	for _, k := range rules {
		c := byRule[k]
		fmt.Printf("rule %-34s discharged=%-4d failed=%-3d known=%d\n", k, c[0], c[1], c[2])
	}
	vn := 0
	knownShown := map[string]bool{}
	for _, o := range r.Obs {
		if o.Status == StOK {
			continue
		}
		if o.Known != "" {
			// one line per listed finding, however many build configurations exhibit it
			if k := o.Rule + "|" + o.Construct; !knownShown[k] {
				knownShown[k] = true
				fmt.Printf("KNOWN-FINDING: property=%s %s [%s %s %s]\n", r.Prop, o.Known, o.Rule, o.Construct, o.Pos)
			}
			continue
		}
		vn++
		rp := filepath.Join(rpDir, fmt.Sprintf("%s-%d.json", r.Prop, vn))
		if only == nil {
			b, _ := json.MarshalIndent(replayFile{Property: r.Prop, Rule: o.Rule, Construct: o.Construct, Pos: o.Pos, Kind: o.Status, Because: o.Because,
				Replay: "/verif/bin/secscheck -replay " + rp, Config: o.Config}, "", " ")
			_ = os.WriteFile(rp, b, 0o644)
		}
		fmt.Printf("VIOLATION property=%s replay=%s\n", r.Prop, rp)
		fmt.Printf("  %s %s %s [%s] — %s\n", o.Rule, o.Pos, o.label(), o.Status, o.Because)
	}

	if only == nil {
		samples := []Obligation{}
		// a spread of samples: first few non-trivial of each rule, up to 24, plus all failures
		perRule := map[string]int{}
		for _, o := range r.Obs {
			if o.Status != StOK {
				samples = append(samples, o)
			}
		}
		for _, o := range r.Obs {
			if len(samples) >= 24 {
				break
			}
			if o.Status == StOK && o.Nontrivial && perRule[o.Rule] < 2 {
				perRule[o.Rule]++
				samples = append(samples, o)
			}
		}
		fns := make([]string, 0, len(r.funcsSet))
		for f := range r.funcsSet {
			fns = append(fns, f)
		}
		sort.Strings(fns)
		expl := "Static analysis (go/packages + go/ssa + VTA call graph) of /repo's current working tree; no repository code is executed. Rules: " +
			strings.Join(r.Explain, " | ") + " NOT DECIDED (behavioural remainder): " + strings.Join(r.NotDec, "; ")
		ev := map[string]any{
			"property_id": r.Prop,
			"tier":        r.Tier,
			"seed":        seed,
			"level":       "other",
			"wall_s":      time.Since(start).Seconds(),
			"violations":  nViol,
			"assumptions": append([]string{
				"go/types, go/ssa and the VTA call graph (CHA fallback) faithfully represent the program built from /repo",
				"oracle tables in the checker are transcribed from SEMI E5/E37/E4 and the property statements",
			}, r.Trusted...),
			"coverage": map[string]any{
				"explanation":         expl,
				"obligations":         len(r.Obs),
				"discharged":          nOK,
				"known_findings":      nKnown,
				"evaluations":         len(r.Obs),
				"distinct_nontrivial": nNontriv,
				"rule":                "one evaluation per (rule, construct) obligation generated from the source; non-trivial = discharge needed a found guard / compared table cell / proven origin (not 'no instance' or an instance-floor count)",
				"samples":             samples,
				"functions_analysed":  fns,
				"instance_counts":     r.Stats,
				"checker_cmd":         fmt.Sprintf("/verif/bin/secscheck -property %s -tier %s", r.Prop, r.Tier),
				"trusted_base":        []string{"go/types", "go/ssa", "callgraph/vta", "oracle tables in /verif/checker/rules_*.go"},
				"packages_loaded":     len(r.W.ByPath),
				"goos_goarch":         r.W.GOOS + "/" + r.W.GOARCH,
			},
		}
		b, _ := json.MarshalIndent(ev, "", " ")
		if err := os.WriteFile(filepath.Join(evDir, r.Prop+".json"), b, 0o644); err != nil {
			fmt.Println("cannot write evidence:", err)
			return 1
		}
	}
	fmt.Printf("property=%s tier=%s obligations=%d discharged=%d known=%d violations=%d functions=%d wall=%.1fs\n",
		r.Prop, r.Tier, len(r.Obs), nOK, nKnown, nViol, len(r.funcsSet), time.Since(start).Seconds())
	if nViol > 0 {
		return 1
	}
	return 0
}
