package main

import (
	"fmt"
	"go/token"
	"go/types"
	"strings"

	"golang.org/x/tools/go/ssa"
)

func init() {
	register(&PropSpec{
		ID: "C11",
		Rules: []Rule{
			{Name: "C11-R1-backoff", Doc: "nextBackoffDelay returns the ceiling iff next≤0 ∨ next>ceil else cur×multiplier; the loop sleeps min(delay,T5), starts at the configured initial delay and only advances through nextBackoffDelay(delay, multiplier, T5); option rejects initial≤0 and multiplier<1; defaults 100ms ×2", Run: c11Backoff},
			{Name: "C11-R2-connect-loop", Doc: "decision table of one connectLoop iteration: interrupted sleep ⇒ stop; fence (shutdown ∨ generation changed) before building and again under publishMu before ArmStart+publish; failed Start ⇒ teardown+wait and retry; success ⇒ count iff countReconnect, stop", Run: c11ConnectLoop},
			{Name: "C11-R3-reaction", Doc: "react: only on →NotConnected with a live epoch; farewell iff prev=Selected ∧ ¬commsFailure ∧ socket live; reconnect loop started iff ¬shutdown and BEFORE teardown; teardown always; startConnectLoop registers the loop synchronously", Run: c11Reaction},
			{Name: "C11-R4-failure-funnel", Doc: "every involuntary failure funnels into TCPDown guarded only by 'generation already cancelled': read error in recvLoop (no dispatch after it), transport write error in writeFrame, T7 expiry → T7Expired; reconnect counter has one call site", Run: c11Funnel},
		},
		NotDec:  []string{"that a session is actually re-established against a real peer", "delays in real time", "every cut position of every exchange"},
		Trusted: []string{"arithmetic lemma: m ≥ 1 ∧ d > 0 ⇒ d·m ≥ d (delay monotonicity of cur×multiplier)"},
	})
}

// fieldLoadNamed: v is a load of a struct field with the given name.
func fieldLoadNamed(v ssa.Value, name string) bool {
	switch x := v.(type) {
	case *ssa.UnOp:
		if x.Op == token.MUL {
			if fa, ok := x.X.(*ssa.FieldAddr); ok {
				return fieldOf(fa).Name() == name
			}
		}
	case *ssa.Field:
		return fieldOf(x).Name() == name
	}
	return false
}

func c11Backoff(r *Run) {
	const rule = "C11-R1-backoff"
	w := r.W
	nb := w.Fn("hsms", "nextBackoffDelay")
	r.Analysed(w.FnName(nb))
	// the scaled value: Duration(float64(cur) * multiplier)
	var scaled ssa.Value
	eachInstr(nb, func(in ssa.Instruction) {
		if cv, ok := in.(*ssa.Convert); ok {
			if b, ok := cv.X.(*ssa.BinOp); ok && b.Op == token.MUL {
				s := render(b)
				if strings.Contains(s, "$"+nb.Params[0].Name()) && strings.Contains(s, "$"+nb.Params[1].Name()) {
					scaled = cv
				}
			}
		}
	})
	if scaled == nil {
		r.Fail(rule, "nextBackoffDelay: next = Duration(float64(cur) × multiplier)", nb.Pos(), "the scaled delay cur×multiplier was not found")
	} else {
		r.OK(rule, "nextBackoffDelay: next = Duration(float64(cur) × multiplier)", scaled.Pos(), "%s", render(scaled))
		dt, ok := newDT(nb, 1000)
		if !ok {
			r.Undecided(rule, "nextBackoffDelay", nb.Pos(), "too many paths")
		} else {
			ceil := "$" + nb.Params[2].Name()
			dt.Leaf = func(env Env, v ssa.Value, e *Evaluator) (int64, bool, bool) {
				if v == scaled {
					return env["next"], true, true
				}
				return 0, false, false
			}
			for _, next := range []int64{-7, 0, 1, 5, 10, 11, 1 << 40} {
				for _, c := range []int64{10} {
					res := dt.Cell(Env{"next": next, ceil: c})
					construct := fmt.Sprintf("nextBackoffDelay(next=%d, ceil=%d)", next, c)
					if res.Err != "" {
						r.Undecided(rule, construct, res.Pos, "%s", res.Err)
						continue
					}
					want := next
					if next <= 0 || next > c {
						want = c
					}
					got := strings.Join(res.Rets, ",")
					r.Check(got == fmt.Sprint(want), rule, construct, res.Pos, fmt.Sprintf("→ %d (never above the T5 ceiling, never ≤ 0)", want), fmt.Sprintf("returns %s, required %d", got, want))
				}
			}
		}
	}
	// option validation
	opt := w.Fn("hsms", "WithReconnectBackoff")
	if len(opt.AnonFuncs) != 1 || len(opt.AnonFuncs[0].FreeVars) != 2 {
		r.Undecided(rule, "WithReconnectBackoff", opt.Pos(), "expected one closure capturing (initial, multiplier)")
	} else {
		cl := opt.AnonFuncs[0]
		r.Analysed(w.FnName(cl))
		dt, ok := newDT(cl, 1000)
		if ok {
			fv := map[ssa.Value]string{}
			for _, f := range cl.FreeVars {
				fv[f] = f.Name()
			}
			dt.Leaf = func(env Env, v ssa.Value, e *Evaluator) (int64, bool, bool) {
				if n, ok := fv[v]; ok {
					return env[n], true, true
				}
				if u, ok := v.(*ssa.UnOp); ok && u.Op == token.MUL {
					if n, ok := fv[u.X]; ok {
						return env[n], true, true
					}
				}
				return 0, false, false
			}
			dt.Effect = func(in ssa.Instruction, e *Evaluator, p *Path) string {
				if st, ok := in.(*ssa.Store); ok {
					if fa, ok := st.Addr.(*ssa.FieldAddr); ok {
						if val, ok := e.Int(st.Val); ok {
							return fmt.Sprintf("%s=%d", fieldOf(fa).Name(), val)
						}
					}
				}
				return ""
			}
			for _, ini := range []int64{-1, 0, 1, 100} {
				for _, m := range []int64{0, 1, 2} { // representatives of multiplier <1, =1, >1
					res := dt.Cell(Env{"initial": ini, "multiplier": m})
					construct := fmt.Sprintf("WithReconnectBackoff(initial=%d, multiplier%s)", ini, map[int64]string{0: "<1", 1: "=1", 2: ">1"}[m])
					if res.Err != "" {
						r.Undecided(rule, construct, res.Pos, "%s", res.Err)
						continue
					}
					isNil := len(res.Rets) == 1 && res.Rets[0] == "0"
					got := strings.Join(res.Effects, ";")
					if ini <= 0 || m < 1 {
						r.Check(!isNil && got == "", rule, construct, res.Pos, "rejected", fmt.Sprintf("must be rejected without storing (nil=%v stores [%s])", isNil, got))
					} else {
						want := fmt.Sprintf("reconnectBackoffInitial=%d;reconnectBackoffMultiplier=%d", ini, m)
						r.Check(isNil && got == want, rule, construct, res.Pos, "accepted", fmt.Sprintf("must be accepted and stored (nil=%v stores [%s])", isNil, got))
					}
				}
			}
		}
	}
	// defaults
	def := w.Fn("hsms", "DefaultConnectionConfig")
	got := map[string]string{}
	eachInstr(def, func(in ssa.Instruction) {
		if st, ok := in.(*ssa.Store); ok {
			if fa, ok := st.Addr.(*ssa.FieldAddr); ok {
				got[fieldOf(fa).Name()] = render(st.Val)
			}
		}
	})
	r.Check(got["reconnectBackoffInitial"] == "100000000" && got["reconnectBackoffMultiplier"] == "2", rule, "default backoff = 100ms × 2.0", def.Pos(), "100ms, 2", fmt.Sprintf("defaults are initial=%s multiplier=%s", got["reconnectBackoffInitial"], got["reconnectBackoffMultiplier"]))
}

func c11ConnectLoop(r *Run) {
	const rule = "C11-R2-connect-loop"
	w := r.W
	fn := w.Fn("hsms", "connection.connectLoop")
	r.Analysed(w.FnName(fn))
	s := newSendCtx(w)
	nb := w.Fn("hsms", "nextBackoffDelay")
	sleep := w.Fn("hsms", "connection.reconnectSleep")
	newEp := w.Fn("hsms", "newEpoch")
	teardown := w.Fn("hsms", "epoch.teardown")
	wait := w.Fn("hsms", "epoch.wait")
	spawn := w.Fn("hsms", "epoch.spawn")
	incRec := w.Fn("hsms", "ConnectionMetrics.incReconnects")
	fShut := w.Field("hsms", "connection", "shutdown")
	fGen := w.Field("hsms", "connection", "reconnectGen")
	fPub := w.Field("hsms", "connection", "publishMu")
	hs := loopHeaders(fn)
	if len(hs) != 1 {
		r.Undecided(rule, "connectLoop: loop", fn.Pos(), "expected one loop, found %d", len(hs))
		return
	}
	header := hs[0]
	// the loop-carried delay: the header phi passed to nextBackoffDelay
	var phiDelay *ssa.Phi
	var nbCall *ssa.Call
	eachInstr(fn, func(in ssa.Instruction) {
		if c, ok := in.(*ssa.Call); ok && isFn(nb)(calleeOf(c)) {
			nbCall = c
			phiDelay, _ = c.Call.Args[0].(*ssa.Phi)
		}
	})
	if nbCall == nil || phiDelay == nil || phiDelay.Block() != header {
		r.Fail(rule, "connectLoop: delay advances only through nextBackoffDelay(delay, …)", fn.Pos(), "the loop-carried delay is not the first argument of nextBackoffDelay")
		return
	}
	okArgs := fieldLoadNamed(nbCall.Call.Args[1], "reconnectBackoffMultiplier") && fieldLoadNamed(nbCall.Call.Args[2], "T5")
	r.Check(okArgs, rule, "connectLoop: nextBackoffDelay(delay, cfg.multiplier, cfg.T5)", nbCall.Pos(), "live multiplier and T5 ceiling", "the backoff must be advanced with the configured multiplier and capped at T5")
	// entry value and back-edge values of the delay phi
	for k, pb := range header.Preds {
		v := phiDelay.Edges[k]
		if header.Dominates(pb) {
			// back edge: must be the nextBackoffDelay result (possibly through phis inside the loop)
			okv := mentionsOnly(v, nbCall, phiDelay)
			r.Check(okv, rule, fmt.Sprintf("connectLoop: delay on back edge from block %d", pb.Index), nbCall.Pos(), "nextBackoffDelay result", "the delay carried to the next attempt must be nextBackoffDelay's result, got "+render(v))
		} else {
			r.Check(fieldLoadNamed(v, "reconnectBackoffInitial"), rule, "connectLoop: first delay is the configured initial backoff", fn.Pos(), "cfg.reconnectBackoffInitial", "first delay must be the configured initial value, got "+render(v))
		}
	}
	paths, ok := enumIterPaths(fn, header, 50000)
	if !ok {
		r.Undecided(rule, "connectLoop iteration paths", fn.Pos(), "too many paths")
		return
	}
	// distinguish the two fences by dominance order of shutdown loads
	var shutLoads, genLoads []*ssa.Call
	eachInstr(fn, func(in ssa.Instruction) {
		if c, ok := in.(*ssa.Call); ok {
			if callIsAtomicMethodOn(c, fShut, "Load") {
				shutLoads = append(shutLoads, c)
			}
			if callIsAtomicMethodOn(c, fGen, "Load") {
				genLoads = append(genLoads, c)
			}
		}
	})
	if len(shutLoads) != 2 || len(genLoads) != 2 {
		r.Undecided(rule, "connectLoop: fences", fn.Pos(), "expected two (shutdown, generation) fence reads, found %d/%d", len(shutLoads), len(genLoads))
		return
	}
	if !instrDominates(shutLoads[0], shutLoads[1]) {
		shutLoads[0], shutLoads[1] = shutLoads[1], shutLoads[0]
	}
	if !instrDominates(genLoads[0], genLoads[1]) {
		genLoads[0], genLoads[1] = genLoads[1], genLoads[0]
	}
	gen := fn.Params[2]
	countRec := fn.Params[4]
	dt := &DT{Fn: fn, Paths: paths}
	dt.Leaf = func(env Env, v ssa.Value, e *Evaluator) (int64, bool, bool) {
		switch x := v.(type) {
		case *ssa.Phi:
			if x == phiDelay {
				return env["delay"], true, true
			}
		case *ssa.Parameter:
			if x == gen {
				return 7, true, true
			}
			if x == countRec {
				return env["count"], true, true
			}
		case *ssa.Call:
			cal := calleeOf(x)
			switch {
			case isFn(sleep)(cal):
				return env["slept"], true, true
			case x == shutLoads[0]:
				return env["shut1"], true, true
			case x == shutLoads[1]:
				return env["shut2"], true, true
			case x == genLoads[0]:
				return 7 + env["genchg1"], true, true
			case x == genLoads[1]:
				return 7 + env["genchg2"], true, true
			case s.isTrMethod("Start")(cal):
				return env["startErr"], true, true
			case isFn(nb)(cal):
				return 1000 + env["delay"], true, true
			}
		case *ssa.UnOp:
			if fieldLoadNamed(x, "T5") {
				return env["T5"], true, true
			}
			if fieldLoadNamed(x, "testHookConnectLoop") {
				return env["hook"], true, true
			}
		}
		return 0, false, false
	}
	dt.Effect = func(in ssa.Instruction, e *Evaluator, p *Path) string {
		c, ok := in.(ssa.CallInstruction)
		if !ok {
			return ""
		}
		if _, isDefer := in.(*ssa.Defer); isDefer {
			return ""
		}
		cal := calleeOf(c)
		switch {
		case isFn(sleep)(cal):
			v, ok := e.Int(c.Common().Args[1])
			if !ok {
				return "sleep(?)"
			}
			return fmt.Sprintf("sleep(%d)", v)
		case isFn(newEp)(cal):
			return "newEpoch"
		case callIsAtomicMethodOn(c, fPub, "Lock"):
			return "lock"
		case callIsAtomicMethodOn(c, fPub, "Unlock"):
			return "unlock"
		case s.isTrMethod("ArmStart")(cal):
			return "ArmStart"
		case callIsAtomicMethodOn(c, s.fCur, "Store"):
			if isCallTo(p.ResolveLocalLoad(c.Common().Args[1]), isFn(newEp)) {
				return "publish"
			}
			return "publish(?)"
		case isFn(spawn)(cal):
			return "spawn"
		case s.isTrMethod("Start")(cal):
			// Start runs on the new generation's context
			if fieldLoadNamed(c.Common().Args[0], "ctx") {
				return "Start"
			}
			return "Start(?)"
		case isFn(teardown)(cal):
			return "teardown"
		case isFn(wait)(cal):
			return "wait"
		case isFn(incRec)(cal):
			return "incReconnects"
		case s.isTrMethod("Stop")(cal):
			return "Stop"
		}
		return ""
	}
	doms := []dom{{"delay", []int64{5, 10, 20}}, {"T5", []int64{10}}, {"slept", []int64{0, 1}}, {"hook", []int64{0, 1}}, {"shut1", []int64{0, 1}}, {"genchg1", []int64{0, 1}},
		{"shut2", []int64{0, 1}}, {"genchg2", []int64{0, 1}}, {"startErr", []int64{0, 1}}, {"count", []int64{0, 1}}}
	n, nOK := 0, 0
	reported := map[string]bool{}
	product(doms, func(env Env) {
		n++
		res := dt.Cell(env)
		construct := "connectLoop iteration(" + envString(env, domNames(doms)) + ")"
		if res.Err != "" {
			if !reported[res.Err] {
				reported[res.Err] = true
				r.Undecided(rule, construct, res.Pos, "%s", res.Err)
			}
			return
		}
		d := env["delay"]
		if d > env["T5"] {
			d = env["T5"]
		}
		want := []string{fmt.Sprintf("sleep(%d)", d)}
		exit := "return"
		func() {
			if env["slept"] == 0 {
				return
			}
			if env["shut1"] != 0 || env["genchg1"] != 0 {
				return
			}
			want = append(want, "newEpoch", "lock")
			if env["shut2"] != 0 || env["genchg2"] != 0 {
				want = append(want, "unlock")
				return
			}
			want = append(want, "ArmStart", "publish", "unlock", "spawn", "Start")
			if env["startErr"] != 0 {
				want = append(want, "teardown", "wait")
				exit = "loop"
				return
			}
			if env["count"] != 0 {
				want = append(want, "incReconnects")
			}
		}()
		got := strings.Join(res.Effects, ";")
		gotExit := "return"
		if res.Path.Exit == nil {
			gotExit = "loop"
		}
		okCell := got == strings.Join(want, ";") && gotExit == exit
		detail := ""
		if okCell && exit == "loop" {
			e := dt.eval(env, res.Path, nil)
			nd, okn := e.Int(res.Path.NextIter(phiDelay))
			if !okn || nd != 1000+env["delay"] {
				okCell = false
				detail = " the next attempt's delay is not nextBackoffDelay(delay)"
			}
		}
		if okCell {
			nOK++
			if nOK <= 30 {
				r.OK(rule, construct, res.Pos, "[%s] → %s", got, exit)
			}
			return
		}
		key := got + "|" + strings.Join(want, ";") + gotExit + detail
		if !reported[key] {
			reported[key] = true
			r.Fail(rule, construct, res.Pos, "effects [%s] → %s;%s required [%s] → %s", got, gotExit, detail, strings.Join(want, ";"), exit)
		}
	})
	if nOK == n {
		r.OK(rule, "connectLoop: all iteration cells", fn.Pos(), "%d cells agree with the oracle", n)
	}
	r.Floor(rule, "connectLoop iteration cells", n, 700)
	// before the loop: wait for the previous generation's full teardown
	prev := fn.Params[1]
	okPrev := false
	for _, c := range callsIn(fn, isFn(wait)) {
		if c.Common().Args[0] == ssa.Value(prev) && !header.Dominates(c.Block()) {
			okPrev = true
			// and it precedes the loop on every path where prev != nil
			for _, st := range callsIn(fn, s.isTrMethod("Start")) {
				if !header.Dominates(st.Block()) {
					okPrev = false
				}
			}
		}
	}
	r.Check(okPrev, rule, "connectLoop: prev.wait() before the first Start", fn.Pos(), "generations are serialised", "the loop must wait for the previous generation's teardown before dialing")
}

// mentionsOnly reports whether v is call, or a phi all of whose non-self edges are call.
func mentionsOnly(v ssa.Value, call *ssa.Call, self *ssa.Phi) bool {
	seen := map[ssa.Value]bool{}
	var rec func(v ssa.Value) bool
	rec = func(v ssa.Value) bool {
		if v == ssa.Value(call) {
			return true
		}
		if seen[v] {
			return true
		}
		seen[v] = true
		if ph, ok := v.(*ssa.Phi); ok && ph != self {
			for _, e := range ph.Edges {
				if !rec(e) {
					return false
				}
			}
			return true
		}
		return false
	}
	return rec(v)
}

func c11Reaction(r *Run) {
	const rule = "C11-R3-reaction"
	w := r.W
	s := newSendCtx(w)
	t := loadE37(w)
	react := w.Fn("hsms", "connection.react")
	r.Analysed(w.FnName(react))
	startLoop := w.Fn("hsms", "connection.startConnectLoop")
	teardown := w.Fn("hsms", "epoch.teardown")
	liveConn := w.Fn("hsms", "epoch.liveConn")
	fShut := w.Field("hsms", "connection", "shutdown")
	fCF := w.Field("hsms", "epoch", "commsFailure")
	dt, ok := newDT(react, 5000)
	if !ok {
		r.Undecided(rule, "react", react.Pos(), "too many paths")
		return
	}
	pprev, pnext := react.Params[1], react.Params[2]
	dt.Leaf = func(env Env, v ssa.Value, e *Evaluator) (int64, bool, bool) {
		switch x := v.(type) {
		case *ssa.Call:
			switch {
			case callIsAtomicMethodOn(x, s.fCur, "Load"):
				return env["epoch"], true, true
			case callIsAtomicMethodOn(x, fShut, "Load"):
				return env["shutdown"], true, true
			case callIsAtomicMethodOn(x, fCF, "Load"):
				return env["commsFailure"], true, true
			case isFn(liveConn)(calleeOf(x)):
				return env["socket"], true, true
			}
		}
		return 0, false, false
	}
	dt.Effect = func(in ssa.Instruction, e *Evaluator, p *Path) string {
		c, ok := in.(ssa.CallInstruction)
		if !ok {
			return ""
		}
		cal := calleeOf(c)
		switch {
		case isFn(s.farewell)(cal):
			return "farewell"
		case isFn(startLoop)(cal):
			a := c.Common().Args
			cnt, _ := e.Int(a[2])
			if !atomicMethodOn(a[1], s.fCur, "Load") {
				return "startConnectLoop(?)"
			}
			return fmt.Sprintf("startConnectLoop(count=%d)", cnt)
		case isFn(teardown)(cal):
			if !atomicMethodOn(c.Common().Args[0], s.fCur, "Load") {
				return "teardown(?)"
			}
			return "teardown"
		}
		return ""
	}
	doms := []dom{{"$" + pprev.Name(), t.states()}, {"$" + pnext.Name(), t.states()}, {"epoch", []int64{0, 1}}, {"shutdown", []int64{0, 1}}, {"commsFailure", []int64{0, 1}}, {"socket", []int64{0, 1}}}
	product(doms, func(env Env) {
		res := dt.Cell(env)
		construct := "react(" + envString(env, domNames(doms)) + ")"
		if res.Err != "" {
			r.Undecided(rule, construct, res.Pos, "%s", res.Err)
			return
		}
		var want []string
		if env["$"+pnext.Name()] == t.NC && env["epoch"] != 0 {
			if env["$"+pprev.Name()] == t.S && env["commsFailure"] == 0 && env["socket"] != 0 {
				want = append(want, "farewell")
			}
			if env["shutdown"] == 0 {
				want = append(want, "startConnectLoop(count=1)")
			}
			want = append(want, "teardown")
		}
		got := strings.Join(res.Effects, ";")
		if got == strings.Join(want, ";") {
			r.OK(rule, construct, res.Pos, "[%s]", got)
		} else {
			r.Fail(rule, construct, res.Pos, "effects [%s], required [%s] (an involuntary drop must start the reconnect loop before teardown; a closed connection must not)", got, strings.Join(want, ";"))
		}
	})
	// startConnectLoop registers the loop synchronously on connectLoopWg
	r.Analysed(w.FnName(startLoop))
	fLoopWg := w.Field("hsms", "connection", "connectLoopWg")
	connectLoop := w.Fn("hsms", "connection.connectLoop")
	syncReg := false
	eachInstr(startLoop, func(in ssa.Instruction) {
		if c, ok := in.(*ssa.Call); ok {
			if callIsAtomicMethodOn(c, fLoopWg, "Go") {
				// closure argument must call connectLoop
				if mc, ok := c.Call.Args[1].(*ssa.MakeClosure); ok {
					if len(callsIn(mc.Fn.(*ssa.Function), isFn(connectLoop))) == 1 {
						syncReg = true
					}
				}
			}
			if callIsAtomicMethodOn(c, fLoopWg, "Add") {
				for _, g := range callsIn(startLoop, func(Callee) bool { return true }) {
					if _, isGo := g.(*ssa.Go); isGo && instrDominates(c, g) {
						syncReg = true
					}
				}
			}
		}
	})
	r.Check(syncReg, rule, "startConnectLoop: loop registered on connectLoopWg before returning", startLoop.Pos(), "WaitGroup.Go / Add before go", "the reconnect loop must be registered synchronously so Close's join cannot miss it")
	// the loop captures the generation counter and cancel channel at scheduling time
	fGen := w.Field("hsms", "connection", "reconnectGen")
	nGen := 0
	eachInstr(startLoop, func(in ssa.Instruction) {
		if c, ok := in.(*ssa.Call); ok && callIsAtomicMethodOn(c, fGen, "Load") {
			nGen++
		}
	})
	r.Check(nGen == 1, rule, "startConnectLoop: fence generation captured when scheduled", startLoop.Pos(), "reconnectGen.Load() once, outside the goroutine", "the loop's fence base must be read when the loop is scheduled")
}

func c11Funnel(r *Run) {
	const rule = "C11-R4-failure-funnel"
	w := r.W
	s := newSendCtx(w)
	// recvLoop iteration
	recv := w.Fn("hsmsss", "transport.recvLoop")
	r.Analysed(w.FnName(recv))
	readFrame := w.Fn("hsmsss", "transport.readFrame")
	disp := w.Fn("hsmsss", "transport.dispatchFrame")
	hs := loopHeaders(recv)
	if len(hs) != 1 {
		r.Undecided(rule, "recvLoop: loop", recv.Pos(), "expected one loop")
	} else {
		paths, ok := enumIterPaths(recv, hs[0], 5000)
		if !ok {
			r.Undecided(rule, "recvLoop iteration", recv.Pos(), "too many paths")
		} else {
			dt := &DT{Fn: recv, Paths: paths}
			dt.Leaf = func(env Env, v ssa.Value, e *Evaluator) (int64, bool, bool) {
				switch x := v.(type) {
				case *ssa.Extract:
					if isCallTo(x.Tuple, isFn(readFrame)) && x.Index == 1 {
						return env["readErr"], true, true
					}
				case *ssa.Call:
					cal := calleeOf(x)
					if cal.Method != nil && cal.Method.Name() == "Err" {
						return env["genCancelled"], true, true
					}
					if isFn(disp)(cal) {
						return env["keep"], true, true
					}
				}
				return 0, false, false
			}
			dt.Effect = func(in ssa.Instruction, e *Evaluator, p *Path) string {
				c, ok := in.(ssa.CallInstruction)
				if !ok {
					return ""
				}
				if _, isDefer := in.(*ssa.Defer); isDefer {
					return ""
				}
				cal := calleeOf(c)
				switch {
				case isFn(readFrame)(cal):
					return "read"
				case isFn(disp)(cal):
					if ex, ok := c.Common().Args[2].(*ssa.Extract); ok && isCallTo(ex.Tuple, isFn(readFrame)) && ex.Index == 0 {
						return "dispatch"
					}
					return "dispatch(?)"
				case rtMethod("TCPDown")(cal):
					return "TCPDown"
				}
				return ""
			}
			doms := []dom{{"readErr", []int64{0, 1}}, {"genCancelled", []int64{0, 1}}, {"keep", []int64{0, 1}}}
			product(doms, func(env Env) {
				res := dt.Cell(env)
				construct := "recvLoop iteration(" + envString(env, domNames(doms)) + ")"
				if res.Err != "" {
					r.Undecided(rule, construct, res.Pos, "%s", res.Err)
					return
				}
				want, exit := "read;dispatch", "loop"
				if env["readErr"] != 0 {
					want, exit = "read", "return"
					if env["genCancelled"] == 0 {
						want = "read;TCPDown"
					}
				} else if env["keep"] == 0 {
					exit = "return"
				}
				gotExit := "return"
				if res.Path.Exit == nil {
					gotExit = "loop"
				}
				got := strings.Join(res.Effects, ";")
				r.Check(got == want && gotExit == exit, rule, construct, res.Pos, "["+want+"] → "+exit, fmt.Sprintf("effects [%s] → %s, required [%s] → %s (a read/framing error drops the link once, unless teardown already owns it; nothing is dispatched after it)", got, gotExit, want, exit))
			})
		}
	}
	// writeFrame: transport write error ⇒ TCPDown iff generation not cancelled, and the error is returned
	wf := s.writeFrame
	facts := factsIn(wf)
	downs := callsIn(wf, isFn(w.Fn("hsms", "connection.TCPDown")))
	if len(downs) == 0 {
		// the drop may have been hoisted into the callers: then EVERY caller of writeFrame must drop
		// the link when writeFrame failed (directly or through one helper that calls TCPDown)
		tcpDown := w.Fn("hsms", "connection.TCPDown")
		reachesDown := func(fn *ssa.Function) bool {
			if len(callsIn(fn, isFn(tcpDown))) > 0 {
				return true
			}
			for _, c := range callsIn(fn, func(cl Callee) bool { return cl.Static != nil && fnPkgPath(cl.Static) == fnPkgPath(wf) }) {
				if len(callsIn(calleeOf(c).Static, isFn(tcpDown))) > 0 {
					return true
				}
			}
			return false
		}
		nCallers := 0
		for _, u := range w.usesOf(wf) {
			if !w.IsProd(u.Fn) {
				continue
			}
			nCallers++
			r.Check(reachesDown(u.Fn), rule, "write failure drops the link: caller "+w.FnName(u.Fn), u.Pos(), "TCPDown on the caller's error path", "writeFrame no longer drops the link on a write failure and this caller does not either: a peer that stopped reading is never disconnected on this send path")
		}
		if nCallers == 0 {
			r.Undecided(rule, "writeFrame: TCPDown on write error", wf.Pos(), "no TCPDown in writeFrame and no callers found")
		}
	} else if len(downs) != 1 {
		r.Undecided(rule, "writeFrame: TCPDown on write error", wf.Pos(), "expected one TCPDown call, found %d", len(downs))
	} else {
		errOK, ctxOK := false, false
		for f := range facts[downs[0].Block()] {
			if x, eq, isCmp := isNilCmp(f.Cond); isCmp {
				if c, ok := x.(*ssa.Call); ok {
					if s.isTrMethod("Write")(calleeOf(c)) && eq != f.Val {
						errOK = true
					}
					if cal := calleeOf(c); cal.Method != nil && cal.Method.Name() == "Err" && eq == f.Val {
						ctxOK = true
					}
				}
			}
		}
		r.Check(errOK && ctxOK, rule, "writeFrame: write error ∧ generation live ⇒ TCPDown", downs[0].Pos(), "dominated by Write()≠nil ∧ e.ctx.Err()==nil", "a transport write failure must drop the link (once) so the reconnect loop takes over")
		// every path with Write()!=nil returns that error
		paths, ok := enumPaths(wf, 50000)
		good := ok
		nErr := 0
		for _, p := range paths {
			wrErr, cancelled := false, false
			for _, c := range p.Conds {
				if x, eq, isCmp := isNilCmp(c.Cond); isCmp {
					if cc, ok := x.(*ssa.Call); ok {
						if s.isTrMethod("Write")(calleeOf(cc)) && eq != c.Val {
							wrErr = true
						}
						if cal := calleeOf(cc); cal.Method != nil && cal.Method.Name() == "Err" && eq != c.Val {
							cancelled = true
						}
					}
				}
			}
			if !wrErr {
				continue
			}
			nErr++
			nd := len(p.Calls(isFn(w.Fn("hsms", "connection.TCPDown"))))
			if (nd == 1) == cancelled {
				good = false
			}
			if !strings.Contains(retErr(p), ".Write(") {
				good = false
			}
		}
		r.Check(good && nErr >= 2, rule, "writeFrame: on a write error TCPDown fires iff the generation is live and the error is returned", wf.Pos(), fmt.Sprintf("%d write-error paths", nErr), "write-error paths must call TCPDown exactly when e.ctx is not cancelled and return the write error")
	}
	// runT7: timer expiry ⇒ T7Expired; cancellation ⇒ nothing
	runT7 := w.Fn("hsmsss", "transport.runT7")
	r.Analysed(w.FnName(runT7))
	{
		paths, ok := enumPaths(runT7, 1000)
		good := ok
		nExp := 0
		for _, p := range paths {
			var sel *ssa.Select
			taken := -1
			for _, c := range p.Conds {
				if b, ok := c.Cond.(*ssa.BinOp); ok && b.Op == token.EQL && c.Val {
					if ex, ok := b.X.(*ssa.Extract); ok {
						if sl, ok := ex.Tuple.(*ssa.Select); ok {
							sel = sl
							k, _ := constInt(b.Y)
							taken = int(k)
						}
					}
				}
			}
			if sel == nil || taken < 0 || taken >= len(sel.States) {
				continue
			}
			isTimer := strings.HasSuffix(render(sel.States[taken].Chan), ".C")
			n := len(p.Calls(rtMethod("T7Expired")))
			if isTimer {
				nExp++
				if n != 1 {
					good = false
				}
			} else if n != 0 {
				good = false
			}
		}
		r.Check(good && nExp == 1, rule, "runT7: expiry ⇒ exactly one T7Expired, cancellation ⇒ none", runT7.Pos(), "timer case calls rt.T7Expired()", "the T7 dwell timer must report expiry (and only expiry) to the state machine")
	}
	// incReconnects: one call site
	inc := w.Fn("hsms", "ConnectionMetrics.incReconnects")
	n := 0
	for _, u := range w.usesOf(inc) {
		if w.IsProd(u.Fn) {
			n++
			r.Check(sameFn(u.Fn, w.Fn("hsms", "connection.connectLoop")), rule, "incReconnects called in "+w.FnName(u.Fn), u.Pos(), "only after a successful re-dial", "the reconnect counter may be bumped only by the reconnect loop")
		}
	}
	r.Floor(rule, "incReconnects call sites", n, 1)
	_ = types.Typ
}
