package main

import (
	"fmt"
	"go/token"
	"sort"
	"strings"

	"golang.org/x/tools/go/ssa"
)

func init() {
	register(&PropSpec{
		ID: "C19",
		Rules: []Rule{
			{Name: "C19-R1-reducers", Doc: "decision tables of linktestFailureStep and linktestDisconnectRecheck equal the suppression rules on every ordering of (recvNow vs sentAt, inflight vs 0, fails vs 0, recvNow vs recvAtLastFail) × suppression on/off", Run: c19Reducers},
			{Name: "C19-R2-loop-iteration", Doc: "decision table of ONE iteration of runLinktest (skip rules, probe, success reset, failure accounting with correctly ordered arguments and fresh re-reads, threshold, pre-disconnect re-check, TCPDown) incl. the loop-carried values handed to the next iteration", Run: c19LoopIteration},
			{Name: "C19-R3-configuration", Doc: "threshold option rejects <1 (default 3); interval ≤0 disables the prober; interval, suppression flag read once per Selected entry; the prober is started only on a genuine Selected commit and stopped on deselect/stop", Run: c19Config},
		},
		NotDec: []string{"wall-clock timing (≈ threshold × (interval + T6))", "stamp races the code documents as accepted", "peer behaviour end to end"},
	})
}

// oracle of the failure reducer (C19 statement + documented suppression rules)
func ltStepOracle(suppress bool, recvNow, sentAt, inflight, fails, ralf int64) (int64, int64, bool) {
	if suppress && (recvNow > sentAt || inflight > 0) {
		return 0, ralf, true
	}
	if suppress && fails > 0 && recvNow > ralf {
		return 1, recvNow, false
	}
	return fails + 1, recvNow, false
}

func ltRecheckOracle(suppress bool, inflight, recvNow, sentAt int64) bool {
	if !suppress {
		return true
	}
	return inflight <= 0 && recvNow <= sentAt
}

func b2i(b bool) int64 {
	if b {
		return 1
	}
	return 0
}

func c19Reducers(r *Run) {
	const rule = "C19-R1-reducers"
	w := r.W
	step := w.Fn("hsmsss", "linktestFailureStep")
	re := w.Fn("hsmsss", "linktestDisconnectRecheck")
	r.Analysed(w.FnName(step))
	r.Analysed(w.FnName(re))
	{
		dt, ok := newDT(step, 5000)
		if !ok || len(step.Params) != 6 {
			r.Undecided(rule, "linktestFailureStep", step.Pos(), "too many paths / unexpected signature")
		} else {
			P := func(i int) string { return "$" + step.Params[i].Name() }
			doms := []dom{{P(0), []int64{0, 1}}, {P(1), []int64{1, 2, 3}}, {P(2), []int64{1, 2, 3}}, {P(3), []int64{-1, 0, 1, 7}}, {P(4), []int64{0, 1, 2, 9}}, {P(5), []int64{0, 1, 2, 3}}}
			n := 0
			product(doms, func(env Env) {
				n++
				res := dt.Cell(env)
				construct := "linktestFailureStep(" + envString(env, domNames(doms)) + ")"
				if res.Err != "" {
					r.Undecided(rule, construct, res.Pos, "%s", res.Err)
					return
				}
				f, ra, cr := ltStepOracle(env[P(0)] != 0, env[P(1)], env[P(2)], env[P(3)], env[P(4)], env[P(5)])
				want := fmt.Sprintf("%d,%d,%d", f, ra, b2i(cr))
				got := strings.Join(res.Rets, ",")
				if got == want {
					r.OK(rule, construct, res.Pos, "→ (fails=%d, recvAtLastFail=%d, credited=%v)", f, ra, cr)
				} else {
					r.Fail(rule, construct, res.Pos, "returns (%s), the suppression rules require (%s)", got, want)
				}
			})
			r.Floor(rule, "linktestFailureStep cells", n, 1000)
		}
	}
	{
		dt, ok := newDT(re, 5000)
		if !ok || len(re.Params) != 4 {
			r.Undecided(rule, "linktestDisconnectRecheck", re.Pos(), "too many paths / unexpected signature")
		} else {
			P := func(i int) string { return "$" + re.Params[i].Name() }
			doms := []dom{{P(0), []int64{0, 1}}, {P(1), []int64{-1, 0, 1, 5}}, {P(2), []int64{1, 2, 3}}, {P(3), []int64{1, 2, 3}}}
			n := 0
			product(doms, func(env Env) {
				n++
				res := dt.Cell(env)
				construct := "linktestDisconnectRecheck(" + envString(env, domNames(doms)) + ")"
				if res.Err != "" {
					r.Undecided(rule, construct, res.Pos, "%s", res.Err)
					return
				}
				want := fmt.Sprint(b2i(ltRecheckOracle(env[P(0)] != 0, env[P(1)], env[P(2)], env[P(3)])))
				got := strings.Join(res.Rets, ",")
				if got == want {
					r.OK(rule, construct, res.Pos, "→ disconnect=%s", want)
				} else {
					r.Fail(rule, construct, res.Pos, "returns %s, the re-check rule requires %s", got, want)
				}
			})
			r.Floor(rule, "linktestDisconnectRecheck cells", n, 70)
		}
	}
}

func c19LoopIteration(r *Run) {
	const rule = "C19-R2-loop-iteration"
	w := r.W
	fn := w.Fn("hsmsss", "transport.runLinktest")
	r.Analysed(w.FnName(fn))
	step := w.Fn("hsmsss", "linktestFailureStep")
	re := w.Fn("hsmsss", "linktestDisconnectRecheck")
	sinceAct := w.Fn("hsmsss", "transport.sinceLastActivity")
	mono := w.Fn("hsmsss", "transport.monoNanos")
	newLT := w.Fn("hsms", "NewLinktestReq")
	fRecv := w.Field("hsmsss", "transport", "lastRecvStamp")
	sel := w.ConstInt("hsms", "SelectedState")

	hs := loopHeaders(fn)
	if len(hs) != 1 {
		r.Undecided(rule, "runLinktest: loop", fn.Pos(), "expected exactly one loop, found %d", len(hs))
		return
	}
	header := hs[0]
	paths, ok := enumIterPaths(fn, header, 20000)
	if !ok {
		r.Undecided(rule, "runLinktest: iteration paths", fn.Pos(), "too many paths")
		return
	}
	// loop-carried values: header phis; identify "fails" (int) and "recvAtLastFail" (int64) by
	// their role: the arguments 4 and 5 of the reducer call.
	var stepCall *ssa.Call
	eachInstr(fn, func(in ssa.Instruction) {
		if c, ok := in.(*ssa.Call); ok && isFn(step)(calleeOf(c)) {
			stepCall = c
		}
	})
	if stepCall == nil {
		r.Undecided(rule, "runLinktest: reducer call", fn.Pos(), "linktestFailureStep is not called")
		return
	}
	phiFails, _ := stepCall.Call.Args[4].(*ssa.Phi)
	phiRalf, _ := stepCall.Call.Args[5].(*ssa.Phi)
	if phiFails == nil || phiRalf == nil || phiFails.Block() != header || phiRalf.Block() != header {
		r.Fail(rule, "runLinktest: reducer receives the loop-carried (fails, recvAtLastFail)", stepCall.Pos(), "arguments 5 and 6 of linktestFailureStep must be the loop's consecutive-failure count and last-failure receive stamp (got %s, %s)", render(stepCall.Call.Args[4]), render(stepCall.Call.Args[5]))
		return
	}
	// order the three DataMsgInflight reads and two lastRecvStamp loads by dominance
	var infl, recvs []*ssa.Call
	eachInstr(fn, func(in ssa.Instruction) {
		c, ok := in.(*ssa.Call)
		if !ok {
			return
		}
		if c.Call.IsInvoke() && c.Call.Method.Name() == "DataMsgInflight" {
			infl = append(infl, c)
		}
		if callIsAtomicMethodOn(c, fRecv, "Load") {
			recvs = append(recvs, c)
		}
	})
	byDom := func(cs []*ssa.Call) {
		sort.SliceStable(cs, func(i, j int) bool { return instrDominates(cs[i], cs[j]) })
	}
	byDom(infl)
	byDom(recvs)
	if len(infl) != 3 || len(recvs) != 2 {
		r.Undecided(rule, "runLinktest: reads of inflight / receive stamp", fn.Pos(), "expected 3 DataMsgInflight reads and 2 lastRecvStamp loads (pre-probe, failure snapshot, fresh re-check), found %d/%d", len(infl), len(recvs))
		return
	}
	idxOf := func(cs []*ssa.Call, c *ssa.Call) int {
		for i, x := range cs {
			if x == c {
				return i
			}
		}
		return -1
	}
	sr := fn.Params[4]
	interval := fn.Params[3]
	ctx := fn.Params[1]
	dt := &DT{Fn: fn, Paths: paths}
	dt.Leaf = func(env Env, v ssa.Value, e *Evaluator) (int64, bool, bool) {
		switch x := v.(type) {
		case *ssa.Phi:
			if x == phiFails {
				return env["fails"], true, true
			}
			if x == phiRalf {
				return env["ralf"], true, true
			}
		case *ssa.Parameter:
			if x == sr {
				return env["sr"], true, true
			}
			if x == interval {
				return env["interval"], true, true
			}
		case *ssa.Extract:
			if s, ok := x.Tuple.(*ssa.Select); ok && x.Index == 0 && s.Blocking {
				// map select index to meaning: state k is ctx.Done or timer
				return env["sel"], true, true
			}
			if c, ok := x.Tuple.(*ssa.Call); ok {
				if rtMethod("WriteMessage")(calleeOf(c)) && x.Index == 1 {
					return env["err"], true, true
				}
				if isFn(step)(calleeOf(c)) {
					a := c.Call.Args
					var vals [6]int64
					for i := 0; i < 6; i++ {
						val, ok := e.Int(a[i])
						if !ok {
							return 0, false, true
						}
						vals[i] = val
					}
					f, ra, cr := ltStepOracle(vals[0] != 0, vals[1], vals[2], vals[3], vals[4], vals[5])
					return []int64{f, ra, b2i(cr)}[x.Index], true, true
				}
			}
		case *ssa.Call:
			cal := calleeOf(x)
			switch {
			case rtMethod("State")(cal):
				return env["state"], true, true
			case isFn(sinceAct)(cal):
				return env["idle"], true, true
			case isFn(mono)(cal):
				return env["sentAt"], true, true
			case rtMethod("LinktestFailThreshold")(cal):
				return env["thr"], true, true
			case cal.Method != nil && cal.Method.Name() == "DataMsgInflight":
				return env[fmt.Sprintf("inflight%d", idxOf(infl, x)+1)], true, true
			case callIsAtomicMethodOn(x, fRecv, "Load"):
				return env[fmt.Sprintf("recv%d", idxOf(recvs, x)+1)], true, true
			case cal.Method != nil && cal.Method.Name() == "Err" && x.Call.Value == ssa.Value(ctx):
				return env["ctxErr"], true, true
			case isFn(re)(cal):
				a := x.Call.Args
				var vals [4]int64
				for i := 0; i < 4; i++ {
					val, ok := e.Int(a[i])
					if !ok {
						return 0, false, true
					}
					vals[i] = val
				}
				return b2i(ltRecheckOracle(vals[0] != 0, vals[1], vals[2], vals[3])), true, true
			}
		}
		return 0, false, false
	}
	dt.Effect = func(in ssa.Instruction, e *Evaluator, p *Path) string {
		c, ok := in.(ssa.CallInstruction)
		if !ok {
			return ""
		}
		if _, isDefer := in.(*ssa.Defer); isDefer {
			return ""
		}
		cal := calleeOf(c)
		switch {
		case cal.Static != nil && strings.HasPrefix(cal.Static.Name(), "incLinktest"):
			return strings.TrimPrefix(cal.Static.Name(), "incLinktest")
		case cal.Static != nil && cal.Static.Name() == "Reset" && cal.Static.Pkg != nil && cal.Static.Pkg.Pkg.Path() == "time":
			v, ok := e.Int(c.Common().Args[1])
			if !ok {
				return "reset(?)"
			}
			return fmt.Sprintf("reset(%d)", v)
		case rtMethod("WriteMessage")(cal):
			a := c.Common().Args
			if isCallTo(stripConv(a[1]), isFn(newLT)) {
				// ordering: the send stamp is taken before the write, the receive stamp after it
				var monoCall ssa.Instruction
				for _, x := range p.Instrs() {
					if cc, ok := x.(*ssa.Call); ok && isFn(mono)(calleeOf(cc)) {
						monoCall = x
					}
				}
				if monoCall == nil || !instrDominates(monoCall, in) {
					return "probe(sentAt not read before the write)"
				}
				return "probe"
			}
			return "write(?)"
		case rtMethod("TCPDown")(cal):
			return "TCPDown"
		case rtMethod("SendAsync")(cal), rtMethod("SelectLost")(cal), rtMethod("CommitSelected")(cal):
			return cal.Method.Name()
		}
		return ""
	}
	// receive stamp / inflight reads must follow the write (fresh)
	var write ssa.Instruction
	eachInstr(fn, func(in ssa.Instruction) {
		if c, ok := in.(*ssa.Call); ok && rtMethod("WriteMessage")(calleeOf(c)) {
			write = in
		}
	})
	if write != nil {
		good := instrDominates(write, recvs[0]) && instrDominates(write, infl[1]) && instrDominates(stepCall, recvs[1]) && instrDominates(stepCall, infl[2])
		r.Check(good, rule, "runLinktest: failure snapshot read after the probe, re-check values re-read after the reducer", write.Pos(), "write ≺ (recvNow, inflight) ≺ reducer ≺ fresh (recvNow, inflight)", "the receive stamp / in-flight count must be read after the probe write, and read again for the pre-disconnect re-check")
	}

	doms := []dom{{"sel", []int64{0, 1}}, {"state", []int64{1, sel}}, {"sr", []int64{0, 1}}, {"idle", []int64{5, 10, 15}}, {"interval", []int64{10}},
		{"inflight1", []int64{0, 1}}, {"err", []int64{0, 1}}, {"ctxErr", []int64{0, 1}}, {"recv1", []int64{1, 3}}, {"sentAt", []int64{2}}, {"inflight2", []int64{0, 1}},
		{"fails", []int64{0, 1, 2}}, {"ralf", []int64{0, 3}}, {"thr", []int64{1, 3}}, {"recv2", []int64{1, 3}}, {"inflight3", []int64{0, 1}}}
	n, nOK := 0, 0
	reported := map[string]bool{}
	product(doms, func(env Env) {
		n++
		res := dt.Cell(env)
		construct := "runLinktest iteration(" + envString(env, domNames(doms)) + ")"
		if res.Err != "" {
			if !reported[res.Err] {
				reported[res.Err] = true
				r.Undecided(rule, construct, res.Pos, "%s", res.Err)
			}
			return
		}
		// oracle
		var want []string
		exit := "return"
		nf, nr := env["fails"], env["ralf"]
		func() {
			if env["sel"] == 0 || env["state"] != sel {
				return
			}
			s := env["sr"] != 0
			if s && env["idle"] < env["interval"] {
				want = append(want, "Suppressed", fmt.Sprintf("reset(%d)", env["interval"]-env["idle"]))
				exit = "loop"
				return
			}
			if s && env["inflight1"] > 0 {
				want = append(want, "Suppressed", fmt.Sprintf("reset(%d)", env["interval"]))
				exit = "loop"
				return
			}
			want = append(want, "Send", "probe")
			if env["err"] == 0 {
				want = append(want, "Recv", fmt.Sprintf("reset(%d)", env["interval"]))
				exit, nf = "loop", 0
				return
			}
			if env["ctxErr"] != 0 {
				return
			}
			want = append(want, "Err")
			i2 := int64(0)
			if s {
				i2 = env["inflight2"]
			}
			f, ra, cr := ltStepOracle(s, env["recv1"], env["sentAt"], i2, env["fails"], env["ralf"])
			if cr {
				want = append(want, "Credited")
			}
			if f >= env["thr"] {
				i3 := int64(0)
				if s {
					i3 = env["inflight3"]
				}
				if ltRecheckOracle(s, i3, env["recv2"], env["sentAt"]) {
					want = append(want, "TCPDown")
					return
				}
				want = append(want, "Credited", fmt.Sprintf("reset(%d)", env["interval"]))
				exit, nf, nr = "loop", 0, env["ralf"]
				return
			}
			want = append(want, fmt.Sprintf("reset(%d)", env["interval"]))
			exit, nf, nr = "loop", f, ra
		}()
		got := strings.Join(res.Effects, ";")
		gotExit := "return"
		if res.Path.Exit == nil {
			gotExit = "loop"
		}
		okCell := got == strings.Join(want, ";") && gotExit == exit
		detail := ""
		if okCell && exit == "loop" {
			e := dt.eval(env, res.Path, nil)
			gf, ok1 := e.Int(res.Path.NextIter(phiFails))
			gr, ok2 := e.Int(res.Path.NextIter(phiRalf))
			if !ok1 || !ok2 || gf != nf || gr != nr {
				okCell = false
				detail = fmt.Sprintf(" next iteration carries (fails=%d, recvAtLastFail=%d), required (%d, %d)", gf, gr, nf, nr)
			}
		}
		if okCell {
			nOK++
			if nOK <= 40 {
				r.OK(rule, construct, res.Pos, "[%s] → %s", got, exit)
			}
			return
		}
		key := got + "|" + strings.Join(want, ";") + gotExit + detail
		if !reported[key] {
			reported[key] = true
			r.Fail(rule, construct, res.Pos, "effects [%s] → %s;%s required [%s] → %s", got, gotExit, detail, strings.Join(want, ";"), exit)
		}
	})
	r.Stats[rule+":cells agreeing with the oracle"] = nOK
	if nOK == n {
		r.OK(rule, "runLinktest: all iteration cells", fn.Pos(), "%d cells agree with the oracle", n)
	}
	r.Floor(rule, "runLinktest iteration cells", n, 10000)
}

func c19Config(r *Run) {
	const rule = "C19-R3-configuration"
	w := r.W
	// option validation tables
	optionTable(r, rule, "hsms", "WithLinktestFailThreshold", "linktestFailThreshold", []int64{-5, 0, 1, 2, 10}, func(v int64) bool { return v < 1 })
	optionTable(r, rule, "hsms", "WithLinktestInterval", "linktestInterval", []int64{-1, 0, 1, 1000}, func(v int64) bool { return v < 0 })
	// default threshold 3, suppression default true
	def := w.Fn("hsms", "DefaultConnectionConfig")
	got := map[string]string{}
	eachInstr(def, func(in ssa.Instruction) {
		if st, ok := in.(*ssa.Store); ok {
			if fa, ok := st.Addr.(*ssa.FieldAddr); ok {
				got[fieldOf(fa).Name()] = render(st.Val)
			}
		}
	})
	r.Check(got["linktestFailThreshold"] == "3", rule, "default linktest failure threshold = 3", def.Pos(), "3", "default threshold must be 3, is "+got["linktestFailThreshold"])
	r.Check(got["linktestSuppression"] == "true", rule, "default linktest suppression = on", def.Pos(), "true", "suppression defaults to on, is "+got["linktestSuppression"])
	// accessors return the configured fields
	for _, acc := range []struct{ fn, field string }{{"connection.LinktestInterval", "linktestInterval"}, {"connection.LinktestFailThreshold", "linktestFailThreshold"}, {"connection.LinktestSuppression", "linktestSuppression"}} {
		f := w.Fn("hsms", acc.fn)
		ok := true
		for _, ret := range returnsOf(f) {
			if !strings.HasSuffix(render(ret.Results[0]), "."+acc.field) {
				ok = false
			}
		}
		r.Check(ok, rule, acc.fn+" returns cfg."+acc.field, f.Pos(), "live configuration", "accessor must return the configured "+acc.field)
	}
	// startLinktest: interval ≤ 0 ⇒ no goroutine; otherwise exactly one `go runLinktest(ctx, g, interval, sr)`
	sl := w.Fn("hsmsss", "transport.startLinktest")
	rl := w.Fn("hsmsss", "transport.runLinktest")
	r.Analysed(w.FnName(sl))
	dt, ok := newDT(sl, 5000)
	if !ok {
		r.Undecided(rule, "startLinktest", sl.Pos(), "too many paths")
		return
	}
	dt.Leaf = func(env Env, v ssa.Value, e *Evaluator) (int64, bool, bool) {
		switch x := v.(type) {
		case *ssa.Call:
			cal := calleeOf(x)
			if rtMethod("LinktestInterval")(cal) {
				return env["interval"], true, true
			}
			if cal.Method != nil && cal.Method.Name() == "LinktestSuppression" {
				return env["flag"], true, true
			}
		case *ssa.Extract:
			if _, ok := x.Tuple.(*ssa.TypeAssert); ok && x.Index == 1 {
				return env["cap"], true, true
			}
		case *ssa.UnOp:
			if x.Op == token.MUL {
				if fa, ok := x.X.(*ssa.FieldAddr); ok && fieldOf(fa).Name() == "linktestCancel" {
					return env["stale"], true, true
				}
			}
		}
		return 0, false, false
	}
	dt.Effect = func(in ssa.Instruction, e *Evaluator, p *Path) string {
		if g, ok := in.(*ssa.Go); ok {
			if isFn(rl)(calleeOf(g)) {
				a := g.Call.Args
				// interval passed is the value read once at entry; sr is nil unless capability ∧ flag
				srv := p.Resolve(a[4])
				srs := "sr"
				if c, ok := srv.(*ssa.Const); ok && c.IsNil() {
					srs = "nil"
				}
				if !isCallToMethod(a[3], "LinktestInterval") {
					return "go runLinktest(interval not the entry value)"
				}
				return "go runLinktest(" + srs + ")"
			}
			return "go ?"
		}
		if c, ok := in.(ssa.CallInstruction); ok {
			cal := calleeOf(c)
			if cal.Static != nil && baseName(cal.Static) == "Add" && strings.Contains(render(c.Common().Args[0]), ".linktest") {
				return "wg.Add"
			}
		}
		return ""
	}
	doms := []dom{{"interval", []int64{-1, 0, 1, 5000}}, {"cap", []int64{0, 1}}, {"flag", []int64{0, 1}}, {"stale", []int64{0, 1}}}
	product(doms, func(env Env) {
		res := dt.Cell(env)
		construct := "startLinktest(" + envString(env, domNames(doms)) + ")"
		if res.Err != "" {
			r.Undecided(rule, construct, res.Pos, "%s", res.Err)
			return
		}
		want := ""
		if env["interval"] > 0 {
			want = "wg.Add;go runLinktest(nil)"
			if env["cap"] == 1 && env["flag"] == 1 {
				want = "wg.Add;go runLinktest(sr)"
			}
		}
		got := strings.Join(res.Effects, ";")
		r.Check(got == want, rule, construct, res.Pos, "["+want+"]", fmt.Sprintf("effects [%s], required [%s] (interval ≤ 0 disables; suppression only with the capability and the flag)", got, want))
	})
	// LinktestInterval / LinktestSuppression are read exactly once in startLinktest and not in the loop
	n1 := len(callsIn(sl, rtMethod("LinktestInterval")))
	n2 := len(callsIn(rl, rtMethod("LinktestInterval"))) + len(callsIn(rl, func(c Callee) bool { return c.Method != nil && c.Method.Name() == "LinktestSuppression" }))
	r.Check(n1 == 1 && n2 == 0, rule, "interval and suppression flag are read once per Selected entry", sl.Pos(), "single read at prober start", "interval / suppression must be read once when the prober starts, not re-read in the loop")
	// who may start the prober: only after a successful CommitSelected
	for _, u := range w.usesOf(sl) {
		if !w.IsProd(u.Fn) {
			continue
		}
		facts := factsIn(u.Fn)
		ok := false
		for f := range facts[u.Instr.Block()] {
			if c, isC := f.Cond.(*ssa.Call); isC && rtMethod("CommitSelected")(calleeOf(c)) && f.Val {
				ok = true
			}
		}
		r.Check(ok, rule, "startLinktest in "+w.FnName(u.Fn)+" only on a genuine Selected commit", u.Pos(), "dominated by CommitSelected()==true", "the prober must start exactly when this generation enters Selected")
	}
}

// optionTable decides an option constructor `func WithX(v T) ConnOption` whose closure
// validates v and stores it: error ⇔ reject(v); on success the field receives v.
func optionTable(r *Run, rule, pkg, optName, field string, vals []int64, reject func(int64) bool) {
	w := r.W
	outer := w.Fn(pkg, optName)
	if len(outer.AnonFuncs) != 1 {
		r.Undecided(rule, optName, outer.Pos(), "expected one option closure")
		return
	}
	cl := outer.AnonFuncs[0]
	r.Analysed(w.FnName(cl))
	dt, ok := newDT(cl, 1000)
	if !ok {
		r.Undecided(rule, optName, cl.Pos(), "too many paths")
		return
	}
	if len(cl.FreeVars) != 1 {
		r.Undecided(rule, optName, cl.Pos(), "expected one captured argument")
		return
	}
	fv := cl.FreeVars[0]
	dt.Leaf = func(env Env, v ssa.Value, e *Evaluator) (int64, bool, bool) {
		// captured argument: either the FreeVar itself (by value) or a load of it (by reference)
		if v == ssa.Value(fv) {
			return env["v"], true, true
		}
		if u, ok := v.(*ssa.UnOp); ok && u.Op == token.MUL && u.X == ssa.Value(fv) {
			return env["v"], true, true
		}
		return 0, false, false
	}
	dt.Effect = func(in ssa.Instruction, e *Evaluator, p *Path) string {
		if st, ok := in.(*ssa.Store); ok {
			if fa, ok := st.Addr.(*ssa.FieldAddr); ok {
				if val, ok := e.Int(st.Val); ok {
					return fmt.Sprintf("%s=%d", fieldOf(fa).Name(), val)
				}
				return fieldOf(fa).Name() + "=?"
			}
		}
		return ""
	}
	for _, v := range vals {
		res := dt.Cell(Env{"v": v})
		construct := fmt.Sprintf("%s(%d)", optName, v)
		if res.Err != "" {
			r.Undecided(rule, construct, res.Pos, "%s", res.Err)
			continue
		}
		isNil := len(res.Rets) == 1 && res.Rets[0] == "0"
		got := strings.Join(res.Effects, ";")
		if reject(v) {
			r.Check(!isNil && got == "", rule, construct, res.Pos, "rejected, configuration untouched", fmt.Sprintf("must be rejected without storing (nil error=%v, stores [%s])", isNil, got))
		} else {
			want := fmt.Sprintf("%s=%d", field, v)
			r.Check(isNil && got == want, rule, construct, res.Pos, "accepted: "+want, fmt.Sprintf("must be accepted and stored (nil error=%v, stores [%s], want [%s])", isNil, got, want))
		}
	}
}
