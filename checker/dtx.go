package main

import (
	"fmt"
	"go/token"
	"strings"

	"golang.org/x/tools/go/ssa"
)

// DT is a decision-table view of one function: its entry→exit paths plus a rule-supplied
// interpretation of leaf terms (Leaf) and of effectful instructions (Effect).
//
// For a valuation (cell) of the leaf terms, Cell finds the path(s) whose branch conditions
// all hold and returns the ordered effect labels and evaluated results. This is a partition
// argument, not execution: the function's control decisions depend on its inputs only
// through the enumerated atoms, so agreement with an oracle on every cell of the partition
// is agreement on all inputs.
type DT struct {
	Fn    *ssa.Function
	Paths []*Path
	// Leaf gives values to leaf terms under env; handled=false falls through to structural
	// evaluation.
	Leaf func(env Env, v ssa.Value, e *Evaluator) (val int64, ok bool, handled bool)
	// Effect labels an instruction on a path ("" = not an effect).
	Effect func(in ssa.Instruction, e *Evaluator, p *Path) string
}

func newDT(fn *ssa.Function, maxPaths int) (*DT, bool) {
	paths, ok := enumPaths(fn, maxPaths)
	return &DT{Fn: fn, Paths: paths}, ok
}

func (d *DT) eval(env Env, p *Path, missing map[string]bool) *Evaluator {
	e := &Evaluator{Env: env, Missing: missing}
	if p != nil {
		e.Resolve = p.Resolve
	}
	if d.Leaf != nil {
		e.Leaf = func(v ssa.Value, ev *Evaluator) (int64, bool, bool) { return d.Leaf(env, v, ev) }
	}
	return e
}

type CellResult struct {
	Effects []string
	Rets    []string // evaluated ints as decimal, or rendered expression prefixed with "~"
	Path    *Path
	Pos     token.Pos
	Err     string
}

// Cell decides one cell.
func (d *DT) Cell(env Env) CellResult {
	missing := map[string]bool{}
	var hold []*Path
	undec := false
	for _, p := range d.Paths {
		e := d.eval(env, p, missing)
		h, ok := p.HoldsWith(e)
		if !ok {
			undec = true
			continue
		}
		if h {
			hold = append(hold, p)
		}
	}
	if undec {
		return CellResult{Err: fmt.Sprintf("branch atoms outside the rule's vocabulary: %v", keys(missing)), Pos: d.Fn.Pos()}
	}
	if len(hold) == 0 {
		return CellResult{Err: "no path satisfies the cell", Pos: d.Fn.Pos()}
	}
	var res CellResult
	for i, p := range hold {
		e := d.eval(env, p, nil)
		var eff []string
		pos := token.NoPos
		if d.Effect != nil {
			for _, in := range p.Instrs() {
				if l := d.Effect(in, e, p); l != "" {
					eff = append(eff, l)
					if !pos.IsValid() {
						pos = in.Pos()
					}
				}
			}
		}
		var rets []string
		for _, rv := range p.Rets() {
			if v, ok := e.Int(rv); ok {
				rets = append(rets, fmt.Sprintf("%d", v))
			} else {
				rets = append(rets, "~"+renderWith(rv, p.Resolve))
			}
		}
		if !pos.IsValid() && p.Exit != nil {
			pos = p.Exit.Pos()
		}
		if !pos.IsValid() {
			pos = d.Fn.Pos()
		}
		if p.Exit == nil {
			rets = append(rets, "loop")
		}
		if i == 0 {
			res = CellResult{Effects: eff, Rets: rets, Path: p, Pos: pos}
			continue
		}
		if strings.Join(eff, ";") != strings.Join(res.Effects, ";") || strings.Join(rets, ",") != strings.Join(res.Rets, ",") {
			return CellResult{Err: fmt.Sprintf("cell not deterministic in the rule's vocabulary: [%s]→%v vs [%s]→%v",
				strings.Join(res.Effects, ";"), res.Rets, strings.Join(eff, ";"), rets), Pos: pos}
		}
	}
	return res
}

// product enumerates the cartesian product of named domains.
func product(doms []dom, f func(Env)) {
	env := Env{}
	var rec func(i int)
	rec = func(i int) {
		if i == len(doms) {
			c := Env{}
			for k, v := range env {
				c[k] = v
			}
			f(c)
			return
		}
		for _, v := range doms[i].vals {
			env[doms[i].name] = v
			rec(i + 1)
		}
	}
	rec(0)
}

type dom struct {
	name string
	vals []int64
}

func envString(env Env, order []string) string {
	var parts []string
	for _, k := range order {
		parts = append(parts, fmt.Sprintf("%s=%d", strings.TrimPrefix(k, "$"), env[k]))
	}
	return strings.Join(parts, " ")
}

// isNilCmp: if v is `x == nil` / `x != nil`, returns x and whether the comparison is "== nil".
func isNilCmp(v ssa.Value) (x ssa.Value, eq bool, ok bool) {
	b, isB := v.(*ssa.BinOp)
	if !isB || (b.Op != token.EQL && b.Op != token.NEQ) {
		return nil, false, false
	}
	if c, isC := b.Y.(*ssa.Const); isC && c.IsNil() {
		return b.X, b.Op == token.EQL, true
	}
	if c, isC := b.X.(*ssa.Const); isC && c.IsNil() {
		return b.Y, b.Op == token.EQL, true
	}
	return nil, false, false
}
