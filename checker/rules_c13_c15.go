package main

import (
	"fmt"
	"go/constant"
	"go/token"
	"sort"
	"strings"

	"golang.org/x/tools/go/ssa"
)

func init() {
	register(&PropSpec{
		ID: "C13",
		Rules: []Rule{
			{Name: "C13-R1-escape-set", Doc: "inside a quoted run the strict encoder backslash-escapes the quote character actually in use (the parameter, not a fixed one), the backslash, and every character the strict parser treats specially inside a run ('>' ends the item unless escaped)", Run: c13EscapeSet},
			{Name: "C13-R2-numeric-tokens", Doc: "bytes outside [0x20,0x7F) leave the run and are written as 0xHH (high nibble then low nibble, upper-case hex digits); the strict parser reads numeric tokens with base-0 ParseUint, bounds them by 255 and writes each as one byte in every branch that ends a token", Run: c13NumericTokens},
			{Name: "C13-R3-float-precision", Doc: "floats are rendered with 'G' and at least 9 (F4) / 17 (F8) significant digits at the item's own bit size, and parsed with ParseFloat at byteSize*8 bits", Run: c13FloatPrecision},
			{Name: "C13-R4-header-tokens", Doc: "the header writer emits S<stream>F<function> and ' W' for the wait bit, with the configured S/F quote on both sides; the parser reads exactly those tokens", Run: c13Header},
		},
		NotDec:  []string{"the round trip itself on all messages and option combinations", "NaN payloads, JIS-8 and localized text"},
		Trusted: []string{"strconv.FormatFloat/ParseFloat shortest-round-trip guarantees at 9/17 digits"},
	})
	register(&PropSpec{
		ID: "C15",
		Rules: []Rule{
			{Name: "C15-R1-number-formatting", Doc: "for every numeric family the item's own ToSML and the encoder use the same strconv conversion (signedness, base 10, 'G', precision 9/17, bit size 8·width), and inside ToSML the single-value branch and the multi-value branch use the same one", Run: c15NumberFormatting},
			{Name: "C15-R2-list-layout", Doc: "both list renderers write the indentation before every list opener — the empty list '<L[0]>' included — use two spaces per level by default, put non-list children one level deeper and close with the parent's indentation", Run: c15ListLayout},
			{Name: "C15-R3-defaults", Doc: "NewEncoder's defaults are the constants baked into ToSML: double quote, hex binary, two-space indent, unquoted S/F", Run: c15Defaults},
		},
		NotDec:  []string{"byte equality of the two renderings on all item trees (separator placement inside value lists, recursion)"},
		Trusted: nil,
	})
}

// ---------- C13 ----------

func runeConstOf(v ssa.Value) (int64, bool) { return constInt(v) }

func c13EscapeSet(r *Run) {
	const rule = "C13-R1-escape-set"
	w := r.W
	enc := w.Fn("sml", "writeStrictASCII")
	par := w.Fn("sml", "Parser.parseASCIIStrict")
	r.Analysed(w.FnName(enc))
	r.Analysed(w.FnName(par))
	var quote *ssa.Parameter
	for _, p := range enc.Params {
		if typeBits(p.Type()) == 8 {
			quote = p
		}
	}
	if quote == nil {
		bail("writeStrictASCII: quote parameter not found")
	}
	// the escape write: WriteByte('\\')
	var esc ssa.Instruction
	eachInstr(enc, func(in ssa.Instruction) {
		if c, ok := in.(*ssa.Call); ok && calleeOf(c).Static != nil && calleeOf(c).Static.Name() == "WriteByte" {
			if k, ok := constInt(c.Call.Args[len(c.Call.Args)-1]); ok && k == '\\' {
				esc = in
			}
		}
	})
	if esc == nil {
		r.Fail(rule, "writeStrictASCII writes an escaping backslash", enc.Pos(), "no WriteByte('\\\\') found: nothing is escaped inside a quoted run")
		return
	}
	// comparisons of the current byte whose true edge leads straight to the escape write
	encSet := map[string]bool{}
	for _, b := range enc.Blocks {
		iff, ok := b.Instrs[len(b.Instrs)-1].(*ssa.If)
		if !ok {
			continue
		}
		bo, ok := iff.Cond.(*ssa.BinOp)
		if !ok || bo.Op != token.EQL || b.Succs[0] != esc.Block() {
			continue
		}
		for _, pr := range [][2]ssa.Value{{bo.X, bo.Y}, {bo.Y, bo.X}} {
			if pr[1] == ssa.Value(quote) || render(pr[1]) == "*$"+quote.Name() || render(pr[1]) == "$"+quote.Name() {
				encSet["quote"] = true
			} else if k, ok := constInt(pr[1]); ok && typeBits(pr[0].Type()) == 8 {
				encSet[fmt.Sprintf("%q", rune(k))] = true
			}
		}
	}
	r.Check(encSet["quote"], rule, "writeStrictASCII escapes the quote character in use", esc.Pos(), "c == quote (the parameter)", "the character that is escaped must be the quote the run is delimited with — with another style selected the run would end early")
	r.Check(encSet[`'\\'`], rule, "writeStrictASCII escapes the backslash", esc.Pos(), "c == '\\\\'", "an unescaped backslash would swallow the next character")
	// the backslash and the byte it escapes are adjacent in the output: on every path from the escape
	// write the next effect on the builder is the write of the byte itself — no separator, no opening
	// or closing quote in between (a backslash written before the run is opened lands outside it)
	{
		isRawWrite := func(c *ssa.Call) bool {
			if calleeOf(c).Static == nil || calleeOf(c).Static.Name() != "WriteByte" {
				return false
			}
			a := c.Call.Args[len(c.Call.Args)-1]
			_, isIdx := a.(*ssa.Index)
			return isIdx && !strings.Contains(render(a), "0123456789")
		}
		bad := ""
		seen := map[*ssa.BasicBlock]bool{}
		var walk func(b *ssa.BasicBlock, from int)
		walk = func(b *ssa.BasicBlock, from int) {
			for i := from; i < len(b.Instrs); i++ {
				switch in := b.Instrs[i].(type) {
				case *ssa.Call:
					if !isRawWrite(in) && bad == "" {
						bad = r.W.Pos(in.Pos()) + " " + render(in)
					}
					return
				case *ssa.Return:
					if bad == "" {
						bad = r.W.Pos(in.Pos()) + " return"
					}
					return
				case *ssa.Store, *ssa.Go, *ssa.Defer:
					_ = in
				}
			}
			for _, s := range b.Succs {
				if !seen[s] {
					seen[s] = true
					walk(s, 0)
				}
			}
		}
		for i, in := range esc.Block().Instrs {
			if in == esc {
				walk(esc.Block(), i+1)
			}
		}
		r.Check(bad == "", rule, "writeStrictASCII: the escaping backslash is followed at once by the byte it escapes", esc.Pos(), "next builder effect after WriteByte('\\\\') is WriteByte(s[i])", "something else reaches the output between the backslash and the escaped byte ("+bad+"): the backslash then escapes the wrong character or lands outside the quoted run")
	}
	// parser: characters tested inside a quoted run
	parSet := map[string]bool{}
	for _, b := range par.Blocks {
		iff, ok := b.Instrs[len(b.Instrs)-1].(*ssa.If)
		if !ok {
			continue
		}
		bo, ok := iff.Cond.(*ssa.BinOp)
		if !ok || bo.Op != token.EQL {
			continue
		}
		// inside the quoted-run state: dominated by isQuoteStr == true
		inRun := false
		for _, f := range bndMustFacts(par)[b] {
			if f.Val && strings.Contains(render(f.Cond), "isQuoteStr") {
				inRun = true
			}
			if phi, ok := f.Cond.(*ssa.Phi); ok && f.Val && phi.Comment == "isQuoteStr" {
				inRun = true
			}
		}
		if !inRun {
			continue
		}
		for _, pr := range [][2]ssa.Value{{bo.X, bo.Y}, {bo.Y, bo.X}} {
			if k, ok := constInt(pr[1]); ok && typeBits(pr[0].Type()) == 32 {
				parSet[fmt.Sprintf("%q", rune(k))] = true
			} else if ph, ok := pr[1].(*ssa.Phi); ok && ph.Comment == "quoteChar" {
				parSet["quote"] = true
			}
		}
	}
	var names []string
	for k := range parSet {
		names = append(names, k)
	}
	sort.Strings(names)
	r.Floor(rule, "characters the strict parser treats specially inside a run", len(parSet), 3)
	for _, k := range names {
		r.Check(encSet[k], rule, "in-run special character "+k+" of the parser is escaped by the encoder", esc.Pos(), "escaped", "the parser gives "+k+" a meaning inside a quoted run, so the encoder must escape it (or keep it out of runs)")
	}
}

func c13NumericTokens(r *Run) {
	const rule = "C13-R2-numeric-tokens"
	w := r.W
	enc := w.Fn("sml", "writeStrictASCII")
	// printable range test: c >= 0x20 && c < 0x7f
	lo, hi := false, false
	eachInstr(enc, func(in ssa.Instruction) {
		if b, ok := in.(*ssa.BinOp); ok && typeBits(b.X.Type()) == 8 {
			if k, ok := constInt(b.Y); ok {
				if (b.Op == token.GEQ && k == 0x20) || (b.Op == token.LSS && k == 0x20) {
					lo = true
				}
				if (b.Op == token.LSS && k == 0x7f) || (b.Op == token.GEQ && k == 0x7f) {
					hi = true
				}
			}
		}
	})
	r.Check(lo && hi, rule, "writeStrictASCII: runs hold exactly the bytes in [0x20, 0x7F)", enc.Pos(), "c >= 0x20 && c < 0x7f", "control bytes, DEL and bytes ≥ 0x80 must leave the quoted run")
	// … and the two branches are the right way round: the byte itself is written only where it was
	// found printable, the 0x token only where it was not
	{
		facts := bndMustFacts(enc)
		printableAt := func(b *ssa.BasicBlock) (geLo, ltHi bool) {
			for _, f := range facts[b] {
				bo, ok := f.Cond.(*ssa.BinOp)
				if !ok || typeBits(bo.X.Type()) != 8 {
					continue
				}
				k, isK := constInt(bo.Y)
				if !isK {
					continue
				}
				switch {
				case k == 0x20 && ((bo.Op == token.GEQ && f.Val) || (bo.Op == token.LSS && !f.Val)):
					geLo = true
				case k == 0x7f && ((bo.Op == token.LSS && f.Val) || (bo.Op == token.GEQ && !f.Val)):
					ltHi = true
				}
			}
			return
		}
		nRaw, nTok := 0, 0
		eachInstr(enc, func(in ssa.Instruction) {
			c, ok := in.(*ssa.Call)
			if !ok || calleeOf(c).Static == nil || calleeOf(c).Static.Name() != "WriteByte" {
				return
			}
			a := c.Call.Args[len(c.Call.Args)-1]
			geLo, ltHi := printableAt(c.Block())
			if _, isIdx := a.(*ssa.Index); isIdx && !strings.Contains(render(a), "0123456789") {
				// the byte of s itself
				if _, isK := constInt(a); !isK {
					nRaw++
					r.Check(geLo && ltHi, rule, "writeStrictASCII: a byte is written raw only when it was found printable", c.Pos(), "under c ≥ 0x20 ∧ c < 0x7F", "a control byte or a byte ≥ 0x80 would be written inside a quoted run, where the parser reads runes, not bytes")
				}
			}
			if k, isK := constInt(a); isK && k == 'x' {
				nTok++
				r.Check(!(geLo && ltHi), rule, "writeStrictASCII: the 0x token is written for the bytes that are not printable", c.Pos(), "not under c ≥ 0x20 ∧ c < 0x7F", "printable bytes are written as numeric tokens and the others raw: the branches are the wrong way round")
			}
		})
		r.Check(nRaw >= 1 && nTok >= 1, rule, "writeStrictASCII writes both forms", enc.Pos(), "raw byte and 0x token", fmt.Sprintf("raw writes %d, token writes %d", nRaw, nTok))
	}
	// 0x, hex[c>>4], hex[c&0x0f] with hex = "0123456789ABCDEF"
	var seq []string
	eachInstr(enc, func(in ssa.Instruction) {
		c, ok := in.(*ssa.Call)
		if !ok || calleeOf(c).Static == nil || calleeOf(c).Static.Name() != "WriteByte" {
			return
		}
		a := c.Call.Args[len(c.Call.Args)-1]
		if k, ok := constInt(a); ok {
			seq = append(seq, fmt.Sprintf("%q", rune(k)))
			return
		}
		if ix, ok := a.(*ssa.Index); ok {
			if s, ok := ix.X.(*ssa.Const); ok && s.Value.Kind() == constant.String {
				seq = append(seq, constant.StringVal(s.Value)+"["+render(ix.Index)+"]")
			}
		}
	})
	joined := strings.Join(seq, " ")
	okHex := strings.Contains(joined, `'0' 'x' 0123456789ABCDEF[`) && strings.Contains(joined, ">> 4") && strings.Contains(joined, "& 15")
	hiFirst := strings.Index(joined, ">> 4") < strings.Index(joined, "& 15")
	r.Check(okHex && hiFirst, rule, "writeStrictASCII: a non-printable byte is written as 0x, high nibble, low nibble", enc.Pos(), "0xHH", "the numeric token must be 0x followed by the two hex digits of the byte, high first: "+joined)
	// parser: every ParseUint result in parseASCIIStrict is bounded by 255 and written with WriteByte(byte(val))
	par := w.Fn("sml", "Parser.parseASCIIStrict")
	n := 0
	eachInstr(par, func(in ssa.Instruction) {
		c, ok := in.(*ssa.Call)
		if !ok || calleeOf(c).Static == nil || fnPkgPath(calleeOf(c).Static) != "strconv" || calleeOf(c).Static.Name() != "ParseUint" {
			return
		}
		n++
		base, _ := constInt(c.Call.Args[1])
		r.Check(base == 0, rule, "parseASCIIStrict: numeric token parsed with base 0 (accepts the 0x form)", c.Pos(), "ParseUint(s, 0, …)", fmt.Sprintf("base %d would reject the encoder's 0xHH tokens", base))
		// the value extract and its uses
		var val *ssa.Extract
		for _, ref := range *c.Referrers() {
			if ex, ok := ref.(*ssa.Extract); ok && ex.Index == 0 {
				val = ex
			}
		}
		if val == nil {
			r.Fail(rule, "parseASCIIStrict: numeric token value used", c.Pos(), "the parsed value is discarded")
			return
		}
		bounded, asByte, asRune := false, false, false
		for _, ref := range *val.Referrers() {
			switch x := ref.(type) {
			case *ssa.BinOp:
				if k, ok := constInt(x.Y); ok && k == 255 && x.Op == token.GTR {
					bounded = true
				}
			case *ssa.Convert:
				for _, r2 := range *x.Referrers() {
					if cc, ok := r2.(*ssa.Call); ok && calleeOf(cc).Static != nil {
						switch calleeOf(cc).Static.Name() {
						case "WriteByte":
							if typeBits(x.Type()) == 8 {
								asByte = true
							}
						case "WriteRune":
							asRune = true
						}
					}
				}
			}
		}
		r.Check(bounded, rule, "parseASCIIStrict: numeric token bounded by 255", c.Pos(), "val > 255 rejected", "a token above 255 is not a byte")
		r.Check(asByte && !asRune, rule, "parseASCIIStrict: numeric token stored as one byte", c.Pos(), "WriteByte(byte(val))", "a value ≥ 0x80 written as a rune becomes two UTF-8 bytes: the item would not round-trip")
	})
	r.Floor(rule, "numeric-token parse sites in parseASCIIStrict", n, 2)
}

// floatFormatCalls lists (callee, fmt, precision, bits) of strconv float formatting calls in fn.
type fmtCall struct {
	name, fmtc, prec, bits string
	pos                    token.Pos
}

func floatFormatCalls(fn *ssa.Function) []fmtCall {
	var out []fmtCall
	eachInstrDeep(fn, func(in ssa.Instruction) {
		c, ok := in.(*ssa.Call)
		if !ok || calleeOf(c).Static == nil || fnPkgPath(calleeOf(c).Static) != "strconv" {
			return
		}
		n := calleeOf(c).Static.Name()
		if n != "FormatFloat" && n != "AppendFloat" {
			return
		}
		a := c.Call.Args
		off := 0
		if n == "AppendFloat" {
			off = 1
		}
		out = append(out, fmtCall{n, render(a[off+1]), render(a[off+2]), render(a[off+3]), c.Pos()})
	})
	return out
}

// precisionPairs: the constant values a precision expression can take, paired with the width
// decision that selects them (rendered).
func constsOf(v ssa.Value) []int64 {
	var out []int64
	seen := map[ssa.Value]bool{}
	var walk func(v ssa.Value)
	walk = func(v ssa.Value) {
		if seen[v] {
			return
		}
		seen[v] = true
		if k, ok := constInt(v); ok {
			out = append(out, k)
			return
		}
		if phi, ok := v.(*ssa.Phi); ok {
			for _, e := range phi.Edges {
				walk(e)
			}
		}
		if cv, ok := v.(*ssa.Convert); ok {
			walk(cv.X)
		}
		// a variable captured by a closure (range-over-func loop body): what the enclosing
		// function binds / stores into it
		if ld, ok := v.(*ssa.UnOp); ok && ld.Op == token.MUL {
			if fv, ok := ld.X.(*ssa.FreeVar); ok {
				for _, b := range freeVarBindings(fv) {
					if a, ok := b.(*ssa.Alloc); ok {
						for _, ref := range *a.Referrers() {
							if st, ok := ref.(*ssa.Store); ok && st.Addr == ssa.Value(a) {
								walk(st.Val)
							}
						}
					} else {
						walk(b)
					}
				}
			}
		}
		if fv, ok := v.(*ssa.FreeVar); ok {
			for _, b := range freeVarBindings(fv) {
				walk(b)
			}
		}
		if b, ok := v.(*ssa.BinOp); ok && b.Op == token.MUL {
			// width*8: report the products of the constant factors
			xs, ys := constsOf(b.X), constsOf(b.Y)
			for _, x := range xs {
				for _, y := range ys {
					out = append(out, x*y)
				}
			}
		}
	}
	walk(v)
	sort.Slice(out, func(i, j int) bool { return out[i] < out[j] })
	return out
}

// freeVarBindings: the values the enclosing function binds to a closure's free variable.
func freeVarBindings(fv *ssa.FreeVar) []ssa.Value {
	fn := fv.Parent()
	idx := -1
	for i, f := range fn.FreeVars {
		if f == fv {
			idx = i
		}
	}
	if idx < 0 || fn.Parent() == nil {
		return nil
	}
	var out []ssa.Value
	eachInstr(fn.Parent(), func(in ssa.Instruction) {
		if mc, ok := in.(*ssa.MakeClosure); ok && mc.Fn == ssa.Value(fn) && idx < len(mc.Bindings) {
			out = append(out, mc.Bindings[idx])
		}
	})
	return out
}

func checkFloatFormat(r *Run, rule, who string, fn *ssa.Function) int {
	n := 0
	eachInstrDeep(fn, func(in ssa.Instruction) {
		c, ok := in.(*ssa.Call)
		if !ok || calleeOf(c).Static == nil || fnPkgPath(calleeOf(c).Static) != "strconv" {
			return
		}
		name := calleeOf(c).Static.Name()
		if name != "FormatFloat" && name != "AppendFloat" {
			return
		}
		n++
		a := c.Call.Args
		off := 0
		if name == "AppendFloat" {
			off = 1
		}
		f, _ := constInt(a[off+1])
		r.Check(f == 'G', rule, who+": floats rendered with format 'G'", c.Pos(), "'G'", fmt.Sprintf("format %q", rune(f)))
		ps := constsOf(a[off+2])
		r.Check(len(ps) == 2 && ps[0] == 9 && ps[1] == 17, rule, who+": precision is 9 digits for F4 and 17 for F8", c.Pos(), "9 / 17", fmt.Sprintf("precisions %v: fewer digits do not identify every float32/float64 uniquely (values would parse back changed)", ps))
		// bit size: 8 × the element width — a constant 32/64 pair or an expression ×8 of the width
		bits := a[off+3]
		bs := constsOf(bits)
		okBits := (len(bs) == 2 && bs[0] == 32 && bs[1] == 64) || strings.Contains(render(bits), "* 8") || strings.Contains(render(bits), "8 *")
		r.Check(okBits, rule, who+": formatted at the item's own bit size", c.Pos(), "32 for F4, 64 for F8", "an F4 element must be rounded to float32 for formatting (bit size 32), got "+render(bits))
	})
	return n
}

func c13FloatPrecision(r *Run) {
	const rule = "C13-R3-float-precision"
	w := r.W
	ef := w.Fn("sml", "Encoder.encodeFloat")
	r.Analysed(w.FnName(ef))
	n := checkFloatFormat(r, rule, "Encoder.encodeFloat", ef)
	r.Floor(rule, "float formatting calls in the encoder", n, 1)
	pf := w.Fn("sml", "Parser.parseFloat")
	r.Analysed(w.FnName(pf))
	m := 0
	eachInstr(pf, func(in ssa.Instruction) {
		c, ok := in.(*ssa.Call)
		if !ok || calleeOf(c).Static == nil || calleeOf(c).Static.Name() != "ParseFloat" {
			return
		}
		m++
		s := render(c.Call.Args[1])
		r.Check(strings.Contains(s, "$byteSize") && strings.Contains(s, "8"), rule, "Parser.parseFloat parses at byteSize*8 bits", c.Pos(), s, "an F4 text must be parsed as a 32-bit float (range check and rounding), got "+s)
	})
	r.Floor(rule, "ParseFloat calls in the parser", m, 1)
}

func c13Header(r *Run) {
	const rule = "C13-R4-header-tokens"
	w := r.W
	wh := w.Fn("sml", "Encoder.writeHeader")
	r.Analysed(w.FnName(wh))
	var seq []string
	eachInstr(wh, func(in ssa.Instruction) {
		c, ok := in.(*ssa.Call)
		if !ok || calleeOf(c).Static == nil {
			return
		}
		switch calleeOf(c).Static.Name() {
		case "WriteByte":
			if k, ok := constInt(c.Call.Args[len(c.Call.Args)-1]); ok {
				seq = append(seq, string(rune(k)))
			}
		case "WriteString":
			a := c.Call.Args[len(c.Call.Args)-1]
			if s, ok := a.(*ssa.Const); ok && s.Value.Kind() == constant.String {
				seq = append(seq, constant.StringVal(s.Value))
			} else if strings.Contains(render(a), "Stream()") {
				seq = append(seq, "<stream>")
			} else if strings.Contains(render(a), "Function()") {
				seq = append(seq, "<function>")
			}
		case "writeSFQuote":
			seq = append(seq, "<q>")
		}
	})
	got := strings.Join(seq, "")
	r.Check(got == "<q>S<stream>F<function><q> W", rule, "writeHeader emits q S<stream> F<function> q [ W]", wh.Pos(), got, "the header must be S<stream>F<function> with the S/F quote on both sides and ' W' for the wait bit, emits "+got)
	// ' W' only under WaitBit()
	okW := false
	eachInstr(wh, func(in ssa.Instruction) {
		if c, ok := in.(*ssa.Call); ok && calleeOf(c).Static != nil && calleeOf(c).Static.Name() == "WriteString" {
			if s, ok := c.Call.Args[len(c.Call.Args)-1].(*ssa.Const); ok && s.Value.Kind() == constant.String && constant.StringVal(s.Value) == " W" {
				for _, f := range bndMustFacts(wh)[c.Block()] {
					if f.Val && strings.Contains(render(f.Cond), "WaitBit()") {
						okW = true
					}
				}
			}
		}
	})
	r.Check(okW, rule, "writeHeader: ' W' exactly when the wait bit is set", wh.Pos(), "guarded by msg.WaitBit()", "the W token must reflect the message's wait bit")
	ph := w.Fn("sml", "Parser.parseHSMSHeader")
	r.Analysed(w.FnName(ph))
	need := map[int64]bool{'S': false, 'F': false, 'W': false, '\'': false, '"': false}
	eachInstr(ph, func(in ssa.Instruction) {
		if b, ok := in.(*ssa.BinOp); ok && (b.Op == token.EQL || b.Op == token.NEQ) {
			if k, ok := constInt(b.Y); ok {
				if _, want := need[k]; want {
					need[k] = true
				}
			}
		}
	})
	for k, ok := range need {
		r.Check(ok, rule, fmt.Sprintf("parseHSMSHeader recognises %q", rune(k)), ph.Pos(), "token tested", "the parser must accept every token the header writer can emit")
	}
}

// ---------- C15 ----------

// intFormatCalls: strconv integer formatting calls in fn: name and base.
func intFormatCalls(fn *ssa.Function) []string {
	var out []string
	eachInstrDeep(fn, func(in ssa.Instruction) {
		c, ok := in.(*ssa.Call)
		if !ok || calleeOf(c).Static == nil || fnPkgPath(calleeOf(c).Static) != "strconv" {
			return
		}
		n := calleeOf(c).Static.Name()
		switch n {
		case "FormatInt", "FormatUint", "AppendInt", "AppendUint":
			base := render(c.Call.Args[len(c.Call.Args)-1])
			kind := strings.TrimPrefix(strings.TrimPrefix(n, "Format"), "Append")
			out = append(out, kind+"/base "+base)
		}
	})
	return out
}

func c15NumberFormatting(r *Run) {
	const rule = "C15-R1-number-formatting"
	w := r.W
	for _, fam := range []struct{ typ, encFn, kind string }{{"IntItem", "Encoder.encodeInt", "Int/base 10"}, {"UintItem", "Encoder.encodeUint", "Uint/base 10"}} {
		ts := w.Fn("secs2", fam.typ+".ToSML")
		ef := w.Fn("sml", fam.encFn)
		r.Analysed(w.FnName(ts))
		r.Analysed(w.FnName(ef))
		tc := intFormatCalls(ts)
		ec := intFormatCalls(ef)
		okT := len(tc) >= 2
		for _, c := range tc {
			if c != fam.kind {
				okT = false
			}
		}
		r.Check(okT, rule, fam.typ+".ToSML: every element (single-value and multi-value branch) is formatted as "+fam.kind, ts.Pos(), strings.Join(tc, ", "), "the branches of one renderer disagree or use the wrong signedness: "+strings.Join(tc, ", ")+" — an unsigned value ≥ 2^63 would print negative")
		okE := len(ec) >= 1
		for _, c := range ec {
			if c != fam.kind {
				okE = false
			}
		}
		r.Check(okE, rule, fam.encFn+": elements formatted as "+fam.kind, ef.Pos(), strings.Join(ec, ", "), "the configurable encoder must format like ToSML: "+strings.Join(ec, ", "))
	}
	// floats: both renderers 'G', 9/17, bit size 8·width
	ts := w.Fn("secs2", "FloatItem.ToSML")
	r.Analysed(w.FnName(ts))
	n := checkFloatFormat(r, rule, "FloatItem.ToSML", ts)
	r.Check(n == 2, rule, "FloatItem.ToSML: single-value and multi-value branch both format through strconv", ts.Pos(), "2 calls", fmt.Sprintf("%d calls", n))
	m := checkFloatFormat(r, rule, "Encoder.encodeFloat", w.Fn("sml", "Encoder.encodeFloat"))
	r.Floor(rule, "float formatting calls in the encoder", m, 1)
	// booleans and binary: literal agreement
	lits := func(fn *ssa.Function) map[string]bool {
		out := map[string]bool{}
		eachInstrDeep(fn, func(in ssa.Instruction) {
			for _, op := range in.Operands(nil) {
				if c, ok := (*op).(*ssa.Const); ok && c.Value != nil && c.Value.Kind() == constant.String {
					out[constant.StringVal(c.Value)] = true
				}
			}
		})
		return out
	}
	bt := lits(w.Fn("secs2", "BooleanItem.ToSML"))
	be := lits(w.Fn("sml", "Encoder.encodeBoolean"))
	for _, tok := range []string{"True", "False"} {
		has := func(m map[string]bool) bool {
			for k := range m {
				if strings.Contains(k, tok) {
					return true
				}
			}
			return false
		}
		r.Check(has(bt) && has(be), rule, "boolean "+tok+" spelled the same by both renderers", w.Fn("sml", "Encoder.encodeBoolean").Pos(), tok, "both renderers must write "+tok)
	}
}

// literalSeq: per return path of fn, the ordered constant strings/bytes written (dynamic parts
// as placeholders), restricted to paths satisfying pick.
func writeSeqOnPath(p *Path) []string {
	var seq []string
	for _, in := range p.Instrs() {
		c, ok := in.(*ssa.Call)
		if !ok || calleeOf(c).Static == nil {
			continue
		}
		a := c.Call.Args
		switch calleeOf(c).Static.Name() {
		case "WriteString":
			v := a[len(a)-1]
			if s, ok := v.(*ssa.Const); ok && s.Value.Kind() == constant.String {
				seq = append(seq, fmt.Sprintf("%q", constant.StringVal(s.Value)))
			} else {
				seq = append(seq, "‹"+shortRender(v)+"›")
			}
		case "WriteByte":
			if k, ok := constInt(a[len(a)-1]); ok {
				seq = append(seq, fmt.Sprintf("%q", string(rune(k))))
			}
		}
	}
	return seq
}

func c15ListLayout(r *Run) {
	const rule = "C15-R2-list-layout"
	w := r.W
	el := w.Fn("sml", "Encoder.encodeList")
	r.Analysed(w.FnName(el))
	paths, ok := enumPaths(el, 5000)
	if !ok {
		r.Undecided(rule, "encodeList paths", el.Pos(), "too many")
		return
	}
	nEmpty := 0
	for _, p := range paths {
		if _, isRet := p.Exit.(*ssa.Return); !isRet {
			continue
		}
		seq := writeSeqOnPath(p)
		joined := strings.Join(seq, " ")
		if strings.Contains(joined, `"<L[0]>"`) {
			nEmpty++
			// the indentation string (strings.Repeat(e.indent, level)) is written immediately before
			idx := -1
			for i, s := range seq {
				if s == `"<L[0]>"` {
					idx = i
				}
			}
			okInd := idx >= 1 && strings.Contains(seq[idx-1], "Repeat(") && strings.Contains(seq[idx-1], "level")
			r.Check(okInd, rule, "Encoder.encodeList: an empty list is written as indentation + \"<L[0]>\"", p.Exit.Pos(), joined, "ToSML indents a nested empty list; the encoder must write the same indentation first: "+joined)
		} else if strings.Contains(joined, `"<L["`) {
			first := seq[0]
			last := seq[len(seq)-1]
			okOpen := strings.Contains(first, "Repeat(") && strings.Contains(first, "level")
			okClose := last == `">"` && len(seq) >= 2 && strings.Contains(seq[len(seq)-2], "Repeat(")
			r.Check(okOpen && okClose, rule, "Encoder.encodeList: opener and closer carry the list's own indentation", p.Exit.Pos(), "indent <L[n] … indent >", "a non-empty list opens and closes at its own level: "+joined)
		}
	}
	r.Floor(rule, "encodeList empty-list paths", nEmpty, 1)
	// children: a non-list child is preceded by the deeper indentation, a list child recurses one level deeper
	deeper := false
	eachInstr(el, func(in ssa.Instruction) {
		if c, ok := in.(*ssa.Call); ok && calleeOf(c).Static != nil && calleeOf(c).Static.Name() == "Repeat" {
			if strings.Contains(render(c.Call.Args[1]), "1") {
				deeper = true
			}
		}
	})
	r.Check(deeper, rule, "Encoder.encodeList: children are indented one level deeper", el.Pos(), "Repeat(indent, level+1)", "child lines must be one indentation unit deeper than their list")
	// ToSML side: formatSML
	fs := w.Fn("secs2", "ListItem.formatSML")
	r.Analysed(w.FnName(fs))
	var unit string
	emptyOK, wrapOK := false, false
	eachInstr(fs, func(in ssa.Instruction) {
		switch x := in.(type) {
		case *ssa.Call:
			if calleeOf(x).Static != nil && calleeOf(x).Static.Name() == "Repeat" {
				if s, ok := x.Call.Args[0].(*ssa.Const); ok {
					unit = constant.StringVal(s.Value)
				}
			}
			if calleeOf(x).Static != nil && calleeOf(x).Static.Name() == "Sprintf" {
				if s, ok := x.Call.Args[0].(*ssa.Const); ok && constant.StringVal(s.Value) == "%v<L[%d]\n%s%s>" {
					wrapOK = true
				}
			}
		case *ssa.BinOp:
			if x.Op == token.ADD {
				if s, ok := x.Y.(*ssa.Const); ok && s.Value.Kind() == constant.String && constant.StringVal(s.Value) == "<L[0]>" {
					if strings.Contains(render(x.X), "Repeat(") {
						emptyOK = true
					}
				}
			}
		}
	})
	r.Check(unit == "  ", rule, "ListItem.formatSML indents by two spaces per level", fs.Pos(), "two spaces", fmt.Sprintf("indent unit %q", unit))
	r.Check(emptyOK, rule, "ListItem.formatSML: an empty list is indentation + \"<L[0]>\"", fs.Pos(), "indent + <L[0]>", "the empty list must carry its indentation")
	r.Check(wrapOK, rule, "ListItem.formatSML: indent <L[n] newline children indent >", fs.Pos(), "%v<L[%d]\\n%s%s>", "the list frame must be indent, opener, newline, children, indent, closer")
}

func c15Defaults(r *Run) {
	const rule = "C15-R3-defaults"
	w := r.W
	ne := w.Fn("sml", "NewEncoder")
	r.Analysed(w.FnName(ne))
	got := map[string]string{}
	eachInstr(ne, func(in ssa.Instruction) {
		if st, ok := in.(*ssa.Store); ok {
			if fa, ok := st.Addr.(*ssa.FieldAddr); ok {
				if _, fresh := fa.X.(*ssa.Alloc); fresh {
					got[fieldOf(fa).Name()] = render(st.Val)
				}
			}
		}
	})
	want := map[string]string{
		"asciiQuote":  fmt.Sprint(w.ConstInt("sml", "QuoteDouble")),
		"sfQuote":     fmt.Sprint(w.ConstInt("sml", "QuoteNone")),
		"binaryStyle": fmt.Sprint(w.ConstInt("sml", "BinaryHex")),
		"indent":      `"  "`,
	}
	for f, v := range want {
		r.Check(got[f] == v, rule, "NewEncoder default "+f, ne.Pos(), v, fmt.Sprintf("default must be %s (what ToSML renders), is %s", v, got[f]))
	}
	if s, ok := got["strict"]; ok {
		r.Check(s == "false", rule, "NewEncoder default strict", ne.Pos(), "false", "strict mode must be off by default, is "+s)
	}
}
