package main

import (
	"fmt"
	"go/token"
	"strings"

	"golang.org/x/tools/go/ssa"
)

func init() {
	register(&PropSpec{
		ID: "C08",
		Rules: []Rule{
			{Name: "C08-R1-dispatch-table", Doc: "decision table of hsmsss.dispatchFrame over (PType, SType, frame length, State, decode outcome, registry hit, select status, commit result) equals the E37 classifier: rejects r2/r1/r1(body)/r4/r3, deliver, route, responders, separate; no reject arm disconnects", Run: func(r *Run) { c08DispatchTable(r, "C08-R1-dispatch-table", false) }},
			{Name: "C08-R2-responders", Doc: "Select/Deselect/Linktest/Separate responders: status = f(commit / state), response built from the request (echoing its system bytes), SelectLost iff deselect status 0, Separate ⇒ TCPDown iff Selected and nothing sent back", Run: c08Responders},
			{Name: "C08-R3-reject-construction", Doc: "sendReject: reason 2 iff PType≠0 else 1; NewRejectReqRaw puts PType in byte 2 iff reason 2 else SType; reason constants 1..4; system bytes and session id echoed", Run: c08RejectConstruction},
			{Name: "C08-R4-active-select", Doc: "runSelectProcedure: cancelled generation ⇒ silent; error / nil / wrong type / status ∉ {0,1} ⇒ TCPDown; status 0 or 1 ⇒ nothing", Run: c08ActiveSelect},
			{Name: "C08-R5-second-connection", Doc: "in the passive accept loop every connection accepted after the first is only closed: no TCPUp, no recvLoop, no TCPDown", Run: c08SecondConnection},
			{Name: "C08-R6-session-id", Doc: "checkSessionID: mismatch ∧ ¬S9F1 ⇒ one async S9F1 with own session id and fresh system bytes, error returned (message dropped by the caller); S9F1 or match ⇒ nil", Run: c08SessionID},
			{Name: "C08-R7-control-layouts", Doc: "byte maps of the nine control-message factories equal E37 (SType in byte 5, status/reason in byte 3, responses echo request bytes 0-1 and 6-9, Linktest session id 0xFFFF)", Run: c08ControlLayouts},
		},
		NotDec: []string{"arbitrary frame sequences beyond (frame class × logical state)", "ordering of queued responses on the wire", "peer behaviour"},
	})
}

// dispatch oracle, written from the C08 statement / E37 §7-§8.
func dispatchOracle(e Env) (effects []string, ret string) {
	valid := func(s int64) bool { return s >= 0 && s <= 9 && s != 8 }
	f4, f5 := e["f4"], e["f5"]
	if f4 != 0 || !valid(f5) {
		return []string{"sendReject"}, "1"
	}
	if f5 != 0 && e["len"] != 10 {
		return []string{"sendReject"}, "1"
	}
	switch f5 {
	case 0:
		if e["state"] != 2 {
			return []string{"rejectNotSelected"}, "1"
		}
		return []string{"deliver"}, "1"
	case 2, 4, 6, 7:
		if e["decErr"] != 0 {
			return nil, "1"
		}
		var eff []string
		if f5 == 7 {
			eff = append(eff, "incRejectRecv")
		}
		eff = append(eff, "route")
		if e["hit"] != 0 {
			if f5 == 2 && e["status"] == 0 {
				eff = append(eff, "commit")
				if e["commit"] != 0 {
					eff = append(eff, "cancelT7", "startLinktest")
				}
			}
		} else if f5 != 7 {
			eff = append(eff, "rejectTransactionNotOpen")
		}
		return eff, "1"
	case 1, 3, 5:
		if e["decErr"] != 0 {
			return nil, "1"
		}
		return []string{"controlReq"}, "1"
	case 9:
		return []string{"separate"}, "~separate"
	}
	return nil, "?"
}

// c08DispatchTable decides the dispatchFrame table; dataOnly restricts to data-frame cells
// (used by C07-R4).
func c08DispatchTable(r *Run, rule string, dataOnly bool) {
	w := r.W
	disp := w.Fn("hsmsss", "transport.dispatchFrame")
	r.Analysed(w.FnName(disp))
	isValid := w.Fn("hsms", "IsValidSType")
	decode := w.Fn("hsmsss", "decodeControlFrame")
	selStatus := w.Fn("hsmsss", "selectStatus")
	hSep := w.Fn("hsmsss", "transport.handleSeparateReq")
	fns := map[string]*ssa.Function{
		"sendReject":               w.Fn("hsmsss", "transport.sendReject"),
		"rejectNotSelected":        w.Fn("hsmsss", "transport.sendRejectNotSelected"),
		"rejectTransactionNotOpen": w.Fn("hsmsss", "transport.sendRejectTransactionNotOpen"),
		"controlReq":               w.Fn("hsmsss", "transport.handleControlReq"),
		"separate":                 hSep,
		"cancelT7":                 w.Fn("hsmsss", "transport.cancelT7"),
		"startLinktest":            w.Fn("hsmsss", "transport.startLinktest"),
		"incRejectRecv":            w.Fn("hsmsss", "ConnectionMetrics.incRejectRecv"),
	}
	frame := disp.Params[2]
	dt, ok := newDT(disp, 100000)
	if !ok {
		r.Undecided(rule, "dispatchFrame", disp.Pos(), "too many paths")
		return
	}
	frameByte := func(v ssa.Value) (int64, bool) {
		ld, ok := v.(*ssa.UnOp)
		if !ok || ld.Op != token.MUL {
			return 0, false
		}
		ia, ok := ld.X.(*ssa.IndexAddr)
		if !ok || ia.X != ssa.Value(frame) {
			return 0, false
		}
		return constInt(ia.Index)
	}
	isDecoded := func(v ssa.Value) bool {
		ex, ok := v.(*ssa.Extract)
		return ok && ex.Index == 0 && isCallTo(ex.Tuple, isFn(decode))
	}
	dt.Leaf = func(env Env, v ssa.Value, e *Evaluator) (int64, bool, bool) {
		if k, ok := frameByte(v); ok {
			val, has := env[fmt.Sprintf("f%d", k)]
			return val, has, true
		}
		switch x := v.(type) {
		case *ssa.Call:
			cal := calleeOf(x)
			switch {
			case cal.Builtin == "len" && x.Call.Args[0] == ssa.Value(frame):
				return env["len"], true, true
			case isFn(isValid)(cal):
				a, ok := e.Int(x.Call.Args[0])
				if !ok {
					return 0, false, true
				}
				if a >= 0 && a <= 9 && a != 8 {
					return 1, true, true
				}
				return 0, true, true
			case cal.Static != nil && baseName(cal.Static) == "TraceTraffic":
				return env["trace"], true, true
			case cal.Method != nil && cal.Method.Name() == "State":
				return env["state"], true, true
			case cal.Method != nil && cal.Method.Name() == "RouteReply":
				return env["hit"], true, true
			case cal.Method != nil && cal.Method.Name() == "CommitSelected":
				return env["commit"], true, true
			case cal.Method != nil && cal.Method.Name() == "Type" && isDecoded(x.Call.Value):
				// the decoded control message's type is its SType byte (C03-R5 decides the decoder)
				return env["f5"], true, true
			case isFn(selStatus)(cal) && isDecoded(stripConv(x.Call.Args[0])):
				return env["status"], true, true
			}
		case *ssa.Extract:
			if x.Index == 1 && isCallTo(x.Tuple, isFn(decode)) {
				return env["decErr"], true, true
			}
		}
		return 0, false, false
	}
	dt.Effect = func(in ssa.Instruction, e *Evaluator, p *Path) string {
		c, ok := in.(ssa.CallInstruction)
		if !ok {
			return ""
		}
		if _, isGo := in.(*ssa.Go); isGo {
			return "go!"
		}
		cal := calleeOf(c)
		args := c.Common().Args
		for label, f := range fns {
			if isFn(f)(cal) {
				switch label {
				case "sendReject":
					if len(args) == 4 && args[1] == ssa.Value(frame) {
						if k, ok := frameByte(args[2]); ok && k == 4 {
							if k2, ok := frameByte(args[3]); ok && k2 == 5 {
								return label
							}
						}
					}
					return label + "(wrong arguments)"
				case "rejectNotSelected", "rejectTransactionNotOpen":
					if len(args) == 2 && args[1] == ssa.Value(frame) {
						return label
					}
					return label + "(wrong arguments)"
				case "controlReq":
					if len(args) == 3 && isDecoded(args[2]) {
						return label
					}
					return label + "(wrong arguments)"
				}
				return label
			}
		}
		if cal.Method != nil {
			switch cal.Method.Name() {
			case "DeliverOwnedFrame":
				if args[0] == ssa.Value(frame) {
					return "deliver"
				}
				return "deliver(wrong arguments)"
			case "RouteReply":
				if isDecoded(args[0]) {
					return "route"
				}
				return "route(wrong arguments)"
			case "CommitSelected":
				return "commit"
			case "TCPDown":
				return "TCPDown"
			case "SelectLost", "TCPUp", "T7Expired", "RouteData", "SendAsync", "WriteMessage":
				return cal.Method.Name()
			}
		}
		return ""
	}
	stypes := []int64{0, 1, 2, 3, 4, 5, 6, 7, 8, 9, 10, 128, 255}
	if dataOnly {
		stypes = []int64{0}
	}
	doms := []dom{
		{"f4", []int64{0, 255}}, {"f5", stypes}, {"len", []int64{10, 11}}, {"state", []int64{0, 1, 2}},
		{"trace", []int64{0, 1}}, {"decErr", []int64{0, 1}}, {"hit", []int64{0, 1}}, {"status", []int64{0, 1, 2}}, {"commit", []int64{0, 1}},
	}
	if dataOnly {
		doms[0].vals = []int64{0}
		doms[5].vals = []int64{0}
		doms[6].vals = []int64{0}
		doms[7].vals = []int64{0}
		doms[8].vals = []int64{0}
	}
	order := []string{"f4", "f5", "len", "state", "decErr", "hit", "status", "commit"}
	cells, reported := 0, map[string]bool{}
	product(doms, func(env Env) {
		cells++
		want, wantRet := dispatchOracle(env)
		res := dt.Cell(env)
		// one obligation per distinct (expected outcome class, relevant inputs): fold irrelevant dims
		class := fmt.Sprintf("PType=%d SType=%d len=%d state=%d decErr=%d hit=%d status=%d commit=%d", env["f4"], env["f5"], env["len"], env["state"], env["decErr"], env["hit"], env["status"], env["commit"])
		_ = order
		construct := "dispatchFrame(" + class + ")"
		if res.Err != "" {
			if !reported[res.Err] {
				reported[res.Err] = true
				r.Undecided(rule, construct, res.Pos, "%s", res.Err)
			}
			return
		}
		got := strings.Join(res.Effects, ";")
		ret := ""
		if len(res.Rets) == 1 {
			ret = res.Rets[0]
			if strings.HasPrefix(ret, "~") && strings.Contains(ret, "handleSeparateReq") {
				ret = "~separate"
			}
		}
		if got == strings.Join(want, ";") && ret == wantRet {
			if env["trace"] == 0 {
				r.OK(rule, construct, res.Pos, "effects [%s] keep-reading=%s as E37 prescribes", got, ret)
			}
		} else {
			key := got + "|" + strings.Join(want, ";") + ret
			if !reported[key] {
				reported[key] = true
				r.Fail(rule, construct, res.Pos, "effects [%s] return %s; E37 requires [%s] return %s", got, ret, strings.Join(want, ";"), wantRet)
			}
		}
	})
	min := 1000
	if dataOnly {
		min = 12
	}
	r.Floor(rule, "dispatchFrame cells", cells, min)
}

// ---------- R2 responders ----------

func rtMethod(name string) func(Callee) bool {
	return func(c Callee) bool { return c.Method != nil && c.Method.Name() == name }
}

func c08Responders(r *Run) {
	const rule = "C08-R2-responders"
	w := r.W
	sel := w.ConstInt("hsms", "SelectedState")
	// --- handleControlReq: type → responder
	hcr := w.Fn("hsmsss", "transport.handleControlReq")
	r.Analysed(w.FnName(hcr))
	want := map[int64]*ssa.Function{
		w.ConstInt("hsms", "SelectReqType"):   w.Fn("hsmsss", "transport.handleSelectReq"),
		w.ConstInt("hsms", "LinktestReqType"): w.Fn("hsmsss", "transport.handleLinktestReq"),
		w.ConstInt("hsms", "DeselectReqType"): w.Fn("hsmsss", "transport.handleDeselectReq"),
	}
	{
		dt, ok := newDT(hcr, 1000)
		if !ok {
			r.Undecided(rule, "handleControlReq", hcr.Pos(), "too many paths")
		} else {
			dt.Leaf = func(env Env, v ssa.Value, e *Evaluator) (int64, bool, bool) {
				if c, ok := v.(*ssa.Call); ok && rtMethod("Type")(calleeOf(c)) {
					return env["type"], true, true
				}
				return 0, false, false
			}
			dt.Effect = func(in ssa.Instruction, e *Evaluator, p *Path) string {
				if c, ok := in.(ssa.CallInstruction); ok {
					cal := calleeOf(c)
					if cal.Static != nil && strings.HasPrefix(cal.Static.Name(), "handle") {
						// the message must be passed through unchanged
						args := c.Common().Args
						if args[len(args)-1] != ssa.Value(hcr.Params[2]) {
							return cal.Static.Name() + "(wrong message)"
						}
						return cal.Static.Name()
					}
				}
				return ""
			}
			for _, ty := range []int64{0, 1, 2, 3, 4, 5, 6, 7, 9, 255} {
				res := dt.Cell(Env{"type": ty})
				construct := fmt.Sprintf("handleControlReq(type=%d)", ty)
				if res.Err != "" {
					r.Undecided(rule, construct, res.Pos, "%s", res.Err)
					continue
				}
				exp := ""
				if f := want[ty]; f != nil {
					exp = f.Name()
				}
				r.Check(strings.Join(res.Effects, ";") == exp, rule, construct, res.Pos, "→ ["+exp+"]", fmt.Sprintf("dispatches to [%s], expected [%s]", strings.Join(res.Effects, ";"), exp))
			}
		}
	}

	// --- handleSelectReq
	hsr := w.Fn("hsmsss", "transport.handleSelectReq")
	r.Analysed(w.FnName(hsr))
	newSelRsp := w.Fn("hsms", "NewSelectRsp")
	{
		dt, ok := newDT(hsr, 5000)
		if !ok {
			r.Undecided(rule, "handleSelectReq", hsr.Pos(), "too many paths")
		} else {
			dt.Leaf = func(env Env, v ssa.Value, e *Evaluator) (int64, bool, bool) {
				switch x := v.(type) {
				case *ssa.Call:
					if rtMethod("CommitSelected")(calleeOf(x)) {
						return env["commit"], true, true
					}
				case *ssa.Extract:
					if _, ok := x.Tuple.(*ssa.TypeAssert); ok && x.Index == 1 {
						return 1, true, true // the request is a *ControlMessage (decodeControlFrame post-condition)
					}
					if isCallTo(x.Tuple, isFn(newSelRsp)) && x.Index == 1 {
						return 0, true, true // NewSelectRsp succeeds for a Select.req (C08-R7)
					}
				}
				return 0, false, false
			}
			dt.Effect = func(in ssa.Instruction, e *Evaluator, p *Path) string {
				c, ok := in.(ssa.CallInstruction)
				if !ok {
					return ""
				}
				cal := calleeOf(c)
				switch {
				case rtMethod("CommitSelected")(cal):
					return "commit"
				case isFn(newSelRsp)(cal):
					st, ok := e.Int(c.Common().Args[1])
					// request passed through
					reqOK := false
					if ex, isEx := c.Common().Args[0].(*ssa.Extract); isEx {
						if ta, isTA := ex.Tuple.(*ssa.TypeAssert); isTA && ta.X == ssa.Value(hsr.Params[2]) {
							reqOK = true
						}
					}
					if !ok || !reqOK {
						return "rsp(?)"
					}
					return fmt.Sprintf("rsp(status=%d)", st)
				case rtMethod("SendAsync")(cal):
					if ex, isEx := stripConv(c.Common().Args[1]).(*ssa.Extract); isEx && isCallTo(ex.Tuple, isFn(newSelRsp)) && ex.Index == 0 {
						return "send(rsp)"
					}
					return "send(?)"
				case rtMethod("TCPDown")(cal), rtMethod("SelectLost")(cal):
					return cal.Method.Name()
				}
				return ""
			}
			for _, commit := range []int64{0, 1} {
				res := dt.Cell(Env{"commit": commit})
				construct := fmt.Sprintf("handleSelectReq(first-select=%d)", commit)
				if res.Err != "" {
					r.Undecided(rule, construct, res.Pos, "%s", res.Err)
					continue
				}
				exp := fmt.Sprintf("commit;rsp(status=%d);send(rsp)", 1-commit)
				got := strings.Join(res.Effects, ";")
				r.Check(got == exp, rule, construct, res.Pos, "["+exp+"]", fmt.Sprintf("effects [%s], E37 requires [%s] (status 0 on the first select, 1 when already selected; commit before the response)", got, exp))
			}
		}
	}

	// --- handleDeselectReq
	hdr := w.Fn("hsmsss", "transport.handleDeselectReq")
	r.Analysed(w.FnName(hdr))
	newDesRsp := w.Fn("hsms", "NewDeselectRsp")
	{
		dt, ok := newDT(hdr, 5000)
		if !ok {
			r.Undecided(rule, "handleDeselectReq", hdr.Pos(), "too many paths")
		} else {
			dt.Leaf = func(env Env, v ssa.Value, e *Evaluator) (int64, bool, bool) {
				switch x := v.(type) {
				case *ssa.Call:
					if rtMethod("State")(calleeOf(x)) {
						return env["state"], true, true
					}
				case *ssa.Extract:
					if _, ok := x.Tuple.(*ssa.TypeAssert); ok && x.Index == 1 {
						return 1, true, true
					}
					if isCallTo(x.Tuple, isFn(newDesRsp)) && x.Index == 1 {
						return 0, true, true
					}
				}
				return 0, false, false
			}
			dt.Effect = func(in ssa.Instruction, e *Evaluator, p *Path) string {
				c, ok := in.(ssa.CallInstruction)
				if !ok {
					return ""
				}
				cal := calleeOf(c)
				switch {
				case isFn(newDesRsp)(cal):
					st, ok := e.Int(c.Common().Args[1])
					reqOK := false
					if ex, isEx := c.Common().Args[0].(*ssa.Extract); isEx {
						if ta, isTA := ex.Tuple.(*ssa.TypeAssert); isTA && ta.X == ssa.Value(hdr.Params[2]) {
							reqOK = true
						}
					}
					if !ok || !reqOK {
						return "rsp(?)"
					}
					return fmt.Sprintf("rsp(status=%d)", st)
				case rtMethod("SendAsync")(cal):
					if ex, isEx := stripConv(c.Common().Args[1]).(*ssa.Extract); isEx && isCallTo(ex.Tuple, isFn(newDesRsp)) && ex.Index == 0 {
						return "send(rsp)"
					}
					return "send(?)"
				case rtMethod("SelectLost")(cal), rtMethod("TCPDown")(cal), rtMethod("CommitSelected")(cal):
					return cal.Method.Name()
				case cal.Static != nil && (cal.Static.Name() == "stopLinktest" || cal.Static.Name() == "armT7"):
					return cal.Static.Name()
				}
				return ""
			}
			for _, st := range []int64{0, 1, 2} {
				res := dt.Cell(Env{"state": st})
				construct := fmt.Sprintf("handleDeselectReq(state=%d)", st)
				if res.Err != "" {
					r.Undecided(rule, construct, res.Pos, "%s", res.Err)
					continue
				}
				exp := "rsp(status=1);send(rsp)"
				if st == sel {
					exp = "rsp(status=0);send(rsp);SelectLost;stopLinktest;armT7"
				}
				got := strings.Join(res.Effects, ";")
				r.Check(got == exp, rule, construct, res.Pos, "["+exp+"]", fmt.Sprintf("effects [%s], E37 requires [%s] (status 0 and leave Selected only when selected)", got, exp))
			}
		}
	}

	// --- handleLinktestReq: every non-defensive path sends NewLinktestRsp(req)
	hlr := w.Fn("hsmsss", "transport.handleLinktestReq")
	r.Analysed(w.FnName(hlr))
	newLtRsp := w.Fn("hsms", "NewLinktestRsp")
	{
		paths, ok := enumPaths(hlr, 1000)
		good, n := ok, 0
		for _, p := range paths {
			mk := p.Calls(isFn(newLtRsp))
			sends := p.Calls(rtMethod("SendAsync"))
			errPath := false
			for _, c := range p.Conds {
				// defensive exits: type assertion failed or constructor error
				if ex, isEx := c.Cond.(*ssa.Extract); isEx && !c.Val {
					if _, isTA := ex.Tuple.(*ssa.TypeAssert); isTA {
						errPath = true
					}
				}
				if x, eq, isCmp := isNilCmp(c.Cond); isCmp {
					if ex, isEx := x.(*ssa.Extract); isEx && isCallTo(ex.Tuple, isFn(newLtRsp)) && ex.Index == 1 && eq != c.Val {
						errPath = true
					}
				}
			}
			if errPath {
				if len(sends) != 0 {
					good = false
				}
				continue
			}
			n++
			if len(mk) != 1 || len(sends) != 1 {
				good = false
				continue
			}
			if ex, isEx := stripConv(sends[0].Common().Args[1]).(*ssa.Extract); !isEx || ex.Tuple != mk[0].(ssa.Value) || ex.Index != 0 {
				good = false
			}
			if len(p.Calls(rtMethod("TCPDown"))) != 0 {
				good = false
			}
		}
		r.Check(good && n >= 1, rule, "handleLinktestReq: Linktest.req ⇒ one Linktest.rsp built from the request", hlr.Pos(), "rt.SendAsync(NewLinktestRsp(req)) on every accepting path, no disconnect", "a Linktest.req must be answered by exactly one Linktest.rsp built from that request")
	}

	// --- handleSeparateReq
	hsep := w.Fn("hsmsss", "transport.handleSeparateReq")
	r.Analysed(w.FnName(hsep))
	{
		dt, ok := newDT(hsep, 1000)
		if !ok {
			r.Undecided(rule, "handleSeparateReq", hsep.Pos(), "too many paths")
		} else {
			dt.Leaf = func(env Env, v ssa.Value, e *Evaluator) (int64, bool, bool) {
				if c, ok := v.(*ssa.Call); ok && rtMethod("State")(calleeOf(c)) {
					return env["state"], true, true
				}
				return 0, false, false
			}
			dt.Effect = func(in ssa.Instruction, e *Evaluator, p *Path) string {
				if c, ok := in.(ssa.CallInstruction); ok {
					cal := calleeOf(c)
					if cal.Method != nil {
						switch cal.Method.Name() {
						case "TCPDown", "SendAsync", "WriteMessage", "WriteMessageNoReply", "SelectLost":
							return cal.Method.Name()
						}
					}
				}
				return ""
			}
			for _, st := range []int64{0, 1, 2} {
				res := dt.Cell(Env{"state": st})
				construct := fmt.Sprintf("handleSeparateReq(state=%d)", st)
				if res.Err != "" {
					r.Undecided(rule, construct, res.Pos, "%s", res.Err)
					continue
				}
				exp, expRet := "", "1"
				if st == sel {
					exp, expRet = "TCPDown", "0"
				}
				got := strings.Join(res.Effects, ";")
				ret := strings.Join(res.Rets, ",")
				r.Check(got == exp && ret == expRet, rule, construct, res.Pos, "["+exp+"] keep-reading="+expRet, fmt.Sprintf("effects [%s] return %s; required [%s] return %s (Separate ends the connection only while Selected; nothing is sent back)", got, ret, exp, expRet))
			}
		}
	}
	// NewSeparateReq is built only by the farewell, which react skips after a comms failure
	newSep := w.Fn("hsms", "NewSeparateReq")
	farewell := w.Fn("hsms", "connection.writeFarewellSeparate")
	n := 0
	for _, u := range w.usesOf(newSep) {
		if !w.IsProd(u.Fn) {
			continue
		}
		n++
		r.Check(sameFn(u.Fn, farewell), rule, "NewSeparateReq used in "+w.FnName(u.Fn), u.Pos(), "only the graceful farewell builds a Separate", "a Separate.req may be sent only by the voluntary-close farewell")
	}
	r.Floor(rule, "NewSeparateReq call sites", n, 1)
	react := w.Fn("hsms", "connection.react")
	fCF := w.Field("hsms", "epoch", "commsFailure")
	facts := factsIn(react)
	for _, c := range callsIn(react, isFn(farewell)) {
		okCF := false
		for f := range facts[c.Block()] {
			if atomicMethodOn(f.Cond, fCF, "Load") && !f.Val {
				okCF = true
			}
		}
		r.Check(okCF, rule, "react: farewell Separate only when commsFailure is false", c.Pos(), "dominated by !commsFailure.Load()", "after a peer Separate / involuntary drop no Separate may be sent back")
	}
	tcpDown := w.Fn("hsms", "connection.TCPDown")
	inject := w.Fn("hsms", "supervisor.inject")
	var stCF, inj ssa.CallInstruction
	eachInstr(tcpDown, func(in ssa.Instruction) {
		if c, ok := in.(ssa.CallInstruction); ok {
			if callIsAtomicMethodOn(c, fCF, "Store") {
				if k, ok := c.Common().Args[1].(*ssa.Const); ok && k.Value != nil && k.Value.String() == "true" {
					stCF = c
				}
			}
			if isFn(inject)(calleeOf(c)) {
				inj = c
			}
		}
	})
	r.Check(stCF != nil && inj != nil && !canReachWithout(firstInstr(tcpDown), inj, map[ssa.Instruction]bool{stCF: true}) || (stCF != nil && inj != nil && cfBeforeInject(tcpDown, stCF, inj)),
		rule, "TCPDown: commsFailure=true before the disconnect event", tcpDown.Pos(), "marked before inject(evDisconnect)", "TCPDown must mark the generation as a comms failure before injecting the disconnect, or the reaction sends a Separate back")
}

func firstInstr(fn *ssa.Function) ssa.Instruction { return fn.Blocks[0].Instrs[0] }

// cfBeforeInject: on every path from entry to inj on which an epoch exists, st executes first.
func cfBeforeInject(fn *ssa.Function, st, inj ssa.CallInstruction) bool {
	paths, ok := enumPaths(fn, 1000)
	if !ok {
		return false
	}
	for _, p := range paths {
		if !p.Has(inj) {
			continue
		}
		epochNil := false
		for _, c := range p.Conds {
			if _, eq, isCmp := isNilCmp(c.Cond); isCmp && strings.Contains(render(c.Cond), ".cur.Load()") && eq == c.Val {
				epochNil = true
			}
		}
		if epochNil {
			continue
		}
		seenSt := false
		okOrder := false
		for _, in := range p.Instrs() {
			if in == ssa.Instruction(st) {
				seenSt = true
			}
			if in == ssa.Instruction(inj) {
				okOrder = seenSt
			}
		}
		if !okOrder {
			return false
		}
	}
	return true
}

// ---------- R3 reject construction ----------

func c08RejectConstruction(r *Run) {
	rule := r.aliased("C08-R3-reject-construction")
	w := r.W
	consts := map[string]int64{"RejectSTypeNotSupported": 1, "RejectPTypeNotSupported": 2, "RejectTransactionNotOpen": 3, "RejectNotSelected": 4}
	for n, v := range consts {
		got := w.ConstInt("hsms", n)
		r.Check(got == v, rule, "hsms."+n+" = "+fmt.Sprint(v), w.Obj("hsms", n).Pos(), "E37 reason code", fmt.Sprintf("E37 reason code must be %d, is %d", v, got))
	}
	newRej := w.Fn("hsms", "NewRejectReqRaw")
	// sendReject: reason table
	sr := w.Fn("hsmsss", "transport.sendReject")
	r.Analysed(w.FnName(sr))
	dt, ok := newDT(sr, 1000)
	if !ok {
		r.Undecided(rule, "sendReject", sr.Pos(), "too many paths")
		return
	}
	frame, pT, sT := sr.Params[1], sr.Params[2], sr.Params[3]
	dt.Effect = func(in ssa.Instruction, e *Evaluator, p *Path) string {
		c, ok := in.(ssa.CallInstruction)
		if !ok {
			return ""
		}
		cal := calleeOf(c)
		if isFn(newRej)(cal) {
			a := c.Common().Args
			reason, okr := e.Int(a[4])
			okArgs := strings.Contains(render(a[0]), "Uint16($"+frame.Name()+"[0:2])") && a[1] == ssa.Value(pT) && a[2] == ssa.Value(sT) && sysBytesFrom(a[3], frame, c)
			if !okr || !okArgs {
				return "reject(?)"
			}
			return fmt.Sprintf("reject(reason=%d)", reason)
		}
		if rtMethod("SendAsync")(cal) {
			if isCallTo(stripConv(c.Common().Args[1]), isFn(newRej)) {
				return "send"
			}
			return "send(?)"
		}
		if rtMethod("TCPDown")(cal) {
			return "TCPDown"
		}
		return ""
	}
	for _, p := range []int64{0, 1, 200} {
		res := dt.Cell(Env{"$" + pT.Name(): p})
		construct := fmt.Sprintf("sendReject(PType=%d)", p)
		if res.Err != "" {
			r.Undecided(rule, construct, res.Pos, "%s", res.Err)
			continue
		}
		exp := "reject(reason=1);send"
		if p != 0 {
			exp = "reject(reason=2);send"
		}
		got := strings.Join(res.Effects, ";")
		r.Check(got == exp, rule, construct, res.Pos, "["+exp+"] echoing session id, PType, SType and system bytes of the frame", fmt.Sprintf("effects [%s], required [%s]", got, exp))
	}
	// sendRejectTransactionNotOpen: NewRejectReqRaw(sid, 0, frame[5], sysbytes, 3)
	tno := w.Fn("hsmsss", "transport.sendRejectTransactionNotOpen")
	r.Analysed(w.FnName(tno))
	calls := callsIn(tno, isFn(newRej))
	if len(calls) != 1 {
		r.Undecided(rule, "sendRejectTransactionNotOpen", tno.Pos(), "expected one NewRejectReqRaw call")
	} else {
		a := calls[0].Common().Args
		fr := tno.Params[1]
		p0, okp := constInt(a[1])
		reason, okr := constInt(a[4])
		good := strings.Contains(render(a[0]), "Uint16($"+fr.Name()+"[0:2])") && okp && p0 == 0 && render(a[2]) == "$"+fr.Name()+"[5]" && okr && reason == 3 && sysBytesFrom(a[3], fr, calls[0])
		sends := callsIn(tno, rtMethod("SendAsync"))
		good = good && len(sends) == 1 && stripConv(sends[0].Common().Args[1]) == calls[0].(ssa.Value) && len(callsIn(tno, rtMethod("TCPDown"))) == 0
		r.Check(good, rule, "sendRejectTransactionNotOpen: Reject(reason 3, byte2 = offending SType, system bytes echoed)", calls[0].Pos(), "as E37 §8.3.20", "orphan response must be answered by Reject reason 3 echoing the SType and system bytes, never a disconnect")
	}
	// NewRejectReqRaw layout: 2 paths
	c08LayoutOf(r, rule, newRej, func(env Env) []string {
		b2 := "$sType"
		if env["$reasonCode"] == 2 {
			b2 = "$pType"
		}
		return []string{"be16.0($sessionID)", "be16.1($sessionID)", b2, "$reasonCode", "0", "7", "$systemBytes[0]", "$systemBytes[1]", "$systemBytes[2]", "$systemBytes[3]"}
	}, []dom{{"$reasonCode", []int64{1, 2, 3, 4, 0, 200}}}, "false")
}

// sysBytesFrom: v is a load of a local [4]byte filled by copy(local[:], frame[6:10]) before `at`.
func sysBytesFrom(v ssa.Value, frame ssa.Value, at ssa.Instruction) bool {
	ld, ok := v.(*ssa.UnOp)
	if !ok || ld.Op != token.MUL {
		return false
	}
	al, ok := ld.X.(*ssa.Alloc)
	if !ok {
		return false
	}
	nWrites := 0
	good := false
	for _, ref := range *al.Referrers() {
		switch x := ref.(type) {
		case *ssa.Slice:
			for _, use := range *x.Referrers() {
				if cc, ok := use.(*ssa.Call); ok {
					if b, ok := cc.Common().Value.(*ssa.Builtin); ok && b.Name() == "copy" && cc.Common().Args[0] == ssa.Value(x) {
						nWrites++
						if sl, ok := cc.Common().Args[1].(*ssa.Slice); ok && sl.X == frame {
							lo, ok1 := constInt(sl.Low)
							hi, ok2 := constInt(sl.High)
							if ok1 && ok2 && lo == 6 && hi == 10 && instrDominates(cc, at) {
								good = true
							}
						}
					}
				}
			}
		case *ssa.Store:
			nWrites++
		case *ssa.IndexAddr:
			nWrites++
		}
	}
	return good && nWrites == 1
}

// c08LayoutOf checks the byte map of a header-building function on every cell.
func c08LayoutOf(r *Run, rule string, fn *ssa.Function, want func(Env) []string, doms []dom, wantReply string) {
	w := r.W
	r.Analysed(w.FnName(fn))
	arr := localByteArray(fn, 10)
	if arr == nil {
		// the header may be built by a shared helper the factory returns the result of
		if c08LayoutViaHelper(r, rule, fn, want, doms, wantReply) {
			return
		}
		r.Undecided(rule, w.FnName(fn)+": header array", fn.Pos(), "no unique local [10]byte")
		return
	}
	dt, ok := newDT(fn, 2000)
	if !ok {
		r.Undecided(rule, w.FnName(fn), fn.Pos(), "too many paths")
		return
	}
	// leaf: req.Type() → env["type"] for response builders
	dt.Leaf = func(env Env, v ssa.Value, e *Evaluator) (int64, bool, bool) {
		if c, ok := v.(*ssa.Call); ok {
			if cal := calleeOf(c); (cal.Static != nil && cal.Static.Name() == "Type") || (cal.Method != nil && cal.Method.Name() == "Type") {
				val, has := env["type"]
				return val, has, true
			}
		}
		return 0, false, false
	}
	product(doms, func(env Env) {
		res := dt.Cell(env)
		construct := fmt.Sprintf("%s(%s) header bytes", fn.Name(), envString(env, domNames(doms)))
		if res.Err != "" {
			r.Undecided(rule, construct, res.Pos, "%s", res.Err)
			return
		}
		exp := want(env)
		if exp == nil {
			// error path expected: must return a nil message
			if len(res.Rets) >= 1 && res.Rets[0] == "0" {
				r.OK(rule, construct, res.Pos, "rejected (nil message)")
			} else {
				r.Fail(rule, construct, res.Pos, "must be rejected for this request type, returns %v", res.Rets)
			}
			return
		}
		m, okm := byteMapOnPath(res.Path, arr, 10)
		if !okm {
			r.Undecided(rule, construct, res.Pos, "header write outside the layout vocabulary")
			return
		}
		if strings.Join(m, ",") != strings.Join(exp, ",") {
			r.Fail(rule, construct, res.Pos, "header bytes [%s], E37 requires [%s]", strings.Join(m, ", "), strings.Join(exp, ", "))
			return
		}
		// the returned message's header is this array and replyExpected as required
		okHdr, reply := false, ""
		for _, in := range res.Path.Instrs() {
			if st, ok := in.(*ssa.Store); ok {
				if fa, ok := st.Addr.(*ssa.FieldAddr); ok {
					switch fieldOf(fa).Name() {
					case "header":
						if loadOf(st.Val, arr) {
							okHdr = true
						}
					case "replyExpected":
						reply = render(st.Val)
					}
				}
			}
		}
		if !okHdr || reply != wantReply {
			r.Fail(rule, construct, res.Pos, "returned message must carry the built header (ok=%v) with replyExpected=%s (got %s)", okHdr, wantReply, reply)
			return
		}
		r.OK(rule, construct, res.Pos, "[%s] replyExpected=%s", strings.Join(m, ", "), reply)
	})
}

func domNames(d []dom) []string {
	var out []string
	for _, x := range d {
		out = append(out, x.name)
	}
	return out
}

// ---------- R7 control layouts ----------

func c08ControlLayouts(r *Run) {
	rule := r.aliased("C08-R7-control-layouts")
	w := r.W
	stypes := map[string]int64{"DataMsgType": 0, "SelectReqType": 1, "SelectRspType": 2, "DeselectReqType": 3, "DeselectRspType": 4, "LinktestReqType": 5, "LinktestRspType": 6, "RejectReqType": 7, "SeparateReqType": 9}
	for n, v := range stypes {
		got := w.ConstInt("hsms", n)
		r.Check(got == v, rule, "hsms."+n+" = "+fmt.Sprint(v), w.Obj("hsms", n).Pos(), "E37 SType", fmt.Sprintf("E37 SType must be %d, is %d", v, got))
	}
	req := func(stype int64, ff bool) func(Env) []string {
		return func(Env) []string {
			b0, b1 := "be16.0($sessionID)", "be16.1($sessionID)"
			if ff {
				b0, b1 = "255", "255"
			}
			return []string{b0, b1, "0", "0", "0", fmt.Sprint(stype), "$systemBytes[0]", "$systemBytes[1]", "$systemBytes[2]", "$systemBytes[3]"}
		}
	}
	c08LayoutOf(r, rule, w.Fn("hsms", "NewSelectReq"), req(1, false), nil, "true")
	c08LayoutOf(r, rule, w.Fn("hsms", "NewDeselectReq"), req(3, false), nil, "true")
	c08LayoutOf(r, rule, w.Fn("hsms", "NewLinktestReq"), req(5, true), nil, "true")
	c08LayoutOf(r, rule, w.Fn("hsms", "NewSeparateReq"), req(9, false), nil, "false")
	rsp := func(reqType, stype int64, status string, ff bool) func(Env) []string {
		return func(env Env) []string {
			if env["type"] != reqType {
				return nil
			}
			b0, b1 := "$req.header[0]", "$req.header[1]"
			if ff {
				b0, b1 = "255", "255"
			}
			return []string{b0, b1, "0", status, "0", fmt.Sprint(stype), "$req.header[6]", "$req.header[7]", "$req.header[8]", "$req.header[9]"}
		}
	}
	types := []dom{{"type", []int64{0, 1, 2, 3, 4, 5, 6, 7, 9, 255}}}
	c08LayoutOf(r, rule, w.Fn("hsms", "NewSelectRsp"), rsp(1, 2, "$selectStatus", false), types, "false")
	c08LayoutOf(r, rule, w.Fn("hsms", "NewDeselectRsp"), rsp(3, 4, "$deselectStatus", false), types, "false")
	c08LayoutOf(r, rule, w.Fn("hsms", "NewLinktestRsp"), rsp(5, 6, "0", true), types, "false")
	// NewRejectReq (the message-taking form offered to users): byte 2 is 0 for a rejected data
	// message, else the rejected message's PType for reason 2 and its SType otherwise
	rej := func(env Env) []string {
		b2 := "$rejected.HeaderBytes()[5]"
		switch {
		case env["type"] == 0:
			b2 = "0"
		case env["$reasonCode"] == 2:
			b2 = "$rejected.HeaderBytes()[4]"
		}
		return []string{"be16.0($rejected.SessionID())", "be16.1($rejected.SessionID())", b2, "$reasonCode", "0", "7",
			"$rejected.SystemBytes()[0]", "$rejected.SystemBytes()[1]", "$rejected.SystemBytes()[2]", "$rejected.SystemBytes()[3]"}
	}
	c08LayoutOf(r, rule, w.Fn("hsms", "NewRejectReq"), rej, []dom{{"type", []int64{0, 1, 5, 7}}, {"$reasonCode", []int64{1, 2, 3, 4}}}, "false")
}

// ---------- R4 active select ----------

func c08ActiveSelect(r *Run) {
	const rule = "C08-R4-active-select"
	w := r.W
	fn := w.Fn("hsmsss", "transport.runSelectProcedure")
	r.Analysed(w.FnName(fn))
	selStatus := w.Fn("hsmsss", "selectStatus")
	newSelReq := w.Fn("hsms", "NewSelectReq")
	dt, ok := newDT(fn, 5000)
	if !ok {
		r.Undecided(rule, "runSelectProcedure", fn.Pos(), "too many paths")
		return
	}
	ctx := fn.Params[1]
	dt.Leaf = func(env Env, v ssa.Value, e *Evaluator) (int64, bool, bool) {
		switch x := v.(type) {
		case *ssa.Extract:
			if c, ok := x.Tuple.(*ssa.Call); ok && rtMethod("WriteMessage")(calleeOf(c)) {
				if x.Index == 1 {
					return env["err"], true, true
				}
				return env["rsp"], true, true
			}
		case *ssa.Call:
			cal := calleeOf(x)
			switch {
			case cal.Method != nil && cal.Method.Name() == "Err" && x.Call.Value == ssa.Value(ctx):
				return env["ctxErr"], true, true
			case cal.Method != nil && cal.Method.Name() == "Type":
				return env["type"], true, true
			case isFn(selStatus)(cal):
				return env["status"], true, true
			}
		}
		return 0, false, false
	}
	dt.Effect = func(in ssa.Instruction, e *Evaluator, p *Path) string {
		c, ok := in.(ssa.CallInstruction)
		if !ok {
			return ""
		}
		cal := calleeOf(c)
		switch {
		case rtMethod("TCPDown")(cal):
			return "TCPDown"
		case rtMethod("WriteMessage")(cal):
			a := c.Common().Args
			if a[0] == ssa.Value(ctx) && isCallTo(stripConv(a[1]), isFn(newSelReq)) {
				return "send(Select.req)"
			}
			return "send(?)"
		case rtMethod("CommitSelected")(cal), rtMethod("SendAsync")(cal), rtMethod("SelectLost")(cal):
			return cal.Method.Name()
		}
		return ""
	}
	selRsp := w.ConstInt("hsms", "SelectRspType")
	doms := []dom{{"err", []int64{0, 1}}, {"ctxErr", []int64{0, 1}}, {"rsp", []int64{0, 1}}, {"type", []int64{selRsp, 4, 6, 7, 0}}, {"status", []int64{0, 1, 2, 3, 4, 255}}}
	n := 0
	product(doms, func(env Env) {
		n++
		res := dt.Cell(env)
		construct := "runSelectProcedure(" + envString(env, domNames(doms)) + ")"
		if res.Err != "" {
			r.Undecided(rule, construct, res.Pos, "%s", res.Err)
			return
		}
		exp := "send(Select.req)"
		switch {
		case env["err"] != 0 && env["ctxErr"] != 0:
		case env["err"] != 0:
			exp += ";TCPDown"
		case env["rsp"] == 0 || env["type"] != selRsp:
			exp += ";TCPDown"
		case env["status"] != 0 && env["status"] != 1:
			exp += ";TCPDown"
		}
		got := strings.Join(res.Effects, ";")
		if got == exp {
			r.OK(rule, construct, res.Pos, "[%s]", got)
		} else {
			r.Fail(rule, construct, res.Pos, "effects [%s], required [%s]", got, exp)
		}
	})
	r.Floor(rule, "runSelectProcedure cells", n, 200)
	// the Select.req carries the configured session id and fresh system bytes
	for _, c := range callsIn(fn, isFn(newSelReq)) {
		a := c.Common().Args
		okSid := isCallToMethod(a[0], "SessionID")
		okSB := isCallToMethod(a[1], "NextSystemBytes")
		r.Check(okSid && okSB, rule, "Select.req uses the configured session id and fresh system bytes", c.Pos(), "rt.SessionID(), rt.NextSystemBytes()", "Select.req must carry the configured session id and library-generated system bytes")
	}
}

func isCallToMethod(v ssa.Value, name string) bool {
	c, ok := v.(*ssa.Call)
	if !ok {
		return false
	}
	cal := calleeOf(c)
	return (cal.Method != nil && cal.Method.Name() == name) || (cal.Static != nil && baseName(cal.Static) == name)
}

// ---------- R5 second connection ----------

func c08SecondConnection(r *Run) {
	const rule = "C08-R5-second-connection"
	w := r.W
	for _, pkg := range []string{"hsmsss", "secs1"} {
		fn := w.FnOpt(pkg, "transport.acceptLoop")
		if fn == nil {
			r.Undecided(rule, pkg+".acceptLoop", token.NoPos, "anchor not found")
			continue
		}
		r.Analysed(w.FnName(fn))
		// Accept call sites: the first (dominating all others) adopts; every later one (in a loop) must only Close.
		var accepts []*ssa.Call
		eachInstr(fn, func(in ssa.Instruction) {
			if c, ok := in.(*ssa.Call); ok && c.Common().IsInvoke() && c.Common().Method.Name() == "Accept" {
				accepts = append(accepts, c)
			}
		})
		if len(accepts) < 2 {
			r.Undecided(rule, pkg+".acceptLoop: accept sites", fn.Pos(), "expected a first Accept and a refusing Accept loop, found %d Accept calls", len(accepts))
			continue
		}
		first := accepts[0]
		for _, a := range accepts[1:] {
			if !instrDominates(first, a) {
				r.Undecided(rule, pkg+".acceptLoop: accept order", a.Pos(), "later Accept not dominated by the first")
				continue
			}
			// the accepted conn value: Extract #0
			var conn ssa.Value
			for _, ref := range *a.Referrers() {
				if ex, ok := ref.(*ssa.Extract); ok && ex.Index == 0 {
					conn = ex
				}
			}
			if conn == nil {
				r.Fail(rule, pkg+".acceptLoop: extra connection is closed", a.Pos(), "the accepted extra connection is dropped without Close")
				continue
			}
			closed, other := false, ""
			for _, ref := range *conn.Referrers() {
				switch x := ref.(type) {
				case ssa.CallInstruction:
					if x.Common().IsInvoke() && x.Common().Value == conn && x.Common().Method.Name() == "Close" {
						closed = true
					} else {
						other = "passed to " + calleeName(calleeOf(x))
					}
				case *ssa.DebugRef:
				default:
					other = fmt.Sprintf("used by %T", ref)
				}
			}
			r.Check(closed && other == "", rule, pkg+".acceptLoop: a connection accepted after the first is only closed", a.Pos(),
				"refused: Close is its only use", "the extra connection must be refused (closed) and not otherwise used: "+other)
			// between this Accept and looping back, no runtime call that disturbs the live session
			bad := ""
			reach := blocksReachable(a.Block(), nil)
			for b := range reach {
				if !a.Block().Dominates(b) && b != a.Block() {
					continue
				}
				for _, in := range b.Instrs {
					if c, ok := in.(ssa.CallInstruction); ok {
						cal := calleeOf(c)
						if cal.Method != nil {
							switch cal.Method.Name() {
							case "TCPUp", "TCPDown", "CommitSelected", "SelectLost":
								if b == a.Block() && blockIndexOf(in) < blockIndexOf(a) {
									continue
								}
								bad = cal.Method.Name()
							}
						}
						if _, isGo := in.(*ssa.Go); isGo && (b != a.Block() || blockIndexOf(in) > blockIndexOf(a)) {
							bad = "go statement"
						}
					}
				}
			}
			r.Check(bad == "", rule, pkg+".acceptLoop: refusing loop does not disturb the live session", a.Pos(), "no TCPUp/TCPDown/commit/goroutine after an extra Accept", "refuse loop performs "+bad)
		}
	}
}

// ---------- R6 session id ----------

func c08SessionID(r *Run) {
	const rule = "C08-R6-session-id"
	w := r.W
	fn := w.Fn("hsms", "connection.checkSessionID")
	r.Analysed(w.FnName(fn))
	newDM := w.Fn("hsms", "NewDataMessage")
	sendAsync := w.Fn("hsms", "connection.SendAsync")
	connSID := w.Fn("hsms", "connection.SessionID")
	nextSB := w.Fn("hsms", "connection.NextSystemBytes")
	dm := fn.Params[1]
	dt, ok := newDT(fn, 2000)
	if !ok {
		r.Undecided(rule, "checkSessionID", fn.Pos(), "too many paths")
		return
	}
	dt.Leaf = func(env Env, v ssa.Value, e *Evaluator) (int64, bool, bool) {
		switch x := v.(type) {
		case *ssa.Call:
			cal := calleeOf(x)
			if cal.Static == nil {
				return 0, false, false
			}
			recvIsDM := len(x.Call.Args) > 0 && x.Call.Args[0] == ssa.Value(dm)
			switch {
			case recvIsDM && cal.Static.Name() == "Stream":
				return env["stream"], true, true
			case recvIsDM && cal.Static.Name() == "Function":
				return env["function"], true, true
			case recvIsDM && cal.Static.Name() == "SessionID":
				return env["msgSID"], true, true
			case isFn(connSID)(cal):
				return env["ownSID"], true, true
			}
		case *ssa.Extract:
			if isCallTo(x.Tuple, isFn(newDM)) && x.Index == 1 {
				return 0, true, true
			}
		}
		return 0, false, false
	}
	dt.Effect = func(in ssa.Instruction, e *Evaluator, p *Path) string {
		c, ok := in.(ssa.CallInstruction)
		if !ok {
			return ""
		}
		cal := calleeOf(c)
		switch {
		case isFn(newDM)(cal):
			a := c.Common().Args
			if isCallTo(a[3], isFn(connSID)) && isCallTo(a[4], isFn(nextSB)) {
				return "S9(own session id, fresh system bytes)"
			}
			return "S9(?)"
		case isFn(sendAsync)(cal):
			if ex, ok := stripConv(c.Common().Args[2]).(*ssa.Extract); ok && isCallTo(ex.Tuple, isFn(newDM)) {
				return "sendAsync"
			}
			return "sendAsync(?)"
		}
		return ""
	}
	doms := []dom{{"stream", []int64{9, 1}}, {"function", []int64{1, 2}}, {"msgSID", []int64{5, 6}}, {"ownSID", []int64{5}}}
	product(doms, func(env Env) {
		res := dt.Cell(env)
		construct := "checkSessionID(" + envString(env, domNames(doms)) + ")"
		if res.Err != "" {
			r.Undecided(rule, construct, res.Pos, "%s", res.Err)
			return
		}
		isS9F1 := env["stream"] == 9 && env["function"] == 1
		match := env["msgSID"] == env["ownSID"]
		got := strings.Join(res.Effects, ";")
		retNil := len(res.Rets) == 1 && res.Rets[0] == "0"
		if isS9F1 || match {
			r.Check(got == "" && retNil, rule, construct, res.Pos, "accepted, nothing sent", fmt.Sprintf("matching/S9F1 message must pass silently (effects [%s], nil=%v)", got, retNil))
		} else {
			r.Check(got == "S9(own session id, fresh system bytes);sendAsync" && !retNil, rule, construct, res.Pos, "one async S9F1, message dropped", fmt.Sprintf("mismatch must send exactly one S9F1 with own session id + fresh system bytes and return an error (effects [%s], nil=%v)", got, retNil))
		}
	})
	// S9F1 body: built from the offending header via gem.S9F1(dm.HeaderBytes())
	s9f1 := w.Fn("gem", "S9F1")
	okBody := false
	for _, c := range callsIn(fn, isFn(s9f1)) {
		if cc, ok := c.Common().Args[0].(*ssa.Call); ok && len(cc.Call.Args) > 0 && cc.Call.Args[0] == ssa.Value(dm) && calleeOf(cc).Static != nil && calleeOf(cc).Static.Name() == "HeaderBytes" {
			okBody = true
		}
	}
	r.Check(okBody, rule, "S9F1 body is the offending message's header", fn.Pos(), "gem.S9F1(dm.HeaderBytes())", "S9F1 must carry MHEAD of the offending message")
	// DeliverOwnedFrame drops the message when checkSessionID errs
	dof := w.Fn("hsms", "connection.DeliverOwnedFrame")
	paths, okp := enumPaths(dof, 20000)
	if !okp {
		r.Undecided(rule, "DeliverOwnedFrame paths", dof.Pos(), "too many paths")
		return
	}
	routeData := w.Fn("hsms", "connection.RouteData")
	routeReply := w.Fn("hsms", "connection.RouteReply")
	good, n := true, 0
	for _, p := range paths {
		errSID := false
		for _, c := range p.Conds {
			if x, eq, isCmp := isNilCmp(c.Cond); isCmp && isCallTo(x, isFn(fn)) && eq != c.Val {
				errSID = true
			}
		}
		if !errSID {
			continue
		}
		n++
		if len(p.Calls(isFn(routeData)))+len(p.Calls(isFn(routeReply))) != 0 {
			good = false
		}
	}
	r.Check(good && n >= 1, rule, "DeliverOwnedFrame: session-id mismatch ⇒ message not routed", dof.Pos(), fmt.Sprintf("%d mismatch paths route nothing", n), "a message failing the session-id check must reach neither a waiting sender nor the handlers")
}
