package main

import (
	"fmt"
	"go/token"
	"go/types"
	"os"
	"sort"
	"strings"

	"golang.org/x/tools/go/ssa"
)

// ---------- candidate generation ----------

// isSlotInt: integer types that can hold an offset or a length (≥ 32 bits). Narrower
// integers (bytes, codes) are not drawn into contract templates.
func isSlotInt(t types.Type) bool {
	b, ok := t.Underlying().(*types.Basic)
	if !ok || b.Info()&types.IsInteger == 0 {
		return false
	}
	switch b.Kind() {
	case types.Int8, types.Uint8, types.Int16, types.Uint16:
		return false
	}
	return true
}

func mkCand(kind candKind, key, desc string, l Lin, ok bool) *cand {
	if !ok {
		return nil
	}
	return &cand{kind: kind, key: key, desc: desc, L: l, alive: true}
}

func candLeq(kind candKind, a, b Lin, desc string) *cand {
	q, ok := leq(a, b, desc)
	return mkCand(kind, desc, desc, q.L, ok)
}

// paramSlots lists the integer / length-bearing parameter slots of a function.
func paramSlots(fn *ssa.Function) (ints, lens []string, names map[string]string) {
	names = map[string]string{}
	for i, p := range fn.Params {
		if isSlotInt(p.Type()) {
			s := fmt.Sprintf("P%d", i)
			ints = append(ints, s)
			names[s] = p.Name()
		} else if hasLen(p.Type()) {
			s := fmt.Sprintf("len(P%d)", i)
			lens = append(lens, s)
			names[s] = "len(" + p.Name() + ")"
		}
	}
	return
}

func (e *bndEngine) genPrePost(fn *ssa.Function) {
	ints, lens, names := paramSlots(fn)
	var ts *trackedStruct
	if fn.Signature.Recv() != nil && len(fn.Params) > 0 {
		ts = e.isTrackedPtr(fn.Params[0].Type())
	}
	var flens []string
	if ts != nil {
		for _, f := range ts.fields {
			if hasLen(f.Type()) {
				s := "len(F:" + f.Name() + ")"
				flens = append(flens, s)
				names[s] = "len(this." + f.Name() + ")"
			}
		}
	}
	add := func(list *[]*cand, c *cand) {
		if c != nil {
			*list = append(*list, c)
		}
	}
	if !e.entries[fn] {
		var pre []*cand
		for _, p := range ints {
			add(&pre, candLeq(candPre, linConst(0), linAtom(p), names[p]+" ≥ 0"))
			add(&pre, candLeq(candPre, linConst(1), linAtom(p), names[p]+" ≥ 1"))
			if e.checkWrap {
				add(&pre, candLeq(candPre, linAtom(p), linConst(e.magBound()), names[p]+" ≤ mag"))
				add(&pre, candLeq(candPre, linConst(-e.magBound()), linAtom(p), names[p]+" ≥ −mag"))
			}
			for _, q := range ints {
				if p != q {
					add(&pre, candLeq(candPre, linAtom(p), linAtom(q), names[p]+" ≤ "+names[q]))
				}
			}
			for _, s := range append(append([]string{}, lens...), flens...) {
				add(&pre, candLeq(candPre, linAtom(p), linAtom(s), names[p]+" ≤ "+names[s]))
				if l, ok := linAtom(p).add(linConst(1)); ok {
					add(&pre, candLeq(candPre, l, linAtom(s), names[p]+" < "+names[s]))
				}
				for _, q := range ints {
					if p < q {
						if sum, ok := linAtom(p).add(linAtom(q)); ok {
							add(&pre, candLeq(candPre, sum, linAtom(s), names[p]+"+"+names[q]+" ≤ "+names[s]))
						}
					}
				}
			}
		}
		// minimum lengths of slice/string parameters (constants taken from the constant
		// indexes and slice bounds used anywhere in the fragment)
		for _, s := range lens {
			for _, k := range e.lenConsts() {
				add(&pre, candLeq(candPre, linConst(k), linAtom(s), fmt.Sprintf("%s ≥ %d", names[s], k)))
			}
		}
		e.pre[fn] = pre
	}
	// postconditions over results
	var post []*cand
	res := fn.Signature.Results()
	for j := 0; j < res.Len(); j++ {
		if hasLen(res.At(j).Type()) {
			r := fmt.Sprintf("len(R%d)", j)
			rn := fmt.Sprintf("len(result%d)", j)
			for _, p := range ints {
				add(&post, candLeq(candPost, linAtom(p), linAtom(r), rn+" ≥ "+names[p]))
				add(&post, candLeq(candPost, linAtom(r), linAtom(p), rn+" ≤ "+names[p]))
			}
			for _, s := range lens {
				add(&post, candLeq(candPost, linAtom(r), linAtom(s), rn+" ≤ "+names[s]))
				add(&post, candLeq(candPost, linAtom(s), linAtom(r), rn+" ≥ "+names[s]))
			}
			for _, k := range e.lenConsts() {
				add(&post, candLeq(candPost, linConst(k), linAtom(r), fmt.Sprintf("%s ≥ %d", rn, k)))
			}
			continue
		}
		if !isSlotInt(res.At(j).Type()) {
			continue
		}
		r := fmt.Sprintf("R%d", j)
		rn := fmt.Sprintf("result%d", j)
		add(&post, candLeq(candPost, linConst(0), linAtom(r), rn+" ≥ 0"))
		if e.checkWrap {
			add(&post, candLeq(candPost, linAtom(r), linConst(e.magBound()), rn+" ≤ mag"))
			add(&post, candLeq(candPost, linConst(-e.magBound()), linAtom(r), rn+" ≥ −mag"))
		}
		for _, p := range ints {
			add(&post, candLeq(candPost, linAtom(p), linAtom(r), rn+" ≥ "+names[p]))
			add(&post, candLeq(candPost, linAtom(r), linAtom(p), rn+" ≤ "+names[p]))
		}
		for _, s := range lens {
			add(&post, candLeq(candPost, linAtom(r), linAtom(s), rn+" ≤ "+names[s]))
		}
		// results related to the receiver's length-bearing fields as they are on return
		for _, s := range flens {
			g := strings.Replace(s, "F:", "G:", 1)
			add(&post, candLeq(candPost, linAtom(r), linAtom(g), rn+" ≤ "+names[s]+" on return"))
		}
	}
	e.post[fn] = post
	// the same facts, required only of successful returns (error result nil) and usable by a
	// caller only once it has seen err == nil
	if res.Len() > 0 && isErrorType(res.At(res.Len()-1).Type()) {
		var ok []*cand
		for _, cd := range post {
			c2 := *cd
			c2.desc = cd.desc + " when err == nil"
			c2.key = c2.desc
			ok = append(ok, &c2)
		}
		e.postOK[fn] = ok
	}
}

func isErrorType(t types.Type) bool {
	return types.Identical(t, types.Universe.Lookup("error").Type())
}

// lenConsts: constants that matter as minimum lengths in this fragment (constant index+1,
// constant slice bounds, constants lengths are compared with).
func (e *bndEngine) lenConsts() []int64 {
	if e.lenK != nil {
		return e.lenK
	}
	set := map[int64]bool{}
	for _, fn := range e.fns {
		eachInstr(fn, func(in ssa.Instruction) {
			switch x := in.(type) {
			case *ssa.IndexAddr:
				if k, ok := constInt(x.Index); ok && k >= 0 && k < 64 {
					if _, isArr := arrayLenOf(x.X.Type()); !isArr {
						set[k+1] = true
					}
				}
			case *ssa.Index:
				if k, ok := constInt(x.Index); ok && k >= 0 && k < 64 {
					set[k+1] = true
				}
			case *ssa.Slice:
				if _, isArr := arrayLenOf(x.X.Type()); isArr {
					return
				}
				for _, v := range []ssa.Value{x.Low, x.High} {
					if v != nil {
						if k, ok := constInt(v); ok && k > 0 && k < 64 {
							set[k] = true
						}
					}
				}
			case *ssa.BinOp:
				switch x.Op {
				case token.LSS, token.LEQ, token.GTR, token.GEQ, token.EQL, token.NEQ:
					for _, pr := range [][2]ssa.Value{{x.X, x.Y}, {x.Y, x.X}} {
						if c, ok := pr[0].(*ssa.Call); ok && calleeOf(c).Builtin == "len" {
							if k, ok := constInt(pr[1]); ok && k > 0 && k < 64 {
								set[k] = true
							}
						}
					}
				}
			}
		})
	}
	out := []int64{}
	for k := range set {
		out = append(out, k)
	}
	sort.Slice(out, func(i, j int) bool { return out[i] < out[j] })
	e.lenK = out
	return out
}

// genInv generates struct-invariant candidates over the fields of a tracked struct.
func (e *bndEngine) genInv(ts *trackedStruct) {
	var ints, lens []string
	for _, f := range ts.fields {
		if isSlotInt(f.Type()) {
			ints = append(ints, "F:"+f.Name())
		} else if hasLen(f.Type()) {
			lens = append(lens, "len(F:"+f.Name()+")")
		}
	}
	nm := func(s string) string { return strings.ReplaceAll(s, "F:", "this.") }
	var out []*cand
	add := func(c *cand) {
		if c != nil {
			out = append(out, c)
		}
	}
	for _, a := range ints {
		add(candLeq(candInv, linConst(0), linAtom(a), nm(a)+" ≥ 0"))
		if e.checkWrap {
			add(candLeq(candInv, linAtom(a), linConst(e.magBound()), nm(a)+" ≤ mag"))
		}
		for _, k := range e.fieldConsts(ts, a) {
			add(candLeq(candInv, linAtom(a), linConst(k), fmt.Sprintf("%s ≤ %d", nm(a), k)))
		}
		for _, b := range ints {
			if a != b {
				add(candLeq(candInv, linAtom(a), linAtom(b), nm(a)+" ≤ "+nm(b)))
			}
		}
		for _, s := range lens {
			add(candLeq(candInv, linAtom(a), linAtom(s), nm(a)+" ≤ "+nm(s)))
			add(candLeq(candInv, linAtom(s), linAtom(a), nm(s)+" ≤ "+nm(a)))
			for _, b := range ints {
				if a == b {
					continue
				}
				if d, ok := linAtom(a).sub(linAtom(b)); ok {
					add(candLeq(candInv, linAtom(s), d, nm(s)+" ≤ "+nm(a)+" − "+nm(b)))
					add(candLeq(candInv, d, linAtom(s), nm(a)+" − "+nm(b)+" ≤ "+nm(s)))
				}
			}
		}
	}
	e.inv[ts] = out
}

// fieldConsts: constants an integer field of a tracked struct is compared with in the
// struct's methods (upper-bound candidates).
func (e *bndEngine) fieldConsts(ts *trackedStruct, slot string) []int64 {
	set := map[int64]bool{}
	name := strings.TrimPrefix(slot, "F:")
	for _, fn := range e.fns {
		if fn.Signature.Recv() == nil || len(fn.Params) == 0 || e.isTrackedPtr(fn.Params[0].Type()) != ts {
			continue
		}
		eachInstr(fn, func(in ssa.Instruction) {
			b, ok := in.(*ssa.BinOp)
			if !ok {
				return
			}
			switch b.Op {
			case token.LSS, token.LEQ, token.GTR, token.GEQ, token.EQL, token.NEQ:
			default:
				return
			}
			for _, pr := range [][2]ssa.Value{{b.X, b.Y}, {b.Y, b.X}} {
				ld, ok := pr[0].(*ssa.UnOp)
				if !ok || ld.Op != token.MUL {
					continue
				}
				fa, ok := ld.X.(*ssa.FieldAddr)
				if !ok || e.isTrackedPtr(fa.X.Type()) != ts || ts.fields[fa.Field].Name() != name {
					continue
				}
				// the other side, when it folds to a constant
				tmp := e.newCtx(fn, nil)
				if l := tmp.lin(pr[1]); l.isConst() {
					set[l.K] = true
					set[l.K-1] = true
					set[l.K+1] = true
				}
			}
		})
	}
	var out []int64
	for k := range set {
		out = append(out, k)
	}
	sort.Slice(out, func(i, j int) bool { return out[i] < out[j] })
	return out
}

// invariantAt: the atoms of l are all defined outside the region headed by b (parameters,
// constants, values whose block strictly dominates b, entry/older field versions).
func (c *fnCtx) invariantAt(l Lin, b *ssa.BasicBlock) bool {
	rev := c.rev
	for a := range l.C {
		name := strings.TrimSuffix(strings.TrimPrefix(a, "len("), ")")
		if strings.HasPrefix(name, "this.") {
			// field version: entry version or one created in a block strictly dominating b
			at := strings.LastIndexByte(name, '@')
			ver := name[at+1:]
			if ver == "0" {
				continue
			}
			var bi int
			if n, _ := fmt.Sscanf(strings.TrimLeft(ver, "scj"), "%d", &bi); n == 1 && bi < len(c.fn.Blocks) {
				vb := c.fn.Blocks[bi]
				if vb != b && vb.Dominates(b) {
					continue
				}
			}
			return false
		}
		v, ok := rev[name]
		if !ok {
			return false
		}
		switch x := v.(type) {
		case *ssa.Parameter, *ssa.FreeVar, *ssa.Const, *ssa.Global:
		case ssa.Instruction:
			if x.Block() == b || !x.Block().Dominates(b) {
				return false
			}
		default:
			return false
		}
	}
	return true
}

// genBlockCands generates block-entry candidates (loop-phi / join invariants).
func (c *fnCtx) genBlockCands() {
	c.blockCands = map[*ssa.BasicBlock][]*cand{}
	// comparison partners per phi
	type cmp struct{ d Lin }
	var cmps []cmp
	eachInstr(c.fn, func(in ssa.Instruction) {
		b, ok := in.(*ssa.BinOp)
		if !ok || !isIntType(b.X.Type()) {
			return
		}
		switch b.Op {
		case token.LSS, token.LEQ, token.GTR, token.GEQ, token.EQL, token.NEQ:
			if d, ok := c.lin(b.X).sub(c.lin(b.Y)); ok {
				cmps = append(cmps, cmp{d})
			}
		}
	})
	_, lens, _ := paramSlots(c.fn)
	calleeBind := c.calleeBinding(nil)
	for _, b := range c.fn.Blocks {
		var out []*cand
		seen := map[string]bool{}
		add := func(cd *cand) {
			if cd == nil || seen[cd.L.String()] {
				return
			}
			seen[cd.L.String()] = true
			cd.kind = candBlock
			cd.ctx = c
			cd.block = b
			cd.key = fmt.Sprintf("%s#%d:%s", c.fn.Name(), b.Index, cd.desc)
			out = append(out, cd)
		}
		for _, in := range b.Instrs {
			phi, ok := in.(*ssa.Phi)
			if !ok {
				break
			}
			if !isIntType(phi.Type()) {
				continue
			}
			pa := c.lin(phi)
			if len(pa.C) != 1 {
				continue // env-folded or not an atom
			}
			pid := c.id(phi)
			add(candLeq(candBlock, linConst(0), pa, pid+" ≥ 0"))
			if c.e.checkWrap {
				add(candLeq(candBlock, pa, linConst(c.e.magBound()), pid+" ≤ mag"))
				add(candLeq(candBlock, linConst(-c.e.magBound()), pa, pid+" ≥ −mag"))
			}
			// counters that advance no faster than another counter: φ ≤ ψ + k for a phi ψ
			// of this block or of a dominating one (line ≤ i + 1)
			if c.e.checkWrap {
				for _, ob := range c.fn.Blocks {
					if ob != b && !ob.Dominates(b) {
						continue
					}
					for _, oin := range ob.Instrs {
						ophi, ok := oin.(*ssa.Phi)
						if !ok {
							break
						}
						if ophi == phi || !isIntType(ophi.Type()) {
							continue
						}
						oa := c.lin(ophi)
						if len(oa.C) != 1 {
							continue
						}
						for _, j := range []int64{0, 1, 2} {
							if oj, ok := oa.add(linConst(j)); ok {
								add(candLeq(candBlock, pa, oj, pid+" ≤ "+oj.String()))
							}
						}
					}
				}
			}
			// entry-edge values
			for k, pb := range b.Preds {
				if b.Dominates(pb) {
					continue
				}
				ev := c.lin(phi.Edges[k])
				if c.invariantAt(ev, b) {
					add(candLeq(candBlock, ev, pa, pid+" ≥ "+ev.String()))
					add(candLeq(candBlock, pa, ev, pid+" ≤ "+ev.String()))
				}
			}
			// comparison partners: d = ±(φ − y) + k
			for _, cm := range cmps {
				co := cm.d.C[pid]
				if co != 1 && co != -1 {
					continue
				}
				y, ok := linAtom(pid).addScaled(cm.d, -co) // φ − co·d = y' (φ-free part, sign-adjusted)
				if !ok {
					continue
				}
				if _, still := y.C[pid]; still {
					continue
				}
				if !c.invariantAt(y, b) {
					continue
				}
				for _, j := range []int64{-1, 0, 1} {
					if yj, ok := y.add(linConst(j)); ok {
						add(candLeq(candBlock, pa, yj, pid+" ≤ "+yj.String()))
						add(candLeq(candBlock, yj, pa, pid+" ≥ "+yj.String()))
					}
				}
			}
			// φ ≤ len(param) / len(field at this block)
			for _, s := range lens {
				if l, ok := calleeBind[s]; ok {
					add(candLeq(candBlock, pa, l, pid+" ≤ "+l.String()))
				}
			}
			if c.tracked != nil {
				st := c.verIn[b]
				for fi, f := range c.tracked.fields {
					if hasLen(f.Type()) && !c.unstableField(fi) {
						if l, ok := c.fieldLen(fi, st[fi]); ok {
							add(candLeq(candBlock, pa, l, pid+" ≤ "+l.String()))
							if l1, ok := l.add(linConst(-1)); ok {
								add(candLeq(candBlock, pa, l1, pid+" < "+l.String()))
							}
						}
					}
				}
			}
		}
		// struct invariants for join states
		if c.tracked != nil && b != c.fn.Blocks[0] {
			st := c.verIn[b]
			isJoin := false
			for _, v := range st {
				if strings.HasPrefix(v, "j") && v == fmt.Sprintf("j%d", b.Index) {
					isJoin = true
				}
			}
			if isJoin {
				bind := c.stateBinding(st)
				for _, iv := range c.e.inv[c.tracked] {
					if l, ok := substLin(iv.L, bind, false); ok {
						cd := mkCand(candBlock, "", "inv@join: "+iv.desc, l, true)
						cd.invOf = iv
						add(cd)
					}
				}
				// join-local strict relations (not struct invariants: they need not hold at exit)
				for fi, f := range c.tracked.fields {
					if !isSlotInt(f.Type()) || c.unstableField(fi) {
						continue
					}
					a, ok := c.fieldValue(fi, st[fi])
					if !ok {
						continue
					}
					a1, ok := a.add(linConst(1))
					if !ok {
						continue
					}
					for gi, g := range c.tracked.fields {
						if gi == fi || c.unstableField(gi) {
							continue
						}
						if l, ok := c.fieldLen(gi, st[gi]); ok {
							add(candLeq(candBlock, a1, l, "this."+f.Name()+" < len(this."+g.Name()+") @join"))
						} else if l, ok := c.fieldValue(gi, st[gi]); ok {
							add(candLeq(candBlock, a1, l, "this."+f.Name()+" < this."+g.Name()+" @join"))
						}
					}
				}
			}
		}
		if len(out) > 0 {
			c.blockCands[b] = out
		}
	}
}

// ---------- obligations ----------

type bndObligation struct {
	ctx   *fnCtx
	at    ssa.Instruction
	kind  string // index, slice, precondition, divisor, alloc-size, alloc-nonneg, shift
	what  string // rendered construct
	goals []Ineq
	descs []string
}

func (c *fnCtx) obligations() []bndObligation {
	var out []bndObligation
	fnName := c.e.w.FnName(c.fn)
	mk := func(at ssa.Instruction, kind, what string) *bndObligation {
		out = append(out, bndObligation{ctx: c, at: at, kind: kind, what: fnName + ": " + kind + " " + what})
		return &out[len(out)-1]
	}
	goal := func(o *bndObligation, q Ineq, ok bool, desc string) {
		if ok {
			o.goals = append(o.goals, q)
			o.descs = append(o.descs, desc)
		} else {
			o.goals = append(o.goals, Ineq{linConst(1), "overflow"})
			o.descs = append(o.descs, desc+" (arithmetic overflow in the analyser)")
		}
	}
	eachInstr(c.fn, func(in ssa.Instruction) {
		switch x := in.(type) {
		case *ssa.IndexAddr:
			c.indexOb(mk, goal, in, x.X, x.Index)
		case *ssa.Index:
			c.indexOb(mk, goal, in, x.X, x.Index)
		case *ssa.Lookup:
			if _, isMap := x.X.Type().Underlying().(*types.Map); isMap {
				return
			}
			c.indexOb(mk, goal, in, x.X, x.Index)
		case *ssa.Slice:
			n := c.linLen(x.X)
			_, isArr := arrayLenOf(x.X.Type())
			if x.Low == nil && x.High == nil {
				return
			}
			if isArr && x.High == nil && x.Low == nil {
				return
			}
			o := mk(in, "slice", render(x))
			lo := linConst(0)
			if x.Low != nil {
				lo = c.lin(x.Low)
				q, ok := leq(linConst(0), lo, "low ≥ 0")
				goal(o, q, ok, "low ≥ 0")
			}
			hi := n
			if x.High != nil {
				hi = c.lin(x.High)
				// high ≤ len (strings) / ≤ cap (slices): len is the conservative bound unless the
				// operand is a fresh make with a larger known cap
				bound := n
				if ms, ok := x.X.(*ssa.MakeSlice); ok {
					bound = c.lin(ms.Cap)
				}
				q, ok := leq(hi, bound, "high ≤ len")
				goal(o, q, ok, "high ≤ len")
			}
			q, ok := leq(lo, hi, "low ≤ high")
			goal(o, q, ok, "low ≤ high")
		case *ssa.SliceToArrayPointer:
			if n, ok := arrayLenOf(x.Type()); ok {
				o := mk(in, "slice-to-array", render(x))
				q, ok := leq(linConst(n), c.linLen(x.X), "len ≥ array length")
				goal(o, q, ok, "len ≥ array length")
			}
		case *ssa.BinOp:
			switch x.Op {
			case token.QUO, token.REM:
				if !isIntType(x.Type()) {
					return
				}
				d := c.lin(x.Y)
				if d.isConst() && d.K != 0 {
					return
				}
				o := mk(in, "divisor", render(x))
				q, ok := leq(linConst(1), d, "divisor ≥ 1")
				goal(o, q, ok, "divisor ≥ 1")
			case token.SHL, token.SHR:
				if isUnsigned(x.Y.Type()) {
					return
				}
				s := c.lin(x.Y)
				if s.isConst() && s.K >= 0 {
					return
				}
				o := mk(in, "shift", render(x))
				q, ok := leq(linConst(0), s, "shift count ≥ 0")
				goal(o, q, ok, "shift count ≥ 0")
			case token.ADD, token.SUB, token.MUL:
				// no-wrap: the mathematical result of an offset/size computation fits the machine int
				// (everything above treats + − × as mathematical)
				if !c.e.checkWrap || !isIntType(x.Type()) || isUnsigned(x.Type()) {
					return
				}
				// operations of machine-int width: int64 (and int) on a 64-bit target, int and int32
				// on a 32-bit one
				if bk, ok := x.Type().Underlying().(*types.Basic); !ok {
					return
				} else if c.e.is32() {
					if bk.Kind() != types.Int && bk.Kind() != types.Int32 {
						return
					}
				} else if typeBits(x.Type()) != 64 {
					return
				}
				l := c.lin(x)
				if l.isConst() || len(l.C) == 1 && l.C[c.id(x)] == 1 && l.K == 0 {
					return // constant, or not linearisable (opaque product): nothing to state
				}
				o := mk(in, "no-wrap", render(x))
				wn, _, _ := c.e.wrapNames()
				q1, ok1 := leq(l, linConst(c.e.wrapBound()), "result ≤ "+wn)
				goal(o, q1, ok1, "result ≤ "+wn)
				q2, ok2 := leq(linConst(-c.e.wrapBound()), l, "result ≥ −"+wn)
				goal(o, q2, ok2, "result ≥ −"+wn)
			}
		case *ssa.MakeSlice:
			for _, sz := range []ssa.Value{x.Len, x.Cap} {
				l := c.lin(sz)
				if l.isConst() && l.K >= 0 {
					continue
				}
				o := mk(in, "alloc", render(x))
				q, ok := leq(linConst(0), l, "size ≥ 0")
				goal(o, q, ok, "size ≥ 0")
				c.allocGoal(o, goal, in, l)
				if x.Len == x.Cap {
					break
				}
			}
		case ssa.CallInstruction:
			cal := calleeOf(x)
			if cal.Static == nil {
				return
			}
			args := x.Common().Args
			if n, argIdx, ok := needLenCallee(cal.Static); ok && argIdx < len(args) {
				o := mk(in, "precondition", calleeName(cal)+"("+render(args[argIdx])+")")
				q, ok := leq(linConst(n), c.linLen(args[argIdx]), fmt.Sprintf("len ≥ %d", n))
				goal(o, q, ok, fmt.Sprintf("len ≥ %d", n))
			}
			if argIdx, ok := growLikeCallee(cal.Static); ok && argIdx < len(args) {
				l := c.lin(args[argIdx])
				if l.isConst() && l.K >= 0 {
					return
				}
				o := mk(in, "alloc", calleeName(cal)+"("+render(args[argIdx])+")")
				q, ok := leq(linConst(0), l, "size ≥ 0")
				goal(o, q, ok, "size ≥ 0")
				c.allocGoal(o, goal, in, l)
			}
		}
	})
	return out
}

func (c *fnCtx) allocGoal(o *bndObligation, goal func(*bndObligation, Ineq, bool, string), at ssa.Instruction, size Lin) {
	if c.e.allocBound == nil {
		return
	}
	b, desc, ok := c.e.allocBound(c, at)
	if !ok {
		goal(o, Ineq{linConst(1), ""}, true, "size bounded by the input length (no input-length term available here)")
		return
	}
	q, ok2 := leq(size, b, "size ≤ "+desc)
	goal(o, q, ok2, "size ≤ "+desc)
}

func (c *fnCtx) indexOb(mk func(ssa.Instruction, string, string) *bndObligation, goal func(*bndObligation, Ineq, bool, string), in ssa.Instruction, base, idx ssa.Value) {
	n := c.linLen(base)
	i := c.lin(idx)
	if i.isConst() && n.isConst() && i.K >= 0 && i.K < n.K {
		return
	}
	o := mk(in, "index", render(in.(ssa.Value)))
	q, ok := leq(linConst(0), i, "index ≥ 0")
	goal(o, q, ok, "index ≥ 0")
	q, ok = lt(i, n, "index < len")
	goal(o, q, ok, "index < len")
}

// needLenCallee: external functions that panic unless their slice argument is long enough.
func needLenCallee(f *ssa.Function) (n int64, argIdx int, ok bool) {
	if f.Pkg == nil || f.Pkg.Pkg.Path() != "encoding/binary" || f.Signature.Recv() == nil {
		return 0, 0, false
	}
	switch f.Name() {
	case "Uint16", "PutUint16":
		return 2, 1, true
	case "Uint32", "PutUint32":
		return 4, 1, true
	case "Uint64", "PutUint64":
		return 8, 1, true
	}
	return 0, 0, false
}

// growLikeCallee: external functions that allocate (and panic on a negative count)
// according to an integer argument.
func growLikeCallee(f *ssa.Function) (argIdx int, ok bool) {
	if f.Pkg == nil {
		return 0, false
	}
	p := f.Pkg.Pkg.Path()
	switch {
	case (p == "strings" || p == "bytes") && f.Name() == "Grow" && f.Signature.Recv() != nil:
		return 1, true
	case (p == "strings" || p == "bytes") && f.Name() == "Repeat":
		return 1, true
	case p == "slices" && f.Name() == "Grow":
		return 1, true
	}
	return 0, false
}

// ---------- Houdini driver ----------

type bndResult struct {
	obs       []bndObligation
	proved    []bool
	failDesc  []string
	cands     int
	alive     int
	survivors []string
}

func (e *bndEngine) run() *bndResult {
	w := e.w
	// entries: exported, used as a value, or called from outside the fragment
	for _, fn := range e.fns {
		if fn.Object() != nil && fn.Object().Exported() && fn.Parent() == nil {
			if fn.Signature.Recv() == nil || recvExported(fn) {
				e.entries[fn] = true
			}
		}
		if fn.Parent() != nil {
			e.entries[fn] = true // closures: called through values
		}
		for _, u := range w.usesOf(fn) {
			if !w.IsProd(u.Fn) {
				continue // test code may call or override anything; the property is about production wiring
			}
			if u.Kind == "value" && e.seamStoreOnlyCalledInFragment(u, fn) {
				continue
			}
			if u.Kind != "call" || !e.frag[u.Fn] {
				e.entries[fn] = true
			}
		}
	}
	// contexts with constant-parameter specialisation
	for _, fn := range e.fns {
		envs := e.constEnvs(fn)
		for _, env := range envs {
			e.ctxs[fn] = append(e.ctxs[fn], e.newCtx(fn, env))
		}
	}
	for _, fn := range e.fns {
		for _, c := range e.ctxs[fn] {
			eachInstr(fn, func(in ssa.Instruction) {
				if call, ok := in.(ssa.CallInstruction); ok {
					if cal := calleeOf(call); cal.Static != nil && e.frag[cal.Static] {
						e.callers[cal.Static] = append(e.callers[cal.Static], callSite{c, call})
					}
				}
			})
		}
	}
	for _, ts := range e.tracked {
		e.genInv(ts)
	}
	for _, fn := range e.fns {
		e.genPrePost(fn)
	}
	var all []*cand
	for _, fn := range e.fns {
		all = append(all, e.pre[fn]...)
		all = append(all, e.post[fn]...)
		all = append(all, e.postOK[fn]...)
		for _, c := range e.ctxs[fn] {
			c.genBlockCands()
			for _, b := range fn.Blocks {
				all = append(all, c.blockCands[b]...)
			}
		}
	}
	for _, ts := range e.tracked {
		all = append(all, e.inv[ts]...)
	}
	kill := func(cd *cand, why string) {
		if cd.alive {
			cd.alive = false
			cd.died = why
			e.gen++
		}
	}
	// struct invariants must hold for the zero value
	for _, ts := range e.tracked {
		for _, cd := range e.inv[ts] {
			if cd.L.K > 0 {
				kill(cd, "false for the zero value")
			}
		}
	}
	for {
		e.houdiniIt++
		before := e.gen
		// a join-state invariant candidate lives and dies with its struct invariant
		for _, cd := range all {
			if cd.kind == candBlock && cd.invOf != nil && !cd.invOf.alive {
				kill(cd, "struct invariant dropped")
			}
		}
		for _, fn := range e.fns {
			for _, c := range e.ctxs[fn] {
				// block candidates: every incoming edge
				for _, b := range fn.Blocks {
					for _, cd := range c.blockCands[b] {
						if !cd.alive {
							continue
						}
						for _, p := range b.Preds {
							if _, reach := c.facts[p]; !reach && p != fn.Blocks[0] {
								continue // unreachable predecessor
							}
							if !c.proveOnEdge(p, b, cd.L) {
								kill(cd, fmt.Sprintf("not re-established on edge %d→%d", p.Index, b.Index))
								if cd.invOf != nil {
									kill(cd.invOf, fmt.Sprintf("not re-established at join %s#%d", fn.Name(), b.Index))
								}
								break
							}
						}
					}
				}
				// postconditions at every return
				for _, b := range fn.Blocks {
					ret, ok := b.Instrs[len(b.Instrs)-1].(*ssa.Return)
					if !ok {
						continue
					}
					bind := c.calleeBinding(ret)
					for _, cd := range e.post[fn] {
						if !cd.alive {
							continue
						}
						l, ok := substLin(cd.L, bind, false)
						if !ok || !c.proveAt(b, len(b.Instrs)-1, Ineq{l, ""}) {
							kill(cd, "not established at "+w.Pos(ret.Pos()))
						}
					}
					if !c.returnsNonNilError(ret) {
						for _, cd := range e.postOK[fn] {
							if !cd.alive {
								continue
							}
							l, ok := substLin(cd.L, bind, false)
							if !ok || !c.proveAt(b, len(b.Instrs)-1, Ineq{l, ""}) {
								kill(cd, "not established at successful return "+w.Pos(ret.Pos()))
							}
						}
					}
					// struct invariants at exit
					if c.tracked != nil {
						bindS := c.stateBinding(c.verAt[ret])
						for _, cd := range e.inv[c.tracked] {
							if !cd.alive {
								continue
							}
							l, ok := substLin(cd.L, bindS, false)
							if !ok || !c.proveAt(b, len(b.Instrs)-1, Ineq{l, ""}) {
								if t := os.Getenv("SECSCHECK_BND_TRACE"); t != "" && strings.Contains(cd.desc, t) {
									fmt.Printf("TRACE kill %q at return %s of %s: goal %s ≤ 0 (subst ok=%v) state=%v\n", cd.desc, w.Pos(ret.Pos()), fn.Name(), l.String(), ok, c.verAt[ret])
									for _, q := range c.factsAt(b, len(b.Instrs)-1).ineqs {
										fmt.Printf("    fact %s   [%s]\n", q.String(), q.Why)
									}
								}
								kill(cd, "not re-established at return "+w.Pos(ret.Pos())+" of "+fn.Name())
							}
						}
					}
				}
				// call sites: callee preconditions, and struct invariants before handing the receiver over
				for _, b := range fn.Blocks {
					if _, reach := c.facts[b]; !reach && b != fn.Blocks[0] {
						continue
					}
					for i, in := range b.Instrs {
						call, ok := in.(ssa.CallInstruction)
						if !ok {
							continue
						}
						var cal Callee
						cal.Static = w.staticOrFieldCallee(call)
						if cal.Static != nil && e.frag[cal.Static] && !e.entries[cal.Static] {
							bind := c.callerBinding(call, false)
							for _, cd := range e.pre[cal.Static] {
								if !cd.alive {
									continue
								}
								l, ok := substLin(cd.L, bind, false)
								if !ok || !c.proveAt(b, i, Ineq{l, ""}) {
									kill(cd, "not established at call "+w.Pos(in.Pos())+" in "+fn.Name())
								}
							}
						}
						if c.tracked != nil && c.passesRecv(call) {
							bindS := c.stateBinding(c.verAt[in])
							for _, cd := range e.inv[c.tracked] {
								if !cd.alive {
									continue
								}
								l, ok := substLin(cd.L, bindS, false)
								if !ok || !c.proveAt(b, i, Ineq{l, ""}) {
									kill(cd, "does not hold before call "+w.Pos(in.Pos())+" in "+fn.Name())
								}
							}
						}
					}
				}
			}
		}
		if e.gen == before || e.houdiniIt > 40 {
			break
		}
	}
	res := &bndResult{cands: len(all)}
	for _, cd := range all {
		if cd.alive {
			res.alive++
			switch cd.kind {
			case candInv:
				res.survivors = append(res.survivors, "invariant: "+cd.desc)
			}
		}
	}
	for _, fn := range e.fns {
		var ps []string
		for _, cd := range e.pre[fn] {
			if cd.alive {
				ps = append(ps, cd.desc)
			}
		}
		if len(ps) > 0 {
			res.survivors = append(res.survivors, "pre "+fn.Name()+": "+strings.Join(ps, ", "))
		}
		ps = nil
		for _, cd := range e.post[fn] {
			if cd.alive {
				ps = append(ps, cd.desc)
			}
		}
		if len(ps) > 0 {
			res.survivors = append(res.survivors, "post "+fn.Name()+": "+strings.Join(ps, ", "))
		}
	}
	// obligations
	for _, fn := range e.fns {
		for _, c := range e.ctxs[fn] {
			for _, o := range c.obligations() {
				ok := true
				var fails []string
				b := o.at.Block()
				if _, reach := c.facts[b]; !reach && b != fn.Blocks[0] {
					res.obs = append(res.obs, o)
					res.proved = append(res.proved, true)
					res.failDesc = append(res.failDesc, "unreachable")
					continue
				}
				idx := blockIndexOf(o.at)
				for gi, g := range o.goals {
					if !c.proveAt(b, idx, g) {
						ok = false
						fails = append(fails, o.descs[gi])
					}
				}
				res.obs = append(res.obs, o)
				res.proved = append(res.proved, ok)
				res.failDesc = append(res.failDesc, strings.Join(fails, "; "))
			}
		}
	}
	return res
}

func recvExported(fn *ssa.Function) bool {
	r := fn.Signature.Recv()
	if r == nil {
		return true
	}
	t := r.Type()
	if p, ok := t.(*types.Pointer); ok {
		t = p.Elem()
	}
	if n, ok := t.(*types.Named); ok {
		return n.Obj().Exported()
	}
	return false
}

// passesRecv: the call hands the tracked receiver (or a closure capturing it) to a callee.
func (c *fnCtx) passesRecv(call ssa.CallInstruction) bool {
	cc := call.Common()
	for _, a := range cc.Args {
		if a == ssa.Value(c.recv) {
			return true
		}
	}
	if mc, ok := cc.Value.(*ssa.MakeClosure); ok {
		for _, b := range mc.Bindings {
			if b == ssa.Value(c.recv) {
				return true
			}
		}
	}
	return false
}

// constEnvs: when every call of fn (module-wide) passes an integer constant for a
// parameter, the function is analysed once per constant (the parameter is replaced by it).
func (e *bndEngine) constEnvs(fn *ssa.Function) []map[ssa.Value]int64 {
	if e.entries[fn] {
		return []map[ssa.Value]int64{nil}
	}
	uses := e.w.usesOf(fn)
	if len(uses) == 0 {
		return []map[ssa.Value]int64{nil}
	}
	type pv struct {
		p    *ssa.Parameter
		vals []int64
	}
	var ps []pv
	for i, p := range fn.Params {
		if !isIntType(p.Type()) {
			continue
		}
		set := map[int64]bool{}
		all := true
		for _, u := range uses {
			call, ok := u.Instr.(ssa.CallInstruction)
			if !ok || u.Kind != "call" || i >= len(call.Common().Args) {
				all = false
				break
			}
			k, ok := constInt(call.Common().Args[i])
			if !ok {
				all = false
				break
			}
			set[k] = true
		}
		if all && len(set) > 0 && len(set) <= 8 {
			var vals []int64
			for k := range set {
				vals = append(vals, k)
			}
			sort.Slice(vals, func(a, b int) bool { return vals[a] < vals[b] })
			ps = append(ps, pv{p, vals})
		}
	}
	envs := []map[ssa.Value]int64{{}}
	for _, x := range ps {
		var next []map[ssa.Value]int64
		for _, env := range envs {
			for _, k := range x.vals {
				m := map[ssa.Value]int64{}
				for a, b := range env {
					m[a] = b
				}
				m[x.p] = k
				next = append(next, m)
			}
		}
		envs = next
		if len(envs) > 32 {
			return []map[ssa.Value]int64{nil}
		}
	}
	return envs
}
