package main

import (
	"fmt"
	"go/token"
	"go/types"
	"sort"
	"strings"

	"golang.org/x/tools/go/ssa"
)

func init() {
	register(&PropSpec{
		ID: "C17",
		Rules: []Rule{
			{Name: "C17-R1-block-header-layout", Doc: "bit-provenance of the ten block-header bytes buildHeader writes equals SEMI E4 (R|device id, W|stream, function, E|block number, system bytes) on every path, and the block accessors read back exactly those bits", Run: c17HeaderLayout},
			{Name: "C17-R2-length-and-checksum", Doc: "block.appendTo writes length byte = 10 + body length, header, body, then the low 16 bits of the byte sum of header+body high byte first; parseBlock rejects lengths outside [10,254] and a buffer that is not length+2 bytes, sums exactly the first `length` bytes and compares with the big-endian trailing checksum", Run: c17Checksum},
			{Name: "C17-R3-bounds", Doc: "every index, slice and allocation size in the SECS-I block/message code (parseBlock, appendTo, splitBody, assembleBlocks, assembleFrame, buildHeader and the line reader) is proven in range", Run: c17Bounds},
			{Name: "C17-R5-receive-handshake", Doc: "a block with a bad length byte or checksum is answered NAK only after the line went silent (so that the tail of a mis-framed block is never read as new traffic and delivered as a message nobody sent); a good block is ACKed before it is handed on; shared with C18-R3", Run: func(r *Run) {
				r.ruleAlias = "C17-R5-receive-handshake"
				defer func() { r.ruleAlias = "" }()
				c18ReceiveHandshake(r)
			}},
			{Name: "C17-R4-assembler-table", Doc: "decision table of assembler.accept on every path: wrong device → drop+report; wrong direction → drop; open ∧ gap > T4 → discard the partial first; a repeat of the last accepted header → drop whether or not a partial is open; expected continuation → append; anything else aborts the partial and is re-evaluated as a first block; plus the exact field updates of reset / startMessage / appendBlock (T4 base advanced by every accepted block, duplicate record kept across messages)", Run: c17Assembler},
		},
		NotDec:  []string{"bytes on a real line against an independent E4 peer", "timing of T4 in real time"},
		Trusted: []string{"SEMI E4 block layout as transcribed in the rule"},
	})
	register(&PropSpec{
		ID: "C18",
		Rules: []Rule{
			{Name: "C18-R1-retry-loop", Doc: "sendBlock attempts a block while retry ≤ limit; retry grows by one exactly on a retryable failure and on a failed receive during a contention yield, returns to zero only after the yielded block was received and delivered, and leaving the loop reports ErrSendFailed after counting the failure", Run: c18RetryLoop},
			{Name: "C18-R3-receive-handshake", Doc: "receiveBlock: every failure class answers NAK (after listening for silence when the length byte or the checksum was bad), success answers ACK before the block is returned, and nothing is returned as a block on a failure path", Run: c18ReceiveHandshake},
			{Name: "C18-R4-single-sink", Doc: "one inbound assembler feed per generation: lineEngine builds it once and hands the same value to the idle receive path and to every send (blocks taken during a contention yield join the same partial message); lineIO methods are reached only from the line engine", Run: c18SingleSink},
			{Name: "C18-R5-duplicate-record", Doc: "the duplicate-block record survives message completion (shared with C17-R4: reset does not touch it; accept tests it before anything that depends on an open partial)", Run: func(r *Run) { c17AssemblerAs(r, "C18-R5-duplicate-record") }},
		},
		NotDec:  []string{"exactly-once delivery, ordering and deadlock freedom under arbitrary fault patterns (runtime behaviour)"},
		Trusted: nil,
	})
}

func c17HeaderLayout(r *Run) {
	const rule = "C17-R1-block-header-layout"
	w := r.W
	bh := w.Fn("secs1", "buildHeader")
	r.Analysed(w.FnName(bh))
	arr := localByteArray(bh, 10)
	if arr == nil {
		bail("buildHeader: local [10]byte not found")
	}
	paths, ok := enumPaths(bh, 200)
	if !ok {
		r.Undecided(rule, "buildHeader paths", bh.Pos(), "too many")
		return
	}
	h := "$" + bh.Params[0].Name()
	num := atomBV("$"+bh.Params[1].Name(), 16)
	last := bh.Params[2]
	var builder [][]bv
	n := 0
	for _, p := range paths {
		if _, isRet := p.Exit.(*ssa.Return); !isRet {
			continue
		}
		// decisions: h.rBit, h.waitBit, last
		dec := map[string]int{"rBit": -1, "waitBit": -1, "last": -1}
		for _, f := range p.Conds {
			s := render(f.Cond)
			switch {
			case f.Cond == ssa.Value(last):
				dec["last"] = boolInt(f.Val)
			case strings.HasSuffix(s, ".rBit"):
				dec["rBit"] = boolInt(f.Val)
			case strings.HasSuffix(s, ".waitBit"):
				dec["waitBit"] = boolInt(f.Val)
			}
		}
		if dec["rBit"] < 0 || dec["waitBit"] < 0 || dec["last"] < 0 {
			r.Fail(rule, "buildHeader path decides R, W and E", p.Exit.Pos(), "a path builds a header without deciding all three flag bits ["+shortCond(p)+"]")
			continue
		}
		e := newBitEval(p)
		key, _, _ := e.memBase(arr)
		e.run()
		mem := e.mem[key]
		n++
		dev := atomBV(h+".deviceID", 16)
		st := atomBV(h+".stream", 8)
		flag := func(v bv, bit int) bv { o := make(bv, 8); copy(o, v[:7]); o[7] = bsrc{k: int8(bit)}; return o }
		want := []bv{
			flag(byteOf(dev, 1), dec["rBit"]), byteOf(dev, 0),
			flag(st, dec["waitBit"]), atomBV(h+".function", 8),
			flag(byteOf(num, 1), dec["last"]), byteOf(num, 0),
		}
		for i := 0; i < 4; i++ {
			want = append(want, atomBV(fmt.Sprintf("%s.systemBytes[%d]", h, i), 8))
		}
		names := []string{"R | device id high", "device id low", "W | stream", "function", "E | block number high", "block number low", "system byte 0", "system byte 1", "system byte 2", "system byte 3"}
		for i := 0; i < 10; i++ {
			got := mem[i]
			// a cleared flag position may carry bit 15 of the 15-bit field's own source value: device id
			// and block number are bounded by 0x7FFF elsewhere (config validation / split limit, checked below)
			if (i == 0 || i == 4) && want[i][7].k == 0 && got[7].k == 2 && got[7].i == 15 && got[7].a == want[i][6].a {
				g2 := make(bv, 8)
				copy(g2, got)
				g2[7] = bsrc{}
				got = g2
			}
			r.Check(bitsEqual(got, want[i]), rule, fmt.Sprintf("buildHeader[R=%d W=%d E=%d] byte %d (%s)", dec["rBit"], dec["waitBit"], dec["last"], i, names[i]), p.Exit.Pos(), want[i].String(), "E4 requires "+want[i].String()+", built "+mem[i].String())
		}
		if dec["rBit"] == 1 && dec["waitBit"] == 1 && dec["last"] == 1 {
			builder = append(builder, mem)
		}
	}
	r.Floor(rule, "buildHeader paths", n, 8)
	// accessors
	type acc struct {
		name string
		want bv
	}
	dev := atomBV(h+".deviceID", 16)
	dev15 := make(bv, 16)
	copy(dev15, dev[:15])
	num15 := make(bv, 16)
	copy(num15, num[:15])
	st7 := atomBV(h+".stream", 8)
	st7[7] = bsrc{}
	accs := []acc{{"deviceID", dev15}, {"stream", st7}, {"function", atomBV(h+".function", 8)}, {"blockNumber", num15}, {"rBit", constBV(1, 1)}, {"waitBit", constBV(1, 1)}, {"eBit", constBV(1, 1)}}
	if len(builder) == 0 {
		r.Fail(rule, "buildHeader all-flags path", bh.Pos(), "not found")
		return
	}
	for _, a := range accs {
		af := w.Fn("secs1", "block."+a.name)
		r.Analysed(w.FnName(af))
		aps, ok := enumPaths(af, 20)
		if !ok || len(aps) != 1 {
			r.Undecided(rule, "block."+a.name+" is straight-line", af.Pos(), "%d paths", len(aps))
			continue
		}
		e := newBitEval(aps[0])
		e.run()
		got := e.eval(aps[0].Rets()[0])
		// the receiver is a struct value spilled to a local: header bytes are named <x>.header[k]
		prefix := ""
		for _, b := range got {
			if b.k == 2 {
				if i := strings.Index(b.a, ".header["); i >= 0 {
					prefix = b.a[:i] + ".header"
				}
			}
		}
		g := substHeader(got, prefix, builder[0])
		r.Check(bitsEqual(g, a.want), rule, "block."+a.name+"() ∘ buildHeader", af.Pos(), a.want.String(), "reads "+g.String()+", expected "+a.want.String())
	}
}

func c17Checksum(r *Run) {
	const rule = "C17-R2-length-and-checksum"
	w := r.W
	at := w.Fn("secs1", "block.appendTo")
	pb := w.Fn("secs1", "parseBlock")
	r.Analysed(w.FnName(at))
	r.Analysed(w.FnName(pb))
	hdrSize := w.ConstInt("secs1", "blockHeaderSize")
	r.Check(hdrSize == 10 && w.ConstInt("secs1", "minBlockLength") == 10 && w.ConstInt("secs1", "maxBlockLength") == 254 && w.ConstInt("secs1", "checksumSize") == 2, rule, "block size constants (header 10, length 10..254, checksum 2)", at.Pos(), "E4 §7", "block size constants differ from SEMI E4")
	// appendTo: appends in order: [byte(10+bodyLen)], header[:], body.AppendTo, [cs>>8, cs]
	var appends []*ssa.Call
	var bodyApp *ssa.Call
	eachInstr(at, func(in ssa.Instruction) {
		if c, ok := in.(*ssa.Call); ok {
			if calleeOf(c).Builtin == "append" {
				appends = append(appends, c)
			}
			if c.Call.IsInvoke() && c.Call.Method.Name() == "AppendTo" {
				bodyApp = c
			}
			if g := calleeOf(c).Static; g != nil && g.Name() == "AppendTo" && strings.Contains(render(c), ".body.") {
				bodyApp = c
			}
		}
	})
	okShape := len(appends) == 3 && bodyApp != nil
	r.Check(okShape, rule, "block.appendTo: length byte, header, body, checksum", at.Pos(), "3 appends + body.AppendTo", fmt.Sprintf("found %d appends", len(appends)))
	if okShape {
		paths, ok := enumPaths(at, 50)
		if ok && len(paths) > 0 {
			// a path that runs the summing loop (the zero-iteration path has a constant sum)
			p := paths[0]
			for _, q := range paths {
				if len(q.Blocks) > len(p.Blocks) {
					p = q
				}
			}
			e := newBitEval(p)
			e.run()
			// first append: one byte = byte(10 + bodyLen)
			if sl, ok := appends[0].Call.Args[1].(*ssa.Slice); ok {
				if k, _, okm := e.memBase(sl.X); okm && len(e.mem[k]) == 1 {
					var lenArg ssa.Value
					for _, ref := range *sl.X.(*ssa.Alloc).Referrers() {
						if ia, ok := ref.(*ssa.IndexAddr); ok {
							for _, r2 := range *ia.Referrers() {
								if st, ok := r2.(*ssa.Store); ok {
									lenArg = st.Val
								}
							}
						}
					}
					s := render(lenArg)
					r.Check(strings.Contains(s, "10") && strings.Contains(s, ".Len()") && (strings.HasPrefix(s, "uint8(") || strings.HasPrefix(s, "byte(")), rule, "block.appendTo: length byte = 10 + body length", appends[0].Pos(), s, "the length byte counts header and body, not the checksum: "+s)
				}
			}
			// header in full, then body onto that
			h, isSl := appends[1].Call.Args[1].(*ssa.Slice)
			r.Check(isSl && h.Low == nil && h.High == nil && strings.HasSuffix(render(h.X), ".header") && appends[1].Call.Args[0] == ssa.Value(appends[0]), rule, "block.appendTo: the ten header bytes follow the length byte", appends[1].Pos(), "header[:]", "the full header must follow the length byte")
			r.Check(bodyApp.Call.Args[len(bodyApp.Call.Args)-1] == ssa.Value(appends[1]), rule, "block.appendTo: the body follows the header", bodyApp.Pos(), "body.AppendTo(dst)", "the body must be appended right after the header")
			// checksum bytes: high then low of uint16(sum & 0xFFFF); sum over dst[start:] with start = len(after length byte)
			if sl, ok := appends[2].Call.Args[1].(*ssa.Slice); ok {
				if k, _, okm := e.memBase(sl.X); okm && len(e.mem[k]) == 2 {
					hi, lo := e.mem[k][0], e.mem[k][1]
					okCs := true
					for i := 0; i < 8; i++ {
						if hi[i].k != 2 || lo[i].k != 2 || hi[i].a != lo[i].a || hi[i].i != i+8 || lo[i].i != i {
							okCs = false
						}
					}
					r.Check(okCs, rule, "block.appendTo: checksum written high byte then low byte", appends[2].Pos(), "big-endian 16-bit sum", fmt.Sprintf("checksum bytes are %v %v", hi, lo))
				}
			}
			r.Check(appends[2].Call.Args[0] == ssa.Value(bodyApp), rule, "block.appendTo: checksum follows the body", appends[2].Pos(), "append(body-extended dst, …)", "the checksum must be the last two bytes")
		}
		// the summed range starts after the length byte: slice dst[start:] with start = len(dst after first append)
		okRange := false
		eachInstr(at, func(in ssa.Instruction) {
			if sl, ok := in.(*ssa.Slice); ok && sl.X == ssa.Value(bodyApp) && sl.Low != nil && sl.High == nil {
				if c, ok := sl.Low.(*ssa.Call); ok && calleeOf(c).Builtin == "len" && c.Call.Args[0] == ssa.Value(appends[0]) {
					okRange = true
				}
			}
		})
		r.Check(okRange, rule, "block.appendTo: the sum covers header and body only (not the length byte)", at.Pos(), "dst[len(after length byte):]", "E4 sums the header and the data, not the length byte")
	}
	// parseBlock
	dtPaths, ok := enumPaths(pb, 2000)
	if !ok {
		r.Undecided(rule, "parseBlock paths", pb.Pos(), "too many")
		return
	}
	nOK := 0
	for _, p := range dtPaths {
		ret, isRet := p.Exit.(*ssa.Return)
		if !isRet {
			continue
		}
		if render(p.Rets()[1]) != "nil" {
			continue
		}
		nOK++
		cond := p.String()
		need := []string{"< 10)", "(254 <", "len($rest)", "BigEndian.Uint16("}
		for _, nd := range need {
			if !strings.Contains(cond, nd) {
				r.Fail(rule, "parseBlock success path decides "+nd, ret.Pos(), "a block is accepted without this test ["+shortCond(p)+"]")
			}
		}
	}
	r.Floor(rule, "parseBlock success paths", nOK, 1)
	// the same, decided by the prover with the right polarity and the exact boundaries: at every
	// success return 10 ≤ n ≤ 254 and len(rest) = n+2 are established, and n = 10 and n = 254 are
	// still accepted
	{
		e := newBndEngine(w, "c17-parseBlock", []*ssa.Function{pb}, nil)
		e.entries[pb] = true
		c := e.newCtx(pb, nil)
		nv := c.lin(pb.Params[0])
		rest := c.linLen(pb.Params[1])
		for _, ret := range returnsOf(pb) {
			if len(ret.Results) != 2 || !isNilConst(ret.Results[1]) {
				continue
			}
			b, idx := ret.Block(), blockIndexOf(ret)
			q1, ok1 := leq(linConst(10), nv, "")
			q2, ok2 := leq(nv, linConst(254), "")
			n2, _ := nv.add(linConst(2))
			q3, ok3 := leq(rest, n2, "")
			q4, ok4 := leq(n2, rest, "")
			r.Check(ok1 && c.proveAt(b, idx, q1), rule, "parseBlock accepts only length ≥ 10", ret.Pos(), "n ≥ 10", "a length byte below the header size must be refused")
			r.Check(ok2 && c.proveAt(b, idx, q2), rule, "parseBlock accepts only length ≤ 254", ret.Pos(), "n ≤ 254", "a length byte above 254 must be refused")
			r.Check(ok3 && ok4 && c.proveAt(b, idx, q3) && c.proveAt(b, idx, q4), rule, "parseBlock accepts only len(rest) = length + 2", ret.Pos(), "exact", "the buffer must hold exactly the announced bytes plus the checksum")
			for _, edge := range []int64{10, 254} {
				qa, _ := leq(nv, linConst(edge), "")
				qb, _ := leq(linConst(edge), nv, "")
				fs := c.factsAt(b, idx)
				fs.ineqs = append(fs.ineqs, qa, qb)
				r.Check(!c.entailsSat(fs, Ineq{linConst(1), ""}), rule, fmt.Sprintf("parseBlock still accepts length = %d", edge), ret.Pos(), "boundary reachable", fmt.Sprintf("a block with length byte %d is valid and must not be refused", edge))
			}
		}
	}
	// the sum ranges over rest[:n]; the checksum is rest[n:n+2] big-endian; compared as 16 bits
	sumOK, csOK := false, false
	eachInstr(pb, func(in ssa.Instruction) {
		if sl, ok := in.(*ssa.Slice); ok && sl.X == ssa.Value(pb.Params[1]) {
			lo, hi := "", ""
			if sl.Low != nil {
				lo = render(sl.Low)
			}
			if sl.High != nil {
				hi = render(sl.High)
			}
			if lo == "" && hi == "int($lengthByte)" {
				sumOK = true
			}
			if lo == "int($lengthByte)" && hi == "(2 + int($lengthByte))" {
				csOK = true
			}
		}
	})
	r.Check(sumOK, rule, "parseBlock sums exactly rest[:length]", pb.Pos(), "header+body", "the receiver must sum the same bytes the sender summed")
	r.Check(csOK, rule, "parseBlock reads the checksum from rest[length:length+2]", pb.Pos(), "trailing two bytes", "the checksum is the two bytes after header+body")
}

func secs1BlockFragment(w *World) []*ssa.Function {
	entries := []*ssa.Function{w.Fn("secs1", "parseBlock"), w.Fn("secs1", "block.appendTo"), w.Fn("secs1", "splitBody"), w.Fn("secs1", "assembleBlocks"), w.Fn("secs1", "assembleFrame"), w.Fn("secs1", "buildHeader"),
		w.Fn("secs1", "lineIO.receiveBlock"), w.Fn("secs1", "lineIO.readFull"), w.Fn("secs1", "lineIO.writeAll"),
		w.Fn("secs1", "transport.Write"), w.Fn("secs1", "transport.splitFrame")}
	return fragmentFrom(w, entries, func(p string) bool { return p == "secs1" || p == "internal/wire" })
}

func c17Bounds(r *Run) {
	const rule = "C17-R3-bounds"
	w := r.W
	e := newBndEngine(w, "secs1-blocks", secs1BlockFragment(w), nil)
	bndReport(r, rule, e, 10)
}

func c17Assembler(r *Run) { c17AssemblerAs(r, "C17-R4-assembler-table") }

func c17AssemblerAs(r *Run, rule string) {
	w := r.W
	acc := w.Fn("secs1", "assembler.accept")
	r.Analysed(w.FnName(acc))
	paths, ok := enumPaths(acc, 20000)
	if !ok {
		r.Undecided(rule, "assembler.accept paths", acc.Pos(), "too many")
		return
	}
	effectNames := map[string]bool{"incDeviceIDMismatchCount": true, "report": true, "incBlockDirDropCount": true, "incPartialTimeoutCount": true, "reset": true, "incBlockDupDropCount": true, "appendBlock": true, "incBlockNumberMismatchCount": true, "startMessage": true, "beginMessage": true}
	n := 0
	for _, p := range paths {
		if _, isRet := p.Exit.(*ssa.Return); !isRet {
			continue
		}
		n++
		d := map[string]int{"dev": -1, "dir": -1, "open1": -1, "t4": -1, "haveLast": -1, "dupEq": -1, "open2": -1, "num": -1, "hdr": -1}
		openSeen := 0
		for _, f := range p.Conds {
			s := renderWith(f.Cond, p.Resolve)
			b, _ := f.Cond.(*ssa.BinOp)
			val := f.Val
			switch {
			case strings.Contains(s, ".deviceID()") && b != nil:
				d["dev"] = boolInt((b.Op == token.EQL) == val) // device matches
			case strings.Contains(s, ".rBit()") && b != nil:
				// dropped when rBit == isEquip
				d["dir"] = boolInt((b.Op == token.NEQ) == val)
			case strings.HasSuffix(s, ".open") || strings.Contains(s, ".open)"):
				openSeen++
				if openSeen == 1 {
					d["open1"] = boolInt(val)
				} else {
					d["open2"] = boolInt(val)
				}
			case strings.Contains(s, "T4"):
				d["t4"] = boolInt(val) // gap > T4
			case strings.HasSuffix(s, ".haveLast"):
				d["haveLast"] = boolInt(val)
			case strings.Contains(s, ".lastHeader") && b != nil:
				d["dupEq"] = boolInt((b.Op == token.EQL) == val)
			case strings.Contains(s, ".blockNumber()") && strings.Contains(s, ".expected") && b != nil:
				// two occurrences: the continuation test and the violation choice; keep the first
				if d["num"] == -1 {
					d["num"] = boolInt((b.Op == token.EQL) == val)
				}
			case strings.Contains(s, ".messageHeader()") && b != nil:
				d["hdr"] = boolInt((b.Op == token.EQL) == val)
			}
		}
		// when step 2 did not run the only open load is the step-4 one
		if openSeen == 1 && d["t4"] == -1 && d["dev"] == 1 && d["dir"] == 1 && d["open1"] == 1 {
			// `a.open && gap > T4`: open true, t4 must have been decided; keep as is
		}
		if openSeen == 1 && d["open1"] == 0 {
			// open false at step 2 short-circuits; the same path then loads open again at step 4 —
			// if only one load is on the path the function was restructured: treat it as both
			d["open2"] = -1
		}
		var eff []string
		for _, in := range p.Instrs() {
			if c, ok := in.(*ssa.Call); ok {
				if g := calleeOf(c).Static; g != nil && effectNames[g.Name()] {
					nm := g.Name()
					if nm == "startMessage" {
						nm += "(" + render(c.Call.Args[len(c.Call.Args)-1]) + ")"
					}
					eff = append(eff, nm)
				}
			}
		}
		// oracle
		var want []string
		undecided := ""
		need := func(k string) int {
			if d[k] == -1 && undecided == "" {
				undecided = k
			}
			return d[k]
		}
		func() {
			if need("dev") != 1 {
				want = []string{"incDeviceIDMismatchCount", "report"}
				return
			}
			if need("dir") != 1 {
				want = []string{"incBlockDirDropCount"}
				return
			}
			if need("open1") == 1 && need("t4") == 1 {
				want = append(want, "incPartialTimeoutCount", "reset")
			}
			if need("haveLast") == 1 && need("dupEq") == 1 {
				want = append(want, "incBlockDupDropCount")
				return
			}
			open := d["open2"]
			if open == -1 {
				open = need("open1") // a single load serves both steps
			}
			if open == 1 {
				if need("num") == 1 && need("hdr") == 1 {
					want = append(want, "appendBlock")
					return
				}
				want = append(want, "incBlockNumberMismatchCount", "report", "reset", "startMessage(false)")
				return
			}
			want = append(want, "beginMessage")
		}()
		construct := fmt.Sprintf("assembler.accept(dev=%d dir=%d open=%d gap>T4=%d haveLast=%d sameHeader=%d open'=%d number=%d header=%d)", d["dev"], d["dir"], d["open1"], d["t4"], d["haveLast"], d["dupEq"], d["open2"], d["num"], d["hdr"])
		if undecided != "" {
			r.Fail(rule, construct, p.Exit.Pos(), "the path returns without deciding '"+undecided+"', which E4's receive algorithm needs at this point (effects "+strings.Join(eff, ";")+")")
			continue
		}
		r.Check(strings.Join(eff, ";") == strings.Join(want, ";"), rule, construct, p.Exit.Pos(), strings.Join(want, ";"), "effects ["+strings.Join(eff, ";")+"], E4 requires ["+strings.Join(want, ";")+"]")
	}
	r.Floor(rule, "assembler.accept paths", n, 10)
	// field-update tables
	type upd map[string]string
	fieldWrites := func(fn *ssa.Function, onlyAfterValid bool) upd {
		out := upd{}
		eachInstr(fn, func(in ssa.Instruction) {
			st, ok := in.(*ssa.Store)
			if !ok {
				return
			}
			fa, ok := st.Addr.(*ssa.FieldAddr)
			if !ok || fa.X != ssa.Value(fn.Params[0]) {
				return
			}
			out[fieldOf(fa).Name()] = render(st.Val)
		})
		return out
	}
	check := func(name string, want map[string]func(string) bool, forbidden []string) {
		fn := w.Fn("secs1", "assembler."+name)
		r.Analysed(w.FnName(fn))
		got := fieldWrites(fn, false)
		var ks []string
		for k := range want {
			ks = append(ks, k)
		}
		sort.Strings(ks)
		for _, k := range ks {
			v, ok := got[k]
			r.Check(ok && want[k](v), rule, fmt.Sprintf("assembler.%s sets %s", name, k), fn.Pos(), v, fmt.Sprintf("required update of %s is missing or wrong (writes %q)", k, v))
		}
		for _, k := range forbidden {
			_, ok := got[k]
			r.Check(!ok, rule, fmt.Sprintf("assembler.%s leaves %s alone", name, k), fn.Pos(), "untouched", k+" is the running duplicate record of the last accepted block: it must survive message boundaries (a retransmitted last block would otherwise be delivered twice)")
		}
	}
	has := func(subs ...string) func(string) bool {
		return func(s string) bool {
			for _, x := range subs {
				if !strings.Contains(s, x) {
					return false
				}
			}
			return true
		}
	}
	check("reset", map[string]func(string) bool{"open": has("false"), "expected": has("0"), "blocks": has("[:0]")}, []string{"lastHeader", "haveLast"})
	check("appendBlock", map[string]func(string) bool{"blocks": has("append(", ".blocks"), "expected": has("blockNumber()", "1"), "lastBlockTime": has(".now()"), "lastHeader": has("$blk.header"), "haveLast": has("true")}, nil)
	check("startMessage", map[string]func(string) bool{"open": has("true"), "header": has("messageHeader()"), "blocks": has("append(", "[:0]"), "expected": has("1"), "lastBlockTime": has(".now()"), "lastHeader": has("$blk.header"), "haveLast": has("true")}, nil)
	// complete(): assemble, reset, deliver — delivered exactly once per completed message
	cp := w.Fn("secs1", "assembler.complete")
	r.Analysed(w.FnName(cp))
	cpaths, ok := enumPaths(cp, 100)
	if ok {
		for _, p := range cpaths {
			var eff []string
			for _, in := range p.Instrs() {
				if c, ok := in.(*ssa.Call); ok {
					if g := calleeOf(c).Static; g != nil && (g.Name() == "assembleFrame" || g.Name() == "reset") {
						eff = append(eff, g.Name())
					} else if calleeOf(c).Dynamic && strings.Contains(render(c.Call.Value), "deliverFrame") {
						eff = append(eff, "deliverFrame")
					}
				}
			}
			s := strings.Join(eff, ";")
			r.Check(s == "assembleFrame;reset;deliverFrame" || s == "assembleFrame;reset", rule, "assembler.complete: assemble, reset, deliver once ["+shortCond(p)+"]", p.Exit.Pos(), s, "a completed message is assembled, the partial reset, and the frame delivered at most once: "+s)
		}
	}
}

func c18RetryLoop(r *Run) {
	const rule = "C18-R1-retry-loop"
	w := r.W
	sb := w.Fn("secs1", "lineIO.sendBlock")
	r.Analysed(w.FnName(sb))
	hs := loopHeaders(sb)
	if len(hs) != 1 {
		r.Undecided(rule, "sendBlock: one loop", sb.Pos(), "found %d", len(hs))
		return
	}
	h := hs[0]
	var retry *ssa.Phi
	for _, in := range h.Instrs {
		if phi, ok := in.(*ssa.Phi); ok && phi.Comment == "retry" {
			retry = phi
		}
	}
	if retry == nil {
		r.Fail(rule, "sendBlock: loop-carried retry counter", sb.Pos(), "not found")
		return
	}
	// entry value 0, loop condition retry <= retryLimit
	for k, pb := range h.Preds {
		if !h.Dominates(pb) {
			v, ok := constInt(retry.Edges[k])
			r.Check(ok && v == 0, rule, "sendBlock: retry starts at 0", sb.Pos(), "0", "first attempt must be attempt 0")
		}
	}
	okCond := false
	if iff, ok := h.Instrs[len(h.Instrs)-1].(*ssa.If); ok {
		if b, ok := iff.Cond.(*ssa.BinOp); ok && b.X == ssa.Value(retry) && b.Op == token.LEQ && render(b.Y) == "$retryLimit" {
			okCond = true
		}
	}
	r.Check(okCond, rule, "sendBlock: loop runs while retry ≤ retryLimit (at most limit+1 attempts)", sb.Pos(), "retry <= retryLimit", "the number of attempts per block must be bounded by retryLimit+1")
	paths, ok := enumIterPaths(sb, h, 5000)
	if !ok {
		r.Undecided(rule, "sendBlock iteration paths", sb.Pos(), "too many")
		return
	}
	n := 0
	for _, p := range paths {
		var calls []string
		for _, in := range p.Instrs() {
			if c, ok := in.(*ssa.Call); ok {
				if g := calleeOf(c).Static; g != nil {
					switch g.Name() {
					case "sendBlockOnce", "receiveBlock", "writeByte", "incBlockRetryCount", "incContentionYieldCount", "incBlockSendCount", "incBlockSendFailedCount":
						calls = append(calls, g.Name())
					}
				} else if calleeOf(c).Dynamic {
					calls = append(calls, "deliver")
				}
			}
		}
		seq := strings.Join(calls, ";")
		if !strings.Contains(seq, "sendBlockOnce") {
			// loop exit without an attempt: ctx cancelled, or the bound was exceeded
			if p.Exit != nil {
				rets := p.Rets()
				s := render(rets[0])
				if strings.Contains(seq, "incBlockSendFailedCount") {
					r.Check(strings.Contains(s, "ErrSendFailed"), rule, "sendBlock: exhausting the attempts counts the failure and returns ErrSendFailed", p.Exit.Pos(), "ErrSendFailed", "returns "+s)
				}
			}
			continue
		}
		// the `default:` arm of the switch over sendResult is unreachable: a path that found the
		// result different from every declared constant of the enum is infeasible
		neq := map[int64]bool{}
		for _, f := range p.Conds {
			if b, ok := f.Cond.(*ssa.BinOp); ok && b.Op == token.EQL && !f.Val && strings.Contains(render(b.X), "sendBlockOnce") {
				if k, ok := constInt(b.Y); ok {
					neq[k] = true
				}
			}
		}
		nEnum := 0
		sc := w.Pkg("secs1").Types.Scope()
		for _, nm := range sc.Names() {
			if c, ok := sc.Lookup(nm).(*types.Const); ok && typeShort(c.Type()) == "secs1.sendResult" {
				nEnum++
			}
		}
		if nEnum > 0 && len(neq) >= nEnum {
			continue
		}
		n++
		construct := "sendBlock iteration [" + seq + "]"
		if p.Exit != nil {
			continue
		}
		next := p.NextIter(retry)
		ns := renderWith(next, p.Resolve)
		ns = strings.ReplaceAll(ns, render(retry), "retry")
		switch {
		case strings.Contains(seq, "deliver"):
			r.Check(ns == "0" && strings.Contains(seq, "receiveBlock;deliver"), rule, construct+": a delivered yield restarts the postponed send (retry = 0)", sb.Pos(), "retry = 0 after receive+deliver", "only a block actually received and delivered during the yield resets the counter, next retry = "+ns)
		case strings.Contains(seq, "incBlockRetryCount"):
			r.Check(ns == "(1 + retry)", rule, construct+": a failed attempt costs exactly one retry", sb.Pos(), "retry+1", "next retry = "+ns)
		default:
			r.Fail(rule, construct, sb.Pos(), "an iteration continues the loop without either counting a retry or delivering a yielded block (next retry = "+ns+"): the loop could spin without bound")
		}
	}
	r.Floor(rule, "sendBlock iterations that attempt a send", n, 3)
}

func c18ReceiveHandshake(r *Run) {
	rule := r.aliased("C18-R3-receive-handshake")
	w := r.W
	rb := w.Fn("secs1", "lineIO.receiveBlock")
	r.Analysed(w.FnName(rb))
	paths, ok := enumPaths(rb, 5000)
	if !ok {
		r.Undecided(rule, "receiveBlock paths", rb.Pos(), "too many")
		return
	}
	nak := w.ConstInt("secs1", "nak")
	ack := w.ConstInt("secs1", "ack")
	n := 0
	for _, p := range paths {
		if _, isRet := p.Exit.(*ssa.Return); !isRet {
			continue
		}
		var seq []string
		for _, in := range p.Instrs() {
			if c, ok := in.(*ssa.Call); ok {
				if g := calleeOf(c).Static; g != nil {
					switch g.Name() {
					case "readByte", "readFull", "parseBlock", "drainUntilSilence":
						seq = append(seq, g.Name())
					case "writeByte":
						k, _ := constInt(c.Call.Args[1])
						switch k {
						case nak:
							seq = append(seq, "NAK")
						case ack:
							seq = append(seq, "ACK")
						default:
							seq = append(seq, fmt.Sprintf("write(%d)", k))
						}
					}
				}
			}
		}
		s := strings.Join(seq, ";")
		rets := p.Rets()
		errNil := render(rets[1]) == "nil"
		n++
		var want string
		switch {
		case len(seq) == 0:
			want = "" // cancelled before anything was read
		case !strings.Contains(s, "readFull"):
			// the cause decides: the length byte could not be read (T2) → NAK at once; it was read but
			// is out of range → the rest of the mis-framed block must be drained first
			readFailed := false
			for _, in := range p.Instrs() {
				c, ok := in.(*ssa.Call)
				if !ok || calleeOf(c).Static == nil || calleeOf(c).Static.Name() != "readByte" {
					continue
				}
				for _, f := range p.Conds {
					if b, ok := f.Cond.(*ssa.BinOp); ok && isNilConst(b.Y) {
						if ex, ok := b.X.(*ssa.Extract); ok && ex.Tuple == ssa.Value(c) && ex.Index == 1 {
							if (b.Op == token.NEQ && f.Val) || (b.Op == token.EQL && !f.Val) {
								readFailed = true
							}
						}
					}
				}
			}
			if readFailed {
				want = "readByte;NAK" // T2 waiting for the length byte
			} else {
				want = "readByte;drainUntilSilence;NAK" // length out of range
			}
		case !strings.Contains(s, "parseBlock"):
			want = "readByte;readFull;NAK" // T1 inside the block
		case strings.Contains(s, "ACK"):
			want = "readByte;readFull;parseBlock;ACK"
		default:
			want = "readByte;readFull;parseBlock;drainUntilSilence;NAK" // bad checksum / malformed
		}
		construct := "receiveBlock path [" + s + "]"
		r.Check(s == want, rule, construct, p.Exit.Pos(), "E4 §7.8.5", "the handshake for this outcome must be ["+want+"]: after a bad length byte or checksum the receiver listens until the line is silent before it NAKs, so that the rest of a mis-framed block is not read as new traffic")
		if strings.Contains(s, "NAK") || s == "" {
			r.Check(!errNil, rule, construct+": failure reported", p.Exit.Pos(), "non-nil error", "a rejected block must not be returned as received")
		}
	}
	r.Floor(rule, "receiveBlock paths", n, 6)
}

func c18SingleSink(r *Run) {
	rule := r.aliased("C18-R4-single-sink")
	w := r.W
	le := w.Fn("secs1", "transport.lineEngine")
	rs := w.Fn("secs1", "transport.runSend")
	r.Analysed(w.FnName(le))
	r.Analysed(w.FnName(rs))
	// newSink() called once, outside any loop
	var sinks []*ssa.Call
	eachInstr(le, func(in ssa.Instruction) {
		if c, ok := in.(*ssa.Call); ok && calleeOf(c).Dynamic && strings.HasSuffix(render(c.Call.Value), ".newSink") {
			sinks = append(sinks, c)
		}
	})
	inLoop := false
	for _, h := range loopHeaders(le) {
		for _, s := range sinks {
			if h.Dominates(s.Block()) {
				inLoop = true
			}
		}
	}
	r.Check(len(sinks) == 1 && !inLoop, rule, "lineEngine builds one inbound sink per generation", le.Pos(), "newSink() once, before the loop", fmt.Sprintf("%d newSink calls (in loop: %v): blocks of one inbound message could be fed to different assemblers", len(sinks), inLoop))
	if len(sinks) != 1 {
		return
	}
	sink := sinks[0]
	// every runSend call gets that value; the idle path calls that value
	for _, c := range callsIn(le, isFn(rs)) {
		args := c.Common().Args
		r.Check(args[len(args)-1] == ssa.Value(sink), rule, "lineEngine passes the generation's sink to runSend", c.Pos(), "same sink", "blocks received during a contention yield must join the same partial message as blocks received while idle, passes "+render(args[len(args)-1]))
	}
	idle := 0
	eachInstr(le, func(in ssa.Instruction) {
		if c, ok := in.(*ssa.Call); ok && c.Call.Value == ssa.Value(sink) {
			idle++
		}
	})
	r.Check(idle >= 1, rule, "lineEngine feeds idle-path blocks to the same sink", le.Pos(), "sink(blk)", "the idle receive path must use the generation's sink")
	// runSend hands its sink parameter to sendBlock as the deliver callback
	sb := w.Fn("secs1", "lineIO.sendBlock")
	for _, c := range callsIn(rs, isFn(sb)) {
		args := c.Common().Args
		r.Check(args[len(args)-1] == ssa.Value(rs.Params[len(rs.Params)-1]), rule, "runSend hands its sink to sendBlock as the yield deliverer", c.Pos(), "sink parameter", "got "+render(args[len(args)-1]))
	}
	// lineIO methods are called only from lineIO methods, runSend and lineEngine
	lio := w.Named("secs1", "lineIO")
	for _, fn := range w.FnsInPkg("secs1") {
		if !w.IsProd(fn) {
			continue
		}
		eachInstr(fn, func(in ssa.Instruction) {
			c, ok := in.(ssa.CallInstruction)
			if !ok {
				return
			}
			g := calleeOf(c).Static
			if g == nil || g.Signature.Recv() == nil {
				return
			}
			if n, ok := derefType(g.Signature.Recv().Type()).(*types.Named); !ok || n.Origin() != lio.Origin() {
				return
			}
			caller := fn
			for caller.Parent() != nil {
				caller = caller.Parent()
			}
			okCaller := caller == le || caller == rs
			if cr := caller.Signature.Recv(); cr != nil {
				if n, ok := derefType(cr.Type()).(*types.Named); ok && n.Origin() == lio.Origin() {
					okCaller = true
				}
			}
			if !okCaller {
				r.Fail(rule, "lineIO."+g.Name()+" called from "+w.FnName(fn), in.Pos(), "the line may be driven only by the single line-engine goroutine")
			}
		})
	}
	r.OK(rule, "lineIO is driven only from the line engine and its send helper", le.Pos(), "call-site enumeration")
}
