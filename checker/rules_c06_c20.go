package main

import (
	"fmt"
	"go/token"
	"go/types"
	"sort"
	"strings"

	"golang.org/x/tools/go/ssa"
)

func init() {
	register(&PropSpec{
		ID: "C06",
		Rules: []Rule{
			{Name: "C06-R1-send-table", Doc: "decision table of sendWaitReply: register(msg.SystemBytes()) ≺ defer deregister(same key) ≺ writeFrame(pinned epoch, msg); protocol timer (T3 data / T6 control, live config) obtained only after a successful write; four-way wait returns (reply,res.err) / (nil,T3|T6) / (nil,ErrConnClosed) / (nil,callerCtx.Err()); (nil,nil) only on the fire-and-forget path", Run: c06SendTable},
			{Name: "C06-R2-reply-channel", Doc: "the only send on a reply channel is the non-blocking one in replyRegistry.route; register makes a fresh cap-1 channel; route is called only from RouteReply with {msg: msg} or {err: &RejectError{Reason: header[3]}} for SType 7; channels are never closed", Run: c06ReplyChannel},
			{Name: "C06-R3-only-secondaries", Doc: "DeliverOwnedFrame offers a message to the registry only under isSecondaryReply (¬W ∧ even function); RouteReply's other callers are the control-response arm of dispatchFrame", Run: c06OnlySecondaries},
			{Name: "C06-R4-one-recipient", Doc: "decision tables of DeliverOwnedFrame and RouteData: each decoded, session-checked data message goes to exactly one of {waiting sender (registry hit), decode-error handlers, handler fan-out}; the fan-out calls each handler once in a single loop with no goroutine", Run: c06OneRecipient},
			{Name: "C06-R5-system-bytes", Doc: "the generator's counter is modified only by Add(1); every library-originated request takes its system bytes from it; replies copy the primary's", Run: c06SystemBytes},
			{Name: "C06-R6-reply-kind", Doc: "a synchronous data send must never return (nil, nil) when a reply was expected: the result of the reply's *DataMessage assertion must be decided before returning a nil error", Run: c06ReplyKind},
		},
		NotDec: []string{"behaviour against reordering/duplicating peers (histories)", "timing of T3 in real time", "system-bytes wrap-around after 2^32 sends"},
	})
	register(&PropSpec{
		ID: "C20",
		Rules: []Rule{
			{Name: "C20-R1-chokepoints", Doc: "every counter/gauge helper is called only from its documented chokepoint(s) and adds exactly ±1 to its own field; no other code writes the metric fields", Run: c20Chokepoints},
			{Name: "C20-R2-gauge-pairing", Doc: "incDataMsgInflight is immediately followed by defer decDataMsgInflight and happens only after a successful write of a W-bit data message; incConnRetry/defer decConnRetry open connectLoop", Run: c20GaugePairing},
			{Name: "C20-R3-wire-counting", Doc: "writeFrame: incDataMsgSend on exactly the paths where transport.Write returned nil for a data message; DeliverOwnedFrame: incDataMsgRecv exactly once after a successful decode of a data frame, callers are the Selected arm / the SECS-I assembler", Run: c20WireCounting},
			{Name: "C20-R4-outcome-table", Doc: "per-outcome counter table of sendWaitReply / sendNoReply / drainSendCh and isCountedSendErr: reply & peer reject: none; T3: err; disconnect/cancel: none; refused: drop only; write error: err iff counted; async write error: asyncSendErr", Run: c20OutcomeTable},
		},
		NotDec: []string{"equality with the peer's own counts over concurrent histories", "gauge values at a particular instant"},
	})
}

// swrTable builds the decision-table view of sendWaitReply shared by C06 and C20.
type swrTable struct {
	dt     *DT
	s      *sendCtx
	fn     *ssa.Function
	doms   []dom
	selIns *ssa.Select
}

func newSWRTable(w *World) (*swrTable, string) {
	s := newSendCtx(w)
	fn := s.sendWaitReply
	dt, ok := newDT(fn, 100000)
	if !ok {
		return nil, "too many paths"
	}
	isCounted := w.Fn("hsms", "isCountedSendErr")
	t := &swrTable{dt: dt, s: s, fn: fn}
	eachInstr(fn, func(in ssa.Instruction) {
		if sl, ok := in.(*ssa.Select); ok && sl.Blocking {
			t.selIns = sl
		}
	})
	msg := fn.Params[2]
	dt.Leaf = func(env Env, v ssa.Value, e *Evaluator) (int64, bool, bool) {
		switch x := v.(type) {
		case *ssa.Extract:
			if ta, ok := x.Tuple.(*ssa.TypeAssert); ok && ta.X == ssa.Value(msg) {
				return env["data"], true, true
			}
			if sl, ok := x.Tuple.(*ssa.Select); ok && x.Index == 0 && sl == t.selIns {
				return env["out"], true, true
			}
		case *ssa.Call:
			cal := calleeOf(x)
			switch {
			case callIsAtomicMethodOn(x, s.fCur, "Load"):
				return env["open"], true, true
			case cal.Static != nil && cal.Static.Name() == "WaitBit":
				return env["W"], true, true
			case isFn(s.isSelected)(cal):
				return env["sel"], true, true
			case isFn(s.writeFrame)(cal):
				return env["werr"], true, true
			case isFn(isCounted)(cal):
				return env["counted"], true, true
			}
		case *ssa.UnOp:
			if fieldLoadNamed(x, "autoS9F9") {
				return env["s9"], true, true
			}
		}
		return 0, false, false
	}
	t.doms = []dom{{"open", []int64{0, 1}}, {"data", []int64{0, 1}}, {"W", []int64{0, 1}}, {"sel", []int64{0, 1}}, {"werr", []int64{0, 1}}, {"counted", []int64{0, 1}}, {"out", []int64{0, 1, 2, 3}}, {"s9", []int64{0, 1}}}
	return t, ""
}

func metricHelperName(cal Callee) string {
	if cal.Static == nil || cal.Static.Signature.Recv() == nil {
		return ""
	}
	if !typeIs(cal.Static.Signature.Recv().Type(), modPath+"/hsms", "ConnectionMetrics") {
		return ""
	}
	n := cal.Static.Name()
	if strings.HasPrefix(n, "inc") || strings.HasPrefix(n, "dec") {
		return n
	}
	return ""
}

// ---------------- C06 ----------------

func c06SendTable(r *Run) {
	const rule = "C06-R1-send-table"
	w := r.W
	t, errs := newSWRTable(w)
	if t == nil {
		r.Undecided(rule, "sendWaitReply", token.NoPos, "%s", errs)
		return
	}
	fn, s := t.fn, t.s
	r.Analysed(w.FnName(fn))
	msg := fn.Params[2]
	callerCtx := fn.Params[1]
	getTimer := w.Fn("internal/pool", "GetTimer")
	// select shape: exactly {registered channel, timer.C, pinned epoch ctx.Done(), caller ctx.Done()}
	if t.selIns == nil || len(t.selIns.States) != 4 {
		r.Fail(rule, "sendWaitReply: four-way wait", fn.Pos(), "the reply wait must select on exactly {reply channel, protocol timer, generation done, caller ctx}")
		return
	}
	role := make([]string, 4)
	for i, st := range t.selIns.States {
		switch {
		case st.Dir != types.RecvOnly:
			role[i] = "send?"
		case isDoneOf(st.Chan, s.fCtx):
			// must be the pinned epoch's ctx
			role[i] = "gendone"
			if ld, ok := st.Chan.(*ssa.Call); ok {
				if u, ok := ld.Call.Value.(*ssa.UnOp); ok {
					if fa, ok := u.X.(*ssa.FieldAddr); ok && !atomicMethodOn(fa.X, s.fCur, "Load") {
						role[i] = "gendone(not the pinned epoch)"
					}
				}
			}
		case isCallToMethod(st.Chan, "Done") && st.Chan.(*ssa.Call).Call.Value == ssa.Value(callerCtx):
			role[i] = "callerctx"
		case fieldLoadNamed(st.Chan, "C"):
			role[i] = "timer"
		default:
			// the registered channel: phi(nil, register(...))
			ok := false
			if ph, isPhi := st.Chan.(*ssa.Phi); isPhi {
				for _, e := range ph.Edges {
					if isCallTo(e, isFn(s.register)) {
						ok = true
					}
				}
			}
			if isCallTo(st.Chan, isFn(s.register)) {
				ok = true
			}
			if ok {
				role[i] = "reply"
			} else {
				role[i] = "?" + render(st.Chan)
			}
		}
	}
	sorted := append([]string{}, role...)
	sort.Strings(sorted)
	r.Check(strings.Join(sorted, ",") == "callerctx,gendone,reply,timer", rule, "sendWaitReply: wait selects on {reply channel, timer, pinned generation done, caller ctx}", t.selIns.Pos(), strings.Join(role, ","), "select cases are ["+strings.Join(role, ", ")+"]")
	idx := map[string]int64{}
	for i, ro := range role {
		idx[ro] = int64(i)
	}

	t.dt.Effect = func(in ssa.Instruction, e *Evaluator, p *Path) string {
		c, ok := in.(ssa.CallInstruction)
		if !ok {
			return ""
		}
		cal := calleeOf(c)
		_, isDefer := in.(*ssa.Defer)
		switch {
		case isFn(s.dropNS)(cal):
			return "drop"
		case isFn(s.register)(cal):
			a := c.Common().Args
			if isCallToMethod(a[1], "SystemBytes") && a[1].(*ssa.Call).Call.Value == ssa.Value(msg) && fieldLoadOfPinned(a[0], s) {
				return "register(msg.SystemBytes())"
			}
			return "register(?)"
		case isFn(s.deregister)(cal):
			a := c.Common().Args
			// same key value as the register on this path
			same := false
			for _, in2 := range p.Instrs() {
				if c2, ok := in2.(*ssa.Call); ok && isFn(s.register)(calleeOf(c2)) && c2.Call.Args[1] == a[1] {
					same = true
				}
			}
			if isDefer && same && fieldLoadOfPinned(a[0], s) {
				return "defer deregister(same key)"
			}
			return "deregister(?)"
		case isFn(s.writeFrame)(cal):
			a := c.Common().Args
			if a[1] == ssa.Value(callerCtx) && atomicMethodOn(a[2], s.fCur, "Load") && a[3] == ssa.Value(msg) {
				return "writeFrame(pinned epoch, msg)"
			}
			return "writeFrame(?)"
		case isFn(getTimer)(cal):
			v := p.Resolve(c.Common().Args[0])
			switch {
			case fieldLoadNamed(v, "T3"):
				return "timer(T3)"
			case fieldLoadNamed(v, "T6"):
				return "timer(T6)"
			}
			return "timer(?)"
		}
		return ""
	}
	n := 0
	product(t.doms, func(env Env) {
		if env["s9"] != 0 || env["counted"] != 0 {
			return // not relevant to this table (C20 covers them)
		}
		n++
		res := t.dt.Cell(env)
		construct := "sendWaitReply(" + envString(env, []string{"open", "data", "W", "sel", "werr", "out"}) + ")"
		if res.Err != "" {
			r.Undecided(rule, construct, res.Pos, "%s", res.Err)
			return
		}
		rets := res.Path.Rets()
		rm, re := "", ""
		if len(rets) == 2 {
			rm, re = renderWith(rets[0], res.Path.Resolve), renderWith(rets[1], res.Path.Resolve)
		}
		var want []string
		wm, we := "nil", ""
		ff := env["data"] == 1 && env["W"] == 0
		func() {
			if env["open"] == 0 {
				we = "@ErrNotOpen"
				return
			}
			if env["data"] == 1 && env["sel"] == 0 {
				want = append(want, "drop")
				we = "@ErrNotSelectedState"
				return
			}
			if !ff {
				want = append(want, "register(msg.SystemBytes())", "defer deregister(same key)")
			}
			want = append(want, "writeFrame(pinned epoch, msg)")
			if env["werr"] != 0 {
				we = "writeFrame"
				return
			}
			if ff {
				we = "nil"
				return
			}
			if env["data"] == 1 {
				want = append(want, "timer(T3)")
			} else {
				want = append(want, "timer(T6)")
			}
			switch env["out"] {
			case idx["reply"]:
				wm, we = ".msg", ".err"
			case idx["timer"]:
				we = "@ErrT6Timeout"
				if env["data"] == 1 {
					we = "@ErrT3Timeout"
				}
			case idx["gendone"]:
				we = "@ErrConnClosed"
			case idx["callerctx"]:
				we = "$" + callerCtx.Name() + ".Err()"
			}
		}()
		got := strings.Join(res.Effects, ";")
		okRet := (wm == "nil" && rm == "nil" || wm == ".msg" && strings.HasSuffix(rm, ".msg")) &&
			(re == we || we == "writeFrame" && strings.Contains(re, ".writeFrame(") || we == ".err" && strings.HasSuffix(re, ".err"))
		if got == strings.Join(want, ";") && okRet {
			r.OK(rule, construct, res.Pos, "[%s] → (%s, %s)", got, rm, re)
		} else {
			r.Fail(rule, construct, res.Pos, "effects [%s] returns (%s, %s); required [%s] returns (%s, %s)", got, rm, re, strings.Join(want, ";"), wm, we)
		}
	})
	r.Floor(rule, "sendWaitReply cells", n, 128)
	// the reply case returns the received value's fields: res := <-ch
	_ = idx
}

// fieldLoadOfPinned: v is a load of (pinned epoch).replies
func fieldLoadOfPinned(v ssa.Value, s *sendCtx) bool {
	u, ok := v.(*ssa.UnOp)
	if !ok || u.Op != token.MUL {
		return false
	}
	fa, ok := u.X.(*ssa.FieldAddr)
	if !ok || !sameVar(fieldOf(fa), s.fReplies) {
		return false
	}
	return atomicMethodOn(fa.X, s.fCur, "Load")
}

func c06ReplyChannel(r *Run) {
	const rule = "C06-R2-reply-channel"
	w := r.W
	s := newSendCtx(w)
	rr := w.Named("hsms", "replyResult")
	isReplyChan := func(t types.Type) bool {
		ch, ok := t.Underlying().(*types.Chan)
		return ok && types.Identical(ch.Elem(), rr)
	}
	nSend, nMake, nClose := 0, 0, 0
	for _, fn := range w.ProdFns() {
		eachInstr(fn, func(in ssa.Instruction) {
			switch x := in.(type) {
			case *ssa.Send:
				if isReplyChan(x.Chan.Type()) {
					nSend++
					r.Fail(rule, "blocking send on a reply channel in "+w.FnName(fn), x.Pos(), "a reply may be delivered only by the non-blocking send in replyRegistry.route")
				}
			case *ssa.Select:
				for _, st := range x.States {
					if st.Dir == types.SendOnly && isReplyChan(st.Chan.Type()) {
						nSend++
						r.Check(sameFn(fn, s.route) && !x.Blocking, rule, "send on a reply channel in "+w.FnName(fn), x.Pos(), "the single non-blocking delivery point", "a reply may be delivered only by the non-blocking send in replyRegistry.route")
					}
				}
			case *ssa.MakeChan:
				if isReplyChan(x.Type()) {
					nMake++
					k, ok := constInt(x.Size)
					r.Check(sameFn(fn, s.register) && ok && k == 1, rule, "reply channel created in "+w.FnName(fn), x.Pos(), "fresh, capacity 1", "reply channels must be created by register with capacity exactly 1 (a duplicate reply is discarded, the first is never lost)")
				}
			case ssa.CallInstruction:
				if b, ok := x.Common().Value.(*ssa.Builtin); ok && b.Name() == "close" && isReplyChan(x.Common().Args[0].Type()) {
					nClose++
					r.Fail(rule, "close of a reply channel in "+w.FnName(fn), x.Pos(), "closing a reply channel would hand the waiter a zero reply (nil, nil)")
				}
			}
		})
	}
	r.Floor(rule, "sends on reply channels", nSend, 1)
	r.Floor(rule, "reply channel creations", nMake, 1)
	if nClose == 0 {
		r.Trivial(rule, "reply channels are never closed", token.NoPos, "no close() on chan replyResult anywhere")
	}
	// route: every hit path attempts the send of the given result on the looked-up channel
	route := s.route
	r.Analysed(w.FnName(route))
	{
		ok := false
		eachInstr(route, func(in ssa.Instruction) {
			if sl, isSel := in.(*ssa.Select); isSel {
				for _, st := range sl.States {
					if st.Dir == types.SendOnly && st.Send == ssa.Value(route.Params[2]) {
						ok = true
					}
				}
			}
		})
		r.Check(ok, rule, "route sends exactly the result it was given", route.Pos(), "ch <- res", "route must deliver its res argument unchanged")
	}
	// route callers
	routeReply := w.Fn("hsms", "connection.RouteReply")
	rejErr := w.Named("hsms", "RejectError")
	n := 0
	for _, u := range w.usesOf(route) {
		if !w.IsProd(u.Fn) {
			continue
		}
		n++
		if !sameFn(u.Fn, routeReply) || u.Kind != "call" {
			r.Fail(rule, "replyRegistry.route used in "+w.FnName(u.Fn), u.Pos(), "only RouteReply may complete a waiting send")
			continue
		}
		c := u.Instr.(ssa.CallInstruction)
		a := c.Common().Args
		msgP := routeReply.Params[1]
		keyOK := isCallToMethod(a[1], "SystemBytes") && a[1].(*ssa.Call).Call.Value == ssa.Value(msgP)
		// result literal
		lit := structLit(a[2])
		facts := factsIn(routeReply)
		isRej, known := false, false
		for f := range facts[c.Block()] {
			if b, ok := f.Cond.(*ssa.BinOp); ok && b.Op == token.EQL {
				if k, isK := constInt(b.Y); isK && k == w.ConstInt("hsms", "RejectReqType") && isCallToMethod(b.X, "Type") {
					isRej, known = f.Val, true
				}
			}
		}
		construct := fmt.Sprintf("RouteReply: route(%s, %s)", render(a[1]), litString(lit))
		switch {
		case !keyOK || !known:
			r.Fail(rule, construct, c.Pos(), "the registry key must be the routed message's own system bytes and the call must be conditioned on Type()==Reject.req (keyOK=%v)", keyOK)
		case isRej:
			// {err: &RejectError{Reason: header[3]}}
			okv := lit["msg"] == nil && lit["err"] != nil
			if okv {
				okv = false
				if al, ok := stripConv(lit["err"]).(*ssa.Alloc); ok && types.Identical(derefType(al.Type()), rejErr) {
					for _, ref := range *al.Referrers() {
						if fa, ok := ref.(*ssa.FieldAddr); ok && fieldOf(fa).Name() == "Reason" {
							for _, r2 := range *fa.Referrers() {
								if st, ok := r2.(*ssa.Store); ok && strings.HasSuffix(render(st.Val), "[3]") && strings.Contains(render(st.Val), "HeaderBytes") {
									okv = true
								}
							}
						}
					}
				}
			}
			r.Check(okv, rule, construct, c.Pos(), "a peer Reject.req completes the send with RejectError{Reason: header byte 3}", "a reject must surface as *RejectError carrying the peer's reason code (header byte 3), never as a message")
		default:
			okv := lit["err"] == nil && stripConv(lit["msg"]) == ssa.Value(msgP)
			r.Check(okv, rule, construct, c.Pos(), "a reply completes the send with that very message and a nil error", "a routed reply must be delivered as {msg: msg} with no error")
		}
	}
	r.Floor(rule, "route call sites", n, 2)
}

// structLit collects the field stores of a struct literal built in a local and loaded.
func structLit(v ssa.Value) map[string]ssa.Value {
	out := map[string]ssa.Value{}
	ld, ok := v.(*ssa.UnOp)
	if !ok || ld.Op != token.MUL {
		return out
	}
	al, ok := ld.X.(*ssa.Alloc)
	if !ok {
		return out
	}
	for _, ref := range *al.Referrers() {
		if fa, ok := ref.(*ssa.FieldAddr); ok {
			for _, r2 := range *fa.Referrers() {
				if st, ok := r2.(*ssa.Store); ok && st.Addr == fa {
					out[fieldOf(fa).Name()] = st.Val
				}
			}
		}
	}
	return out
}

func litString(m map[string]ssa.Value) string {
	var ks []string
	for k, v := range m {
		ks = append(ks, k+": "+render(v))
	}
	sort.Strings(ks)
	return "{" + strings.Join(ks, ", ") + "}"
}

func c06OnlySecondaries(r *Run) {
	const rule = "C06-R3-only-secondaries"
	w := r.W
	dof := w.Fn("hsms", "connection.DeliverOwnedFrame")
	routeReply := w.Fn("hsms", "connection.RouteReply")
	isSec := w.Fn("hsms", "isSecondaryReply")
	r.Analysed(w.FnName(isSec))
	// isSecondaryReply table
	dt, ok := newDT(isSec, 100)
	if !ok {
		r.Undecided(rule, "isSecondaryReply", isSec.Pos(), "too many paths")
	} else {
		dt.Leaf = func(env Env, v ssa.Value, e *Evaluator) (int64, bool, bool) {
			if c, ok := v.(*ssa.Call); ok {
				if cal := calleeOf(c); cal.Static != nil {
					switch cal.Static.Name() {
					case "WaitBit":
						return env["W"], true, true
					case "Function":
						return env["function"], true, true
					}
				}
			}
			return 0, false, false
		}
		for _, wb := range []int64{0, 1} {
			for _, f := range []int64{0, 1, 2, 3, 12, 13, 254, 255} {
				res := dt.Cell(Env{"W": wb, "function": f})
				construct := fmt.Sprintf("isSecondaryReply(W=%d, function=%d)", wb, f)
				if res.Err != "" {
					r.Undecided(rule, construct, res.Pos, "%s", res.Err)
					continue
				}
				want := b2i(wb == 0 && f%2 == 0)
				r.Check(strings.Join(res.Rets, ",") == fmt.Sprint(want), rule, construct, res.Pos, fmt.Sprintf("→ %d", want), fmt.Sprintf("returns %v, required %d (a reply is an even function with the W-bit clear; a peer primary must never be taken for a reply)", res.Rets, want))
			}
		}
	}
	// RouteReply call in DeliverOwnedFrame dominated by isSecondaryReply(dm)==true, same dm
	facts := factsIn(dof)
	n := 0
	for _, c := range callsIn(dof, isFn(routeReply)) {
		n++
		ok := false
		for f := range facts[c.Block()] {
			if cc, isC := f.Cond.(*ssa.Call); isC && isFn(isSec)(calleeOf(cc)) && f.Val {
				if stripConv(c.Common().Args[1]) == cc.Call.Args[0] {
					ok = true
				}
			}
		}
		r.Check(ok, rule, "DeliverOwnedFrame: RouteReply only for a secondary", c.Pos(), "dominated by isSecondaryReply(dm) on the same message", "a primary (W-bit or odd function) must never be offered to the reply registry")
	}
	r.Floor(rule, "RouteReply call sites in DeliverOwnedFrame", n, 1)
	// who else calls RouteReply
	disp := w.Fn("hsmsss", "transport.dispatchFrame")
	for _, site := range w.invokeSites(func(m *types.Func) bool { return m.Name() == "RouteReply" }) {
		if !w.IsProd(site.Fn) {
			continue
		}
		r.Check(sameFn(site.Fn, disp), rule, "rt.RouteReply invoked in "+w.FnName(site.Fn), site.Pos(), "the control-response arm (C08-R1 decides its conditions)", "only the receive path may offer frames to the reply registry")
	}
	for _, u := range w.usesOf(routeReply) {
		if w.IsProd(u.Fn) && !sameFn(u.Fn, dof) {
			r.Fail(rule, "RouteReply used in "+w.FnName(u.Fn), u.Pos(), "only the receive path may offer frames to the reply registry")
		}
	}
}

func c06OneRecipient(r *Run) {
	const rule = "C06-R4-one-recipient"
	w := r.W
	dof := w.Fn("hsms", "connection.DeliverOwnedFrame")
	routeReply := w.Fn("hsms", "connection.RouteReply")
	routeData := w.Fn("hsms", "connection.RouteData")
	decode := w.Fn("hsms", "decodeOwnedFrame")
	checkSID := w.Fn("hsms", "connection.checkSessionID")
	isSec := w.Fn("hsms", "isSecondaryReply")
	r.Analysed(w.FnName(dof))
	dt, ok := newDT(dof, 100000)
	if !ok {
		r.Undecided(rule, "DeliverOwnedFrame", dof.Pos(), "too many paths")
		return
	}
	dt.Leaf = func(env Env, v ssa.Value, e *Evaluator) (int64, bool, bool) {
		switch x := v.(type) {
		case *ssa.Extract:
			if isCallTo(x.Tuple, isFn(decode)) && x.Index == 1 {
				return env["decErr"], true, true
			}
			if _, ok := x.Tuple.(*ssa.TypeAssert); ok && x.Index == 1 {
				return env["isData"], true, true
			}
		case *ssa.Call:
			cal := calleeOf(x)
			switch {
			case isFn(checkSID)(cal):
				return env["sidErr"], true, true
			case isFn(isSec)(cal):
				return env["secondary"], true, true
			case isFn(routeReply)(cal):
				return env["hit"], true, true
			}
		case *ssa.UnOp:
			if fieldLoadNamed(x, "traceTraffic") {
				return env["trace"], true, true
			}
			if fieldLoadNamed(x, "validateSessionID") {
				return env["validate"], true, true
			}
		}
		return 0, false, false
	}
	dt.Effect = func(in ssa.Instruction, e *Evaluator, p *Path) string {
		c, ok := in.(ssa.CallInstruction)
		if !ok {
			return ""
		}
		cal := calleeOf(c)
		switch {
		case isFn(routeReply)(cal):
			return "offer-to-registry"
		case isFn(routeData)(cal):
			return "RouteData"
		case isFn(checkSID)(cal):
			return "checkSessionID"
		}
		if n := metricHelperName(cal); n != "" {
			return n
		}
		return ""
	}
	doms := []dom{{"decErr", []int64{0, 1}}, {"isData", []int64{0, 1}}, {"trace", []int64{0, 1}}, {"validate", []int64{0, 1}}, {"sidErr", []int64{0, 1}}, {"secondary", []int64{0, 1}}, {"hit", []int64{0, 1}}}
	product(doms, func(env Env) {
		res := dt.Cell(env)
		construct := "DeliverOwnedFrame(" + envString(env, domNames(doms)) + ")"
		if res.Err != "" {
			r.Undecided(rule, construct, res.Pos, "%s", res.Err)
			return
		}
		var want []string
		func() {
			if env["decErr"] != 0 {
				want = append(want, "incDecodeErr")
				return
			}
			if env["isData"] == 0 {
				return
			}
			want = append(want, "incDataMsgRecv")
			if env["validate"] != 0 {
				want = append(want, "checkSessionID")
				if env["sidErr"] != 0 {
					return
				}
			}
			if env["secondary"] != 0 {
				want = append(want, "offer-to-registry")
				if env["hit"] != 0 {
					return
				}
			}
			want = append(want, "RouteData")
		}()
		got := strings.Join(res.Effects, ";")
		if got == strings.Join(want, ";") {
			if env["trace"] == 0 {
				r.OK(rule, construct, res.Pos, "[%s]", got)
			}
		} else {
			r.Fail(rule, construct, res.Pos, "effects [%s], required [%s] (each inbound data message reaches exactly one recipient)", got, strings.Join(want, ";"))
		}
	})
	// RouteData table
	r.Analysed(w.FnName(routeData))
	hasDEH := w.Fn("hsms", "session.hasDecodeErrorHandlers")
	dispatchDE := w.Fn("hsms", "session.dispatchDecodeError")
	recvDM := w.Fn("hsms", "session.recvDataMsg")
	dt2, ok := newDT(routeData, 1000)
	if ok {
		msgP := routeData.Params[1]
		dt2.Leaf = func(env Env, v ssa.Value, e *Evaluator) (int64, bool, bool) {
			if c, ok := v.(*ssa.Call); ok {
				cal := calleeOf(c)
				if isFn(hasDEH)(cal) {
					return env["handlers"], true, true
				}
				if cal.Static != nil && cal.Static.Name() == "DecodeErr" {
					return env["bodyErr"], true, true
				}
			}
			return 0, false, false
		}
		dt2.Effect = func(in ssa.Instruction, e *Evaluator, p *Path) string {
			c, ok := in.(ssa.CallInstruction)
			if !ok {
				return ""
			}
			cal := calleeOf(c)
			args := c.Common().Args
			switch {
			case isFn(dispatchDE)(cal):
				if args[1] == ssa.Value(msgP) {
					return "decode-error handlers"
				}
				return "decode-error handlers(?)"
			case isFn(recvDM)(cal):
				if args[1] == ssa.Value(msgP) {
					return "fan-out"
				}
				return "fan-out(?)"
			}
			return metricHelperName(cal)
		}
		for _, h := range []int64{0, 1} {
			for _, be := range []int64{0, 1} {
				res := dt2.Cell(Env{"handlers": h, "bodyErr": be})
				construct := fmt.Sprintf("RouteData(decode-error handlers=%d, body error=%d)", h, be)
				if res.Err != "" {
					r.Undecided(rule, construct, res.Pos, "%s", res.Err)
					continue
				}
				want := "fan-out"
				if h == 1 && be == 1 {
					want = "incBodyDecodeErr;decode-error handlers"
				}
				got := strings.Join(res.Effects, ";")
				r.Check(got == want, rule, construct, res.Pos, "["+want+"]", fmt.Sprintf("effects [%s], required [%s]", got, want))
			}
		}
	}
	// recvDataMsg: handlers called once each, in one loop, synchronously
	r.Analysed(w.FnName(recvDM))
	nGo, nDyn := 0, 0
	var dynCalls []ssa.CallInstruction
	eachInstr(recvDM, func(in ssa.Instruction) {
		if _, ok := in.(*ssa.Go); ok {
			nGo++
		}
		if c, ok := in.(ssa.CallInstruction); ok && calleeOf(c).Dynamic {
			nDyn++
			dynCalls = append(dynCalls, c)
		}
	})
	okArgs := true
	for _, c := range dynCalls {
		if len(c.Common().Args) < 1 || c.Common().Args[0] != ssa.Value(recvDM.Params[1]) {
			okArgs = false
		}
		// the callee is an element of the handlers snapshot
		if !strings.Contains(render(c.Common().Value), ".handlers") {
			okArgs = false
		}
	}
	r.Check(nGo == 0 && nDyn == 1 && okArgs, rule, "recvDataMsg: one synchronous handler call site over the snapshot, message passed unchanged", recvDM.Pos(), "in arrival order on the receive goroutine", fmt.Sprintf("found %d go statements, %d handler call sites (args ok=%v): handlers must each run once, in order, on the receive goroutine", nGo, nDyn, okArgs))
	// channel handlers: one send per channel of the same message
	nSend := 0
	eachInstr(recvDM, func(in ssa.Instruction) {
		if sl, ok := in.(*ssa.Select); ok {
			for _, st := range sl.States {
				if st.Dir == types.SendOnly {
					nSend++
					if st.Send != ssa.Value(recvDM.Params[1]) {
						nSend = -100
					}
				}
			}
		}
	})
	r.Check(nSend == 1, rule, "recvDataMsg: one send per channel handler of the same message", recvDM.Pos(), "select { ch <- msg | done }", "channel handlers must receive the message exactly once")
}

func c06SystemBytes(r *Run) {
	const rule = "C06-R5-system-bytes"
	w := r.W
	fN := w.Field("hsms", "sysBytesGen", "n")
	next := w.Fn("hsms", "sysBytesGen.next")
	nAdd := 0
	for _, u := range w.fieldUses(fN) {
		if !w.IsProd(u.Fn) {
			continue
		}
		switch u.Kind {
		case "method:Add":
			nAdd++
			c := u.Instr2.(ssa.CallInstruction)
			k, ok := constInt(c.Common().Args[1])
			r.Check(sameFn(u.Fn, next) && ok && k == 1, rule, "sysBytesGen.n.Add in "+w.FnName(u.Fn), c.Pos(), "Add(1) in next: distinct values for 2^32 consecutive calls", "the generator counter may only be advanced by Add(1) inside next")
		case "method:Load", "load":
		default:
			r.Fail(rule, "sysBytesGen.n used as "+u.Kind+" in "+w.FnName(u.Fn), u.Instr2.Pos(), "any other write could repeat a value among open transactions")
		}
	}
	r.Floor(rule, "Add sites on the generator", nAdd, 1)
	// next returns BE32(Add result)
	okNext := false
	eachInstr(next, func(in ssa.Instruction) {
		if c, ok := in.(*ssa.Call); ok {
			if cal := calleeOf(c); cal.Static != nil && cal.Static.Name() == "PutUint32" && strings.Contains(typeShort(cal.Static.Signature.Recv().Type()), "bigEndian") {
				if atomicMethodOn(c.Call.Args[2], fN, "Add") {
					okNext = true
				}
			}
		}
	})
	r.Check(okNext, rule, "sysBytesGen.next = BE32(n.Add(1))", next.Pos(), "injective encoding of the counter", "next must encode the freshly incremented counter value")
	// consumers
	newDM := w.Fn("hsms", "NewDataMessage")
	fromGen := func(v ssa.Value) bool {
		c, ok := v.(*ssa.Call)
		if !ok {
			return false
		}
		cal := calleeOf(c)
		return isFn(next)(cal) || (cal.Static != nil && cal.Static.Name() == "NextSystemBytes") || (cal.Method != nil && cal.Method.Name() == "NextSystemBytes")
	}
	for _, name := range []string{"session.SendDataMessage", "session.SendDataMessageAsync", "session.SendSECS2Message"} {
		f := w.Fn("hsms", name)
		cs := callsIn(f, isFn(newDM))
		ok := len(cs) == 1 && fromGen(cs[0].Common().Args[4])
		r.Check(ok, rule, name+": primary takes fresh system bytes from the generator", f.Pos(), "sysGen.next()", "library-originated primaries must use generator system bytes")
	}
	{
		f := w.Fn("hsms", "session.ReplyDataMessage")
		cs := callsIn(f, isFn(newDM))
		ok := len(cs) == 1 && isCallToMethod(cs[0].Common().Args[4], "SystemBytes") && cs[0].Common().Args[4].(*ssa.Call).Call.Args[0] == ssa.Value(f.Params[2])
		r.Check(ok, rule, "session.ReplyDataMessage: reply copies the primary's system bytes", f.Pos(), "primary.SystemBytes()", "a reply must carry its primary's system bytes")
		// function = primary.Function()+1, W clear
		if len(cs) == 1 {
			a := cs[0].Common().Args
			okF := strings.Contains(render(a[1]), "$"+f.Params[2].Name()+".Function()") && strings.Contains(render(a[1]), "+ 1") || strings.Contains(render(a[1]), "1 + ")
			wb, okW := a[2].(*ssa.Const)
			r.Check(okF && okW && wb.Value.String() == "false", rule, "session.ReplyDataMessage: function = primary+1, W-bit clear", cs[0].Pos(), "secondary of the primary", "a reply is function+1 without the W-bit")
		}
	}
	nsb := w.Fn("hsms", "connection.NextSystemBytes")
	okN := false
	for _, ret := range returnsOf(nsb) {
		okN = isCallTo(ret.Results[0], isFn(next))
	}
	r.Check(okN, rule, "connection.NextSystemBytes = sysGen.next()", nsb.Pos(), "same generator for control requests", "control requests must draw from the same generator")
	// one generator per connection shared with the session
	newConn := w.Fn("hsms", "NewConnection")
	newSess := w.Fn("hsms", "newSession")
	fGenC := w.Field("hsms", "connection", "sysGen")
	shared := false
	for _, c := range callsIn(newConn, isFn(newSess)) {
		if fa, ok := c.Common().Args[2].(*ssa.FieldAddr); ok && sameVar(fieldOf(fa), fGenC) {
			shared = true
		}
	}
	r.Check(shared, rule, "NewConnection: the session shares the connection's own generator", newConn.Pos(), "newSession(…, &c.sysGen)", "session sends and control requests must draw from one generator per connection")
	// the session stores exactly that pointer and never replaces it
	fGenS := w.Field("hsms", "session", "sysGen")
	nStore := 0
	for _, u := range w.fieldUses(fGenS) {
		if w.IsProd(u.Fn) && u.Kind == "store" {
			nStore++
			st := u.Instr2.(*ssa.Store)
			r.Check(sameFn(u.Fn, newSess) && st.Val == ssa.Value(newSess.Params[2]), rule, "session.sysGen set in "+w.FnName(u.Fn), st.Pos(), "constructor parameter", "the session's generator must be the one handed to its constructor")
		}
	}
	r.Floor(rule, "stores of session.sysGen", nStore, 1)
}

func c06ReplyKind(r *Run) {
	const rule = "C06-R6-reply-kind"
	w := r.W
	dm := w.Named("hsms", "DataMessage")
	for _, name := range []string{"session.SendDataMessage", "session.SendSECS2Message"} {
		fn := w.Fn("hsms", name)
		r.Analysed(w.FnName(fn))
		paths, ok := enumPaths(fn, 5000)
		if !ok {
			r.Undecided(rule, name, fn.Pos(), "too many paths")
			continue
		}
		// the reply assertion
		var ta *ssa.TypeAssert
		eachInstr(fn, func(in ssa.Instruction) {
			if x, ok := in.(*ssa.TypeAssert); ok {
				if p, isP := x.AssertedType.(*types.Pointer); isP && types.Identical(p.Elem(), dm) {
					if ex, isEx := x.X.(*ssa.Extract); isEx && isCallToMethod(ex.Tuple, "WriteMessage") {
						ta = x
					}
				}
			}
		})
		if ta == nil {
			// the kind test may live in a shared helper the reply is handed to: then the helper's own
			// nil-error returns must have found the assertion true or the reply nil
			var helper *ssa.Function
			var hparam *ssa.Parameter
			eachInstr(fn, func(in ssa.Instruction) {
				c, ok := in.(*ssa.Call)
				if !ok || calleeOf(c).Static == nil || fnPkgPath(calleeOf(c).Static) != fnPkgPath(fn) {
					return
				}
				for i, a := range c.Call.Args {
					if ex, isEx := a.(*ssa.Extract); isEx && isCallToMethod(ex.Tuple, "WriteMessage") && i < len(calleeOf(c).Static.Params) {
						helper, hparam = calleeOf(c).Static, calleeOf(c).Static.Params[i]
					}
				}
			})
			if helper == nil {
				r.Undecided(rule, name+": reply assertion", fn.Pos(), "no assertion of the WriteMessage result to *DataMessage found")
				continue
			}
			r.Analysed(w.FnName(helper))
			var hta *ssa.TypeAssert
			eachInstr(helper, func(in ssa.Instruction) {
				if x, ok := in.(*ssa.TypeAssert); ok && x.X == ssa.Value(hparam) {
					if p, isP := x.AssertedType.(*types.Pointer); isP && types.Identical(p.Elem(), dm) {
						hta = x
					}
				}
			})
			hpaths, okp := enumPaths(helper, 2000)
			if hta == nil || !okp {
				r.Undecided(rule, name+": reply assertion (in "+helper.Name()+")", helper.Pos(), "the helper does not assert its argument to *DataMessage")
				continue
			}
			okAll := true
			var worst *Path
			for _, p := range hpaths {
				rets := p.Rets()
				if len(rets) == 0 {
					continue
				}
				if c, ok := rets[len(rets)-1].(*ssa.Const); !ok || !c.IsNil() {
					continue
				}
				decided := false
				for _, c := range p.Conds {
					if ex, ok := c.Cond.(*ssa.Extract); ok && ex.Tuple == ssa.Value(hta) && ex.Index == 1 && c.Val {
						decided = true
					}
					if x, eq, isCmp := isNilCmp(c.Cond); isCmp && x == ssa.Value(hparam) && eq == c.Val {
						decided = true
					}
				}
				if !decided {
					okAll, worst = false, p
				}
			}
			if okAll {
				r.OK(rule, "hsms."+name+": reply kind decided in "+helper.Name(), helper.Pos(), "every nil-error return of the helper decided the reply's kind")
			} else {
				r.Fail(rule, "hsms."+name+": reply kind decided in "+helper.Name(), helper.Pos(), "the helper returns a nil error without having found the reply to be a *DataMessage or nil: a control response routed under the primary's system bytes yields (nil, nil) [%s]", worst.String())
			}
			continue
		}
		replyVal := ta.X
		bad := false
		var badPath *Path
		for _, p := range paths {
			if !p.Has(ta) {
				continue
			}
			rets := p.Rets()
			if len(rets) != 2 {
				continue
			}
			if c, ok := rets[1].(*ssa.Const); !ok || !c.IsNil() {
				continue // returns an error: fine
			}
			// returns a nil error: the path must have decided that the reply is nil (nothing expected)
			// or that the assertion succeeded
			// — decided *that way round*: "the assertion succeeded" or "the reply is nil", not merely
			// that one of them was looked at
			decided := false
			for _, c := range p.Conds {
				if ex, ok := c.Cond.(*ssa.Extract); ok && ex.Tuple == ssa.Value(ta) && ex.Index == 1 && c.Val {
					decided = true
				}
				if x, eq, isCmp := isNilCmp(c.Cond); isCmp && x == replyVal && eq == c.Val {
					decided = true // (reply == nil) true, or (reply != nil) false
				}
			}
			if !ta.CommaOk {
				decided = true // a failed plain assertion panics; not a silent (nil,nil) — judged by C10
			}
			if !decided {
				bad = true
				badPath = p
			}
		}
		if bad {
			r.Fail(rule, "hsms."+name+": reply.(*DataMessage) comma-ok result", ta.Pos(), "a path returns a nil error without deciding whether the routed reply is a *DataMessage (or nil): a control response routed under the primary's system bytes yields (nil, nil) [%s]", badPath.String())
		} else {
			r.OK(rule, "hsms."+name+": reply.(*DataMessage) comma-ok result", ta.Pos(), "every nil-error return decided the reply's kind")
		}
	}
}

// ---------------- C20 ----------------

func c20Chokepoints(r *Run) {
	const rule = "C20-R1-chokepoints"
	w := r.W
	allowed := map[string][]string{
		"incDataMsgInflight":        {"connection.sendWaitReply"},
		"decDataMsgInflight":        {"connection.sendWaitReply"},
		"incDataMsgDropNotSelected": {"connection.dropNotSelected"},
		"incDecodeErr":              {"connection.DeliverOwnedFrame"},
		"incBodyDecodeErr":          {"connection.RouteData"},
		"incAsyncSendErr":           {"connection.drainSendCh"},
		"incDataMsgSend":            {"connection.writeFrame"},
		"incDataMsgRecv":            {"connection.DeliverOwnedFrame"},
		"incDataMsgErr":             {"connection.sendWaitReply", "connection.sendNoReply"},
		"incConnRetry":              {"connection.connectLoop"},
		"decConnRetry":              {"connection.connectLoop"},
		"incReconnects":             {"connection.connectLoop"},
	}
	cm := w.Named("hsms", "ConnectionMetrics")
	ms := types.NewMethodSet(types.NewPointer(cm))
	seen := 0
	fieldOfHelper := map[string]string{}
	for i := 0; i < ms.Len(); i++ {
		name := ms.At(i).Obj().Name()
		if !strings.HasPrefix(name, "inc") && !strings.HasPrefix(name, "dec") {
			continue
		}
		seen++
		f := w.Fn("hsms", "ConnectionMetrics."+name)
		r.Analysed(w.FnName(f))
		al, ok := allowed[name]
		if !ok {
			r.Fail(rule, "metric helper "+name+" has no documented chokepoint", f.Pos(), "a new counter helper must be added to the outcome table")
			continue
		}
		var allowFns []*ssa.Function
		for _, a := range al {
			allowFns = append(allowFns, w.Fn("hsms", a))
			r.Analysed(w.FnName(allowFns[len(allowFns)-1]))
		}
		n := 0
		for _, u := range w.usesOf(f) {
			if !w.IsProd(u.Fn) {
				continue
			}
			n++
			ok := false
			for _, a := range allowFns {
				if sameFn(u.Fn, a) {
					ok = true
				}
			}
			r.Check(ok, rule, name+" called in "+w.FnName(u.Fn), u.Pos(), "documented chokepoint", name+" may be called only from "+strings.Join(al, ", "))
		}
		r.Floor(rule, "call sites of "+name, n, 1)
		// body: exactly one Add(±1) on one field
		adds := 0
		delta := int64(0)
		field := ""
		eachInstr(f, func(in ssa.Instruction) {
			if c, ok := in.(ssa.CallInstruction); ok {
				cal := calleeOf(c)
				if cal.Static != nil && cal.Static.Signature.Recv() != nil {
					switch baseName(cal.Static) {
					case "Add":
						adds++
						delta, _ = constInt(c.Common().Args[1])
						if fa, ok := c.Common().Args[0].(*ssa.FieldAddr); ok {
							for {
								outer, isOuter := fa.X.(*ssa.FieldAddr)
								if !isOuter {
									break
								}
								fa = outer
							}
							field = fieldOf(fa).Name()
						}
					case "Store", "Swap", "CompareAndSwap":
						adds = -100
					}
				}
			}
		})
		want := int64(1)
		if strings.HasPrefix(name, "dec") {
			want = -1
		}
		r.Check(adds == 1 && delta == want && field != "", rule, name+" adds exactly "+fmt.Sprint(want)+" to one field", f.Pos(), field, fmt.Sprintf("helper must be a single Add(%d) (adds=%d delta=%d)", want, adds, delta))
		fieldOfHelper[name] = field
	}
	r.Floor(rule, "metric helpers", seen, 12)
	// inc/dec pairs share a field; otherwise fields are distinct
	byField := map[string][]string{}
	for h, f := range fieldOfHelper {
		byField[f] = append(byField[f], h)
	}
	for f, hs := range byField {
		sort.Strings(hs)
		ok := len(hs) == 1 || (len(hs) == 2 && strings.TrimPrefix(hs[0], "dec") == strings.TrimPrefix(hs[1], "inc"))
		r.Check(ok, rule, "metric field "+f+" is written by "+strings.Join(hs, "+"), cm.Obj().Pos(), "one counter per helper (or an inc/dec pair)", "two different counters must not share a field")
	}
	// nobody else writes the metric fields
	st := cm.Underlying().(*types.Struct)
	for i := 0; i < st.NumFields(); i++ {
		fld := st.Field(i)
		for _, u := range w.fieldUses(fld) {
			if !w.IsProd(u.Fn) {
				continue
			}
			isHelper := u.Fn.Signature.Recv() != nil && typeIs(u.Fn.Signature.Recv().Type(), modPath+"/hsms", "ConnectionMetrics")
			switch {
			case u.Kind == "method:Load" || u.Kind == "load":
			case isHelper && (u.Kind == "method:Add"):
			default:
				r.Fail(rule, "metric field "+fld.Name()+" used as "+u.Kind+" in "+w.FnName(u.Fn), u.Instr2.Pos(), "metric fields may be modified only by their inc/dec helper")
			}
		}
	}
	r.Trivial(rule, "metric fields are written only by their helpers", cm.Obj().Pos(), "%d fields scanned", st.NumFields())
}

func c20GaugePairing(r *Run) {
	const rule = "C20-R2-gauge-pairing"
	w := r.W
	s := newSendCtx(w)
	pair := func(fn *ssa.Function, incN, decN string) (ssa.CallInstruction, bool) {
		r.Analysed(w.FnName(fn))
		inc := w.Fn("hsms", "ConnectionMetrics."+incN)
		dec := w.Fn("hsms", "ConnectionMetrics."+decN)
		incs := callsIn(fn, isFn(inc))
		decs := callsIn(fn, isFn(dec))
		if len(incs) != 1 || len(decs) != 1 {
			r.Fail(rule, fn.Name()+": "+incN+"/"+decN+" pairing", fn.Pos(), "expected exactly one %s and one %s, found %d/%d", incN, decN, len(incs), len(decs))
			return nil, false
		}
		_, isDefer := decs[0].(*ssa.Defer)
		// immediately: same block, no call in between that could panic/return
		adjacent := incs[0].Block() == decs[0].Block() && blockIndexOf(incs[0]) < blockIndexOf(decs[0])
		if adjacent {
			for _, in := range incs[0].Block().Instrs[blockIndexOf(incs[0])+1 : blockIndexOf(decs[0])] {
				switch in.(type) {
				case ssa.CallInstruction, *ssa.Return, *ssa.Panic, *ssa.If:
					adjacent = false
				}
			}
		}
		r.Check(isDefer && adjacent, rule, fn.Name()+": "+incN+" immediately followed by defer "+decN, incs[0].Pos(), "every exit after the increment runs the decrement exactly once ⇒ never negative, returns to zero", "the gauge increment must be paired with a deferred decrement right after it")
		return incs[0], true
	}
	if inc, ok := pair(s.sendWaitReply, "incDataMsgInflight", "decDataMsgInflight"); ok {
		// only after a successful write of a W-bit data message
		facts := factsIn(s.sendWaitReply)
		wOK, wrOK, dataOK := false, false, false
		for f := range facts[inc.Block()] {
			if c, isC := f.Cond.(*ssa.Call); isC && calleeOf(c).Static != nil && calleeOf(c).Static.Name() == "WaitBit" && f.Val {
				wOK = true
			}
			if x, eq, isCmp := isNilCmp(f.Cond); isCmp {
				if isCallTo(x, isFn(s.writeFrame)) && eq == f.Val {
					wrOK = true
				}
			}
			if pos, ok := s.dataTest(f.Cond); ok && pos == f.Val {
				dataOK = true
			}
		}
		r.Check(wOK && wrOK && dataOK, rule, "sendWaitReply: in-flight counted only after a W-bit data frame was written", inc.Pos(), "dominated by data ∧ WaitBit ∧ writeFrame()==nil", fmt.Sprintf("in-flight must be incremented only for a written W-bit data message (W=%v written=%v data=%v)", wOK, wrOK, dataOK))
	}
	cl := w.Fn("hsms", "connection.connectLoop")
	if inc, ok := pair(cl, "incConnRetry", "decConnRetry"); ok {
		r.Check(inc.Block() == cl.Blocks[0], rule, "connectLoop: reconnecting gauge raised on entry", inc.Pos(), "first block", "the reconnecting gauge must be positive for the whole life of the loop")
	}
}

func c20WireCounting(r *Run) {
	const rule = "C20-R3-wire-counting"
	w := r.W
	s := newSendCtx(w)
	wf := s.writeFrame
	incSend := w.Fn("hsms", "ConnectionMetrics.incDataMsgSend")
	r.Analysed(w.FnName(wf))
	paths, ok := enumPaths(wf, 50000)
	if !ok {
		r.Undecided(rule, "writeFrame", wf.Pos(), "too many paths")
	} else {
		good := true
		nCount := 0
		var bad *Path
		for _, p := range paths {
			wrote, isData := false, false
			for _, c := range p.Conds {
				if x, eq, isCmp := isNilCmp(c.Cond); isCmp {
					if cc, ok := x.(*ssa.Call); ok && s.isTrMethod("Write")(calleeOf(cc)) && eq == c.Val {
						wrote = true
					}
				}
				if pos, ok := s.dataTest(c.Cond); ok && pos == c.Val {
					isData = true
				}
			}
			n := len(p.Calls(isFn(incSend)))
			want := 0
			if wrote && isData {
				want = 1
				nCount++
			}
			if n != want {
				good = false
				bad = p
			}
		}
		msg := ""
		if bad != nil {
			msg = bad.String()
		}
		r.Check(good && nCount >= 1, rule, "writeFrame: incDataMsgSend ⇔ transport.Write()==nil ∧ data", wf.Pos(), fmt.Sprintf("%d counting paths of %d", nCount, len(paths)), "the sent counter must be bumped exactly once on exactly the paths where a data frame reached the transport ["+msg+"]")
	}
	// DeliverOwnedFrame covered by C06-R4's table (incDataMsgRecv position); here: its callers
	dof := w.Fn("hsms", "connection.DeliverOwnedFrame")
	n := 0
	for _, site := range w.invokeSites(func(m *types.Func) bool { return m.Name() == "DeliverOwnedFrame" }) {
		if !w.IsProd(site.Fn) {
			continue
		}
		n++
		pk := w.PkgOf(site.Fn)
		ok := (pk == "hsmsss" && site.Fn.Name() == "dispatchFrame") || pk == "secs1"
		r.Check(ok, rule, "DeliverOwnedFrame invoked in "+w.FnName(site.Fn), site.Pos(), "Selected data arm / SECS-I assembler", "received data may be counted only at the receive chokepoint's two callers")
	}
	r.Floor(rule, "DeliverOwnedFrame invoke sites", n, 2)
	for _, u := range w.usesOf(dof) {
		if w.IsProd(u.Fn) {
			r.Fail(rule, "DeliverOwnedFrame used directly in "+w.FnName(u.Fn), u.Pos(), "unexpected direct caller")
		}
	}
	// C06-R4's DeliverOwnedFrame table is re-run here because the position of incDataMsgRecv is a C20 clause
	c06OneRecipientMetricsOnly(r, rule)
}

func c06OneRecipientMetricsOnly(r *Run, rule string) {
	// reuse: run the full table under this rule name
	sub := newRun(r.W, r.Prop, r.Tier, nil)
	c06OneRecipient(sub)
	for _, o := range sub.Obs {
		if strings.HasPrefix(o.Construct, "DeliverOwnedFrame(") {
			o.Rule = rule
			r.Obs = append(r.Obs, o)
		}
	}
}

func c20OutcomeTable(r *Run) {
	const rule = "C20-R4-outcome-table"
	w := r.W
	t, errs := newSWRTable(w)
	if t == nil {
		r.Undecided(rule, "sendWaitReply", token.NoPos, "%s", errs)
		return
	}
	s := t.s
	for _, f := range []*ssa.Function{s.sendWaitReply, s.sendNoReply, s.drain} {
		r.Analysed(w.FnName(f))
	}
	autoS9 := w.Fn("hsms", "connection.sendAutoS9F9")
	t.dt.Effect = func(in ssa.Instruction, e *Evaluator, p *Path) string {
		c, ok := in.(ssa.CallInstruction)
		if !ok {
			return ""
		}
		cal := calleeOf(c)
		if n := metricHelperName(cal); n != "" {
			if _, isDefer := in.(*ssa.Defer); isDefer {
				return "defer " + n
			}
			return n
		}
		if isFn(s.dropNS)(cal) {
			return "drop"
		}
		if isFn(autoS9)(cal) {
			return "S9F9"
		}
		return ""
	}
	// which select index is which
	timerIdx, _ := int64(-1), 0
	if t.selIns != nil {
		for i, st := range t.selIns.States {
			if fieldLoadNamed(st.Chan, "C") {
				timerIdx = int64(i)
			}
		}
	}
	n := 0
	product(t.doms, func(env Env) {
		n++
		res := t.dt.Cell(env)
		construct := "sendWaitReply counters(" + envString(env, domNames(t.doms)) + ")"
		if res.Err != "" {
			r.Undecided(rule, construct, res.Pos, "%s", res.Err)
			return
		}
		var want []string
		func() {
			if env["open"] == 0 {
				return
			}
			if env["data"] == 1 && env["sel"] == 0 {
				want = append(want, "drop")
				return
			}
			if env["werr"] != 0 {
				if env["data"] == 1 && env["counted"] != 0 {
					want = append(want, "incDataMsgErr")
				}
				return
			}
			if env["data"] == 1 && env["W"] == 0 {
				return
			}
			if env["data"] == 1 {
				want = append(want, "incDataMsgInflight", "defer decDataMsgInflight")
			}
			if env["out"] == timerIdx && env["data"] == 1 {
				want = append(want, "incDataMsgErr")
				if env["s9"] != 0 {
					want = append(want, "S9F9")
				}
			}
		}()
		got := strings.Join(res.Effects, ";")
		if got == strings.Join(want, ";") {
			r.OK(rule, construct, res.Pos, "[%s]", got)
		} else {
			r.Fail(rule, construct, res.Pos, "counters [%s], documented [%s]", got, strings.Join(want, ";"))
		}
	})
	r.Floor(rule, "sendWaitReply counter cells", n, 512)

	// sendNoReply
	{
		fn := s.sendNoReply
		dt, ok := newDT(fn, 10000)
		if ok {
			isCounted := w.Fn("hsms", "isCountedSendErr")
			dt.Leaf = t.dt.Leaf
			_ = isCounted
			dt.Effect = t.dt.Effect
			msg := fn.Params[2]
			base := t.dt.Leaf
			dt.Leaf = func(env Env, v ssa.Value, e *Evaluator) (int64, bool, bool) {
				if x, ok := v.(*ssa.Extract); ok {
					if ta, ok := x.Tuple.(*ssa.TypeAssert); ok && ta.X == ssa.Value(msg) {
						return env["data"], true, true
					}
				}
				return base(env, v, e)
			}
			doms := []dom{{"open", []int64{0, 1}}, {"data", []int64{0, 1}}, {"sel", []int64{0, 1}}, {"werr", []int64{0, 1}}, {"counted", []int64{0, 1}}}
			product(doms, func(env Env) {
				res := dt.Cell(env)
				construct := "sendNoReply counters(" + envString(env, domNames(doms)) + ")"
				if res.Err != "" {
					r.Undecided(rule, construct, res.Pos, "%s", res.Err)
					return
				}
				want := ""
				switch {
				case env["open"] == 0:
				case env["data"] == 1 && env["sel"] == 0:
					want = "drop"
				case env["werr"] != 0 && env["data"] == 1 && env["counted"] != 0:
					want = "incDataMsgErr"
				}
				got := strings.Join(res.Effects, ";")
				r.Check(got == want, rule, construct, res.Pos, "["+want+"]", fmt.Sprintf("counters [%s], documented [%s]", got, want))
			})
		}
	}
	// drainSendCh: write error ⇒ incAsyncSendErr exactly once, nothing otherwise
	{
		fn := s.drain
		hs := loopHeaders(fn)
		if len(hs) == 1 {
			paths, ok := enumIterPaths(fn, hs[0], 1000)
			if ok {
				incA := w.Fn("hsms", "ConnectionMetrics.incAsyncSendErr")
				good, nErr := true, 0
				for _, p := range paths {
					wr := p.Calls(isFn(s.writeFrame))
					failed := false
					for _, c := range p.Conds {
						if x, eq, isCmp := isNilCmp(c.Cond); isCmp && isCallTo(x, isFn(s.writeFrame)) && eq != c.Val {
							failed = true
						}
					}
					n := len(p.Calls(isFn(incA)))
					if failed {
						nErr++
						if n != 1 || len(wr) != 1 {
							good = false
						}
					} else if n != 0 {
						good = false
					}
					if len(p.Calls(func(c Callee) bool { return metricHelperName(c) == "incDataMsgErr" })) != 0 {
						good = false
					}
				}
				r.Check(good && nErr >= 1, rule, "drainSendCh: async write error ⇒ incAsyncSendErr once; success ⇒ no counter", fn.Pos(), fmt.Sprintf("%d iteration paths", len(paths)), "the async sender must count exactly its own write failures")
			}
		}
	}
	// isCountedSendErr: counted ⇔ none of the four lifecycle sentinels match
	{
		fn := w.Fn("hsms", "isCountedSendErr")
		dt, ok := newDT(fn, 1000)
		if ok {
			dt.Leaf = func(env Env, v ssa.Value, e *Evaluator) (int64, bool, bool) {
				if c, ok := v.(*ssa.Call); ok {
					if cal := calleeOf(c); cal.Static != nil && cal.Static.Name() == "Is" && cal.Static.Pkg != nil && cal.Static.Pkg.Pkg.Path() == "errors" {
						n := globalLoadName(c.Call.Args[1])
						val, has := env[n]
						return val, has, true
					}
				}
				return 0, false, false
			}
			sent := []string{"ErrNotSelectedState", "ErrConnClosed", "Canceled", "DeadlineExceeded"}
			for i := -1; i < len(sent); i++ {
				env := Env{}
				for j, s := range sent {
					env[s] = b2i(i == j)
				}
				res := dt.Cell(env)
				which := "a transport error"
				if i >= 0 {
					which = sent[i]
				}
				construct := "isCountedSendErr(" + which + ")"
				if res.Err != "" {
					r.Undecided(rule, construct, res.Pos, "%s", res.Err)
					continue
				}
				want := b2i(i < 0)
				r.Check(strings.Join(res.Rets, ",") == fmt.Sprint(want), rule, construct, res.Pos, fmt.Sprintf("→ %d", want), fmt.Sprintf("returns %v, documented %d", res.Rets, want))
			}
		}
	}
}
