package main

import (
	"fmt"
	"go/token"
	"go/types"

	"golang.org/x/tools/go/ssa"
)

// byteMapOnPath extracts, for a local fixed-size byte array `arr` (an Alloc of [N]byte),
// the symbolic content of every byte at the end of path p: constant-index element stores,
// binary.BigEndian.PutUintNN / binary.LittleEndian.PutUintNN on constant sub-slices, and
// copy() into constant sub-slices. Unwritten bytes are "0" (Go zero value). A write the
// extractor cannot place makes ok=false.
func byteMapOnPath(p *Path, arr ssa.Value, n int) (m []string, ok bool) {
	m = make([]string, n)
	for i := range m {
		m[i] = "0"
	}
	ok = true
	isArr := func(v ssa.Value) bool { return v == arr }
	sliceOf := func(v ssa.Value) (lo, hi int, is bool) {
		sl, isSl := v.(*ssa.Slice)
		if !isSl || !isArr(sl.X) {
			return 0, 0, false
		}
		lo, hi = 0, n
		if sl.Low != nil {
			k, isK := constInt(sl.Low)
			if !isK {
				return 0, 0, false
			}
			lo = int(k)
		}
		if sl.High != nil {
			k, isK := constInt(sl.High)
			if !isK {
				return 0, 0, false
			}
			hi = int(k)
		}
		return lo, hi, true
	}
	for _, in := range p.Instrs() {
		switch x := in.(type) {
		case *ssa.Store:
			if ia, isIA := x.Addr.(*ssa.IndexAddr); isIA && isArr(ia.X) {
				k, isK := constInt(ia.Index)
				if !isK || int(k) >= n {
					ok = false
					continue
				}
				m[k] = renderWith(p.Resolve(x.Val), p.Resolve)
			} else if isArr(x.Addr) {
				// whole-array store (e.g. header = other)
				for i := range m {
					m[i] = fmt.Sprintf("%s[%d]", renderWith(x.Val, p.Resolve), i)
				}
			}
		case *ssa.Call:
			cal := calleeOf(x)
			args := x.Call.Args
			if cal.Static != nil && cal.Static.Pkg != nil && cal.Static.Pkg.Pkg.Path() == "encoding/binary" {
				name := cal.Static.Name()
				order := ""
				if recv := cal.Static.Signature.Recv(); recv != nil {
					order = typeShort(recv.Type())
				}
				var width int
				switch name {
				case "PutUint16":
					width = 2
				case "PutUint32":
					width = 4
				case "PutUint64":
					width = 8
				}
				if width > 0 && len(args) == 3 {
					lo, hi, is := sliceOf(args[1])
					if !is {
						continue
					}
					if hi-lo < width {
						ok = false
						continue
					}
					v := renderWith(args[2], p.Resolve)
					for i := 0; i < width; i++ {
						bi := i
						if order == "binary.littleEndian" {
							bi = width - 1 - i
						} else if order != "binary.bigEndian" {
							ok = false
						}
						// byte i (from most significant) of v
						m[lo+bi] = fmt.Sprintf("be%d.%d(%s)", width*8, i, v)
					}
				}
			}
			if cal.Builtin == "copy" && len(args) == 2 {
				lo, hi, is := sliceOf(args[0])
				if !is {
					continue
				}
				src := renderWith(args[1], p.Resolve)
				for i := lo; i < hi && i < n; i++ {
					m[i] = fmt.Sprintf("%s[%d]", src, i-lo)
				}
			}
		}
	}
	return m, ok
}

// localByteArray finds the single local [n]byte Alloc in fn (the header under construction).
func localByteArray(fn *ssa.Function, n int64) *ssa.Alloc {
	var found *ssa.Alloc
	count := 0
	eachInstr(fn, func(in ssa.Instruction) {
		a, ok := in.(*ssa.Alloc)
		if !ok {
			return
		}
		arr, ok := derefType(a.Type()).Underlying().(*types.Array)
		if !ok || arr.Len() != n {
			return
		}
		if b, ok := arr.Elem().Underlying().(*types.Basic); ok && b.Kind() == types.Uint8 {
			found = a
			count++
		}
	})
	if count != 1 {
		// several local arrays: the one whose value is stored into a field named "header" (the
		// header of the message being built), if that singles one out
		var hdr *ssa.Alloc
		nh := 0
		eachInstr(fn, func(in ssa.Instruction) {
			st, ok := in.(*ssa.Store)
			if !ok {
				return
			}
			fa, ok := st.Addr.(*ssa.FieldAddr)
			if !ok || fieldOf(fa).Name() != "header" {
				return
			}
			if u, ok := st.Val.(*ssa.UnOp); ok && u.Op == token.MUL {
				if a, ok := u.X.(*ssa.Alloc); ok {
					if arr, ok := derefType(a.Type()).Underlying().(*types.Array); ok && arr.Len() == n {
						if hdr != a {
							nh++
						}
						hdr = a
					}
				}
			}
		})
		if nh == 1 {
			return hdr
		}
		return nil
	}
	return found
}

// loadOf reports whether v is a load (*addr) of addr.
func loadOf(v ssa.Value, addr ssa.Value) bool {
	u, ok := v.(*ssa.UnOp)
	return ok && u.Op == token.MUL && u.X == addr
}
