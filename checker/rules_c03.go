package main

import (
	"fmt"
	"go/token"
	"go/types"
	"strings"

	"golang.org/x/tools/go/ssa"
)

func init() {
	register(&PropSpec{
		ID: "C03",
		Rules: []Rule{
			{Name: "C03-R1-header-layout", Doc: "bit-provenance of the 10 header bytes NewDataMessage builds on every success path equals the E37 map (session id big-endian in 0–1, W|stream in 2, function in 3, PType 0, SType 0, system bytes in 6–9), and every header accessor of DataMessage/ControlMessage reads back exactly the bits the builder put there", Run: c03HeaderLayout},
			{Name: "C03-R2-restamping", Doc: "WithSessionID/WithSystemBytes/WithID of both message types return a new object whose header differs from the receiver's exactly in bytes 0–1 / 6–9 (bit-exact) and which shares body and decode state; builder setters store their argument unchanged and Build hands the builder's fields to NewDataMessage in order", Run: c03Restamp},
			{Name: "C03-R3-framing", Doc: "DataMessage.ToBytes, ControlMessage.ToBytes and buildFrameBuffers all emit BE32(10+bodyLen) ‖ header ‖ body (bit-exact length bytes; body length taken from the very buffers written); writeFrame hands buildFrameBuffers' result to the transport unmodified", Run: c03Framing},
			{Name: "C03-R4-validation-table", Doc: "NewDataMessage rejects exactly stream > 127 ∨ item.Error() ≠ nil ∨ (W ∧ function even), treating a nil item as empty, and reports the documented error for each; NewDataMessageFromHeader additionally rejects PType ≠ 0 and SType ≠ 0", Run: c03Validation},
			{Name: "C03-R6-control-layouts", Doc: "byte maps of the nine control-message factories and of NewRejectReqRaw equal E37 (SType in byte 5, status/reason in byte 3, PType or SType of the rejected message in byte 2 by reason, responses echo the request's bytes 0–1 and 6–9, Linktest session id 0xFFFF); shared with C08", Run: func(r *Run) {
				r.ruleAlias = "C03-R6-control-layouts"
				defer func() { r.ruleAlias = "" }()
				c08RejectConstruction(r)
				c08ControlLayouts(r)
			}},
			{Name: "C03-R5-decode-tables", Doc: "frame acceptance of the three decode entry points and decodeOwnedFrame (shared with C04-R2)", Run: func(r *Run) { c04AcceptanceAs(r, "C03-R5-decode-tables") }},
		},
		NotDec:  []string{"the body bytes themselves (C01)", "dynamic equality of a decoded message with the original"},
		Trusted: []string{"SEMI E37 header byte map as transcribed in the rule", "encoding/binary.BigEndian semantics"},
	})
}

// ndmRoles identifies NewDataMessage's parameters by what the function does with them.
type ndmRoles struct {
	stream, function, wbit, session, sysBytes, item *ssa.Parameter
}

func c03Roles(w *World, fn *ssa.Function) ndmRoles {
	var ro ndmRoles
	for _, p := range fn.Params {
		switch t := p.Type().Underlying().(type) {
		case *types.Basic:
			switch t.Kind() {
			case types.Bool:
				ro.wbit = p
			case types.Uint16:
				ro.session = p
			}
		case *types.Array:
			ro.sysBytes = p
		case *types.Interface:
			ro.item = p
		}
	}
	eachInstr(fn, func(in ssa.Instruction) {
		b, ok := in.(*ssa.BinOp)
		if !ok {
			return
		}
		if p, ok := b.X.(*ssa.Parameter); ok {
			if k, ok := constInt(b.Y); ok {
				if b.Op == token.GTR && k == 127 {
					ro.stream = p
				}
				if b.Op == token.REM && k == 2 {
					ro.function = p
				}
			}
		}
	})
	if ro.stream == nil || ro.function == nil || ro.wbit == nil || ro.session == nil || ro.sysBytes == nil || ro.item == nil {
		bail("%s: parameter roles (stream, function, W, session id, system bytes, item) not found", fn.Name())
	}
	return ro
}

func bitsEqual(a, b bv) bool {
	if len(a) != len(b) {
		return false
	}
	for i := range a {
		if a[i] != b[i] {
			return false
		}
	}
	return true
}

func byteOf(v bv, k int) bv {
	out := make(bv, 8)
	for i := 0; i < 8; i++ {
		if k*8+i < len(v) {
			out[i] = v[k*8+i]
		}
	}
	return out
}

// substHeader replaces atom bits named <prefix>[k] by the given header bytes.
func substHeader(v bv, prefix string, hdr []bv) bv {
	out := make(bv, len(v))
	for i, b := range v {
		out[i] = b
		if b.k == 2 && strings.HasPrefix(b.a, prefix+"[") && strings.HasSuffix(b.a, "]") {
			var k int
			if _, err := fmt.Sscanf(b.a[len(prefix):], "[%d]", &k); err == nil && k < len(hdr) {
				s := hdr[k][b.i]
				if b.neg {
					switch s.k {
					case 0:
						s.k = 1
					case 1:
						s.k = 0
					case 2:
						s.neg = !s.neg
					}
				}
				out[i] = s
			}
		}
	}
	return out
}

func c03HeaderLayout(r *Run) {
	const rule = "C03-R1-header-layout"
	w := r.W
	fn := w.Fn("hsms", "NewDataMessage")
	r.Analysed(w.FnName(fn))
	ro := c03Roles(w, fn)
	hdr := localByteArray(fn, 10)
	if hdr == nil {
		bail("NewDataMessage: local [10]byte header not found")
	}
	paths, ok := enumPaths(fn, 2000)
	if !ok {
		r.Undecided(rule, "NewDataMessage paths", fn.Pos(), "too many paths")
		return
	}
	okRet := map[*ssa.Return]bool{}
	for _, ret := range successReturns(fn) {
		okRet[ret] = true
	}
	var builderByW [2][]bv
	n := 0
	for _, p := range paths {
		ret, isRet := p.Exit.(*ssa.Return)
		if !isRet || !okRet[ret] {
			continue
		}
		wDec := -1
		for _, f := range p.Conds {
			if f.Cond == ssa.Value(ro.wbit) {
				if f.Val {
					wDec = 1
				} else {
					wDec = 0
				}
			}
		}
		if wDec < 0 {
			r.Fail(rule, "NewDataMessage success path decides the W-bit", ret.Pos(), "path ["+p.String()+"] builds a header without testing replyExpected")
			continue
		}
		e := newBitEval(p)
		key, _, _ := e.memBase(hdr)
		e.run()
		mem := e.mem[key]
		if len(e.bad) > 0 {
			r.Undecided(rule, "NewDataMessage header writes", ret.Pos(), "%s", strings.Join(e.bad, "; "))
			continue
		}
		n++
		sid := atomBV("$"+ro.session.Name(), 16)
		st := atomBV("$"+ro.stream.Name(), 8)
		b2 := make(bv, 8)
		copy(b2, st[:7])
		b2[7] = bsrc{k: int8(wDec)}
		want := []bv{byteOf(sid, 1), byteOf(sid, 0), b2, atomBV("$"+ro.function.Name(), 8), constBV(0, 8), constBV(0, 8)}
		for i := 0; i < 4; i++ {
			want = append(want, atomBV(fmt.Sprintf("$%s[%d]", ro.sysBytes.Name(), i), 8))
		}
		names := []string{"session id high", "session id low", "W | stream", "function", "PType = 0", "SType = 0", "system bytes 0", "system bytes 1", "system bytes 2", "system bytes 3"}
		for i := 0; i < 10; i++ {
			construct := fmt.Sprintf("NewDataMessage[W=%d] header byte %d (%s)", wDec, i, names[i])
			r.Check(bitsEqual(mem[i], want[i]), rule, construct, ret.Pos(), want[i].String(), "E37 requires "+want[i].String()+", the code builds "+mem[i].String())
		}
		builderByW[wDec] = mem
		// the header stored in the message is this array
		stored := false
		for _, in := range p.Instrs() {
			if st, ok := in.(*ssa.Store); ok {
				if fa, ok := st.Addr.(*ssa.FieldAddr); ok && fieldOf(fa).Name() == "header" && loadOf(st.Val, hdr) {
					stored = true
				}
			}
		}
		r.Check(stored, rule, fmt.Sprintf("NewDataMessage[W=%d]: the message carries the header just built", wDec), ret.Pos(), "header field = local header", "the built header must be the one stored in the message")
	}
	r.Floor(rule, "NewDataMessage success paths", n, 2)
	if builderByW[0] == nil || builderByW[1] == nil {
		return
	}
	// accessors invert the builder
	type acc struct {
		name string
		want func(wd int) bv
	}
	sid := atomBV("$"+ro.session.Name(), 16)
	st7 := func() bv { v := atomBV("$"+ro.stream.Name(), 8); v[7] = bsrc{}; return v }
	for _, typ := range []string{"DataMessage", "ControlMessage"} {
		accs := []acc{{"SessionID", func(int) bv { return sid }}}
		if typ == "DataMessage" {
			accs = append(accs,
				acc{"Stream", func(int) bv { return st7() }},
				acc{"Function", func(int) bv { return atomBV("$"+ro.function.Name(), 8) }},
				acc{"WaitBit", func(wd int) bv { return constBV(uint64(wd), 1) }},
			)
		}
		for _, a := range accs {
			af := w.Fn("hsms", typ+"."+a.name)
			r.Analysed(w.FnName(af))
			aps, ok := enumPaths(af, 50)
			if !ok || len(aps) != 1 {
				r.Undecided(rule, typ+"."+a.name+" is a straight-line accessor", af.Pos(), "%d paths", len(aps))
				continue
			}
			e := newBitEval(aps[0])
			e.run()
			rets := aps[0].Rets()
			got := e.eval(rets[0])
			prefix := "$" + af.Params[0].Name() + ".header"
			for wd := 0; wd < 2; wd++ {
				g := substHeader(got, prefix, builderByW[wd])
				want := a.want(wd)
				construct := fmt.Sprintf("%s.%s() ∘ NewDataMessage[W=%d]", typ, a.name, wd)
				r.Check(bitsEqual(g, want), rule, construct, af.Pos(), "reads back "+want.String(), "reads "+g.String()+" from a header built by NewDataMessage; expected "+want.String())
			}
		}
		// SystemBytes: a [4]byte copy of header[6:10]
		af := w.Fn("hsms", typ+".SystemBytes")
		r.Analysed(w.FnName(af))
		aps, ok := enumPaths(af, 50)
		if ok && len(aps) == 1 {
			e := newBitEval(aps[0])
			var out *ssa.Alloc
			eachInstr(af, func(in ssa.Instruction) {
				if a, ok := in.(*ssa.Alloc); ok {
					if n, ok := byteArrayLen(derefType(a.Type())); ok && n == 4 {
						out = a
					}
				}
			})
			if out != nil {
				key, _, _ := e.memBase(out)
				e.run()
				prefix := "$" + af.Params[0].Name() + ".header"
				okAll := loadOf(aps[0].Rets()[0], out)
				for i := 0; i < 4 && okAll; i++ {
					g := substHeader(e.mem[key][i], prefix, builderByW[0])
					if !bitsEqual(g, atomBV(fmt.Sprintf("$%s[%d]", ro.sysBytes.Name(), i), 8)) {
						okAll = false
					}
				}
				r.Check(okAll, rule, typ+".SystemBytes() ∘ NewDataMessage", af.Pos(), "a copy of header bytes 6–9", "SystemBytes must return header bytes 6–9 in order")
			} else {
				r.Fail(rule, typ+".SystemBytes()", af.Pos(), "no [4]byte result array found")
			}
		}
	}
	// ToSystemBytes / FromSystemBytes are mutually inverse big-endian conversions
	ts, fs := w.Fn("hsms", "ToSystemBytes"), w.Fn("hsms", "FromSystemBytes")
	tp, ok1 := enumPaths(ts, 10)
	fp, ok2 := enumPaths(fs, 10)
	if ok1 && ok2 && len(tp) == 1 && len(fp) == 1 {
		e := newBitEval(tp[0])
		arr := localByteArray(ts, 4)
		okT := arr != nil
		if okT {
			key, _, _ := e.memBase(arr)
			e.run()
			id := atomBV("$"+ts.Params[0].Name(), 32)
			for i := 0; i < 4; i++ {
				if !bitsEqual(e.mem[key][i], byteOf(id, 3-i)) {
					okT = false
				}
			}
		}
		r.Check(okT, rule, "ToSystemBytes: big-endian", ts.Pos(), "byte i = bits 8·(3−i)…", "system bytes must be the id in big-endian order")
		e2 := newBitEval(fp[0])
		e2.run()
		got := e2.eval(fp[0].Rets()[0])
		want := make(bv, 32)
		pn := "$" + fs.Params[0].Name()
		// the parameter array is spilled to a local; bytes are named <local>[i] or <param>[i]
		okF := len(got) == 32
		for i := 0; i < 4 && okF; i++ {
			for k := 0; k < 8; k++ {
				b := got[(3-i)*8+k]
				if b.k != 2 || b.i != k || !strings.HasSuffix(b.a, fmt.Sprintf("[%d]", i)) {
					okF = false
				}
			}
		}
		_ = want
		_ = pn
		r.Check(okF, rule, "FromSystemBytes: big-endian", fs.Pos(), "inverse of ToSystemBytes", "the id must be read big-endian from the four system bytes, got "+got.String())
	}
}

func c03Restamp(r *Run) {
	const rule = "C03-R2-restamping"
	w := r.W
	for _, typ := range []string{"DataMessage", "ControlMessage"} {
		for _, m := range []string{"WithSessionID", "WithSystemBytes"} {
			fn := w.Fn("hsms", typ+"."+m)
			r.Analysed(w.FnName(fn))
			paths, ok := enumPaths(fn, 20)
			if !ok || len(paths) == 0 {
				r.Undecided(rule, typ+"."+m+" paths", fn.Pos(), "%d paths", len(paths))
				continue
			}
			for _, p := range paths {
				if _, isRet := p.Exit.(*ssa.Return); !isRet {
					continue
				}
				m := m
				if len(paths) > 1 {
					m = m + " [" + shortCond(p) + "]"
				}
				// the returned object is a fresh allocation
				ret := p.Rets()[0]
				obj, fresh := ret.(*ssa.Alloc)
				r.Check(fresh, rule, typ+"."+m+" returns a new object", fn.Pos(), "fresh allocation", "re-stamping must not modify or return the receiver, returns "+render(ret))
				if !fresh {
					continue
				}
				st := derefType(obj.Type()).Underlying().(*types.Struct)
				hf := -1
				for i := 0; i < st.NumFields(); i++ {
					if st.Field(i).Name() == "header" {
						hf = i
					}
				}
				e := newBitEval(p)
				e.run()
				mem := e.mem[memKey{obj, hf}]
				if mem == nil || len(e.bad) > 0 {
					r.Undecided(rule, typ+"."+m+" header of the new object", fn.Pos(), "header writes could not be followed (%s)", strings.Join(e.bad, "; "))
					continue
				}
				recv := "$" + fn.Params[0].Name() + ".header"
				arg := fn.Params[1]
				for i := 0; i < 10; i++ {
					want := atomBV(fmt.Sprintf("%s[%d]", recv, i), 8)
					what := "unchanged"
					switch {
					case strings.HasPrefix(m, "WithSessionID") && i < 2:
						want = byteOf(atomBV("$"+arg.Name(), 16), 1-i)
						what = "session id, big-endian"
					case strings.HasPrefix(m, "WithSystemBytes") && i >= 6:
						want = atomBV(fmt.Sprintf("$%s[%d]", arg.Name(), i-6), 8)
						what = "system byte"
					}
					r.Check(bitsEqual(mem[i], want), rule, fmt.Sprintf("%s.%s header byte %d (%s)", typ, m, i, what), fn.Pos(), want.String(), "must be "+want.String()+", is "+mem[i].String())
				}
				// body / dec / replyExpected shared with the receiver
				shared := map[string]bool{}
				wholeCopy := false
				for _, in := range p.Instrs() {
					s, ok := in.(*ssa.Store)
					if !ok {
						continue
					}
					if s.Addr == ssa.Value(obj) {
						if ld, ok := s.Val.(*ssa.UnOp); ok && ld.Op == token.MUL && ld.X == ssa.Value(fn.Params[0]) {
							wholeCopy = true
						}
					}
					if fa, ok := s.Addr.(*ssa.FieldAddr); ok && fa.X == ssa.Value(obj) {
						if ld, ok := s.Val.(*ssa.UnOp); ok && ld.Op == token.MUL {
							if fb, ok := ld.X.(*ssa.FieldAddr); ok && fb.X == ssa.Value(fn.Params[0]) && fb.Field == fa.Field {
								shared[fieldOf(fa).Name()] = true
							}
						}
					}
				}
				for i := 0; i < st.NumFields(); i++ {
					f := st.Field(i).Name()
					if f == "header" {
						continue
					}
					r.Check(wholeCopy || shared[f], rule, fmt.Sprintf("%s.%s shares %s with the receiver", typ, m, f), fn.Pos(), "copied from the receiver", "the new message must share the receiver's "+f+" (no re-encode, decode at most once)")
				}
			}
		}
	}
	// WithID = WithSystemBytes(ToSystemBytes(id))
	wid := w.Fn("hsms", "DataMessage.WithID")
	wsb := w.Fn("hsms", "DataMessage.WithSystemBytes")
	tsb := w.Fn("hsms", "ToSystemBytes")
	okID := false
	for _, c := range callsIn(wid, isFn(wsb)) {
		if a, ok := c.Common().Args[1].(*ssa.Call); ok && isFn(tsb)(calleeOf(a)) && a.Call.Args[0] == ssa.Value(wid.Params[1]) && c.Common().Args[0] == ssa.Value(wid.Params[0]) {
			okID = true
		}
	}
	r.Check(okID, rule, "DataMessage.WithID = WithSystemBytes(ToSystemBytes(id))", wid.Pos(), "delegates", "WithID must re-stamp the system bytes with the big-endian id")
	// builder setters store their argument unchanged; Build passes the fields in order
	b := w.Named("hsms", "DataMessageBuilder")
	bs := b.Underlying().(*types.Struct)
	nSet := 0
	for _, fn := range w.FnsInPkg("hsms") {
		recv := fn.Signature.Recv()
		if recv == nil || !typeIs(recv.Type(), modPath+"/hsms", "DataMessageBuilder") || !strings.HasPrefix(fn.Name(), "With") {
			continue
		}
		r.Analysed(w.FnName(fn))
		eachInstr(fn, func(in ssa.Instruction) {
			s, ok := in.(*ssa.Store)
			if !ok {
				return
			}
			fa, ok := s.Addr.(*ssa.FieldAddr)
			if !ok || fa.X != ssa.Value(fn.Params[0]) {
				return
			}
			nSet++
			val := s.Val
			okv := val == ssa.Value(fn.Params[1])
			if !okv && fn.Name() == "WithID" {
				if c, ok := val.(*ssa.Call); ok && isFn(tsb)(calleeOf(c)) && c.Call.Args[0] == ssa.Value(fn.Params[1]) {
					okv = true
				}
			}
			r.Check(okv, rule, "DataMessageBuilder."+fn.Name()+" stores its argument unchanged in "+fieldOf(fa).Name(), s.Pos(), "identity", "a builder setter must not alter the value (validation belongs to Build): stores "+render(val))
		})
	}
	r.Floor(rule, "builder setter stores", nSet, 7)
	_ = bs
	build := w.Fn("hsms", "DataMessageBuilder.Build")
	ndm := w.Fn("hsms", "NewDataMessage")
	ro := c03Roles(w, ndm)
	roleOf := map[*ssa.Parameter]string{ro.stream: "stream", ro.function: "function", ro.wbit: "waitBit", ro.session: "sessionID", ro.sysBytes: "systemBytes", ro.item: "item"}
	calls := callsIn(build, isFn(ndm))
	if len(calls) != 1 {
		r.Fail(rule, "Build calls NewDataMessage once", build.Pos(), fmt.Sprintf("%d calls", len(calls)))
		return
	}
	for i, a := range calls[0].Common().Args {
		want := roleOf[ndm.Params[i]]
		ld, ok := a.(*ssa.UnOp)
		okA := ok && ld.Op == token.MUL
		if okA {
			fa, ok := ld.X.(*ssa.FieldAddr)
			okA = ok && fa.X == ssa.Value(build.Params[0]) && fieldOf(fa).Name() == want
		}
		r.Check(okA, rule, "Build passes builder."+want+" as NewDataMessage's "+ndm.Params[i].Name(), calls[0].Pos(), "field → matching parameter", "Build must hand every builder field to the matching parameter, passes "+render(a))
	}
	rets := returnsOf(build)
	okRet := len(rets) == 1
	if okRet {
		for j, v := range rets[0].Results {
			ex, ok := v.(*ssa.Extract)
			if !ok || ex.Tuple != ssa.Value(calls[0].(*ssa.Call)) || ex.Index != j {
				okRet = false
			}
		}
	}
	r.Check(okRet, rule, "Build returns NewDataMessage's result unchanged (validation errors included)", build.Pos(), "(msg, err) passed through", "Build must return exactly what NewDataMessage returns")
}

func c03Framing(r *Run) {
	const rule = "C03-R3-framing"
	w := r.W
	// DataMessage.ToBytes
	tb := w.Fn("hsms", "DataMessage.ToBytes")
	r.Analysed(w.FnName(tb))
	paths, ok := enumPaths(tb, 20)
	if !ok || len(paths) != 1 {
		r.Undecided(rule, "DataMessage.ToBytes is straight-line", tb.Pos(), "%d paths", len(paths))
	} else {
		p := paths[0]
		e := newBitEval(p)
		e.run()
		// the appends, in order
		var appends []*ssa.Call
		for _, in := range p.Instrs() {
			if c, ok := in.(*ssa.Call); ok && calleeOf(c).Builtin == "append" {
				appends = append(appends, c)
			}
		}
		var lenCall ssa.Value
		eachInstr(tb, func(in ssa.Instruction) {
			if c, ok := in.(*ssa.Call); ok && c.Call.IsInvoke() && c.Call.Method.Name() == "Len" {
				lenCall = c
			}
		})
		okShape := len(appends) == 2 && lenCall != nil
		if okShape {
			// first append: 4 bytes spread from a local varargs array: each byte of uint32(10+n)
			sl, isSl := appends[0].Call.Args[1].(*ssa.Slice)
			okShape = isSl
			if okShape {
				key, _, okm := e.memBase(sl.X)
				okShape = okm && len(e.mem[key]) == 4
				if okShape {
					// the length value: uint32(10 + n)
					var length ssa.Value
					eachInstr(tb, func(in ssa.Instruction) {
						if cv, ok := in.(*ssa.Convert); ok && typeBits(cv.Type()) == 32 {
							if b, ok := cv.X.(*ssa.BinOp); ok && b.Op == token.ADD {
								k1, ok1 := constInt(b.X)
								k2, ok2 := constInt(b.Y)
								if (ok1 && k1 == 10 && b.Y == lenCall) || (ok2 && k2 == 10 && b.X == lenCall) {
									length = cv
								}
							}
						}
					})
					okLen := length != nil
					if okLen {
						lv := e.eval(length)
						for i := 0; i < 4; i++ {
							if !bitsEqual(e.mem[key][i], byteOf(lv, 3-i)) {
								okLen = false
							}
						}
					}
					r.Check(okLen, rule, "DataMessage.ToBytes: length prefix = BE32(10 + body.Len())", appends[0].Pos(), "4 big-endian bytes of 10+n", "the frame must start with the big-endian length 10+bodyLen")
				}
			}
			// second append: header[:]
			h, isSl2 := appends[1].Call.Args[1].(*ssa.Slice)
			okHdr := isSl2 && h.Low == nil && h.High == nil && appends[1].Call.Args[0] == ssa.Value(appends[0])
			if okHdr {
				fa, ok := h.X.(*ssa.FieldAddr)
				okHdr = ok && fieldOf(fa).Name() == "header" && fa.X == ssa.Value(tb.Params[0])
			}
			r.Check(okHdr, rule, "DataMessage.ToBytes: then the 10 header bytes", appends[1].Pos(), "append(dst, msg.header[:]...)", "the header must follow the length prefix unchanged")
			// return body.AppendTo(dst)
			ret := p.Rets()[0]
			c, isC := ret.(*ssa.Call)
			okBody := isC && c.Call.IsInvoke() && c.Call.Method.Name() == "AppendTo" && c.Call.Args[0] == ssa.Value(appends[1]) && strings.HasSuffix(render(c.Call.Value), ".body")
			r.Check(okBody, rule, "DataMessage.ToBytes: then the body encoding", tb.Pos(), "msg.body.AppendTo(dst)", "the body must be appended after the header and the result returned")
		}
		r.Check(okShape, rule, "DataMessage.ToBytes shape (prefix, header, body)", tb.Pos(), "two appends + body", "unexpected serialisation shape")
	}
	// ControlMessage.ToBytes: 00 00 00 0A ‖ header
	ct := w.Fn("hsms", "ControlMessage.ToBytes")
	r.Analysed(w.FnName(ct))
	cps, ok := enumPaths(ct, 20)
	if ok && len(cps) == 1 {
		e := newBitEval(cps[0])
		out := freshByteBuf(ct, 14)
		okC := out != nil
		if okC {
			key, _, okm := e.memBase(out)
			e.run()
			lo0, isBuf := sliceOfBuf(cps[0].Rets()[0], out)
			okC = okm && len(e.mem[key]) == 14 && isBuf && lo0 == 0
			if okC {
				want := []uint64{0, 0, 0, 10}
				for i := 0; i < 4; i++ {
					if !bitsEqual(e.mem[key][i], constBV(want[i], 8)) {
						okC = false
					}
				}
				recv := "$" + ct.Params[0].Name() + ".header"
				for i := 0; i < 10; i++ {
					if !bitsEqual(e.mem[key][4+i], atomBV(fmt.Sprintf("%s[%d]", recv, i), 8)) {
						okC = false
					}
				}
			}
		}
		r.Check(okC, rule, "ControlMessage.ToBytes = 00 00 00 0A ‖ header", ct.Pos(), "14 bytes", "a control frame is the length 10 followed by the 10 header bytes")
	} else {
		r.Undecided(rule, "ControlMessage.ToBytes is straight-line", ct.Pos(), "")
	}
	// buildFrameBuffers
	bf := w.Fn("hsms", "buildFrameBuffers")
	r.Analysed(w.FnName(bf))
	bps, ok := enumPaths(bf, 200)
	if !ok {
		r.Undecided(rule, "buildFrameBuffers paths", bf.Pos(), "too many")
		return
	}
	prefix := freshByteBuf(bf, 14)
	if prefix == nil {
		r.Fail(rule, "buildFrameBuffers: 14-byte prefix buffer", bf.Pos(), "not found")
		return
	}
	nb := 0
	for _, p := range bps {
		if p.Exit == nil {
			continue
		}
		if _, isRet := p.Exit.(*ssa.Return); !isRet {
			continue
		}
		e := newBitEval(p)
		key, _, _ := e.memBase(prefix)
		e.run()
		mem := e.mem[key]
		nb++
		// header copied into prefix[4:14]
		okH := true
		for i := 0; i < 10; i++ {
			b := mem[4+i]
			for k := 0; k < 8; k++ {
				if b[k].k != 2 || b[k].i != k || !strings.HasSuffix(b[k].a, fmt.Sprintf("[%d]", i)) || !strings.Contains(b[k].a, "HeaderBytes") && !strings.Contains(b[k].a, "header") {
					okH = false
				}
			}
		}
		// which PutUint32 ran on this path
		var put *ssa.Call
		for _, in := range p.Instrs() {
			if c, ok := in.(*ssa.Call); ok && calleeOf(c).Static != nil && calleeOf(c).Static.Name() == "PutUint32" {
				put = c
			}
		}
		construct := "buildFrameBuffers path [" + shortCond(p) + "]"
		r.Check(okH, rule, construct+": prefix[4:14] = header", p.Exit.Pos(), "header bytes in order", "the ten header bytes must follow the length prefix")
		if put == nil {
			r.Fail(rule, construct+": length prefix written", p.Exit.Pos(), "no big-endian length write on this path")
			continue
		}
		little := strings.Contains(typeShort(calleeOf(put).Static.Signature.Recv().Type()), "little")
		lo := int64(-1)
		if l, ok := sliceOfBuf(put.Call.Args[1], prefix); ok {
			lo = l
		}
		val := put.Call.Args[2]
		ret := p.Rets()[0]
		withBody := strings.Contains(render(ret), "append")
		if k, isK := constInt(val); isK {
			r.Check(!little && lo == 0 && k == 10 && !withBody, rule, construct+": header-only frame has length 10", put.Pos(), "BE32(10), single buffer", "a frame without body must announce length 10 and consist of the prefix only")
		} else {
			// uint32(10 + n) with n the sum of the lengths of the very buffers appended
			s := render(val)
			okN := !little && lo == 0 && strings.Contains(s, "10") && withBody
			r.Check(okN, rule, construct+": frame with body has length 10 + Σ len(body buffers)", put.Pos(), s, "the announced length must be 10 plus the bytes of the body buffers written, big-endian at offset 0: "+s)
		}
	}
	r.Floor(rule, "buildFrameBuffers return paths", nb, 2)
	// the body length is summed over the buffers that are appended
	sumOK := false
	var bodyBufs ssa.Value
	eachInstr(bf, func(in ssa.Instruction) {
		if c, ok := in.(*ssa.Call); ok && c.Call.IsInvoke() && c.Call.Method.Name() == "Buffers" {
			bodyBufs = c
		}
	})
	if bodyBufs != nil {
		nApp := 0
		eachInstr(bf, func(in ssa.Instruction) {
			if c, ok := in.(*ssa.Call); ok && calleeOf(c).Builtin == "append" && len(c.Call.Args) == 2 && stripConv(c.Call.Args[1]) == bodyBufs {
				nApp++
			}
			if c, ok := in.(*ssa.Call); ok && calleeOf(c).Builtin == "len" {
				if mentions(c.Call.Args[0], func(v ssa.Value) bool { return v == bodyBufs }) {
					sumOK = true
				}
			}
		})
		sumOK = sumOK && nApp == 1
	}
	r.Check(sumOK, rule, "buildFrameBuffers: announced length sums the buffers it appends", bf.Pos(), "n = Σ len(b) over body.Buffers(), appended once", "the length prefix must be computed from the same buffers that are written")
	// writeFrame: the buffers go to the transport unmodified
	wf := w.Fn("hsms", "connection.writeFrame")
	r.Analysed(w.FnName(wf))
	bcalls := callsIn(wf, isFn(bf))
	okW := len(bcalls) == 1
	if okW {
		okW = false
		eachInstr(wf, func(in ssa.Instruction) {
			if c, ok := in.(*ssa.Call); ok && c.Call.IsInvoke() && c.Call.Method.Name() == "Write" {
				for _, a := range c.Call.Args {
					if a == ssa.Value(bcalls[0].(*ssa.Call)) {
						okW = true
					}
				}
			}
		})
	}
	r.Check(okW, rule, "writeFrame hands buildFrameBuffers(msg) to the transport unmodified", wf.Pos(), "same value", "what reaches the socket must be exactly the frame that was built")
}

// freshByteBuf finds the n-byte buffer a function allocates: make([]byte, n) with a constant n
// is either a MakeSlice or (go/ssa's form for small constant sizes) a new [n]byte that is sliced.
func freshByteBuf(fn *ssa.Function, n int64) ssa.Value {
	var found ssa.Value
	eachInstr(fn, func(in ssa.Instruction) {
		switch x := in.(type) {
		case *ssa.MakeSlice:
			if k, ok := constInt(x.Len); ok && k == n {
				found = x
			}
		case *ssa.Alloc:
			if k, ok := byteArrayLen(derefType(x.Type())); ok && k == n {
				found = x
			}
		}
	})
	return found
}

// sliceOfBuf: v is buf or a full/partial slice of buf.
func sliceOfBuf(v, buf ssa.Value) (lo int64, ok bool) {
	if v == buf {
		return 0, true
	}
	if sl, isSl := v.(*ssa.Slice); isSl {
		l, ok := sliceOfBuf(sl.X, buf)
		if !ok {
			return 0, false
		}
		if sl.Low != nil {
			k, isK := constInt(sl.Low)
			if !isK {
				return 0, false
			}
			l += k
		}
		return l, true
	}
	return 0, false
}

func shortCond(p *Path) string {
	s := p.String()
	if len(s) > 120 {
		s = s[:120] + "…"
	}
	return s
}

func c03Validation(r *Run) {
	const rule = "C03-R4-validation-table"
	w := r.W
	fn := w.Fn("hsms", "NewDataMessage")
	ro := c03Roles(w, fn)
	paths, ok := enumPaths(fn, 2000)
	if !ok {
		r.Undecided(rule, "NewDataMessage paths", fn.Pos(), "too many")
		return
	}
	// classify every path by its decisions
	n := 0
	for _, p := range paths {
		ret, isRet := p.Exit.(*ssa.Return)
		if !isRet {
			continue
		}
		streamBad, wTrue, fnEven, itemErr := -1, -1, -1, -1
		for _, f := range p.Conds {
			s := renderWith(f.Cond, p.Resolve)
			b, _ := f.Cond.(*ssa.BinOp)
			switch {
			case b != nil && b.X == ssa.Value(ro.stream) && b.Op == token.GTR:
				streamBad = boolInt(f.Val)
			case f.Cond == ssa.Value(ro.wbit):
				wTrue = boolInt(f.Val)
			case b != nil && strings.Contains(s, "% 2") && (b.Op == token.EQL || b.Op == token.NEQ):
				fnEven = boolInt(f.Val == (b.Op == token.EQL))
			case strings.Contains(s, ".Error()") && b != nil && (b.Op == token.NEQ || b.Op == token.EQL):
				itemErr = boolInt(f.Val == (b.Op == token.NEQ))
			}
		}
		rets := p.Rets()
		errS := render(rets[1])
		success := errS == "nil"
		wantReject := streamBad == 1 || itemErr == 1 || (wTrue == 1 && fnEven == 1)
		decided := streamBad != -1 && (streamBad == 1 || itemErr != -1) && (streamBad == 1 || itemErr == 1 || wTrue != -1) && (wTrue != 1 || streamBad == 1 || itemErr == 1 || fnEven != -1)
		n++
		construct := fmt.Sprintf("NewDataMessage(stream>127=%d itemErr=%d W=%d fnEven=%d)", streamBad, itemErr, wTrue, fnEven)
		if !decided {
			r.Fail(rule, construct, ret.Pos(), "a path returns without deciding every validation it depends on ["+shortCond(p)+"]")
			continue
		}
		if wantReject {
			wantErr := "@ErrInvalidStreamCode"
			if streamBad != 1 {
				wantErr = ".Error()"
				if itemErr != 1 {
					wantErr = "@ErrInvalidRspMsg"
				}
			}
			r.Check(!success && strings.Contains(errS, wantErr) && render(rets[0]) == "nil", rule, construct, ret.Pos(), "rejected with "+wantErr, "must be rejected with "+wantErr+", returns ("+render(rets[0])+", "+errS+")")
		} else {
			r.Check(success, rule, construct, ret.Pos(), "accepted", "a valid combination must be accepted, returns error "+errS)
		}
	}
	r.Floor(rule, "NewDataMessage return paths", n, 5)
	// nil item handled before item.Error()
	nilGuard := false
	eachInstr(fn, func(in ssa.Instruction) {
		if b, ok := in.(*ssa.BinOp); ok {
			if x, _, ok := isNilCmp(b); ok && x == ssa.Value(ro.item) {
				nilGuard = true
			}
		}
	})
	r.Check(nilGuard, rule, "NewDataMessage: a nil item is replaced by the empty item before validation", fn.Pos(), "nil guard", "item.Error() on a nil interface would panic")
	// NewDataMessageFromHeader: PType/SType gate, then the same constructor
	fh := w.Fn("hsms", "NewDataMessageFromHeader")
	r.Analysed(w.FnName(fh))
	hp, ok := enumPaths(fh, 500)
	if !ok {
		r.Undecided(rule, "NewDataMessageFromHeader paths", fh.Pos(), "too many")
		return
	}
	nDeleg := 0
	for _, p := range hp {
		calls := p.Calls(isFn(fn))
		if len(calls) == 0 {
			// a path that hands out a message without going through NewDataMessage skips its
			// stream / W-bit / item.Error() validation
			if rets := p.Rets(); len(rets) == 2 && isNilConst(rets[1]) {
				r.Fail(rule, "NewDataMessageFromHeader succeeds only through NewDataMessage ["+shortCond(p)+"]", p.Exit.Pos(), "a message is returned without the validation NewDataMessage performs (stream range, W-bit on an even function, body carrying a deferred error)")
			}
			continue
		}
		nDeleg++
		// and what NewDataMessage says is what the caller gets
		if rets := p.Rets(); len(rets) == 2 {
			ex, ok := p.Resolve(rets[1]).(*ssa.Extract)
			r.Check(ok && ex.Tuple == ssa.Value(calls[0].(*ssa.Call)) && ex.Index == 1, rule, "NewDataMessageFromHeader returns NewDataMessage's own error", p.Exit.Pos(), "error passed through", "the constructor's verdict must not be dropped")
		}
		pt, st := false, false
		for _, f := range p.Conds {
			s := renderWith(f.Cond, p.Resolve)
			b, _ := f.Cond.(*ssa.BinOp)
			if b == nil {
				continue
			}
			zero := (b.Op == token.NEQ && !f.Val) || (b.Op == token.EQL && f.Val)
			if strings.Contains(s, "[4]") && zero {
				pt = true
			}
			if strings.Contains(s, "[5]") && zero {
				st = true
			}
		}
		r.Check(pt && st, rule, "NewDataMessageFromHeader builds only from a header with PType 0 and SType 0", calls[0].Pos(), "both tested", "a header that is not a SECS-II data header must be refused ["+shortCond(p)+"]")
	}
	r.Floor(rule, "NewDataMessageFromHeader paths that delegate to NewDataMessage", nDeleg, 1)
}

func boolInt(b bool) int {
	if b {
		return 1
	}
	return 0
}
