package main

import (
	"fmt"
	"go/token"
	"go/types"
	"strings"

	"golang.org/x/tools/go/ssa"
)

func init() {
	register(&PropSpec{
		ID: "C09",
		Rules: []Rule{
			{Name: "C09-R1-epoch-pinning", Doc: "every function loads the current generation at most once (Close's re-pin under publishMu excepted) and uses that value for registry, queue, context and write; writeFrame/farewell take the socket from their epoch parameter and hand exactly that socket to the transport", Run: c09Pinning},
			{Name: "C09-R2-per-generation-state", Doc: "epoch.ctx/cancel/done/sendCh/replies are written only by newEpoch on a fresh object; the socket only by setConn/closeSocket; the async sender drains only the queue of the epoch it was spawned on", Run: c09PerGenState},
			{Name: "C09-R3-write-bound-to-socket", Doc: "both transport.Write implementations write to the conn PARAMETER (hsmsss: WriteTo(conn); secs1: hand-off only after gen.conn == conn on the snapshot's own channel) and never read the transport's current conn; per-generation goroutines do not read the transport's mutable generation fields", Run: c09WriteBound},
			{Name: "C09-R4-waiters-released", Doc: "SendAsync's bounded enqueue selects on {pinned queue, pinned generation done → ErrConnClosed, caller ctx}; teardown cancels first, then closes the socket, seals spawns, and joins on a separate goroutine, all under closeOnce; the async sender returns on generation done without draining; spawn refuses after closing", Run: c09WaitersReleased},
			{Name: "C09-R5-serialised-generations", Doc: "connectLoop waits for the previous generation before dialing; a failed Start is torn down and joined before the next attempt; the publish is inside the fenced publishMu section (decision table shared with C11-R2)", Run: func(r *Run) { rerunAs(r, "C09-R5-serialised-generations", c11ConnectLoop) }},
		},
		NotDec: []string{"every drop instant versus every in-flight send (schedules)", "OS-level socket behaviour after close"},
	})
}

// rerunAs runs a rule of another property and records its obligations under this rule name.
func rerunAs(r *Run, rule string, f func(*Run)) {
	sub := newRun(r.W, r.Prop, r.Tier, nil)
	sub.runRule(rule, func() { f(sub) })
	for _, o := range sub.Obs {
		o.Rule = rule
		r.Obs = append(r.Obs, o)
	}
	for k := range sub.funcsSet {
		r.funcsSet[k] = true
	}
}

func c09Pinning(r *Run) {
	const rule = "C09-R1-epoch-pinning"
	w := r.W
	s := newSendCtx(w)
	closeFn := w.Fn("hsms", "connection.Close")
	n := 0
	for _, fn := range w.FnsInPkg("hsms") {
		if !w.IsProd(fn) {
			continue
		}
		var loads []ssa.CallInstruction
		eachInstr(fn, func(in ssa.Instruction) {
			if c, ok := in.(ssa.CallInstruction); ok && callIsAtomicMethodOn(c, s.fCur, "Load") {
				loads = append(loads, c)
			}
		})
		if len(loads) == 0 {
			continue
		}
		n++
		r.Analysed(w.FnName(fn))
		if len(loads) == 1 {
			r.OK(rule, w.FnName(fn)+": current generation loaded once", loads[0].Pos(), "a single pinned epoch value")
			continue
		}
		if sameFn(fn, closeFn) && len(loads) == 2 {
			r.OK(rule, w.FnName(fn)+": current generation loaded twice (entry + re-pin under publishMu)", loads[1].Pos(), "C05-R5 decides that the re-pinned value is the one torn down")
			continue
		}
		r.Fail(rule, w.FnName(fn)+": current generation loaded once", loads[1].Pos(), "the function re-loads c.cur %d times: two loads can observe different generations, so a send could register on one and write on another", len(loads))
	}
	r.Floor(rule, "functions that pin the current generation", n, 8)
	// socket provenance in writeFrame and the farewell
	liveConn := w.Fn("hsms", "epoch.liveConn")
	for _, fn := range []*ssa.Function{s.writeFrame, s.farewell} {
		var ep ssa.Value
		for _, p := range fn.Params {
			if typeIs(p.Type(), modPath+"/hsms", "epoch") {
				ep = p
			}
		}
		lcs := callsIn(fn, isFn(liveConn))
		if ep == nil || len(lcs) != 1 || lcs[0].Common().Args[0] != ep {
			r.Fail(rule, w.FnName(fn)+": socket taken from the epoch parameter", fn.Pos(), "the write must resolve its socket through e.liveConn() of the epoch it was given")
			continue
		}
		conn := lcs[0].(ssa.Value)
		good, nUse := true, 0
		for _, name := range []string{"Write", "SetWriteDeadline", "SetReadDeadline"} {
			for _, c := range callsIn(fn, s.isTrMethod(name)) {
				nUse++
				idx := 0
				if name == "Write" {
					idx = 1
				}
				if connArg(fn, c, idx) != conn {
					good = false
				}
			}
		}
		// closures (deferred deadline clear) must use the same conn
		for _, af := range fn.AnonFuncs {
			for _, c := range callsIn(af, s.isTrMethod("SetWriteDeadline")) {
				nUse++
				if connArg(fn, c, 0) != conn {
					good = false
				}
			}
		}
		r.Check(good && nUse >= 2, rule, w.FnName(fn)+": transport write/deadline calls receive exactly e.liveConn()", lcs[0].Pos(), fmt.Sprintf("%d transport calls bound to the epoch's own socket", nUse), "a transport call uses a socket other than the pinned epoch's")
		// under the epoch's write lock
		locked := false
		eachInstr(fn, func(in ssa.Instruction) {
			if c, ok := in.(ssa.CallInstruction); ok && (callIsAtomicMethodOn(c, s.fWriteMu, "Lock") || callIsAtomicMethodOn(c, s.fWriteMu, "TryLock")) {
				if fa, ok := c.Common().Args[0].(*ssa.FieldAddr); ok && fa.X == ep {
					for _, wr := range callsIn(fn, s.isTrMethod("Write")) {
						if instrDominates(c, wr) {
							locked = true
						}
					}
				}
			}
		})
		r.Check(locked, rule, w.FnName(fn)+": write happens under the epoch's own write lock", fn.Pos(), "e.writeMu acquired before tr.Write", "frames of one generation must be serialised by that generation's write lock")
	}
	// epoch.conn is touched only by its three accessors
	fConn := w.Field("hsms", "epoch", "conn")
	for _, site := range w.fieldSites(fConn) {
		if !w.IsProd(site.Fn) {
			continue
		}
		name := site.Fn.Name()
		r.Check(name == "liveConn" || name == "setConn" || name == "closeSocket", rule, "epoch.conn accessed in "+w.FnName(site.Fn), site.Pos(), "accessor under connMu", "the generation socket may be touched only through liveConn/setConn/closeSocket")
	}
}

// connArg returns the value passed at position idx (after the receiver) of an interface call,
// resolving captured variables of closures of outer.
func connArg(outer *ssa.Function, c ssa.CallInstruction, idx int) ssa.Value {
	v := c.Common().Args[idx]
	// closure: free var loaded → find binding in outer's MakeClosure
	if u, ok := v.(*ssa.UnOp); ok && u.Op == token.MUL {
		if fv, ok := u.X.(*ssa.FreeVar); ok {
			return bindingOf(outer, fv)
		}
	}
	if fv, ok := v.(*ssa.FreeVar); ok {
		return bindingOf(outer, fv)
	}
	if u, ok := v.(*ssa.UnOp); ok && u.Op == token.MUL {
		if a, ok := u.X.(*ssa.Alloc); ok {
			return singleStore(a)
		}
	}
	return v
}

func singleStore(a *ssa.Alloc) ssa.Value {
	var val ssa.Value
	n := 0
	for _, ref := range *a.Referrers() {
		if st, ok := ref.(*ssa.Store); ok && st.Addr == a {
			n++
			val = st.Val
		}
	}
	if n == 1 {
		return val
	}
	return nil
}

func bindingOf(outer *ssa.Function, fv *ssa.FreeVar) ssa.Value {
	cl := fv.Parent()
	idx := -1
	for i, f := range cl.FreeVars {
		if f == fv {
			idx = i
		}
	}
	var out ssa.Value
	eachInstr(outer, func(in ssa.Instruction) {
		if mc, ok := in.(*ssa.MakeClosure); ok && mc.Fn == ssa.Value(cl) && idx >= 0 && idx < len(mc.Bindings) {
			b := mc.Bindings[idx]
			if a, ok := b.(*ssa.Alloc); ok {
				out = singleStore(a)
			} else {
				out = b
			}
		}
	})
	return out
}

func c09PerGenState(r *Run) {
	const rule = "C09-R2-per-generation-state"
	w := r.W
	s := newSendCtx(w)
	newEpoch := w.Fn("hsms", "newEpoch")
	ep := w.Named("hsms", "epoch")
	st := ep.Underlying().(*types.Struct)
	writers := map[string][]string{
		"ctx": {"newEpoch"}, "cancel": {"newEpoch"}, "done": {"newEpoch"}, "sendCh": {"newEpoch"}, "replies": {"newEpoch"}, "log": {"newEpoch"},
		"conn": {"setConn", "closeSocket"}, "closing": {"teardown$1"}, "closeErr": {"join"}, "stopTransport": {"Open", "connectLoop"},
	}
	nStores := 0
	for i := 0; i < st.NumFields(); i++ {
		fld := st.Field(i)
		allow, tracked := writers[fld.Name()]
		for _, u := range w.fieldUses(fld) {
			if !w.IsProd(u.Fn) || u.Kind != "store" {
				continue
			}
			nStores++
			if !tracked {
				r.Fail(rule, "epoch."+fld.Name()+" stored in "+w.FnName(u.Fn), u.Instr2.Pos(), "field has no declared writer: a plain store to per-generation state")
				continue
			}
			ok := false
			for _, a := range allow {
				if u.Fn.Name() == a {
					ok = true
				}
			}
			fresh := true
			if sameFn(u.Fn, newEpoch) {
				_, fresh = u.Instr.(*ssa.FieldAddr).X.(*ssa.Alloc)
			}
			r.Check(ok && fresh, rule, "epoch."+fld.Name()+" stored in "+w.FnName(u.Fn), u.Instr2.Pos(), "sanctioned writer", "epoch."+fld.Name()+" may be written only by "+strings.Join(allow, "/")+" (a generation's queue/registry/context must never be replaced or shared)")
		}
	}
	r.Floor(rule, "stores to epoch fields", nStores, 8)
	// newEpoch: fresh channel, fresh registry, fresh context
	lit := map[string]ssa.Value{}
	eachInstr(newEpoch, func(in ssa.Instruction) {
		if stv, ok := in.(*ssa.Store); ok {
			if fa, ok := stv.Addr.(*ssa.FieldAddr); ok {
				lit[fieldOf(fa).Name()] = stv.Val
			}
		}
	})
	_, mk := lit["sendCh"].(*ssa.MakeChan)
	r.Check(mk, rule, "newEpoch: sendCh is a fresh channel", newEpoch.Pos(), "make(chan *sendRequest, n)", "each generation needs its own queue")
	r.Check(isCallTo(lit["replies"], isFn(w.Fn("hsms", "newReplyRegistry"))), rule, "newEpoch: replies is a fresh registry", newEpoch.Pos(), "newReplyRegistry()", "each generation needs its own reply registry")
	okCtx := false
	if ex, ok := lit["ctx"].(*ssa.Extract); ok {
		if c, ok := ex.Tuple.(*ssa.Call); ok {
			if cal := calleeOf(c); cal.Static != nil && cal.Static.Name() == "WithCancel" {
				if ex2, ok := lit["cancel"].(*ssa.Extract); ok && ex2.Tuple == ex.Tuple {
					okCtx = true
				}
			}
		}
	}
	r.Check(okCtx, rule, "newEpoch: ctx/cancel from one context.WithCancel", newEpoch.Pos(), "generation-lifetime context", "ctx and cancel must come from the same WithCancel")
	// spawn closures pass the SAME epoch to drainSendCh
	spawn := w.Fn("hsms", "epoch.spawn")
	n := 0
	for _, u := range w.usesOf(spawn) {
		if !w.IsProd(u.Fn) {
			continue
		}
		c := u.Instr.(ssa.CallInstruction)
		recv := c.Common().Args[0]
		mc, ok := c.Common().Args[3].(*ssa.MakeClosure)
		if !ok {
			r.Undecided(rule, "spawn in "+w.FnName(u.Fn), u.Pos(), "task is not a closure literal")
			continue
		}
		cl := mc.Fn.(*ssa.Function)
		for _, d := range callsIn(cl, isFn(s.drain)) {
			n++
			a := d.Common().Args
			epArg := connArg(u.Fn, d, 2)
			recvVal := recv
			if uu, ok := recv.(*ssa.UnOp); ok && uu.Op == token.MUL {
				if al, ok := uu.X.(*ssa.Alloc); ok {
					recvVal = singleStore(al)
				}
			}
			okCtx := a[1] == ssa.Value(cl.Params[0])
			r.Check(epArg != nil && epArg == recvVal && okCtx, rule, "async sender spawned in "+w.FnName(u.Fn)+" drains the epoch it is spawned on", d.Pos(), "e.spawn(… drainSendCh(ctx, e)) with the same e and the generation ctx", "the async sender must drain the queue of the very epoch whose context bounds it")
		}
	}
	r.Floor(rule, "async sender spawn sites", n, 2)
	// spawn hands e.ctx to the task
	okSpawn := false
	for _, af := range spawn.AnonFuncs {
		eachInstr(af, func(in ssa.Instruction) {
			if c, ok := in.(*ssa.Call); ok && calleeOf(c).Dynamic && len(c.Call.Args) == 1 {
				if fieldLoadNamed(c.Call.Args[0], "ctx") {
					okSpawn = true
				}
			}
		})
	}
	r.Check(okSpawn, rule, "spawn runs the task with the epoch's own context", spawn.Pos(), "fn(e.ctx)", "tasks must be bound to their generation's context")
	// drainSendCh: receives only from param e's sendCh; writes with the same e
	e := s.drain.Params[2]
	good := true
	nRecv := 0
	eachInstr(s.drain, func(in ssa.Instruction) {
		if sl, ok := in.(*ssa.Select); ok {
			for _, stt := range sl.States {
				if stt.Dir == types.RecvOnly && isFieldRef(stt.Chan, s.fSendCh) {
					nRecv++
					if fa, ok := stt.Chan.(*ssa.UnOp).X.(*ssa.FieldAddr); !ok || fa.X != ssa.Value(e) {
						good = false
					}
				}
			}
		}
		if c, ok := in.(*ssa.Call); ok && isFn(s.writeFrame)(calleeOf(c)) {
			if c.Call.Args[2] != ssa.Value(e) || c.Call.Args[1] != ssa.Value(s.drain.Params[1]) {
				good = false
			}
		}
	})
	r.Check(good && nRecv == 1, rule, "drainSendCh dequeues from and writes on its own epoch only", s.drain.Pos(), "<-e.sendCh → writeFrame(ctx, e, …)", "a queued frame must be written on the generation it was queued on")
}

func c09WriteBound(r *Run) {
	rule := r.aliased("C09-R3-write-bound-to-socket")
	w := r.W
	// hsmsss
	{
		fn := w.Fn("hsmsss", "transport.Write")
		r.Analysed(w.FnName(fn))
		conn := fn.Params[2]
		fConn := w.Field("hsmsss", "transport", "conn")
		reads := 0
		eachInstr(fn, func(in ssa.Instruction) {
			if v, ok := in.(ssa.Value); ok && sameVar(fieldOf(v), fConn) {
				reads++
			}
		})
		wt := 0
		good := true
		eachInstr(fn, func(in ssa.Instruction) {
			if c, ok := in.(*ssa.Call); ok {
				if cal := calleeOf(c); cal.Static != nil && cal.Static.Name() == "WriteTo" {
					wt++
					if stripConv(c.Call.Args[1]) != ssa.Value(conn) {
						good = false
					}
				}
			}
		})
		r.Check(reads == 0 && wt == 1 && good, rule, "hsmsss.transport.Write writes to its conn parameter only", fn.Pos(), "bufs.WriteTo(conn); t.conn not read", fmt.Sprintf("Write must target the socket it is given (reads of t.conn=%d, WriteTo calls=%d, target ok=%v)", reads, wt, good))
	}
	// secs1
	{
		fn := w.Fn("secs1", "transport.Write")
		r.Analysed(w.FnName(fn))
		conn := fn.Params[2]
		fGen := w.Field("secs1", "transport", "gen")
		var gs *ssa.Call
		eachInstr(fn, func(in ssa.Instruction) {
			if c, ok := in.(*ssa.Call); ok && callIsAtomicMethodOn(c, fGen, "Load") {
				gs = c
			}
		})
		if gs == nil {
			r.Fail(rule, "secs1.transport.Write: generation snapshot", fn.Pos(), "Write must take one atomic snapshot of the current generation")
		} else {
			facts := factsIn(fn)
			nSend := 0
			good := true
			eachInstr(fn, func(in ssa.Instruction) {
				sl, ok := in.(*ssa.Select)
				if !ok {
					return
				}
				for _, st := range sl.States {
					if st.Dir != types.SendOnly {
						continue
					}
					nSend++
					// channel from the snapshot
					if !strings.HasPrefix(render(st.Chan), render(gs)+".") {
						good = false
					}
					// dominated by gs != nil and gs.conn == conn
					nn, eq := false, false
					for f := range facts[sl.Block()] {
						if x, isEq, isCmp := isNilCmp(f.Cond); isCmp && x == ssa.Value(gs) && isEq != f.Val {
							nn = true
						}
						if b, ok := f.Cond.(*ssa.BinOp); ok && (b.Op == token.NEQ || b.Op == token.EQL) {
							l, rr := render(b.X), render(b.Y)
							want1, want2 := render(gs)+".conn", "$"+conn.Name()
							if (l == want1 && rr == want2 || l == want2 && rr == want1) && (b.Op == token.EQL) == f.Val {
								eq = true
							}
						}
					}
					if !nn || !eq {
						good = false
					}
				}
			})
			r.Check(good && nSend == 1, rule, "secs1.transport.Write hands off only when the snapshot's socket is the given conn", fn.Pos(), "gs != nil ∧ gs.conn == conn dominates the hand-off on gs.sendReqCh", "the hand-off must be bound to the generation that owns the given socket")
			// every blocking select has the snapshot's genDone case returning ErrConnClosed
			nSel, okSel := 0, true
			eachInstr(fn, func(in ssa.Instruction) {
				if sl, ok := in.(*ssa.Select); ok && sl.Blocking {
					nSel++
					has := false
					for _, st := range sl.States {
						if st.Dir == types.RecvOnly && render(st.Chan) == render(gs)+".genDone" {
							has = true
						}
					}
					if !has {
						okSel = false
					}
				}
			})
			r.Check(okSel && nSel == 2, rule, "secs1.transport.Write: both waits are released by the generation's teardown broadcast", fn.Pos(), "<-gs.genDone in hand-off and result wait", "a send parked on a dead generation must be released")
		}
		// mutable per-generation fields of the transport are not read by per-generation goroutines
		for _, fname := range []string{"conn", "sendReqCh", "genDone", "wg", "engineCancel", "listener"} {
			fld := w.Field("secs1", "transport", fname)
			for _, site := range w.fieldSites(fld) {
				if !w.IsProd(site.Fn) {
					continue
				}
				switch site.Fn.Name() {
				case "lineEngine", "runSend", "Write", "notifyAssemblerViolation":
					r.Fail(rule, "secs1.transport."+fname+" accessed in "+w.FnName(site.Fn), site.Pos(), "per-generation goroutines and Write must use the values captured at spawn / the atomic snapshot, not the transport's mutable current-generation fields")
				}
			}
		}
		r.Trivial(rule, "secs1 line engine / Write do not read the transport's mutable generation fields", fn.Pos(), "captured values only")
		// acceptLoop after the first Accept may store t.conn (under connMu) but the channels are its parameters
		al := w.Fn("secs1", "transport.acceptLoop")
		bad := false
		for _, fname := range []string{"sendReqCh", "genDone", "wg"} {
			for _, site := range w.fieldSites(w.Field("secs1", "transport", fname)) {
				if sameFn(site.Fn, al) {
					bad = true
				}
			}
		}
		r.Check(!bad, rule, "secs1.acceptLoop uses the generation bundle captured at Start", al.Pos(), "parameters only", "the accept goroutine must not re-read the transport's generation bundle (a later ArmStart replaces it)")
	}
	// hsmsss recvLoop: t.conn and t.genCtx are read exactly once, before the loop
	{
		fn := w.Fn("hsmsss", "transport.recvLoop")
		hs := loopHeaders(fn)
		for _, fname := range []string{"conn", "genCtx"} {
			fld := w.Field("hsmsss", "transport", fname)
			n, inLoop := 0, false
			eachInstr(fn, func(in ssa.Instruction) {
				if v, ok := in.(ssa.Value); ok && sameVar(fieldOf(v), fld) {
					n++
					for _, h := range hs {
						if h.Dominates(in.Block()) {
							inLoop = true
						}
					}
				}
			})
			r.Check(n == 1 && !inLoop, rule, "hsmsss.recvLoop captures t."+fname+" once before its loop", fn.Pos(), "generation values captured at start", fmt.Sprintf("t.%s read %d times (in loop=%v): a straggler would observe a later generation's value", fname, n, inLoop))
		}
	}
}

func c09WaitersReleased(r *Run) {
	const rule = "C09-R4-waiters-released"
	w := r.W
	s := newSendCtx(w)
	// SendAsync select
	fn := s.sendAsync
	r.Analysed(w.FnName(fn))
	var sel *ssa.Select
	eachInstr(fn, func(in ssa.Instruction) {
		if sl, ok := in.(*ssa.Select); ok && sl.Blocking {
			sel = sl
		}
	})
	if sel == nil || len(sel.States) != 3 {
		r.Fail(rule, "SendAsync: bounded enqueue", fn.Pos(), "the enqueue must select on exactly {queue, generation done, caller ctx}")
	} else {
		paths, ok := enumPaths(fn, 5000)
		if !ok {
			r.Undecided(rule, "SendAsync paths", fn.Pos(), "too many paths")
		} else {
			ctxP := fn.Params[1]
			for i, st := range sel.States {
				kind := "?"
				pinned := false
				var base ssa.Value
				switch {
				case st.Dir == types.SendOnly && isFieldRef(st.Chan, s.fSendCh):
					kind = "enqueue"
					base = st.Chan.(*ssa.UnOp).X.(*ssa.FieldAddr).X
				case isDoneOf(st.Chan, s.fCtx):
					kind = "gendone"
					base = st.Chan.(*ssa.Call).Call.Value.(*ssa.UnOp).X.(*ssa.FieldAddr).X
				case isCallToMethod(st.Chan, "Done") && st.Chan.(*ssa.Call).Call.Value == ssa.Value(ctxP):
					kind = "callerctx"
					pinned = true
				}
				if base != nil && atomicMethodOn(base, s.fCur, "Load") {
					pinned = true
				}
				// outcome of the paths taking this case
				want := map[string]string{"enqueue": "nil", "gendone": "ErrConnClosed", "callerctx": "~$" + ctxP.Name() + ".Err()"}[kind]
				good, n := true, 0
				for _, p := range paths {
					took := false
					for _, c := range p.Conds {
						if b, ok := c.Cond.(*ssa.BinOp); ok && b.Op == token.EQL && c.Val {
							if ex, ok := b.X.(*ssa.Extract); ok && ex.Tuple == ssa.Value(sel) {
								if k, _ := constInt(b.Y); int(k) == i {
									took = true
								}
							}
						}
					}
					if took {
						n++
						if retErr(p) != want {
							good = false
						}
					}
				}
				r.Check(kind != "?" && pinned && good && n >= 1, rule, fmt.Sprintf("SendAsync: case %d = %s on the pinned epoch → %s", i, kind, want), sel.Pos(), "as required", fmt.Sprintf("select case %d (%s, pinned=%v) must return %s on its %d path(s)", i, kind, pinned, want, n))
			}
		}
	}
	// teardown closure order
	td := w.Fn("hsms", "epoch.teardown")
	r.Analysed(w.FnName(td))
	fOnce := w.Field("hsms", "epoch", "closeOnce")
	var body *ssa.Function
	eachInstr(td, func(in ssa.Instruction) {
		if c, ok := in.(*ssa.Call); ok && callIsAtomicMethodOn(c, fOnce, "Do") {
			if mc, ok := c.Call.Args[1].(*ssa.MakeClosure); ok {
				body = mc.Fn.(*ssa.Function)
			}
		}
	})
	if body == nil {
		r.Fail(rule, "teardown: body under closeOnce", td.Pos(), "teardown must run its body inside e.closeOnce.Do")
	} else {
		// nothing outside the Do
		extra := 0
		eachInstr(td, func(in ssa.Instruction) {
			if c, ok := in.(ssa.CallInstruction); ok && !callIsAtomicMethodOn(c, fOnce, "Do") {
				extra++
			}
		})
		var seq []string
		fSpawnMu := w.Field("hsms", "epoch", "spawnMu")
		fClosing := w.Field("hsms", "epoch", "closing")
		join := w.Fn("hsms", "epoch.join")
		closeSock := w.Fn("hsms", "epoch.closeSocket")
		for _, b := range body.Blocks {
			for _, in := range b.Instrs {
				switch x := in.(type) {
				case *ssa.Go:
					if isFn(join)(calleeOf(x)) {
						seq = append(seq, "go join")
					} else {
						seq = append(seq, "go ?")
					}
				case *ssa.Call:
					cal := calleeOf(x)
					switch {
					case cal.Dynamic && fieldLoadNamed(x.Call.Value, "cancel"):
						seq = append(seq, "cancel")
					case isFn(closeSock)(cal):
						seq = append(seq, "closeSocket")
					case callIsAtomicMethodOn(x, fSpawnMu, "Lock"):
						seq = append(seq, "seal-lock")
					case callIsAtomicMethodOn(x, fSpawnMu, "Unlock"):
						seq = append(seq, "seal-unlock")
					case isFn(join)(cal):
						seq = append(seq, "join(synchronous!)")
					}
				case *ssa.Store:
					if isFieldRef(x.Addr, fClosing) {
						seq = append(seq, "closing="+render(x.Val))
					}
				}
			}
		}
		want := "{cancel, closeSocket} ≺ seal-lock;closing=true;seal-unlock ≺ go join"
		got := strings.Join(seq, ";")
		okOrder := got == "cancel;closeSocket;seal-lock;closing=true;seal-unlock;go join" || got == "closeSocket;cancel;seal-lock;closing=true;seal-unlock;go join"
		r.Check(okOrder && extra == 0 && len(body.Blocks) == 1, rule, "teardown body order", body.Pos(), want, "teardown must be ["+want+"] inside closeOnce, got ["+got+"]: waiters are released by the cancel, a parked Read by the socket close, both before the join is started, and the join must not run on the caller")
	}
	// spawn: refuses after closing
	spawn := w.Fn("hsms", "epoch.spawn")
	{
		paths, ok := enumPaths(spawn, 1000)
		good := ok
		nRef := 0
		fClosing := w.Field("hsms", "epoch", "closing")
		for _, p := range paths {
			closing := false
			for _, c := range p.Conds {
				if u, ok := c.Cond.(*ssa.UnOp); ok && isFieldRef(u, fClosing) && c.Val {
					closing = true
				}
			}
			nGo := 0
			for _, in := range p.Instrs() {
				if _, ok := in.(*ssa.Go); ok {
					nGo++
				}
			}
			if closing {
				nRef++
				if nGo != 0 || len(p.Rets()) != 1 || render(p.Rets()[0]) != "false" {
					good = false
				}
			} else if nGo != 1 {
				good = false
			}
		}
		r.Check(good && nRef >= 1, rule, "spawn refuses once the epoch is closing", spawn.Pos(), "closing ⇒ no goroutine, returns false", "a task must not be started on a generation that is being torn down")
	}
	// drainSendCh: returns on ctx.Done with no further dequeue
	{
		fn := s.drain
		hs := loopHeaders(fn)
		if len(hs) != 1 {
			r.Undecided(rule, "drainSendCh loop", fn.Pos(), "expected one loop")
			return
		}
		paths, ok := enumIterPaths(fn, hs[0], 1000)
		good := ok
		nDone := 0
		ctxP := fn.Params[1]
		for _, p := range paths {
			for _, c := range p.Conds {
				if b, ok := c.Cond.(*ssa.BinOp); ok && b.Op == token.EQL && c.Val {
					if ex, ok := b.X.(*ssa.Extract); ok {
						if sl, ok := ex.Tuple.(*ssa.Select); ok {
							k, _ := constInt(b.Y)
							st := sl.States[k]
							if isCallToMethod(st.Chan, "Done") && st.Chan.(*ssa.Call).Call.Value == ssa.Value(ctxP) {
								nDone++
								if p.Exit == nil || len(p.Calls(isFn(s.writeFrame))) != 0 {
									good = false
								}
							}
						}
					}
				}
			}
		}
		r.Check(good && nDone == 1, rule, "drainSendCh: generation done ⇒ return without flushing the queue", fn.Pos(), "ctx.Done() case returns; queued frames die with the generation", "queued fire-and-forget frames of a dead generation must be discarded, not flushed")
	}
}
