package main

// Rules added after the fourth round of seeded changes:
//   C17-R7 — the SECS-I line engine takes the link down only for a failure of the line itself
//   C16-R6 — the numeric constructors validate the width argument they were given, not a
//            narrowed copy of it

import (
	"fmt"
	"go/token"
	"strings"

	"golang.org/x/tools/go/ssa"
)

func init() {
	registry["C17"].Rules = append(registry["C17"].Rules,
		Rule{Name: "C17-R7-line-engine-table", Doc: "decision table of one lineEngine iteration: the link is taken down only by a failed (non-timeout) read of the idle line or a failed write of the line grant, and only for a live generation; a block that could not be received (timeout, bad length, bad checksum — already NAKed) never takes the link down and is never fed to the assembler; a received block is fed to this generation's assembler exactly once", Run: c17LineEngine})
	registry["C16"].Rules = append(registry["C16"].Rules,
		Rule{Name: "C16-R6-width-validation", Doc: "NewIntItem / NewUintItem / NewFloatItem build values only after the width argument itself — the int the caller passed, not a narrowed copy — was found equal to one of the valid widths (1, 2, 4, 8; floats 4, 8); every other width yields an item carrying an error", Run: c16WidthValidation})
}

func init() {
	registry["C01"].Rules = append(registry["C01"].Rules,
		Rule{Name: "C01-R11-size-limit", Doc: "MaxByteSize is the E5 limit 2^24−1 and every constructor (and the header writer) refuses a payload only when its byte length is strictly greater: an item of exactly the limit is still constructible, one byte more is not", Run: c01SizeLimit})
	registry["C16"].Rules = append(registry["C16"].Rules,
		Rule{Name: "C16-R7-binary-range", Doc: "NewBinaryItem stores an int or numeric-string argument as a byte only after it was found inside [0, 255], and both ends of that range are accepted: 0 and 255 are valid bytes, −1 and 256 are errors", Run: c16BinaryRange})
}

func c01SizeLimit(r *Run) {
	const rule = "C01-R11-size-limit"
	w := r.W
	k := w.ConstInt("secs2", "MaxByteSize")
	r.Check(k == 1<<24-1, rule, "MaxByteSize = 2^24−1", w.Obj("secs2", "MaxByteSize").Pos(), "16777215", fmt.Sprintf("the E5 length field has three bytes: the limit is 16777215, the constant is %d", k))
	n := 0
	for _, name := range []string{"NewASCIIItem", "NewJIS8Item", "NewLocalizedStrItem", "NewBinaryItem", "NewBooleanItem", "NewIntItem", "NewUintItem", "NewFloatItem", "NewListItem", "appendHeaderBytesFC"} {
		fn := w.Fn("secs2", name)
		r.Analysed(w.FnName(fn))
		found := 0
		eachInstr(fn, func(in ssa.Instruction) {
			b, ok := in.(*ssa.BinOp)
			if !ok {
				return
			}
			switch b.Op {
			case token.LSS, token.LEQ, token.GTR, token.GEQ, token.EQL, token.NEQ:
			default:
				return
			}
			kx, xK := constInt(b.X)
			ky, yK := constInt(b.Y)
			near := func(v int64) bool { return v >= k-2 && v <= k+2 }
			if !(xK && near(kx)) && !(yK && near(ky)) {
				return
			}
			found++
			n++
			// accepted forms: q > K, K < q  (error/refusal on true)
			good := (b.Op == token.GTR && yK && ky == k) || (b.Op == token.LSS && xK && kx == k) ||
				(b.Op == token.GEQ && yK && ky == k+1) || (b.Op == token.LEQ && xK && kx == k+1)
			r.Check(good, rule, fmt.Sprintf("%s: size guard %s", name, render(b)), b.Pos(), "quantity > MaxByteSize", "the guard must refuse exactly the sizes above the limit (an item of exactly 16777215 bytes is valid): "+render(b))
			// the quantity compared is the payload's byte length: one length/size term, plus the two
			// header bytes of a localized string and nothing else
			q := b.X
			if xK {
				q = b.Y
			}
			if ls, okL := linIn(w, fn, q); okL {
				wantK := ""
				if name == "NewLocalizedStrItem" {
					wantK = " + 2"
				}
				plain := !strings.Contains(ls, " + ") && !strings.Contains(ls, " - ") && !strings.Contains(ls, "·")
				if wantK != "" {
					plain = strings.HasSuffix(ls, wantK) && strings.Count(ls, " + ") == 1 && !strings.Contains(ls, "·") || strings.HasPrefix(ls, "2 + ") && strings.Count(ls, " + ") == 1
				}
				r.Check(plain, rule, fmt.Sprintf("%s: the guarded quantity is the payload length", name), b.Pos(), ls, "the size guard compares "+ls+", which is not the payload's byte length"+map[bool]string{true: " (text bytes + 2)", false: ""}[wantK != ""])
			}
			// and the true side must be the refusing side
			if good {
				refuses := false
				for _, ref := range *b.Referrers() {
					iff, ok := ref.(*ssa.If)
					if !ok {
						continue
					}
					tb := iff.Block().Succs[0]
					for _, in2 := range tb.Instrs {
						if c, ok := in2.(*ssa.Call); ok {
							if g := calleeOf(c).Static; g != nil && (strings.HasPrefix(g.Name(), "setError") || strings.Contains(g.Name(), "Errorf") || g.Name() == "New") {
								refuses = true
							}
						}
						if ret, ok := in2.(*ssa.Return); ok && len(ret.Results) > 0 {
							refuses = true
						}
					}
				}
				r.Check(refuses, rule, fmt.Sprintf("%s: a size above the limit is refused", name), b.Pos(), "error on the true side", "the branch taken for an oversize payload does not record an error")
			}
		})
		r.Check(found >= 1, rule, name+" checks the size limit", fn.Pos(), "present", "no comparison with MaxByteSize: an oversize payload would be accepted")
	}
	r.Floor(rule, "size-limit comparisons", n, 10)
}

func c16BinaryRange(r *Run) {
	const rule = "C16-R7-binary-range"
	w := r.W
	fn := w.Fn("secs2", "BinaryItem.combineBinaryValues")
	r.Analysed(w.FnName(fn))
	e := newBndEngine(w, "c16-binary", []*ssa.Function{fn}, nil)
	e.entries[fn] = true
	e.run()
	if len(e.ctxs[fn]) == 0 {
		r.Undecided(rule, "combineBinaryValues analysed", fn.Pos(), "no context")
		return
	}
	c := e.ctxs[fn][0]
	n := 0
	eachInstr(fn, func(in ssa.Instruction) {
		cv, ok := in.(*ssa.Convert)
		if !ok || typeBits(cv.Type()) != 8 || !isIntType(cv.X.Type()) || typeBits(cv.X.Type()) <= 8 {
			return
		}
		n++
		v := c.lin(cv.X)
		b, idx := cv.Block(), blockIndexOf(cv)
		what := shortRender(cv.X)
		q1, ok1 := leq(linConst(0), v, "")
		q2, ok2 := leq(v, linConst(255), "")
		r.Check(ok1 && c.proveAt(b, idx, q1), rule, "narrowed to a byte only when ≥ 0: "+what, cv.Pos(), "v ≥ 0", "a negative argument would wrap into a byte instead of being refused")
		r.Check(ok2 && c.proveAt(b, idx, q2), rule, "narrowed to a byte only when ≤ 255: "+what, cv.Pos(), "v ≤ 255", "an argument above 255 would wrap into a byte instead of being refused")
		for _, edge := range []int64{0, 255} {
			qa, _ := leq(v, linConst(edge), "")
			qb, _ := leq(linConst(edge), v, "")
			fs := c.factsAt(b, idx)
			fs.ineqs = append(fs.ineqs, qa, qb)
			r.Check(!c.entailsSat(fs, Ineq{linConst(1), ""}), rule, fmt.Sprintf("the value %d is still accepted: %s", edge, what), cv.Pos(), "boundary value reachable", fmt.Sprintf("the guards refuse %d, which is a valid byte", edge))
		}
	})
	r.Floor(rule, "int → byte narrowings in combineBinaryValues", n, 2)
}

func c17LineEngine(r *Run) {
	const rule = "C17-R7-line-engine-table"
	w := r.W
	le := w.Fn("secs1", "transport.lineEngine")
	r.Analysed(w.FnName(le))
	hs := loopHeaders(le)
	if len(hs) != 1 {
		r.Undecided(rule, "lineEngine: one loop", le.Pos(), "found %d", len(hs))
		return
	}
	h := hs[0]
	paths, ok := enumIterPaths(le, h, 20000)
	if !ok {
		r.Undecided(rule, "lineEngine iteration paths", le.Pos(), "too many")
		return
	}
	// the assembler feed: the value produced by t.newSink() before the loop
	var sinkVal ssa.Value
	eachInstr(le, func(in ssa.Instruction) {
		if c, ok := in.(*ssa.Call); ok {
			if g := calleeOf(c).Static; g != nil && g.Name() == "newSink" {
				sinkVal = c
			}
			// newSink may be a func-typed field of the transport (a seam for tests)
			if u, ok := c.Call.Value.(*ssa.UnOp); ok && u.Op == token.MUL {
				if fa, ok := u.X.(*ssa.FieldAddr); ok && fieldOf(fa).Name() == "newSink" {
					sinkVal = c
				}
			}
		}
	})
	n, nDown, nRecvErr, nRecvOK := 0, 0, 0, 0
	for _, p := range paths {
		type eff struct {
			name string
			call *ssa.Call
		}
		var effs []eff
		for _, in := range p.Instrs() {
			c, ok := in.(*ssa.Call)
			if !ok {
				continue
			}
			if g := calleeOf(c).Static; g != nil {
				switch g.Name() {
				case "readByte", "writeByte", "receiveBlock", "runSend":
					effs = append(effs, eff{g.Name(), c})
				}
			} else if c.Call.IsInvoke() && c.Call.Method.Name() == "TCPDown" {
				effs = append(effs, eff{"TCPDown", c})
			} else if sinkVal != nil && resolveCell(c.Call.Value) == sinkVal {
				effs = append(effs, eff{"sink", c})
			} else if calleeOf(c).Dynamic {
				effs = append(effs, eff{"dyn", c})
			}
		}
		var names []string
		for _, e := range effs {
			names = append(names, e.name)
		}
		seq := strings.Join(names, ";")
		// what the path decided
		errOf := func(call *ssa.Call, idx int) int { // 1 failed, -1 succeeded, 0 undecided
			for _, f := range p.Conds {
				b, ok := f.Cond.(*ssa.BinOp)
				if !ok || !isNilConst(b.Y) {
					continue
				}
				var tuple ssa.Value
				if ex, ok := b.X.(*ssa.Extract); ok && ex.Index == idx {
					tuple = ex.Tuple
				} else if idx < 0 {
					tuple = b.X
				}
				if tuple != ssa.Value(call) {
					continue
				}
				failed := (b.Op == token.NEQ && f.Val) || (b.Op == token.EQL && !f.Val)
				if failed {
					return 1
				}
				return -1
			}
			return 0
		}
		liveGen := 0 // engineCtx.Err() == nil decided: 1 live, -1 cancelled
		for _, f := range p.Conds {
			if b, ok := f.Cond.(*ssa.BinOp); ok && isNilConst(b.Y) {
				if c, ok := b.X.(*ssa.Call); ok && c.Call.IsInvoke() && c.Call.Method.Name() == "Err" {
					live := (b.Op == token.EQL && f.Val) || (b.Op == token.NEQ && !f.Val)
					if live {
						liveGen = 1
					} else {
						liveGen = -1
					}
				}
			}
		}
		n++
		construct := fmt.Sprintf("lineEngine iteration [%s]", seq)
		var recv *ssa.Call
		for _, e := range effs {
			if e.name == "receiveBlock" {
				recv = e.call
			}
		}
		hasDown := strings.Contains(seq, "TCPDown")
		if hasDown {
			nDown++
			// the failure that justifies it: the call right before TCPDown must be a failed read of the
			// idle line or a failed write of the grant
			var prev eff
			for i, e := range effs {
				if e.name == "TCPDown" && i > 0 {
					prev = effs[i-1]
				}
			}
			just := false
			switch prev.name {
			case "readByte":
				just = errOf(prev.call, 1) == 1
			case "writeByte":
				just = errOf(prev.call, -1) == 1
			}
			r.Check(just && recv == nil, rule, construct+": link taken down only for a failure of the line itself", le.Pos(), "failed idle read / failed grant write", "TCPDown is driven by something other than a failed read of the idle line or a failed write of the grant — a block that could not be received (already NAKed, the peer retries) must never take the link down")
			r.Check(liveGen == 1, rule, construct+": only a live generation reports the drop", le.Pos(), "engineCtx.Err() == nil", "a straggler of a torn-down generation must not inject TCPDown")
			r.Check(p.Exit != nil, rule, construct+": the engine ends after reporting the drop", le.Pos(), "return", "the loop continues after TCPDown")
			continue
		}
		if recv != nil {
			switch errOf(recv, 1) {
			case 1:
				nRecvErr++
				good := !strings.Contains(seq, "sink") && !strings.Contains(seq, "dyn")
				r.Check(good, rule, construct+": a block that could not be received is not fed to the assembler", le.Pos(), "no sink call", "a failed receive delivers something: "+seq)
				if p.Exit != nil {
					r.Check(liveGen == -1, rule, construct+": a receive error ends the engine only when the generation is being torn down", le.Pos(), "engineCtx cancelled", "a block-level receive error must keep the engine (and the link) running")
				}
			case -1:
				nRecvOK++
				cnt := strings.Count(seq, "sink")
				okArg := false
				for _, e := range effs {
					if e.name == "sink" && len(e.call.Call.Args) == 1 {
						if ex, ok := p.Resolve(e.call.Call.Args[0]).(*ssa.Extract); ok && ex.Tuple == ssa.Value(recv) && ex.Index == 0 {
							okArg = true
						}
					}
				}
				r.Check(cnt == 1 && okArg && p.Exit == nil, rule, construct+": a received block is fed to this generation's assembler exactly once", le.Pos(), "sink(blk) once, loop continues", "a received block must be handed to the assembler once and the engine keeps running: "+seq)
			default:
				r.Fail(rule, construct, le.Pos(), "the outcome of receiveBlock is not decided before acting on it")
			}
		}
	}
	r.Floor(rule, "lineEngine iteration paths", n, 8)
	r.Floor(rule, "iterations that report a drop", nDown, 2)
	r.Floor(rule, "iterations with a failed block receive", nRecvErr, 1)
	r.Floor(rule, "iterations with a received block", nRecvOK, 1)
}

func c16WidthValidation(r *Run) {
	const rule = "C16-R6-width-validation"
	w := r.W
	n := 0
	for _, it := range []struct {
		ctor  string
		valid []int64
	}{
		{"NewIntItem", []int64{1, 2, 4, 8}},
		{"NewUintItem", []int64{1, 2, 4, 8}},
		{"NewFloatItem", []int64{4, 8}},
	} {
		fn := w.Fn("secs2", it.ctor)
		r.Analysed(w.FnName(fn))
		var widthParam *ssa.Parameter
		for _, p := range fn.Params {
			if isIntType(p.Type()) {
				widthParam = p
				break
			}
		}
		if widthParam == nil {
			r.Undecided(rule, it.ctor+": width parameter", fn.Pos(), "not found")
			continue
		}
		paths, ok := enumPaths(fn, 20000)
		if !ok {
			r.Undecided(rule, it.ctor+" paths", fn.Pos(), "too many")
			continue
		}
		valid := map[int64]bool{}
		for _, k := range it.valid {
			valid[k] = true
		}
		seenWidth := map[int64]bool{}
		for _, p := range paths {
			// does the path build values? (a call into the item's own value-combining code)
			builds := false
			for _, in := range p.Instrs() {
				if c, ok := in.(*ssa.Call); ok {
					if g := calleeOf(c).Static; g != nil && fnPkgPath(g) == fnPkgPath(fn) {
						nm := g.Name()
						if strings.HasPrefix(nm, "combine") || strings.Contains(nm, "FastPath") {
							builds = true
						}
					}
				}
			}
			if !builds {
				continue
			}
			n++
			// the decision that admitted this width: param == k (true) for a valid k, on the parameter
			// itself
			admitted := int64(-1)
			narrowed := false
			for _, f := range p.Conds {
				b, ok := f.Cond.(*ssa.BinOp)
				if !ok || (b.Op != token.EQL && b.Op != token.NEQ) {
					continue
				}
				k, isK := constInt(b.Y)
				if !isK {
					continue
				}
				eq := (b.Op == token.EQL && f.Val) || (b.Op == token.NEQ && !f.Val)
				if !eq {
					continue
				}
				if b.X == ssa.Value(widthParam) {
					admitted = k
				} else if stripConv(b.X) == ssa.Value(widthParam) || strings.HasSuffix(render(b.X), ".byteSize") {
					narrowed = true
				}
			}
			construct := fmt.Sprintf("%s builds values [%s]", it.ctor, shortCond(p))
			if admitted >= 0 {
				seenWidth[admitted] = true
				r.Check(valid[admitted], rule, construct, fn.Pos(), fmt.Sprintf("width == %d", admitted), fmt.Sprintf("values are built for width %d, which is not a SECS-II element width", admitted))
			} else if narrowed {
				r.Fail(rule, construct, fn.Pos(), "the width is validated on a narrowed copy (a conversion or the stored field), so a width that only equals a valid one after truncation is accepted")
			} else {
				r.Fail(rule, construct, fn.Pos(), "values are built without the width argument having been found equal to a valid width")
			}
		}
		for _, k := range it.valid {
			r.Check(seenWidth[k], rule, fmt.Sprintf("%s accepts width %d", it.ctor, k), fn.Pos(), "a building path exists", "no path builds an item of this valid width")
		}
	}
	r.Floor(rule, "constructor paths that build values", n, 10)
}
