package main

// C15-R5: the value-list items (B, BOOLEAN, I*, U*, F*) are rendered with the same skeleton by
// Item.ToSML and by the default encoder: the same opener around the same width and count, the
// same separator discipline (text before the first element, text before every later element)
// and the same closer; ToSML's empty and single-value shortcuts are that skeleton at 0 and 1.

import (
	"fmt"
	"go/constant"
	"go/token"
	"go/types"
	"strings"

	"golang.org/x/tools/go/ssa"
)

func init() {
	registry["C15"].Rules = append(registry["C15"].Rules,
		Rule{Name: "C15-R5-value-list-skeleton", Doc: "for binary, boolean, integer, unsigned and float items both renderers produce opener ‖ width ‖ count ‖ elements ‖ closer with identical literal text: what precedes the first element, what separates later elements and what closes the item are the same strings in Item.ToSML and in the default encoder (hex binary style), the element tokens are of the same kind (True/False; 0x%02X; one strconv number), and ToSML's empty-item and single-value shortcuts equal the general form at count 0 and 1", Run: c15ValueListSkeleton})
}

// lpiece is an output piece together with the instruction that wrote it.
type lpiece struct {
	s  string // rendered piece: quoted literal or ‹…› placeholder
	in ssa.Instruction
}

// listRenderer abstracts writes to a strings.Builder inside one function.
type listRenderer struct {
	resolve func(ssa.Value) ssa.Value
	isElem  func(ssa.Value) bool
	isWidth func(ssa.Value) bool
	isSize  func(ssa.Value) bool
}

func (t *listRenderer) num(v ssa.Value) string {
	v = stripConv(t.resolve(v))
	switch {
	case t.isElem(v):
		return "‹E›"
	case t.isWidth(v):
		return "‹W›"
	case t.isSize(v):
		return "‹N›"
	}
	if k, ok := constInt(v); ok {
		return fmt.Sprintf("‹const %d›", k)
	}
	return "‹?" + shortRender(v) + "›"
}

func lit(s string) string { return fmt.Sprintf("%q", s) }

func (t *listRenderer) str(v ssa.Value) []string {
	v = t.resolve(v)
	if c, ok := v.(*ssa.Const); ok && c.Value != nil && c.Value.Kind() == constant.String {
		return []string{lit(constant.StringVal(c.Value))}
	}
	if sl, ok := v.(*ssa.Slice); ok {
		// buf[:n] of an Append* result is not used here; a full slice of a call result
		return t.str(sl.X)
	}
	if call, ok := v.(*ssa.Call); ok {
		if g := calleeOf(call).Static; g != nil && fnPkgPath(g) == "strconv" {
			a := call.Call.Args
			switch g.Name() {
			case "Itoa":
				return []string{t.num(a[0])}
			case "FormatInt", "FormatUint":
				if k, ok := constInt(a[1]); ok && k != 10 && t.isElem(stripConv(t.resolve(a[0]))) {
					return []string{fmt.Sprintf("‹E base %d›", k)}
				}
				return []string{t.num(a[0])}
			case "AppendInt", "AppendUint":
				return []string{t.num(a[1])}
			case "FormatFloat":
				return []string{t.num(a[0])}
			case "AppendFloat":
				return []string{t.num(a[1])}
			case "FormatBool":
				return []string{t.num(a[0])}
			}
		}
	}
	return []string{"‹?" + shortRender(v) + "›"}
}

func (t *listRenderer) format(format string, args []ssa.Value) []string {
	var out []string
	cur := ""
	flush := func() {
		if cur != "" {
			out = append(out, lit(cur))
			cur = ""
		}
	}
	ai := 0
	for i := 0; i < len(format); i++ {
		if format[i] != '%' {
			cur += string(format[i])
			continue
		}
		j := i + 1
		for j < len(format) && strings.ContainsRune("0123456789+-# .", rune(format[j])) {
			j++
		}
		if j >= len(format) {
			flush()
			out = append(out, "‹?dangling %›")
			break
		}
		spec := format[i+1 : j+1]
		i = j
		if spec == "%" {
			cur += "%"
			continue
		}
		flush()
		if ai >= len(args) || args[ai] == nil {
			out = append(out, "‹?missing argument›")
			continue
		}
		n := t.num(args[ai])
		ai++
		if spec == "d" {
			out = append(out, n)
		} else {
			out = append(out, strings.TrimSuffix(n, "›")+" %"+spec+"›")
		}
	}
	flush()
	return out
}

// writes lists the pieces the instructions write, in order.
func (t *listRenderer) writes(ins []ssa.Instruction) []lpiece {
	var out []lpiece
	add := func(in ssa.Instruction, ss ...string) {
		for _, s := range ss {
			out = append(out, lpiece{s, in})
		}
	}
	for _, in := range ins {
		c, ok := in.(*ssa.Call)
		if !ok || calleeOf(c).Static == nil {
			continue
		}
		g := calleeOf(c).Static
		a := c.Call.Args
		onBuilder := strings.Contains(g.String(), "strings.Builder")
		switch {
		case onBuilder && (g.Name() == "WriteString" || g.Name() == "Write"):
			add(in, t.str(a[len(a)-1])...)
		case onBuilder && (g.Name() == "WriteByte" || g.Name() == "WriteRune"):
			if k, ok := constInt(t.resolve(a[len(a)-1])); ok {
				add(in, lit(string(rune(k))))
			} else {
				add(in, "‹?"+shortRender(a[len(a)-1])+"›")
			}
		case fnPkgPath(g) == "fmt" && g.Name() == "Fprintf":
			if f, ok := a[1].(*ssa.Const); ok && f.Value != nil && f.Value.Kind() == constant.String {
				add(in, t.format(constant.StringVal(f.Value), variadicArgs(a[2]))...)
			} else {
				add(in, "‹?non-constant format›")
			}
		}
	}
	return out
}

func joinPieces(ps []string) string {
	// merge adjacent literals
	var out []string
	cur, have := "", false
	for _, p := range ps {
		if strings.HasPrefix(p, `"`) {
			var s string
			if _, err := fmt.Sscanf(p, "%q", &s); err == nil {
				cur += s
				have = true
				continue
			}
		}
		if have {
			out = append(out, lit(cur))
			cur, have = "", false
		}
		out = append(out, p)
	}
	if have {
		out = append(out, lit(cur))
	}
	return strings.Join(out, " ")
}

func lps(ps []lpiece) []string {
	out := make([]string, len(ps))
	for i, p := range ps {
		out[i] = p.s
	}
	return out
}

// listSkel is the abstract output of a renderer of value lists. Element-dependent text
// (True / False) is keyed by the element's truth ("" when the text does not depend on it).
type listSkel struct {
	head  string            // before any element
	first map[string]string // text for the first element
	rest  map[string]string // text for every later element
	tail  string            // after the last element
	zero  string            // whole output of an empty item ("" if the general form is used)
	one   map[string]string // whole output of the single-value shortcut (nil if none)
	err   string
}

func (s listSkel) whole(k int, truth string) string {
	// flattened output for k elements all of the given truth class
	parts := []string{s.head}
	for i := 0; i < k; i++ {
		if i == 0 {
			parts = append(parts, s.first[truth])
		} else {
			parts = append(parts, s.rest[truth])
		}
	}
	parts = append(parts, s.tail)
	return joinPieces(splitPieces(parts))
}

func c15ValueListSkeleton(r *Run) {
	const rule = "C15-R5-value-list-skeleton"
	w := r.W
	type itemT struct {
		typ, encFn string
		boolean    bool
	}
	items := []itemT{
		{"BinaryItem", "Encoder.encodeBinary", false},
		{"BooleanItem", "Encoder.encodeBoolean", true},
		{"IntItem", "Encoder.encodeInt", false},
		{"UintItem", "Encoder.encodeUint", false},
		{"FloatItem", "Encoder.encodeFloat", false},
	}
	n := 0
	for _, it := range items {
		ts := toSMLListSkel(w, it.typ, it.boolean)
		es := encListSkel(w, it.encFn, it.boolean)
		fn := w.Fn("secs2", it.typ+".ToSML")
		r.Analysed(w.FnName(fn))
		r.Analysed(w.FnName(w.Fn("sml", it.encFn)))
		if ts.err != "" || es.err != "" {
			r.Undecided(rule, it.typ+": renderer shapes", fn.Pos(), "ToSML: %s; encoder: %s", ts.err, es.err)
			continue
		}
		truths := []string{""}
		if it.boolean {
			truths = []string{"T", "F"}
		}
		for _, tr := range truths {
			lbl := it.typ
			if tr != "" {
				lbl += " [element " + map[string]string{"T": "true", "F": "false"}[tr] + "]"
			}
			n++
			for k := 1; k <= 3; k++ {
				a, b := ts.whole(k, tr), es.whole(k, tr)
				r.Check(a == b && !strings.Contains(a, "‹?"), rule, fmt.Sprintf("%s: %d element(s) render identically", lbl, k), fn.Pos(), a, "ToSML writes "+a+" but the default encoder writes "+b)
			}
			if ts.one != nil {
				a, b := ts.one[tr], es.whole(1, tr)
				r.Check(a == b, rule, lbl+": ToSML's single-value shortcut equals the general form", fn.Pos(), a, "ToSML (single value) writes "+a+" but the default encoder writes "+b)
			}
		}
		z := es.whole(0, "")
		z0 := strings.ReplaceAll(z, "‹N›", `"0"`)
		z0 = joinPieces(splitPieces([]string{z0}))
		if ts.zero != "" {
			r.Check(ts.zero == z0, rule, it.typ+": ToSML's empty-item shortcut equals the encoder at count 0", fn.Pos(), ts.zero, "ToSML (empty) writes "+ts.zero+" but the default encoder writes "+z0)
		} else {
			a := strings.ReplaceAll(ts.whole(0, ""), "‹N›", `"0"`)
			a = joinPieces(splitPieces([]string{a}))
			r.Check(a == z0, rule, it.typ+": empty item renders identically", fn.Pos(), a, "ToSML (empty) writes "+a+" but the default encoder writes "+z0)
		}
	}
	r.Floor(rule, "value-list item types compared", n, 6)
}

// ---------- ToSML side ----------

func smlFieldLoad(v ssa.Value, names ...string) bool {
	v = stripConv(v)
	if c, ok := v.(*ssa.Call); ok && len(c.Call.Args) >= 1 {
		if g := calleeOf(c).Static; g != nil && g.Name() == "Size" {
			return contains(names, "size")
		}
	}
	u, ok := v.(*ssa.UnOp)
	if !ok || u.Op != token.MUL {
		return false
	}
	fa, ok := u.X.(*ssa.FieldAddr)
	if !ok {
		return false
	}
	return contains(names, fieldOf(fa).Name())
}

func contains(xs []string, s string) bool {
	for _, x := range xs {
		if x == s {
			return true
		}
	}
	return false
}

func toSMLListSkel(w *World, typ string, boolean bool) listSkel {
	fn := w.Fn("secs2", typ+".ToSML")
	sk := listSkel{first: map[string]string{}, rest: map[string]string{}}
	hs := loopHeaders(fn)
	if len(hs) != 1 {
		sk.err = fmt.Sprintf("%d loops", len(hs))
		return sk
	}
	h := hs[0]
	inLoop := func(b *ssa.BasicBlock) bool { return h.Dominates(b) && reaches(b, h) }
	// the element: the value loaded from values[i] inside the loop, or the scalar field
	isElemLoop := func(v ssa.Value) bool {
		u, ok := v.(*ssa.UnOp)
		if !ok || u.Op != token.MUL {
			return false
		}
		ia, ok := u.X.(*ssa.IndexAddr)
		return ok && smlFieldLoad(ia.X, "values")
	}
	paths, ok := enumPaths(fn, 2000)
	if !ok {
		sk.err = "too many paths"
		return sk
	}
	truthOf := func(p *Path, isElem func(ssa.Value) bool) string {
		if !boolean {
			return ""
		}
		for _, f := range p.Conds {
			if isElem(f.Cond) {
				if f.Val {
					return "T"
				}
				return "F"
			}
		}
		return "?"
	}
	for _, p := range paths {
		ret, isRet := p.Exit.(*ssa.Return)
		if !isRet {
			continue
		}
		passes := 0
		for _, b := range p.Blocks {
			if b == h {
				passes++
			}
		}
		isElem := func(v ssa.Value) bool { return isElemLoop(v) || smlFieldLoad(v, "scalar") }
		t := &listRenderer{resolve: p.Resolve, isElem: isElem,
			isWidth: func(v ssa.Value) bool { return smlFieldLoad(v, "byteSize") },
			isSize:  func(v ssa.Value) bool { return smlFieldLoad(v, "size") || isLenOfField(v, "values") }}
		ps := t.writes(p.Instrs())
		// a constant / Sprintf return: the whole output
		rv := p.Resolve(ret.Results[0])
		if c, ok := rv.(*ssa.Const); ok && c.Value != nil && c.Value.Kind() == constant.String {
			sk.zero = joinPieces([]string{lit(constant.StringVal(c.Value))})
			continue
		}
		if call, ok := rv.(*ssa.Call); ok {
			if g := calleeOf(call).Static; g != nil && fnPkgPath(g) == "fmt" && g.Name() == "Sprintf" {
				if f, ok := call.Call.Args[0].(*ssa.Const); ok && f.Value != nil {
					sk.zero = joinPieces(t.format(constant.StringVal(f.Value), variadicArgs(call.Call.Args[1])))
					continue
				}
			}
		}
		switch {
		case passes == 0:
			// single-value shortcut (no loop entered)
			if sk.one == nil {
				sk.one = map[string]string{}
			}
			sk.one[truthOf(p, isElem)] = joinPieces(lps(ps))
		case passes >= 1:
			var head, body, tail []string
			seenLoop := false
			for _, pc := range ps {
				switch {
				case inLoop(pc.in.Block()):
					seenLoop = true
					body = append(body, pc.s)
				case !seenLoop:
					head = append(head, pc.s)
				default:
					tail = append(tail, pc.s)
				}
			}
			if len(body) == 0 {
				// the loop was entered but ran zero times on this path: it still tells head and tail
				if sk.head == "" {
					sk.head, sk.tail = strings.Join(head, " "), strings.Join(tail, " ")
				}
				continue
			}
			sk.head, sk.tail = strings.Join(head, " "), strings.Join(tail, " ")
			sk.first[truthOf(p, isElem)] = strings.Join(body, " ")
		}
	}
	// later iterations
	its, ok := enumIterPaths(fn, h, 2000)
	if !ok {
		sk.err = "too many iteration paths"
		return sk
	}
	for _, p := range its {
		if p.Exit != nil {
			continue
		}
		// the iteration with index > 0
		later := false
		for _, f := range p.Conds {
			if b, ok := f.Cond.(*ssa.BinOp); ok && b.Op == token.GTR && f.Val {
				if k, isK := constInt(b.Y); isK && k == 0 {
					later = true
				}
			}
		}
		if !later {
			continue
		}
		t := &listRenderer{resolve: func(v ssa.Value) ssa.Value { return p.resolveNotHeader(v, h) }, isElem: isElemLoop,
			isWidth: func(v ssa.Value) bool { return smlFieldLoad(v, "byteSize") },
			isSize:  func(v ssa.Value) bool { return smlFieldLoad(v, "size") }}
		sk.rest[truthOf(p, isElemLoop)] = strings.Join(lps(t.writes(p.Instrs())), " ")
	}
	if len(sk.first) == 0 || len(sk.rest) == 0 {
		sk.err = "loop iterations not recognised"
	}
	return sk
}

func isLenOfField(v ssa.Value, name string) bool {
	c, ok := stripConv(v).(*ssa.Call)
	return ok && calleeOf(c).Builtin == "len" && smlFieldLoad(c.Call.Args[0], name)
}

func reaches(from, to *ssa.BasicBlock) bool {
	seen := map[*ssa.BasicBlock]bool{}
	work := []*ssa.BasicBlock{from}
	for len(work) > 0 {
		b := work[len(work)-1]
		work = work[:len(work)-1]
		if b == to {
			return true
		}
		if seen[b] {
			continue
		}
		seen[b] = true
		work = append(work, b.Succs...)
	}
	return false
}

// ---------- encoder side ----------

func encListSkel(w *World, name string, boolean bool) listSkel {
	fn := w.Fn("sml", name)
	sk := listSkel{first: map[string]string{}, rest: map[string]string{}}
	hexStyle := w.ConstInt("sml", "BinaryHex")
	litStyle := w.ConstInt("sml", "BinaryLiteral")
	defaultPath := func(p *Path) bool {
		// keep only the paths the default options take: binaryStyle == BinaryHex
		for _, f := range p.Conds {
			if b, ok := f.Cond.(*ssa.BinOp); ok && (b.Op == token.EQL || b.Op == token.NEQ) && strings.HasSuffix(render(b.X), ".binaryStyle") {
				k, isK := constInt(b.Y)
				if !isK {
					return false
				}
				eq := k == hexStyle
				_ = litStyle
				if b.Op == token.NEQ {
					eq = !eq
				}
				if eq != f.Val {
					return false
				}
			}
		}
		return true
	}
	isWidth := func(v ssa.Value) bool {
		v = resolveCell(v)
		if u, ok := v.(*ssa.UnOp); ok && u.Op == token.MUL {
			// a local variable that only ever holds an element width
			if al, ok := u.X.(*ssa.Alloc); ok && al.Referrers() != nil {
				n := 0
				for _, ref := range *al.Referrers() {
					if st, ok := ref.(*ssa.Store); ok && st.Addr == ssa.Value(al) {
						k, isK := constInt(st.Val)
						if !isK || (k != 1 && k != 2 && k != 4 && k != 8) {
							return false
						}
						n++
					}
				}
				return n > 0
			}
		}
		if c, ok := v.(*ssa.Call); ok {
			if g := calleeOf(c).Static; g != nil && g.Name() == "intByteSize" {
				return true
			}
		}
		if phi, ok := v.(*ssa.Phi); ok {
			for _, e := range phi.Edges {
				if k, isK := constInt(e); !isK || (k != 1 && k != 2 && k != 4 && k != 8) {
					return false
				}
			}
			return true
		}
		if k, ok := constInt(v); ok {
			return k == 1 || k == 2 || k == 4 || k == 8
		}
		return false
	}
	isSize := func(v ssa.Value) bool {
		c, ok := v.(*ssa.Call)
		return ok && c.Call.IsInvoke() && c.Call.Method.Name() == "Size"
	}
	// the iterator closure, if the function ranges over a function iterator
	var clos *ssa.Function
	var iterCall *ssa.Call
	eachInstr(fn, func(in ssa.Instruction) {
		c, ok := in.(*ssa.Call)
		if !ok || len(c.Call.Args) != 1 {
			return
		}
		if mc, ok := c.Call.Args[0].(*ssa.MakeClosure); ok && !c.Call.IsInvoke() {
			if f, ok := mc.Fn.(*ssa.Function); ok && f.Parent() == fn {
				clos, iterCall = f, c
			}
		}
	})
	truthOf := func(p *Path, elem func(ssa.Value) bool) string {
		if !boolean {
			return ""
		}
		for _, f := range p.Conds {
			if elem(f.Cond) {
				if f.Val {
					return "T"
				}
				return "F"
			}
		}
		return "?"
	}
	if clos != nil {
		// head and tail from the parent, the per-element text from the closure
		paths, ok := enumPaths(fn, 500)
		if !ok {
			sk.err = "too many paths"
			return sk
		}
		for _, p := range paths {
			if _, isRet := p.Exit.(*ssa.Return); !isRet {
				continue
			}
			t := &listRenderer{resolve: func(v ssa.Value) ssa.Value { return v }, isElem: func(ssa.Value) bool { return false }, isWidth: isWidth, isSize: isSize}
			var head, tail []string
			for _, pc := range t.writes(p.Instrs()) {
				if instrBefore(p, pc.in, iterCall) {
					head = append(head, pc.s)
				} else {
					tail = append(tail, pc.s)
				}
			}
			h, tl := strings.Join(head, " "), strings.Join(tail, " ")
			if sk.head != "" && (joinPieces(splitPieces([]string{sk.head})) != joinPieces(splitPieces([]string{h})) || sk.tail != tl) {
				sk.err = "paths of " + name + " write different openers/closers: " + sk.head + " vs " + h
				return sk
			}
			sk.head, sk.tail = h, tl
		}
		cps, ok := enumPaths(clos, 200)
		if !ok {
			sk.err = "too many closure paths"
			return sk
		}
		elem := func(v ssa.Value) bool { return len(clos.Params) == 1 && v == ssa.Value(clos.Params[0]) }
		for _, p := range cps {
			ret, isRet := p.Exit.(*ssa.Return)
			if !isRet || len(ret.Results) != 1 || !isTrueConst(p.Resolve(ret.Results[0])) {
				continue
			}
			t := &listRenderer{resolve: p.Resolve, isElem: elem, isWidth: isWidth, isSize: isSize}
			s := strings.Join(lps(t.writes(p.Instrs())), " ")
			tr := truthOf(p, elem)
			sk.first[tr], sk.rest[tr] = s, s
		}
		if len(sk.first) == 0 {
			sk.err = "iterator body not recognised"
		}
		return sk
	}
	// a plain loop (encodeBinary)
	hs := loopHeaders(fn)
	if len(hs) != 1 {
		sk.err = fmt.Sprintf("%d loops and no iterator", len(hs))
		return sk
	}
	h := hs[0]
	inLoop := func(b *ssa.BasicBlock) bool { return h.Dominates(b) && reaches(b, h) }
	elem := func(v ssa.Value) bool {
		if ex, ok := v.(*ssa.Extract); ok && ex.Index == 0 {
			if c, ok := ex.Tuple.(*ssa.Call); ok && c.Call.IsInvoke() && c.Call.Method.Name() == "ByteAt" {
				return true
			}
		}
		return false
	}
	paths, ok := enumPaths(fn, 500)
	if !ok {
		sk.err = "too many paths"
		return sk
	}
	for _, p := range paths {
		if _, isRet := p.Exit.(*ssa.Return); !isRet || !defaultPath(p) {
			continue
		}
		t := &listRenderer{resolve: p.Resolve, isElem: elem, isWidth: isWidth, isSize: isSize}
		var head, body, tail []string
		seenLoop := false
		for _, pc := range t.writes(p.Instrs()) {
			switch {
			case inLoop(pc.in.Block()):
				seenLoop = true
				body = append(body, pc.s)
			case !seenLoop:
				head = append(head, pc.s)
			default:
				tail = append(tail, pc.s)
			}
		}
		if len(body) > 0 {
			sk.head, sk.tail = strings.Join(head, " "), strings.Join(tail, " ")
			sk.first[""] = strings.Join(body, " ")
		}
	}
	its, ok := enumIterPaths(fn, h, 500)
	if !ok {
		sk.err = "too many iteration paths"
		return sk
	}
	for _, p := range its {
		if p.Exit != nil || !defaultPath(p) {
			continue
		}
		t := &listRenderer{resolve: func(v ssa.Value) ssa.Value { return p.resolveNotHeader(v, h) }, isElem: elem, isWidth: isWidth, isSize: isSize}
		s := strings.Join(lps(t.writes(p.Instrs())), " ")
		if s != "" {
			sk.rest[""] = s
		}
	}
	if len(sk.first) == 0 || len(sk.rest) == 0 {
		sk.err = "loop iterations not recognised"
	}
	return sk
}

// splitPieces splits space-joined rendered pieces (Go-quoted literals and ‹…› placeholders)
// back into single pieces.
func splitPieces(ss []string) []string {
	var out []string
	for _, s := range ss {
		for len(s) > 0 {
			s = strings.TrimLeft(s, " ")
			if s == "" {
				break
			}
			if s[0] == '"' {
				end := 1
				for end < len(s) {
					if s[end] == '\\' {
						end += 2
						continue
					}
					if s[end] == '"' {
						break
					}
					end++
				}
				if end >= len(s) {
					out = append(out, s)
					break
				}
				out = append(out, s[:end+1])
				s = s[end+1:]
				continue
			}
			if i := strings.Index(s, "›"); i >= 0 {
				out = append(out, s[:i+len("›")])
				s = s[i+len("›"):]
				continue
			}
			out = append(out, s)
			break
		}
	}
	return out
}

// instrBefore: a precedes b along path p.
func instrBefore(p *Path, a, b ssa.Instruction) bool {
	for _, in := range p.Instrs() {
		if in == a {
			return true
		}
		if in == b {
			return false
		}
	}
	return false
}

var _ = types.Typ
