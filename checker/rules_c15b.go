package main

// C15-R4: the text items (A, J, W) are rendered with the same skeleton by Item.ToSML and by
// the default encoder: the same literal pieces around the same dynamic pieces (decimal length,
// raw value, Go-quoted value), in the same order.

import (
	"fmt"
	"go/constant"
	"go/token"
	"strings"

	"golang.org/x/tools/go/ssa"
)

func init() {
	registry["C15"].Rules = append(registry["C15"].Rules,
		Rule{Name: "C15-R4-text-skeleton", Doc: "for ASCII, JIS-8 and localized text both renderers emit the same skeleton — the same literal pieces around the same dynamic pieces (decimal byte length, the raw value, the Go-quoted value) in the same order — under the encoder's defaults (non-strict, double quote, the quote byte that option maps to); ToSML's empty-string shortcut is that skeleton at length 0", Run: c15TextSkeleton})
}

// piece of rendered output: a literal or a dynamic part.
type outPiece struct {
	lit  string // literal text (kind == "")
	kind string // "", "N" (decimal length of the value), "V" (raw value), "Q" (Go-quoted value), "?" unknown
	what string
}

func (p outPiece) String() string {
	if p.kind == "" {
		return fmt.Sprintf("%q", p.lit)
	}
	if p.kind == "?" {
		return "‹?" + p.what + "›"
	}
	return "‹" + p.kind + "›"
}

func flattenPieces(ps []outPiece) string {
	var out []string
	cur := ""
	have := false
	for _, p := range ps {
		if p.kind == "" {
			cur += p.lit
			have = true
			continue
		}
		if have {
			out = append(out, fmt.Sprintf("%q", cur))
			cur, have = "", false
		}
		out = append(out, p.String())
	}
	if have {
		out = append(out, fmt.Sprintf("%q", cur))
	}
	return strings.Join(out, " ")
}

// textRenderer abstracts the output a function writes on one path.
type textRenderer struct {
	p       *Path
	isValue func(ssa.Value) bool // denotes the item's text
	subst   map[ssa.Value]outPiece
}

func (t *textRenderer) classify(v ssa.Value) outPiece {
	v = t.p.Resolve(v)
	if pc, ok := t.subst[v]; ok {
		return pc
	}
	if c, ok := v.(*ssa.Const); ok && c.Value != nil && c.Value.Kind() == constant.String {
		return outPiece{lit: constant.StringVal(c.Value)}
	}
	if t.isValue(v) {
		return outPiece{kind: "V"}
	}
	if call, ok := v.(*ssa.Call); ok {
		if g := calleeOf(call).Static; g != nil && fnPkgPath(g) == "strconv" {
			a := call.Call.Args
			switch g.Name() {
			case "Quote":
				if t.isValue(t.p.Resolve(a[0])) {
					return outPiece{kind: "Q"}
				}
			case "Itoa":
				if t.isLenOfValue(a[0]) {
					return outPiece{kind: "N"}
				}
			case "FormatInt", "FormatUint":
				if k, ok := constInt(a[1]); ok && k == 10 && t.isLenOfValue(a[0]) {
					return outPiece{kind: "N"}
				}
			}
		}
	}
	return outPiece{kind: "?", what: shortRender(v)}
}

func (t *textRenderer) isLenOfValue(v ssa.Value) bool {
	v = stripConv(t.p.Resolve(v))
	c, ok := v.(*ssa.Call)
	return ok && calleeOf(c).Builtin == "len" && t.isValue(t.p.Resolve(c.Call.Args[0]))
}

func (t *textRenderer) byteOf(v ssa.Value) outPiece {
	v = t.p.Resolve(v)
	if pc, ok := t.subst[v]; ok {
		return pc
	}
	if k, ok := constInt(v); ok {
		return outPiece{lit: string(rune(k))}
	}
	return outPiece{kind: "?", what: shortRender(v)}
}

// formatPieces expands a constant fmt format with its arguments.
func (t *textRenderer) formatPieces(format string, args []ssa.Value) []outPiece {
	var out []outPiece
	ai := 0
	for i := 0; i < len(format); i++ {
		ch := format[i]
		if ch != '%' {
			out = append(out, outPiece{lit: string(ch)})
			continue
		}
		if i+1 >= len(format) {
			out = append(out, outPiece{kind: "?", what: "dangling %"})
			break
		}
		i++
		verb := format[i]
		if verb == '%' {
			out = append(out, outPiece{lit: "%"})
			continue
		}
		if ai >= len(args) {
			out = append(out, outPiece{kind: "?", what: "missing argument"})
			continue
		}
		a := t.p.Resolve(stripConv(args[ai]))
		ai++
		switch verb {
		case 'q':
			if t.isValue(a) {
				out = append(out, outPiece{kind: "Q"})
				continue
			}
		case 's':
			if t.isValue(a) {
				out = append(out, outPiece{kind: "V"})
				continue
			}
		case 'd':
			if t.isLenOfValue(a) {
				out = append(out, outPiece{kind: "N"})
				continue
			}
		}
		out = append(out, outPiece{kind: "?", what: "%" + string(verb) + " of " + shortRender(a)})
	}
	return out
}

// variadicArgs returns the elements of the []any built for a variadic call.
func variadicArgs(v ssa.Value) []ssa.Value {
	sl, ok := v.(*ssa.Slice)
	if !ok {
		return nil
	}
	al, ok := sl.X.(*ssa.Alloc)
	if !ok {
		return nil
	}
	n, ok := arrayLenOf(al.Type())
	if !ok {
		return nil
	}
	out := make([]ssa.Value, n)
	for _, ref := range *al.Referrers() {
		ia, ok := ref.(*ssa.IndexAddr)
		if !ok {
			continue
		}
		k, ok := constInt(ia.Index)
		if !ok || k < 0 || k >= n {
			continue
		}
		for _, r2 := range *ia.Referrers() {
			if st, ok := r2.(*ssa.Store); ok {
				out[k] = st.Val
			}
		}
	}
	return out
}

// render collects what the path writes into its builder / returns as a string.
func (t *textRenderer) render() []outPiece {
	var out []outPiece
	for _, in := range t.p.Instrs() {
		c, ok := in.(*ssa.Call)
		if !ok || calleeOf(c).Static == nil {
			continue
		}
		g := calleeOf(c).Static
		a := c.Call.Args
		switch {
		case g.Name() == "WriteString" && strings.Contains(g.String(), "strings.Builder"):
			out = append(out, t.classify(a[len(a)-1]))
		case g.Name() == "WriteByte" && strings.Contains(g.String(), "strings.Builder"):
			out = append(out, t.byteOf(a[len(a)-1]))
		case g.Name() == "WriteRune" && strings.Contains(g.String(), "strings.Builder"):
			out = append(out, t.byteOf(a[len(a)-1]))
		case fnPkgPath(g) == "fmt" && g.Name() == "Fprintf":
			if f, ok := a[1].(*ssa.Const); ok && f.Value != nil && f.Value.Kind() == constant.String {
				out = append(out, t.formatPieces(constant.StringVal(f.Value), variadicArgs(a[2]))...)
			} else {
				out = append(out, outPiece{kind: "?", what: "non-constant format"})
			}
		}
	}
	// a path that returns a constant string or a Sprintf result wrote nothing before it
	if ret, ok := t.p.Exit.(*ssa.Return); ok && len(ret.Results) == 1 {
		rv := t.p.Resolve(ret.Results[0])
		if c, ok := rv.(*ssa.Const); ok && c.Value != nil && c.Value.Kind() == constant.String {
			out = append(out, outPiece{lit: constant.StringVal(c.Value)})
		} else if bo, ok := rv.(*ssa.BinOp); ok && bo.Op == token.ADD {
			// string concatenation
			var walk func(v ssa.Value)
			walk = func(v ssa.Value) {
				v = t.p.Resolve(v)
				if b, ok := v.(*ssa.BinOp); ok && b.Op == token.ADD {
					walk(b.X)
					walk(b.Y)
					return
				}
				out = append(out, t.classify(v))
			}
			walk(bo)
		} else if call, ok := rv.(*ssa.Call); ok {
			if g := calleeOf(call).Static; g != nil && fnPkgPath(g) == "fmt" && g.Name() == "Sprintf" {
				if f, ok := call.Call.Args[0].(*ssa.Const); ok && f.Value != nil && f.Value.Kind() == constant.String {
					out = append(out, t.formatPieces(constant.StringVal(f.Value), variadicArgs(call.Call.Args[1]))...)
				} else {
					out = append(out, outPiece{kind: "?", what: "non-constant format"})
				}
			}
		}
	}
	return out
}

func c15TextSkeleton(r *Run) {
	const rule = "C15-R4-text-skeleton"
	w := r.W
	// what the default options make of the quote byte
	qb := w.Fn("sml", "Encoder.quoteByte")
	r.Analysed(w.FnName(qb))
	quote := int64(-1)
	if ps, ok := enumPaths(qb, 20); ok {
		dflt := w.ConstInt("sml", "QuoteDouble")
		for _, p := range ps {
			// the path taken when asciiQuote == QuoteDouble: every decision `asciiQuote == k` must agree
			feasible := true
			for _, f := range p.Conds {
				if b, ok := f.Cond.(*ssa.BinOp); ok && (b.Op == token.EQL || b.Op == token.NEQ) && strings.HasSuffix(render(b.X), ".asciiQuote") {
					k, isK := constInt(b.Y)
					if !isK {
						feasible = false
						continue
					}
					eq := k == dflt
					if b.Op == token.NEQ {
						eq = !eq
					}
					if eq != f.Val {
						feasible = false
					}
				}
			}
			if feasible {
				if k, ok := constInt(p.Rets()[0]); ok {
					quote = k
				}
			}
		}
	}
	r.Check(quote == '"', rule, "default quote byte is '\"'", qb.Pos(), `'"'`, fmt.Sprintf("with the default option the encoder quotes with %q, ToSML with '\"'", rune(quote)))

	enc := w.Fn("sml", "Encoder.encodeItem")
	es := w.Fn("sml", "Encoder.encodeString")
	r.Analysed(w.FnName(enc))
	r.Analysed(w.FnName(es))

	// encoder skeleton for A / J: encodeString(sb, tok, s, strict=false) with the token constant of the call site
	encStringSkel := func(tok string) (string, bool) {
		ps, ok := enumPaths(es, 200)
		if !ok {
			return "", false
		}
		tokP, sP, strictP := es.Params[2], es.Params[3], es.Params[4]
		var skels []string
		for _, p := range ps {
			strictTaken := false
			for _, f := range p.Conds {
				if f.Cond == ssa.Value(strictP) && f.Val {
					strictTaken = true
				}
			}
			if strictTaken {
				continue
			}
			t := &textRenderer{p: p, isValue: func(v ssa.Value) bool { return v == ssa.Value(sP) }, subst: map[ssa.Value]outPiece{tokP: {lit: tok}}}
			// the quote byte: calls to quoteByte on this path
			for _, in := range p.Instrs() {
				if c, ok := in.(*ssa.Call); ok && calleeOf(c).Static == qb {
					t.subst[c] = outPiece{lit: string(rune(quote))}
				}
			}
			skels = append(skels, flattenPieces(t.render()))
		}
		if len(skels) != 1 {
			return strings.Join(skels, " | "), false
		}
		return skels[0], true
	}
	// the token and strictness each arm of encodeItem hands to encodeString
	type arm struct{ tok, strict string }
	arms := map[string]arm{}
	for _, c := range callsIn(enc, isFn(es)) {
		a := c.Common().Args
		tok := ""
		if k, ok := a[2].(*ssa.Const); ok && k.Value != nil && k.Value.Kind() == constant.String {
			tok = constant.StringVal(k.Value)
		}
		arms[tok] = arm{tok, render(a[4])}
	}

	type itemT struct {
		typ, tok string
	}
	n := 0
	for _, it := range []itemT{{"ASCIIItem", "A"}, {"JIS8Item", "J"}} {
		fn := w.Fn("secs2", it.typ+".ToSML")
		r.Analysed(w.FnName(fn))
		fValue := w.Field("secs2", it.typ, "value")
		isVal := func(v ssa.Value) bool {
			u, ok := v.(*ssa.UnOp)
			if !ok || u.Op != token.MUL {
				return false
			}
			fa, ok := u.X.(*ssa.FieldAddr)
			return ok && sameVar(fieldOf(fa), fValue)
		}
		a, okArm := arms[it.tok]
		r.Check(okArm && (a.strict == "false" || strings.HasSuffix(a.strict, ".strict")), rule, "encodeItem renders "+it.typ+" through encodeString(\""+it.tok+"\", …)", enc.Pos(), "found", "the encoder's arm for this type was not found")
		want, okW := encStringSkel(it.tok)
		if !okW {
			r.Undecided(rule, "encodeString non-strict skeleton for "+it.tok, es.Pos(), "not a single skeleton: %s", want)
			continue
		}
		ps, ok := enumPaths(fn, 100)
		if !ok {
			r.Undecided(rule, it.typ+".ToSML paths", fn.Pos(), "too many")
			continue
		}
		for _, p := range ps {
			if _, isRet := p.Exit.(*ssa.Return); !isRet {
				continue
			}
			t := &textRenderer{p: p, isValue: isVal}
			got := flattenPieces(t.render())
			n++
			empty := false
			for _, f := range p.Conds {
				if b, ok := f.Cond.(*ssa.BinOp); ok && b.Op == token.EQL && f.Val {
					if k, isK := constInt(b.Y); isK && k == 0 && strings.Contains(render(b.X), "len(") {
						empty = true
					}
				}
			}
			if empty {
				w0 := strings.ReplaceAll(strings.ReplaceAll(want, "‹N›", `"0"`), "‹V›", `""`)
				// re-flatten the substituted skeleton
				w0 = fmt.Sprintf("%q", unquoteJoin(w0))
				r.Check(got == w0, rule, it.typ+".ToSML (empty value) = encoder skeleton at length 0", p.Exit.Pos(), got, "ToSML renders an empty value as "+got+", the encoder as "+w0)
				continue
			}
			r.Check(got == want, rule, it.typ+".ToSML skeleton = encoder skeleton", p.Exit.Pos(), got, "ToSML writes "+got+" but the default encoder writes "+want)
		}
	}
	// W: the encoder renders it inline
	{
		fn := w.Fn("secs2", "LocalizedStrItem.ToSML")
		r.Analysed(w.FnName(fn))
		fValue := w.Field("secs2", "LocalizedStrItem", "value")
		isVal := func(v ssa.Value) bool {
			u, ok := v.(*ssa.UnOp)
			if !ok || u.Op != token.MUL {
				return false
			}
			fa, ok := u.X.(*ssa.FieldAddr)
			return ok && sameVar(fieldOf(fa), fValue)
		}
		var got []string
		if ps, ok := enumPaths(fn, 50); ok {
			for _, p := range ps {
				if _, isRet := p.Exit.(*ssa.Return); isRet {
					t := &textRenderer{p: p, isValue: isVal}
					got = append(got, flattenPieces(t.render()))
				}
			}
		}
		// encoder: the paths of encodeItem that fetch the localized string
		var want []string
		seen := map[string]bool{}
		if ps, ok := enumPaths(enc, 20000); ok {
			for _, p := range ps {
				var sv ssa.Value
				for _, in := range p.Instrs() {
					if c, ok := in.(*ssa.Call); ok && c.Call.IsInvoke() && c.Call.Method.Name() == "ToLocalizedStr" {
						for _, ref := range *c.Referrers() {
							if ex, ok := ref.(*ssa.Extract); ok && ex.Index == 0 {
								sv = ex
							}
						}
					}
				}
				if sv == nil {
					continue
				}
				t := &textRenderer{p: p, isValue: func(v ssa.Value) bool { return v == sv }}
				s := flattenPieces(t.render())
				if !seen[s] {
					seen[s] = true
					want = append(want, s)
				}
			}
		} else {
			r.Undecided(rule, "encodeItem paths", enc.Pos(), "too many")
		}
		n += len(got)
		r.Check(len(got) == 1 && len(want) == 1 && got[0] == want[0], rule, "LocalizedStrItem.ToSML skeleton = encoder skeleton", fn.Pos(), strings.Join(got, " | "), "ToSML writes "+strings.Join(got, " | ")+" but the default encoder writes "+strings.Join(want, " | "))
	}
	r.Floor(rule, "ToSML paths of text items compared", n, 5)
}

// unquoteJoin turns a flattened skeleton consisting only of quoted literals into the text.
func unquoteJoin(s string) string {
	var out strings.Builder
	for len(s) > 0 {
		s = strings.TrimLeft(s, " ")
		if s == "" {
			break
		}
		if s[0] != '"' {
			return s // a dynamic piece is left: not a pure literal
		}
		var lit string
		// find the end of the Go-quoted literal
		end := 1
		for end < len(s) {
			if s[end] == '\\' {
				end += 2
				continue
			}
			if s[end] == '"' {
				break
			}
			end++
		}
		if end >= len(s) {
			return s
		}
		if _, err := fmt.Sscanf(s[:end+1], "%q", &lit); err != nil {
			return s
		}
		out.WriteString(lit)
		s = s[end+1:]
	}
	return out.String()
}
