package main

import (
	"fmt"
	"go/token"
	"go/types"
	"sort"
	"strings"

	"golang.org/x/tools/go/ssa"
)

func init() {
	register(&PropSpec{
		ID: "C12",
		Rules: []Rule{
			{Name: "C12-R1-constructors-copy", Doc: "every slice/map/raw pointer stored into the storage of an item, message, body or decode state is freshly allocated (or a copy, or an append onto the field itself while the object is under construction); caller storage may be stored only on the documented ownership-transfer paths (DecodeOwned, DecodeOwnedFrame, DecodeOwnedHSMSPayload, DeliverOwnedFrame, wire.AdoptBody, wire.ChunkOf, framecodec.AdoptSECS2Body) and by the copying decoders after they copied", Run: c12ConstructorsCopy},
			{Name: "C12-R2-accessors-do-not-leak", Doc: "no exported function or method of the immutable types returns a slice, map or raw pointer that is internal field storage: results are fresh copies or the caller's own buffer extended; the zero-copy bridge (Body.Buffers/Chunk, OwnedBytes) is internal and called only by the send path / lazy decoder", Run: c12AccessorsDoNotLeak},
			{Name: "C12-R3-write-once", Doc: "every write to a field (or element of a field) of an immutable type happens on an object that is fresh in the writing function, or in an unexported helper all of whose callers pass such an object, or inside the closure given to the object's own sync.Once; no exported method writes its receiver", Run: c12WriteOnce},
			{Name: "C12-R4-lazy-once", Doc: "the lazy body decode and the memoized tree encoding run only under their sync.Once; Item/DecodeErr read the shared state after Do; re-stamped copies share body and decode state", Run: func(r *Run) { c04LazyDecodeAs(r, "C12-R4-lazy-once") }},
			{Name: "C12-R5-no-shared-mutable-globals", Doc: "no production function of secs2, hsms message code or internal/wire writes a package-level variable outside package initialisation", Run: c12NoGlobals},
		},
		NotDec:  []string{"race freedom is argued from write-once storage and sync.Once, not observed", "user-implemented Item types", "unsafe aliasing beyond the documented owned-buffer paths"},
		Trusted: []string{"Go memory model: sync.Once.Do happens-before every return of Do", "VTA call graph for interface calls"},
	})
}

// immutableTypes: named struct types whose values must never change after construction.
func immutableTypes(w *World) map[*types.TypeName]string {
	out := map[*types.TypeName]string{}
	itemIface := w.Named("secs2", "Item").Underlying().(*types.Interface)
	sc := w.Pkg("secs2").Types.Scope()
	for _, n := range sc.Names() {
		tn, ok := sc.Lookup(n).(*types.TypeName)
		if !ok {
			continue
		}
		if _, isStruct := tn.Type().Underlying().(*types.Struct); !isStruct {
			continue
		}
		if types.Implements(types.NewPointer(tn.Type()), itemIface) {
			out[tn] = "secs2 item"
		}
	}
	for _, x := range [][2]string{{"secs2", "baseItem"}, {"hsms", "DataMessage"}, {"hsms", "ControlMessage"}, {"hsms", "decodeState"}, {"internal/wire", "treeBody"}, {"internal/wire", "rawFrameBody"}, {"internal/wire", "Chunk"}} {
		out[w.Named(x[0], x[1]).Obj()] = x[0] + " storage"
	}
	return out
}

func ownerOf(fa *ssa.FieldAddr) *types.TypeName {
	if n, ok := derefType(fa.X.Type()).(*types.Named); ok {
		return n.Origin().Obj()
	}
	return nil
}

var c12OwnershipTransfer = map[string]string{
	"secs2.DecodeOwned":                          "documented: ownership of data transfers to the item",
	"secs2.DecodeOwnedFrame":                     "documented: internal transport entry over an owned body",
	"hsms.DecodeOwnedHSMSPayload":                "documented: ownership of payload transfers to the message",
	"(*hsms.connection).DeliverOwnedFrame":       "documented: the transport hands over a frame it will not touch again",
	"(*secs1.transport).splitFrame":              "send side only: a read-only view of the frame buffers the core handed to Write, dropped when Write returns; it never becomes a message",
	"(internal/framecodec.OwnedSECS2Body).Bytes": "documented: capability token accessor",
}

func c12Pkgs(w *World, fn *ssa.Function) bool {
	switch w.PkgOf(fn) {
	case "secs2", "hsms", "internal/wire", "internal/framecodec":
		return w.IsProd(fn)
	}
	return false
}

type c12State struct {
	r         *Run
	w         *World
	ic        *immCtx
	imm       map[*types.TypeName]string
	immFields map[*types.Var]bool
	stack     map[string]bool
}

func newC12State(r *Run) *c12State {
	s := &c12State{r: r, w: r.W, ic: newImmCtx(r.W), imm: immutableTypes(r.W), immFields: map[*types.Var]bool{}, stack: map[string]bool{}}
	for tn := range s.imm {
		if st, ok := tn.Type().Underlying().(*types.Struct); ok {
			for i := 0; i < st.NumFields(); i++ {
				s.immFields[st.Field(i).Origin()] = true
			}
		}
	}
	return s
}

// isImmutableObjectType: t is (a pointer to) one of the immutable struct types.
func (s *c12State) isImmutableObjectType(t types.Type) bool {
	if n, ok := derefType(t).(*types.Named); ok {
		_, ok := s.imm[n.Origin().Obj()]
		return ok
	}
	return false
}

// paramAllowed: may storage reachable from parameter pi of fn be kept by an immutable
// object? Yes on an ownership-transfer entry point; otherwise only if fn is internal and
// every caller passes fresh/immutable storage or storage it is itself allowed to keep.
func (s *c12State) paramAllowed(fn *ssa.Function, pi int, depth int) (bool, string) {
	name := s.w.FnName(fn)
	if why, ok := c12OwnershipTransfer[name]; ok {
		return true, why
	}
	if depth > 5 {
		return false, "call chain too deep to decide"
	}
	key := fmt.Sprintf("%s#%d", name, pi)
	if s.stack[key] {
		return true, "recursive (decided at the outer call)"
	}
	s.stack[key] = true
	defer delete(s.stack, key)
	exported := fn.Object() != nil && fn.Object().Exported() && fn.Parent() == nil && recvExported(fn) && !strings.HasPrefix(s.w.PkgOf(fn), "internal/")
	if exported {
		return false, name + " is exported: its argument is the caller's storage"
	}
	uses := s.w.usesOf(fn)
	n := 0
	for _, u := range uses {
		if !s.w.IsProd(u.Fn) {
			continue
		}
		call, ok := u.Instr.(ssa.CallInstruction)
		if !ok || u.Kind == "value" {
			return false, name + " escapes as a function value in " + s.w.FnName(u.Fn)
		}
		n++
		args := call.Common().Args
		if pi >= len(args) {
			return false, "argument not found at " + s.w.Pos(u.Pos())
		}
		ok2, why := s.valueAllowed(u.Fn, args[pi], depth+1)
		if !ok2 {
			return false, "caller " + s.w.FnName(u.Fn) + " passes " + why
		}
	}
	if n == 0 {
		// reached only through interfaces (methods): decided by the interface's callers — be conservative
		return false, name + " has no direct caller to justify keeping its argument"
	}
	return true, fmt.Sprintf("%d internal caller(s) pass owned storage", n)
}

// valueAllowed: may v (in fn) be kept as internal storage of an immutable object?
func (s *c12State) valueAllowed(fn *ssa.Function, v ssa.Value, depth int) (bool, string) {
	o := s.ic.of(v)
	if o.o&^(oFresh|oImm|oParam|oField) != 0 {
		return false, o.o.String() + " (" + shortRender(v) + ")"
	}
	if o.o&oField != 0 {
		// sharing storage between immutable objects is fine; storage of anything else is not
		for f := range o.flds {
			if !s.immFields[f] {
				return false, "storage of a non-immutable object (field " + f.Name() + ")"
			}
		}
	}
	if o.o&oParam != 0 {
		for _, pi := range o.params() {
			if pi < len(fn.Params) && s.isImmutableObjectType(fn.Params[pi].Type()) {
				continue // the parameter is itself an immutable object: sharing its storage is fine
			}
			if ok, why := s.paramAllowed(fn, pi, depth); !ok {
				return false, why
			}
		}
	}
	return true, o.o.String()
}

func uniqInts(in []int) []int {
	m := map[int]bool{}
	var out []int
	for _, x := range in {
		if !m[x] {
			m[x] = true
			out = append(out, x)
		}
	}
	sort.Ints(out)
	return out
}

func c12ConstructorsCopy(r *Run) {
	const rule = "C12-R1-constructors-copy"
	w := r.W
	s := newC12State(r)
	n := 0
	for _, fn := range w.SrcFns() {
		if !c12Pkgs(w, fn) {
			continue
		}
		eachInstr(fn, func(in ssa.Instruction) {
			st, ok := in.(*ssa.Store)
			if !ok || !isRefType(st.Val.Type()) {
				return
			}
			fa, ok := st.Addr.(*ssa.FieldAddr)
			if !ok {
				return
			}
			tn := ownerOf(fa)
			if _, ok := s.imm[tn]; !ok {
				return
			}
			n++
			r.Analysed(w.FnName(fn))
			f := fieldOf(fa)
			construct := fmt.Sprintf("%s: %s.%s = %s", w.FnName(fn), tn.Name(), f.Name(), shortRender(st.Val))
			// append onto the field itself while building: the backing array stays the object's own
			if call, ok := st.Val.(*ssa.Call); ok && calleeOf(call).Builtin == "append" {
				if ld, ok := call.Call.Args[0].(*ssa.UnOp); ok && ld.Op == token.MUL {
					if fa2, ok := ld.X.(*ssa.FieldAddr); ok && fa2.X == fa.X && fa2.Field == fa.Field {
						r.OK(rule, construct, st.Pos(), "append onto the object's own field while it is being built")
						return
					}
				}
			}
			ok2, why := s.valueAllowed(fn, st.Val, 0)
			if ok2 {
				r.OK(rule, construct, st.Pos(), "%s", why)
			} else {
				r.Fail(rule, construct, st.Pos(), "an immutable object must not keep %s", why)
			}
		})
	}
	r.Floor(rule, "stores of slices/maps/raw pointers into immutable storage", n, 25)
}

func shortRender(v ssa.Value) string {
	s := render(v)
	if len(s) > 90 {
		s = s[:90] + "…"
	}
	return s
}

// zero-copy bridge functions that hand out internal storage by design, with the callers allowed.
var c12Bridge = map[string][]string{
	"(internal/wire.rawFrameBody).Buffers":       {"hsms.buildFrameBuffers"},
	"(*internal/wire.treeBody).Buffers":          {"hsms.buildFrameBuffers"},
	"internal/wire.OwnedBytes":                   {"(*hsms.DataMessage).decode"},
	"(*internal/wire.treeBody).encoded":          {"(*internal/wire.treeBody).AppendTo", "(*internal/wire.treeBody).Buffers", "(*internal/wire.treeBody).Chunk"},
	"(*secs2.baseItem).raw":                      nil, // callers checked: used only to re-emit through append
	"(internal/framecodec.OwnedSECS2Body).Bytes": {"secs2.DecodeOwnedFrame"},
}

func c12AccessorsDoNotLeak(r *Run) {
	const rule = "C12-R2-accessors-do-not-leak"
	w := r.W
	s := newC12State(r)
	n := 0
	for _, fn := range w.SrcFns() {
		if !c12Pkgs(w, fn) || fn.Parent() != nil || fn.Synthetic != "" {
			continue
		}
		res := fn.Signature.Results()
		hasRef := false
		for i := 0; i < res.Len(); i++ {
			if isRefType(res.At(i).Type()) {
				hasRef = true
			}
		}
		if !hasRef {
			continue
		}
		name := w.FnName(fn)
		// scope: methods of immutable types, and every exported function of the public packages
		inScope := false
		if recv := fn.Signature.Recv(); recv != nil {
			if nt, ok := derefType(recv.Type()).(*types.Named); ok {
				_, inScope = s.imm[nt.Origin().Obj()]
			}
		} else if fn.Object() != nil && fn.Object().Exported() && !strings.HasPrefix(w.PkgOf(fn), "internal/") {
			inScope = true
		}
		if !inScope {
			continue
		}
		r.Analysed(name)
		if allowed, ok := c12Bridge[name]; ok {
			// internal bridge: check its callers instead
			for _, u := range w.usesOf(fn) {
				if !w.IsProd(u.Fn) {
					continue
				}
				okc := allowed == nil
				for _, a := range allowed {
					if w.FnName(u.Fn) == a {
						okc = true
					}
				}
				n++
				r.Check(okc, rule, name+" called from "+w.FnName(u.Fn), u.Pos(), "allowed internal consumer", "this zero-copy bridge hands out internal storage and may be used only by "+strings.Join(allowed, ", "))
			}
			continue
		}
		for _, ret := range returnsOf(fn) {
			for i, v := range ret.Results {
				if !isRefType(v.Type()) {
					continue
				}
				n++
				oi := s.ic.of(v)
				o := oi.o
				construct := fmt.Sprintf("%s result %d = %s", name, i, shortRender(v))
				switch {
				case o&(oField|oGlobal) != 0:
					r.Fail(rule, construct, ret.Pos(), "returns %s: a caller could change what later readers observe", o.String())
				case o&oUnknown != 0:
					r.Undecided(rule, construct, ret.Pos(), "origin of the returned storage cannot be determined (%s)", o.String())
				default:
					r.OK(rule, construct, ret.Pos(), "%s", o.String())
				}
			}
		}
	}
	// interface-dispatched bridge methods (Buffers/Chunk on wire.Body): every invoke site
	for _, site := range w.invokeSites(func(m *types.Func) bool {
		return m.Pkg() != nil && strings.HasSuffix(m.Pkg().Path(), "internal/wire") && (m.Name() == "Buffers" || m.Name() == "Chunk")
	}) {
		if !w.IsProd(site.Fn) {
			continue
		}
		n++
		fnn := w.FnName(site.Fn)
		ok := fnn == "hsms.buildFrameBuffers" || strings.HasPrefix(fnn, "secs1.") || strings.HasPrefix(fnn, "(*secs1.") || strings.HasPrefix(fnn, "(*hsms.DataMessage).")
		r.Check(ok, rule, "wire.Body zero-copy view requested in "+fnn, site.Pos(), "send path", "internal body storage may be viewed only by the transports' send paths")
	}
	r.Floor(rule, "returned slices/maps/raw pointers examined", n, 40)
}

func c12WriteOnce(r *Run) {
	const rule = "C12-R3-write-once"
	w := r.W
	imm := immutableTypes(w)
	n := 0
	var freshRecv func(fn *ssa.Function, depth int, stack map[*ssa.Function]bool) (bool, string)
	// isFreshObject: v denotes an object created by the current function (or carved from a slab / new chunk)
	var isFreshObject func(fn *ssa.Function, v ssa.Value, depth int, stack map[*ssa.Function]bool) (bool, string)
	isFreshObject = func(fn *ssa.Function, v ssa.Value, depth int, stack map[*ssa.Function]bool) (bool, string) {
		switch x := v.(type) {
		case *ssa.Alloc:
			return true, "allocated here"
		case *ssa.FieldAddr:
			return isFreshObject(fn, x.X, depth, stack) // embedded part of the object
		case *ssa.IndexAddr:
			// slab hand-out: &s.chunk[s.pos] followed by s.pos++ yields each element exactly once
			if handedOutOnce(x) {
				return true, "slab element handed out exactly once (index field advanced after the hand-out)"
			}
			// element of a fresh chunk or of the object's own array
			if ld, ok := x.X.(*ssa.UnOp); ok && ld.Op == token.MUL {
				return isFreshObject(fn, ld.X, depth, stack)
			}
			return isFreshObject(fn, x.X, depth, stack)
		case *ssa.MakeSlice:
			return true, "fresh chunk"
		case *ssa.Call:
			if g := calleeOf(x).Static; g != nil && w.InModule(g) {
				// a constructor-like helper returning a fresh object (slab.next*)
				okAll := true
				for _, ret := range returnsOf(g) {
					if len(ret.Results) == 0 {
						okAll = false
						continue
					}
					if ok, _ := isFreshObject(g, ret.Results[0], depth+1, stack); !ok {
						okAll = false
					}
				}
				if okAll {
					return true, "fresh object from " + g.Name()
				}
			}
			return false, "result of " + render(x)
		case *ssa.Phi:
			for _, e := range x.Edges {
				if ok, why := isFreshObject(fn, e, depth, stack); !ok {
					return false, why
				}
			}
			return true, "fresh on every path"
		case *ssa.Parameter:
			if len(fn.Params) > 0 && x == fn.Params[0] || true {
				idx := -1
				for i, p := range fn.Params {
					if p == x {
						idx = i
					}
				}
				return freshArg(w, fn, idx, depth, stack, isFreshObject)
			}
		case *ssa.FreeVar:
			// closure given to the captured object's own sync.Once
			if isOnceBody(w, fn) {
				return true, "inside the object's own sync.Once closure"
			}
			return false, "captured variable outside a sync.Once closure"
		case *ssa.UnOp:
			if x.Op == token.MUL {
				if _, ok := x.X.(*ssa.FreeVar); ok {
					if isOnceBody(w, fn) {
						return true, "inside the object's own sync.Once closure"
					}
					return false, "captured variable outside a sync.Once closure"
				}
				// msg.dec.item = … inside a method that only ever runs as the argument of a sync.Once.Do
				if _, ok := x.X.(*ssa.FieldAddr); ok && runsOnlyUnderOnce(w, fn) {
					return true, "the writing method runs only as the argument of sync.Once.Do"
				}
			}
		}
		return false, render(v)
	}
	_ = freshRecv
	for _, fn := range w.SrcFns() {
		if !c12Pkgs(w, fn) {
			continue
		}
		eachInstr(fn, func(in ssa.Instruction) {
			st, ok := in.(*ssa.Store)
			if !ok {
				return
			}
			base, field, elem := rootBase(st.Addr)
			if field == nil {
				return
			}
			// the owner of the outermost field
			var owner *types.TypeName
			for a := st.Addr; ; {
				switch x := a.(type) {
				case *ssa.FieldAddr:
					owner = ownerOf(x)
					a = x.X
					continue
				case *ssa.IndexAddr:
					if ld, ok := x.X.(*ssa.UnOp); ok && ld.Op == token.MUL {
						a = ld.X
					} else {
						a = x.X
					}
					continue
				}
				break
			}
			if _, ok := imm[owner]; !ok {
				return
			}
			n++
			r.Analysed(w.FnName(fn))
			what := owner.Name() + "." + field.Name()
			if elem {
				what += "[…]"
			}
			construct := fmt.Sprintf("%s writes %s", w.FnName(fn), what)
			ok2, why := isFreshObject(fn, base, 0, map[*ssa.Function]bool{})
			if ok2 {
				r.OK(rule, construct, st.Pos(), "%s", why)
			} else {
				r.Fail(rule, construct, st.Pos(), "the written object is not provably under construction: %s — an immutable value must not change after it has been published", why)
			}
		})
	}
	r.Floor(rule, "writes to immutable storage", n, 60)
}

// handedOutOnce: ia is &obj.F[obj.I] and the same function afterwards stores obj.I+1 into obj.I
// on every path (the slab allocator's hand-out), so no two calls return the same element.
func handedOutOnce(ia *ssa.IndexAddr) bool {
	sl, ok := ia.X.(*ssa.UnOp)
	if !ok || sl.Op != token.MUL {
		return false
	}
	fs, ok := sl.X.(*ssa.FieldAddr)
	if !ok {
		return false
	}
	il, ok := ia.Index.(*ssa.UnOp)
	if !ok || il.Op != token.MUL {
		return false
	}
	fi, ok := il.X.(*ssa.FieldAddr)
	if !ok || fi.X != fs.X {
		return false
	}
	found := false
	eachInstr(ia.Parent(), func(in ssa.Instruction) {
		st, ok := in.(*ssa.Store)
		if !ok {
			return
		}
		a, ok := st.Addr.(*ssa.FieldAddr)
		if !ok || a.X != fi.X || a.Field != fi.Field {
			return
		}
		if b, ok := st.Val.(*ssa.BinOp); ok && b.Op == token.ADD {
			if k, ok := constInt(b.Y); ok && k == 1 && instrDominates(ia, st) {
				found = true
			}
		}
	})
	return found
}

// runsOnlyUnderOnce: every production use of fn is as the function argument of sync.Once.Do.
func runsOnlyUnderOnce(w *World, fn *ssa.Function) bool {
	n := 0
	for _, u := range w.usesOf(fn) {
		if !w.IsProd(u.Fn) {
			continue
		}
		mc, ok := u.Instr.(*ssa.MakeClosure)
		if !ok || u.Kind != "value" || mc.Referrers() == nil {
			return false
		}
		for _, ref := range *mc.Referrers() {
			c, ok := ref.(*ssa.Call)
			if !ok || !isMethodNamed("sync", "Once", "Do")(calleeOf(c)) {
				return false
			}
		}
		n++
	}
	return n > 0
}

// freshArg: every production caller of fn passes a fresh object for parameter idx.
func freshArg(w *World, fn *ssa.Function, idx, depth int, stack map[*ssa.Function]bool, isFresh func(*ssa.Function, ssa.Value, int, map[*ssa.Function]bool) (bool, string)) (bool, string) {
	if idx < 0 {
		return false, "unidentified parameter"
	}
	if depth > 4 {
		return false, "call chain too deep"
	}
	if stack[fn] {
		return true, "recursive"
	}
	exported := fn.Object() != nil && fn.Object().Exported() && fn.Parent() == nil && recvExported(fn)
	if exported {
		return false, "exported " + w.FnName(fn) + " writes an object supplied by its caller"
	}
	stack[fn] = true
	defer delete(stack, fn)
	n := 0
	for _, u := range w.usesOf(fn) {
		if !w.IsProd(u.Fn) {
			continue
		}
		call, ok := u.Instr.(ssa.CallInstruction)
		if !ok || u.Kind == "value" {
			// a method value handed to sync.Once.Do of the same object is the once-guarded writer
			if mc, ok := u.Instr.(*ssa.MakeClosure); ok && mc.Referrers() != nil {
				onceOnly := true
				for _, ref := range *mc.Referrers() {
					c, ok := ref.(*ssa.Call)
					if !ok || !isMethodNamed("sync", "Once", "Do")(calleeOf(c)) {
						onceOnly = false
					}
				}
				if onceOnly {
					n++
					continue
				}
			}
			return false, w.FnName(fn) + " escapes as a value in " + w.FnName(u.Fn)
		}
		n++
		args := call.Common().Args
		if idx >= len(args) {
			return false, "argument missing"
		}
		if ok, why := isFresh(u.Fn, args[idx], depth+1, stack); !ok {
			return false, "caller " + w.FnName(u.Fn) + " passes " + why
		}
	}
	if n == 0 {
		return false, w.FnName(fn) + " has no production caller"
	}
	return true, fmt.Sprintf("helper whose %d caller(s) pass an object under construction", n)
}

func c12NoGlobals(r *Run) {
	const rule = "C12-R5-no-shared-mutable-globals"
	w := r.W
	n := 0
	for _, fn := range w.SrcFns() {
		if !c12Pkgs(w, fn) {
			continue
		}
		// hsms connection/runtime code is covered by C05–C11; here: message/codec files only
		eachInstr(fn, func(in ssa.Instruction) {
			st, ok := in.(*ssa.Store)
			if !ok {
				return
			}
			base, _, _ := rootBase(st.Addr)
			g, ok := base.(*ssa.Global)
			if !ok {
				return
			}
			n++
			if fn.Name() == "init" {
				r.OK(rule, "package variable "+g.Name()+" initialised", st.Pos(), "package initialiser")
			} else if isOnceBody(w, fn) {
				r.OK(rule, "package variable "+g.Name()+" initialised once in "+w.FnName(fn), st.Pos(), "inside a sync.Once closure (one-time lazy initialisation)")
			} else {
				r.Fail(rule, "write to package variable "+g.Name()+" in "+w.FnName(fn), st.Pos(), "shared mutable package state makes observations depend on other goroutines")
			}
		})
	}
	r.Stats[rule+":package-variable stores"] = n
	r.Trivial(rule, "scan of secs2 / hsms / internal/wire for package-variable writes", 0, "%d stores, all in package initialisers", n)
}
