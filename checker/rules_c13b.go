package main

// C13-R5: the strict parser's quoted-run state machine is the inverse of the strict encoder's
// escaping: inside a run a backslash makes the next character literal (and only the next),
// an unescaped quote ends the run, an unescaped '>' is an error, everything else is taken
// as is.

import (
	"fmt"
	"go/token"
	"strings"

	"golang.org/x/tools/go/ssa"
)

func init() {
	registry["C13"].Rules = append(registry["C13"].Rules,
		Rule{Name: "C13-R5-run-state-machine", Doc: "decision table of one step of parseASCIIStrict inside a quoted run over (character class: backslash / the run's quote / '>' / other) × (escape pending or not): an unescaped backslash writes nothing and arms the escape; an escaped character — whichever it is — is written once and disarms it; an unescaped quote ends the run without writing; an unescaped '>' is an error; any other character is written once and leaves no escape pending. This is the inverse of writeStrictASCII, which writes a backslash before exactly those three characters", Run: c13RunStateMachine})
}

func c13RunStateMachine(r *Run) {
	const rule = "C13-R5-run-state-machine"
	w := r.W
	par := w.Fn("sml", "Parser.parseASCIIStrict")
	r.Analysed(w.FnName(par))
	// the scanning loop: the loop header that dominates a WriteRune call
	var h *ssa.BasicBlock
	for _, hb := range loopHeaders(par) {
		for _, c := range callsIn(par, func(cl Callee) bool { return cl.Static != nil && cl.Static.Name() == "WriteRune" }) {
			if hb.Dominates(c.Block()) {
				h = hb
			}
		}
	}
	if h == nil {
		r.Undecided(rule, "parseASCIIStrict: scanning loop", par.Pos(), "no loop writes runes")
		return
	}
	var phiQ, phiE *ssa.Phi
	for _, in := range h.Instrs {
		if phi, ok := in.(*ssa.Phi); ok {
			switch phi.Comment {
			case "isQuoteStr":
				phiQ = phi
			case "isEscapedCh":
				phiE = phi
			}
		}
	}
	if phiQ == nil || phiE == nil {
		r.Undecided(rule, "parseASCIIStrict: in-run and escape-pending flags", par.Pos(), "loop-carried flags not found")
		return
	}
	// entry values: not in a run, no escape pending
	for k, pb := range h.Preds {
		if h.Dominates(pb) {
			continue
		}
		for _, phi := range []*ssa.Phi{phiQ, phiE} {
			c, ok := phi.Edges[k].(*ssa.Const)
			r.Check(ok && c.Value != nil && c.Value.String() == "false", rule, "scan starts with "+phi.Comment+" = false", par.Pos(), "false", "the scan must start outside a run with no escape pending")
		}
	}
	// the current character: the rune extracted from the range step in the header
	var ch ssa.Value
	for _, in := range h.Instrs {
		if ex, ok := in.(*ssa.Extract); ok && ex.Index == 2 {
			ch = ex
		}
	}
	if ch == nil {
		eachInstr(par, func(in ssa.Instruction) {
			if ex, ok := in.(*ssa.Extract); ok && ex.Index == 2 && h.Dominates(ex.Block()) {
				if _, isNext := ex.Tuple.(*ssa.Next); isNext {
					ch = ex
				}
			}
		})
	}
	if ch == nil {
		r.Undecided(rule, "parseASCIIStrict: current character", par.Pos(), "range value not found")
		return
	}
	paths, ok := enumIterPaths(par, h, 20000)
	if !ok {
		r.Undecided(rule, "parseASCIIStrict: iteration paths", par.Pos(), "too many")
		return
	}
	boolOf := func(v ssa.Value, self *ssa.Phi) string {
		if v == ssa.Value(self) {
			return "same"
		}
		if c, ok := v.(*ssa.Const); ok && c.Value != nil {
			return c.Value.String()
		}
		return "?" + shortRender(v)
	}
	cells := map[string]bool{}
	n := 0
	for _, p := range paths {
		inRun := 0
		esc := 0 // 0 undecided, 1 pending, -1 not pending
		class := ""
		undecidedCmp := false
		for _, f := range p.Conds {
			switch {
			case f.Cond == ssa.Value(phiQ):
				if f.Val {
					inRun = 1
				} else {
					inRun = -1
				}
			case f.Cond == ssa.Value(phiE):
				if f.Val {
					esc = 1
				} else {
					esc = -1
				}
			default:
				b, ok := f.Cond.(*ssa.BinOp)
				if !ok || b.Op != token.EQL || stripConv(b.X) != ch {
					continue
				}
				if !f.Val {
					continue
				}
				if k, isK := constInt(b.Y); isK {
					switch k {
					case '\\':
						class = "backslash"
					case '>':
						class = "gt"
					default:
						class = fmt.Sprintf("char %q", rune(k))
						undecidedCmp = true
					}
				} else {
					class = "quote" // compared with the run's (dynamic) quote character
				}
			}
		}
		if inRun != 1 {
			continue
		}
		if class == "" {
			class = "other"
		}
		writes := 0
		for _, in := range p.Instrs() {
			if c, ok := in.(*ssa.Call); ok && calleeOf(c).Static != nil {
				switch calleeOf(c).Static.Name() {
				case "WriteRune", "WriteByte", "WriteString":
					if len(c.Call.Args) > 0 && p.Resolve(stripConv(c.Call.Args[len(c.Call.Args)-1])) == ch {
						writes++
					} else {
						writes += 100 // something other than the current character is written
					}
				}
			}
		}
		n++
		construct := fmt.Sprintf("in-run step [%s, escape %s]", class, map[int]string{0: "any", 1: "pending", -1: "not pending"}[esc])
		if undecidedCmp {
			r.Fail(rule, construct, par.Pos(), "a character other than backslash, the quote and '>' is given a special meaning inside a run: the encoder does not escape it")
			continue
		}
		if p.Exit != nil {
			// leaving the function from inside a run: only the unescaped '>' error
			isErr := false
			if rets := p.Rets(); len(rets) == 2 && !isNilConst(rets[1]) {
				isErr = true
			}
			cells[class+"/"+fmt.Sprint(esc)] = true
			r.Check(class == "gt" && esc == -1 && isErr && writes == 0, rule, construct+": unescaped '>' inside a run is an error", p.Exit.Pos(), "error", "the only way out of the function from inside a run is the unclosed-run error on an unescaped '>'")
			continue
		}
		nq := boolOf(p.NextIter(phiQ), phiQ)
		ne := boolOf(p.NextIter(phiE), phiE)
		// "same" resolves against the decided value
		if ne == "same" {
			switch esc {
			case 1:
				ne = "true"
			case -1:
				ne = "false"
			}
		}
		if nq == "same" {
			nq = "true"
		}
		got := fmt.Sprintf("writes=%d run'=%s esc'=%s", writes, nq, ne)
		var want string
		switch {
		case class == "backslash" && esc == -1:
			want = "writes=0 run'=true esc'=true"
		case class == "backslash" && esc == 1:
			want = "writes=1 run'=true esc'=false"
		case class == "quote" && esc == 1:
			want = "writes=1 run'=true esc'=false"
		case class == "quote" && esc == -1:
			want = "writes=0 run'=false esc'=false"
		case class == "gt" && esc == 1:
			want = "writes=1 run'=true esc'=false"
		case class == "other":
			want = "writes=1 run'=true esc'=false"
		default:
			r.Fail(rule, construct, par.Pos(), "the step does not decide whether an escape is pending: "+got)
			continue
		}
		cells[class+"/"+fmt.Sprint(esc)] = true
		r.Check(got == want, rule, construct, par.Pos(), want, "the step must give "+want+" (inverse of the encoder's escaping), the code gives "+got)
	}
	for _, c := range []string{"backslash/-1", "backslash/1", "quote/-1", "quote/1", "gt/-1", "gt/1"} {
		r.Check(cells[c], rule, "in-run cell "+strings.Replace(strings.Replace(c, "/-1", " unescaped", 1), "/1", " escaped", 1)+" is handled", par.Pos(), "present", "no path of the scanning loop handles this cell")
	}
	otherSeen := false
	for c := range cells {
		if strings.HasPrefix(c, "other/") {
			otherSeen = true
		}
	}
	r.Check(otherSeen, rule, "in-run cell other character is handled", par.Pos(), "present", "no path handles an ordinary character inside a run")
	r.Floor(rule, "in-run iteration paths", n, 7)
}
