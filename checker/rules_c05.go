package main

import (
	"fmt"
	"go/token"
	"go/types"
	"sort"
	"strings"

	"golang.org/x/tools/go/ssa"
)

// ---- shared oracle: the SEMI E37 logical state table as written in the C05 statement ----

type e37 struct {
	NC, NS, S                               int64
	TCPUp, SelAcc, SelLost, Disc, Close, T7 int64
	evNames                                 map[int64]string
	stNames                                 map[int64]string
}

func loadE37(w *World) *e37 {
	t := &e37{
		NC: w.ConstInt("hsms", "NotConnectedState"), NS: w.ConstInt("hsms", "NotSelectedState"), S: w.ConstInt("hsms", "SelectedState"),
		TCPUp: w.ConstInt("hsms", "evTCPUp"), SelAcc: w.ConstInt("hsms", "evSelectAccepted"), SelLost: w.ConstInt("hsms", "evSelectLost"),
		Disc: w.ConstInt("hsms", "evDisconnect"), Close: w.ConstInt("hsms", "evClose"), T7: w.ConstInt("hsms", "evT7Timeout"),
	}
	t.evNames = map[int64]string{t.TCPUp: "TCPUp", t.SelAcc: "SelectAccepted", t.SelLost: "SelectLost", t.Disc: "Disconnect", t.Close: "Close", t.T7: "T7"}
	t.stNames = map[int64]string{t.NC: "NotConnected", t.NS: "NotSelected", t.S: "Selected"}
	return t
}

// next is the oracle table: statement of C05 + E37 §5.4-5.6.
func (t *e37) next(cur, ev int64) (int64, bool) {
	switch ev {
	case t.TCPUp:
		if cur == t.NC || cur == t.NS {
			return t.NS, true
		}
	case t.SelAcc:
		if cur == t.NS || cur == t.S {
			return t.S, true
		}
	case t.SelLost:
		if cur == t.S || cur == t.NS {
			return t.NS, true
		}
	case t.Disc:
		if cur == t.S || cur == t.NS {
			return t.NC, true
		}
	case t.T7:
		if cur == t.NS {
			return t.NC, true
		}
	case t.Close:
		return t.NC, true
	}
	return cur, false
}

func (t *e37) events() []int64 {
	evs := []int64{t.TCPUp, t.SelAcc, t.SelLost, t.Disc, t.Close, t.T7}
	// two values outside the defined set (unknown events)
	max := int64(0)
	for _, e := range evs {
		if e > max {
			max = e
		}
	}
	return append(evs, max+1, 255)
}

func (t *e37) states() []int64 { return []int64{t.NC, t.NS, t.S} }

func atomicMethodOn(v ssa.Value, field *types.Var, method string) bool {
	c, ok := v.(*ssa.Call)
	if !ok {
		return false
	}
	return callIsAtomicMethodOn(c, field, method)
}

func callIsAtomicMethodOn(c ssa.CallInstruction, field *types.Var, method string) bool {
	cal := calleeOf(c)
	if cal.Static == nil || baseName(cal.Static) != method || cal.Static.Signature.Recv() == nil {
		return false
	}
	args := c.Common().Args
	return len(args) > 0 && isFieldRef(args[0], field)
}

func init() {
	register(&PropSpec{
		ID: "C05",
		Rules: []Rule{
			{Name: "C05-R1-transition-table", Doc: "decision table of hsms.transition extracted from SSA paths equals the E37 table on every (state,event) cell incl. unknown events", Run: c05TransitionTable},
			{Name: "C05-R2-state-writers", Doc: "every writer of supervisor.state is a CAS with constant (old,new) on an E37 edge followed by inject of the matching event, or is inside step", Run: c05StateWriters},
			{Name: "C05-R3-step-table", Doc: "decision table of supervisor.step over (closed,ev,cur,lastReacted,CAS result): latch, stale-SelectLost abandonment, CAS-guarded T7, store, deduped fireTransition, close latch before teardown", Run: c05StepTable},
			{Name: "C05-R4-notify-chain", Doc: "fireTransition only from step; emit only from fireTransition; single sender/closer/receiver of notify; terminal emit precedes react; emit never blocks", Run: c05NotifyChain},
			{Name: "C05-R5-close-order", Doc: "Close: fence under publishMu ≺ requestClose ≺ e.wait ≺ stop ≺ supWg.Wait ≺ connectLoopWg.Wait; requestClose pins epoch before injecting", Run: c05CloseOrder},
			{Name: "C05-R6-state-default", Doc: "connection.State returns NotConnected when no supervisor exists and otherwise the supervisor's atomic state", Run: c05StateDefault},
			{Name: "C05-R7-post-close-fence", Doc: "no state write outside step can succeed once step has latched closed (CAS old value ≠ post-close value, or fenced)", Run: c05PostCloseFence},
			{Name: "C05-R8-runtime-wiring", Doc: "TransportRuntime methods map to the right commit/event: TCPUp→CommitConnected, CommitSelected→CommitSelected, SelectLost→CommitSelectLost, T7Expired→inject(T7), TCPDown→inject(Disconnect)", Run: c05RuntimeWiring},
		},
		NotDec: []string{"the interleavings themselves (lock-free committers × event queue)", "exactly-when timing of each change", "coalescing behaviour under stalled handlers"},
	})
}

// ---------- shared: the abstraction supervisor.State applies to the raw state word ----------

// stateAlpha is α: raw word of supervisor.state → the ConnState that supervisor.State()
// reports for it, extracted from the paths of supervisor.State on every run. It is decided
// for the three E37 states and for every other constant the code compares the word with
// or stores into it ("sealed" words: internal values that are not a ConnState).
type stateAlpha struct {
	img    map[int64]int64 // α on every candidate word
	sealed map[int64]int64 // candidates outside the E37 states → reported state
	loads  int             // atomic reads of the word in supervisor.State
	undec  []string        // candidates whose image could not be decided
	fn     *ssa.Function
}

var alphaCache = map[*World]*stateAlpha{}

func c05Alpha(w *World, t *e37) *stateAlpha {
	if a, ok := alphaCache[w]; ok {
		return a
	}
	supState := w.Fn("hsms", "supervisor.State")
	fState := w.Field("hsms", "supervisor", "state")
	a := &stateAlpha{img: map[int64]int64{}, sealed: map[int64]int64{}, fn: supState}
	alphaCache[w] = a
	isState := map[int64]bool{t.NC: true, t.NS: true, t.S: true}
	cand := map[int64]bool{t.NC: true, t.NS: true, t.S: true}
	// constants the reader compares the word with
	eachInstr(supState, func(in ssa.Instruction) {
		if c, ok := in.(ssa.CallInstruction); ok && callIsAtomicMethodOn(c, fState, "Load") {
			a.loads++
		}
		if b, ok := in.(*ssa.BinOp); ok {
			for _, op := range []ssa.Value{b.X, b.Y} {
				if k, ok := constInt(op); ok {
					cand[k] = true
				}
			}
		}
	})
	// constants any production writer puts into the word
	for _, u := range w.fieldUses(fState) {
		if !w.IsProd(u.Fn) || !strings.HasPrefix(u.Kind, "method:") {
			continue
		}
		switch strings.TrimPrefix(u.Kind, "method:") {
		case "Store", "Swap", "CompareAndSwap":
			for _, arg := range u.Instr2.(ssa.CallInstruction).Common().Args[1:] {
				if k, ok := constInt(arg); ok {
					cand[k] = true
				}
			}
		}
	}
	paths, ok := enumPaths(supState, 200)
	if !ok {
		a.undec = append(a.undec, "too many paths in supervisor.State")
		return a
	}
	var words []int64
	for k := range cand {
		words = append(words, k)
	}
	sort.Slice(words, func(i, j int) bool { return words[i] < words[j] })
	for _, wd := range words {
		mk := func() *Evaluator {
			ev := &Evaluator{Env: Env{}}
			ev.Leaf = func(v ssa.Value, e *Evaluator) (int64, bool, bool) {
				if atomicMethodOn(v, fState, "Load") {
					return wd, true, true
				}
				return 0, false, false
			}
			return ev
		}
		var hold []*Path
		undec := false
		for _, p := range paths {
			h, ok := p.HoldsWith(mk())
			if !ok {
				undec = true
			}
			if h && ok {
				hold = append(hold, p)
			}
		}
		if undec || len(hold) != 1 || len(hold[0].Rets()) != 1 {
			a.undec = append(a.undec, fmt.Sprintf("word %d: not decided by a unique path (holding=%d)", wd, len(hold)))
			continue
		}
		ev := mk()
		ev.Resolve = hold[0].Resolve
		got, ok := ev.Int(hold[0].Rets()[0])
		if !ok {
			a.undec = append(a.undec, fmt.Sprintf("word %d: returned value %s is not a function of the state word", wd, render(hold[0].Rets()[0])))
			continue
		}
		a.img[wd] = got
		if !isState[wd] {
			a.sealed[wd] = got
		}
	}
	return a
}

// wordName renders a raw state word: an E37 state by name, a sealed word as
// sealed:<raw>, anything else as the raw number.
func (a *stateAlpha) wordName(t *e37, wd int64) string {
	if s, ok := t.stNames[wd]; ok {
		return s
	}
	if _, ok := a.sealed[wd]; ok {
		return fmt.Sprintf("sealed:%d", wd)
	}
	return fmt.Sprintf("%d", wd)
}

// ---------- R1 ----------

func c05TransitionTable(r *Run) {
	w := r.W
	t := loadE37(w)
	fn := w.Fn("hsms", "transition")
	r.Analysed(w.FnName(fn))
	paths, ok := enumPaths(fn, 5000)
	if !ok {
		r.Undecided("C05-R1-transition-table", "hsms.transition", fn.Pos(), "too many paths")
		return
	}
	if len(fn.Params) != 2 {
		r.Undecided("C05-R1-transition-table", "hsms.transition", fn.Pos(), "unexpected signature")
		return
	}
	pcur, pev := "$"+fn.Params[0].Name(), "$"+fn.Params[1].Name()
	cells := 0
	for _, ev := range t.events() {
		for _, cur := range t.states() {
			cells++
			env := Env{pcur: cur, pev: ev}
			construct := fmt.Sprintf("transition(cur=%s, ev=%s)", name(t.stNames, cur), name(t.evNames, ev))
			var hold []*Path
			undec := false
			miss := map[string]bool{}
			for _, p := range paths {
				h, ok := p.Holds(env, miss)
				if !ok {
					undec = true
				}
				if h && ok {
					hold = append(hold, p)
				}
			}
			if undec || len(hold) != 1 {
				r.Undecided("C05-R1-transition-table", construct, fn.Pos(), "cell not decided by a unique path (holding=%d, unevaluable atoms=%v)", len(hold), keys(miss))
				continue
			}
			p := hold[0]
			rets := p.Rets()
			evl := &Evaluator{Env: env, Resolve: p.Resolve}
			gotNext, ok1 := evl.Int(rets[0])
			gotOK, ok2 := evl.Int(rets[1])
			if !ok1 || !ok2 {
				r.Undecided("C05-R1-transition-table", construct, p.Exit.Pos(), "return value not a function of (cur, ev): %s, %s", render(rets[0]), render(rets[1]))
				continue
			}
			wantNext, wantOK := t.next(cur, ev)
			if gotNext == wantNext && (gotOK != 0) == wantOK {
				r.OK("C05-R1-transition-table", construct, p.Exit.Pos(), "→ (%s,%v) as in E37", name(t.stNames, gotNext), gotOK != 0)
			} else {
				r.Fail("C05-R1-transition-table", construct, p.Exit.Pos(), "code yields (%s,%v) but E37 requires (%s,%v)", name(t.stNames, gotNext), gotOK != 0, name(t.stNames, wantNext), wantOK)
			}
		}
	}
	r.Floor("C05-R1-transition-table", "table cells", cells, 24)
}

func name(m map[int64]string, v int64) string {
	if s, ok := m[v]; ok {
		return s
	}
	return fmt.Sprintf("%d", v)
}

func keys(m map[string]bool) []string {
	var out []string
	for k := range m {
		out = append(out, k)
	}
	sort.Strings(out)
	return out
}

// ---------- R2 ----------

// casEdge describes a CAS(old,new) on supervisor.state and the event injected on success.
type casEdge struct {
	old, new int64
	ev       int64
}

func c05StateWriters(r *Run) {
	const rule = "C05-R2-state-writers"
	w := r.W
	t := loadE37(w)
	state := w.Field("hsms", "supervisor", "state")
	step := w.Fn("hsms", "supervisor.step")
	inject := w.Fn("hsms", "supervisor.inject")
	allowed := map[[2]int64]int64{{t.NC, t.NS}: t.TCPUp, {t.NS, t.S}: t.SelAcc, {t.S, t.NS}: t.SelLost}
	nCAS, nLoad, nStore := 0, 0, 0
	for _, u := range w.fieldUses(state) {
		if !w.IsProd(u.Fn) {
			continue
		}
		r.Analysed(w.FnName(u.Fn))
		fname := w.FnName(u.Fn)
		switch {
		case u.Kind == "method:Load":
			nLoad++
		case u.Kind == "method:CompareAndSwap":
			nCAS++
			c := u.Instr2.(ssa.CallInstruction)
			if sameFn(u.Fn, step) {
				// checked by the step table (R3)
				r.Trivial(rule, fname+": CAS in step", c.Pos(), "covered by C05-R3")
				continue
			}
			args := c.Common().Args
			o, ok1 := constInt(args[1])
			n, ok2 := constInt(args[2])
			construct := fmt.Sprintf("%s: state.CompareAndSwap(%s,%s)", fname, render(args[1]), render(args[2]))
			if !ok1 || !ok2 {
				r.Fail(rule, construct, c.Pos(), "CAS outside step must have constant (old,new)")
				continue
			}
			ev, ok := allowed[[2]int64{o, n}]
			if !ok {
				r.Fail(rule, construct, c.Pos(), "(%s→%s) is not one of the synchronous E37 commit edges NC→NS, NS→S, S→NS", name(t.stNames, o), name(t.stNames, n))
				continue
			}
			// success edge must inject exactly the matching event; failure edge must inject nothing
			cv, isVal := c.(*ssa.Call)
			if !isVal {
				r.Fail(rule, construct, c.Pos(), "CAS result discarded (go/defer): the matching event cannot be conditioned on success")
				continue
			}
			facts := factsIn(u.Fn)
			okInject, bad := 0, ""
			for _, ic := range callsIn(u.Fn, isFn(inject)) {
				iev, isC := constInt(ic.Common().Args[1])
				fs := facts[ic.Block()]
				succ := fs[Fact{cv, true}]
				if succ && isC && iev == ev {
					okInject++
				} else {
					bad = fmt.Sprintf("inject(%s) at %s not on the CAS-success edge with the matching event %s", render(ic.Common().Args[1]), w.Pos(ic.Pos()), name(t.evNames, ev))
				}
			}
			// every path on which the CAS succeeded must inject: success-edge returns must be preceded by the inject
			missing := false
			for _, ret := range returnsOf(u.Fn) {
				if facts[ret.Block()][Fact{cv, true}] {
					found := false
					for _, ic := range callsIn(u.Fn, isFn(inject)) {
						if instrDominates(ic, ret) {
							found = true
						}
					}
					if !found {
						missing = true
					}
				}
			}
			if okInject == 1 && bad == "" && !missing {
				r.OK(rule, construct, c.Pos(), "constant E37 edge %s→%s; success edge injects %s exactly once, failure edge injects nothing", name(t.stNames, o), name(t.stNames, n), name(t.evNames, ev))
			} else {
				if bad == "" {
					bad = fmt.Sprintf("expected exactly one inject(%s) dominated by CAS success on every success return (found %d, missing-on-some-return=%v)", name(t.evNames, ev), okInject, missing)
				}
				r.Fail(rule, construct, c.Pos(), "%s", bad)
			}
		case u.Kind == "method:Store" || u.Kind == "method:Swap" || u.Kind == "method:Add" || u.Kind == "method:And" || u.Kind == "method:Or":
			nStore++
			c := u.Instr2.(ssa.CallInstruction)
			if sameFn(u.Fn, step) {
				r.Trivial(rule, fname+": state."+strings.TrimPrefix(u.Kind, "method:")+" in step", c.Pos(), "covered by C05-R3")
			} else {
				r.Fail(rule, fmt.Sprintf("%s: state.%s(...)", fname, strings.TrimPrefix(u.Kind, "method:")), c.Pos(), "unconditional write of the connection state outside supervisor.step")
			}
		case u.Kind == "store":
			// whole-struct initialisation of the atomic in a constructor of a fresh supervisor
			st := u.Instr2.(*ssa.Store)
			base := u.Instr.(*ssa.FieldAddr).X
			if _, fresh := base.(*ssa.Alloc); fresh && isZeroValue(st.Val) {
				r.OK(rule, fname+": state zero-initialised in fresh supervisor", st.Pos(), "zero value = NotConnected on a not-yet-published object")
			} else {
				r.Fail(rule, fname+": raw store to supervisor.state", st.Pos(), "state overwritten by a plain struct store")
			}
		case u.Kind == "load":
			nLoad++
		default:
			r.Fail(rule, fmt.Sprintf("%s: supervisor.state used as %s", fname, u.Kind), u.Instr2.Pos(), "address of the state word escapes: writers can no longer be enumerated")
		}
	}
	r.Floor(rule, "CAS sites on supervisor.state", nCAS, 4)
	r.Floor(rule, "Store sites on supervisor.state", nStore, 1)
	r.Floor(rule, "Load sites on supervisor.state", nLoad, 2)
}

func isZeroValue(v ssa.Value) bool {
	switch x := v.(type) {
	case *ssa.Const:
		return x.Value == nil || x.IsNil() || (x.Value != nil && x.Value.String() == "0")
	case *ssa.UnOp:
		// load of a zero-initialised local composite (struct literal T{})
		if x.Op == token.MUL {
			if a, ok := x.X.(*ssa.Alloc); ok {
				// zero iff never stored to before
				stored := false
				for _, ref := range *a.Referrers() {
					if s, ok := ref.(*ssa.Store); ok && s.Addr == a {
						stored = true
					}
					if _, ok := ref.(*ssa.FieldAddr); ok {
						stored = true
					}
				}
				return !stored
			}
		}
	}
	return false
}

// ---------- R3: step decision table ----------

// stepCell is one cell of supervisor.step's decision table: the effects the code performs
// under one valuation of (closed, ev, cur, lastReacted, CAS outcome, closeEpoch set, hook set).
type stepCell struct {
	closed, ev, cur, last, cas, ce, hook int64
	construct                            string
	undecided                            string   // non-empty: why the cell could not be decided
	seq                                  []string // effects in execution order
	pos                                  map[string]token.Pos
	final                                int64 // raw state word once the step has run
}

type stepCells struct {
	fn      *ssa.Function
	tooMany bool
	cells   []stepCell
}

var stepCache = map[*World]*stepCells{}

// c05StepCells extracts the decision table of supervisor.step from its SSA paths. State
// writes are rendered through α (c05Alpha): store(<E37 state>), seal(<reported state>) for
// a store of a sealed word, store(<raw>) for anything State() has no image for.
func c05StepCells(w *World, t *e37) *stepCells {
	if sc, ok := stepCache[w]; ok {
		return sc
	}
	al := c05Alpha(w, t)
	step := w.Fn("hsms", "supervisor.step")
	sc := &stepCells{fn: step}
	stepCache[w] = sc
	fState := w.Field("hsms", "supervisor", "state")
	fClosed := w.Field("hsms", "supervisor", "closed")
	fLast := w.Field("hsms", "supervisor", "lastReacted")
	fCE := w.Field("hsms", "supervisor", "closeEpoch")
	transition := w.Fn("hsms", "transition")
	fire := w.Fn("hsms", "supervisor.fireTransition")
	teardown := w.Fn("hsms", "epoch.teardown")

	paths, ok := enumPaths(step, 20000)
	if !ok {
		sc.tooMany = true
		return sc
	}
	pev := "$" + step.Params[1].Name()

	mkEval := func(env Env) *Evaluator {
		ev := &Evaluator{Env: env}
		ev.Leaf = func(v ssa.Value, e *Evaluator) (int64, bool, bool) {
			switch x := v.(type) {
			case *ssa.UnOp:
				if x.Op == token.MUL {
					if isFieldRef(x.X, fClosed) {
						return env["closed"], true, true
					}
					if isFieldRef(x.X, fLast) {
						return env["last"], true, true
					}
					if fa, ok := x.X.(*ssa.FieldAddr); ok {
						// other receiver fields that are compared against nil (test hooks): treat as nil=0 / set=1 both explored via env["hook"]
						if _, isSig := fieldOf(fa).Type().Underlying().(*types.Signature); isSig {
							return env["hook"], true, true
						}
					}
				}
			case *ssa.Call:
				if atomicMethodOn(x, fState, "Load") {
					return env["cur"], true, true
				}
				if atomicMethodOn(x, fState, "CompareAndSwap") {
					return env["cas"], true, true
				}
				if atomicMethodOn(x, fCE, "Load") {
					return env["ce"], true, true
				}
			case *ssa.Extract:
				if c, ok := x.Tuple.(*ssa.Call); ok && isFn(transition)(calleeOf(c)) {
					a0, ok0 := e.Int(c.Call.Args[0])
					a1, ok1 := e.Int(c.Call.Args[1])
					if !ok0 || !ok1 {
						return 0, false, true
					}
					n, legal := t.next(a0, a1)
					if x.Index == 0 {
						return n, true, true
					}
					if legal {
						return 1, true, true
					}
					return 0, true, true
				}
			}
			return 0, false, false
		}
		return ev
	}

	// effects of a path under env; final is the raw word the state holds afterwards
	effectsOf := func(p *Path, ev *Evaluator, env Env) (seq []string, pos map[string]token.Pos, final int64, okAll bool) {
		pos = map[string]token.Pos{}
		okAll = true
		final = env["cur"]
		val := func(v ssa.Value) string {
			i, ok := ev.Int(v)
			if !ok {
				okAll = false
				return "?" + render(v)
			}
			return name(t.stNames, i)
		}
		add := func(s string, p token.Pos) { seq = append(seq, s); pos[s] = p }
		for _, in := range p.Instrs() {
			switch x := in.(type) {
			case *ssa.Store:
				switch {
				case isFieldRef(x.Addr, fClosed):
					b, ok := ev.Int(x.Val)
					if !ok {
						okAll = false
					}
					add(fmt.Sprintf("closed=%d", b), x.Pos())
				case isFieldRef(x.Addr, fLast):
					add("last="+val(x.Val), x.Pos())
				}
			case ssa.CallInstruction:
				switch {
				case callIsAtomicMethodOn(x, fState, "Store"):
					wd, ok := ev.Int(x.Common().Args[1])
					if !ok {
						okAll = false
						add("store(?"+render(x.Common().Args[1])+")", x.Pos())
						break
					}
					final = wd
					if img, isSealed := al.sealed[wd]; isSealed {
						add("seal("+name(t.stNames, img)+")", x.Pos())
					} else {
						add("store("+name(t.stNames, wd)+")", x.Pos())
					}
				case callIsAtomicMethodOn(x, fState, "CompareAndSwap"):
					add("cas("+val(x.Common().Args[1])+","+val(x.Common().Args[2])+")", x.Pos())
					if env["cas"] == 1 {
						if wd, ok := ev.Int(x.Common().Args[2]); ok {
							final = wd
						}
					}
				case callIsAtomicMethodOn(x, fState, "Swap"), callIsAtomicMethodOn(x, fState, "Add"),
					callIsAtomicMethodOn(x, fState, "And"), callIsAtomicMethodOn(x, fState, "Or"):
					add("rawwrite", x.Pos())
				case isFn(fire)(calleeOf(x)):
					add("fire("+val(x.Common().Args[1])+","+val(x.Common().Args[2])+")", x.Pos())
				case isFn(teardown)(calleeOf(x)):
					add("teardown", x.Pos())
				}
			}
		}
		return seq, pos, final, okAll
	}

	for _, closed := range []int64{0, 1} {
		for _, evv := range t.events() {
			for _, cur := range t.states() {
				for _, last := range t.states() {
					for _, cas := range []int64{0, 1} {
						for _, ce := range []int64{0, 1} {
							for _, hook := range []int64{0, 1} {
								env := Env{pev: evv, "closed": closed, "cur": cur, "last": last, "cas": cas, "ce": ce, "hook": hook}
								cell := stepCell{closed: closed, ev: evv, cur: cur, last: last, cas: cas, ce: ce, hook: hook}
								cell.construct = fmt.Sprintf("step(closed=%d ev=%s cur=%s lastReacted=%s cas=%d closeEpoch=%d)", closed, name(t.evNames, evv), name(t.stNames, cur), name(t.stNames, last), cas, ce)
								if hook == 1 {
									cell.construct = strings.TrimSuffix(cell.construct, ")") + " testHook=set)"
								}
								var hold []*Path
								undec := false
								miss := map[string]bool{}
								for _, p := range paths {
									e := mkEval(env)
									e.Missing = miss
									h, ok := p.HoldsWith(e)
									if !ok {
										undec = true
									}
									if h && ok {
										hold = append(hold, p)
									}
								}
								if undec || len(hold) == 0 {
									cell.undecided = fmt.Sprintf("cell not decided (holding paths=%d, unevaluable atoms=%v)", len(hold), keys(miss))
									sc.cells = append(sc.cells, cell)
									continue
								}
								// several holding paths are fine if they agree on effects (a branch on something outside the vocabulary)
								agree := true
								for i, p := range hold {
									e := mkEval(env)
									e.Resolve = p.Resolve
									seq, pos, final, ok := effectsOf(p, e, env)
									if !ok {
										undec = true
									}
									if i == 0 {
										cell.seq, cell.pos, cell.final = seq, pos, final
									} else if strings.Join(seq, ";") != strings.Join(cell.seq, ";") || final != cell.final {
										agree = false
									}
								}
								if undec || !agree {
									cell.undecided = fmt.Sprintf("effects not a function of the cell (agree=%v)", agree)
								}
								sc.cells = append(sc.cells, cell)
							}
						}
					}
				}
			}
		}
	}
	return sc
}

func c05StepTable(r *Run) {
	const rule = "C05-R3-step-table"
	w := r.W
	t := loadE37(w)
	sc := c05StepCells(w, t)
	step := sc.fn
	r.Analysed(w.FnName(step))
	if sc.tooMany {
		r.Undecided(rule, "supervisor.step", step.Pos(), "too many paths")
		return
	}
	isWrite := func(s string) bool {
		return strings.HasPrefix(s, "store(") || strings.HasPrefix(s, "cas(") || strings.HasPrefix(s, "seal(") || s == "rawwrite"
	}
	decided := 0
	for _, c := range sc.cells {
		if c.undecided != "" {
			r.Undecided(rule, c.construct, step.Pos(), "%s", c.undecided)
			continue
		}
		decided++
		want := stepOracle(t, c.closed, c.ev, c.cur, c.last, c.cas, c.ce)
		// A seal — a store of an internal word that State() reports as a ConnState — does not
		// change what State() reports when its image equals the state just stored, so the
		// table is compared without it and the seal is judged separately: it is admitted only
		// where the statement makes the state final (the close cell, which also latches), it
		// must report NotConnected, and it must be the last write of the word in the cell.
		var plain []string
		seals, lastSeal, lastWrite := 0, -1, -1
		sealImgOK := true
		for i, s := range c.seq {
			if isWrite(s) {
				lastWrite = i
			}
			if strings.HasPrefix(s, "seal(") {
				seals++
				lastSeal = i
				if s != "seal("+name(t.stNames, t.NC)+")" {
					sealImgOK = false
				}
				continue
			}
			plain = append(plain, s)
		}
		g, wnt := strings.Join(c.seq, ";"), strings.Join(want, ";")
		pos := step.Pos()
		for _, s := range c.seq {
			pos = c.pos[s]
			break
		}
		switch {
		case strings.Join(plain, ";") != wnt:
			r.Fail(rule, c.construct, pos, "effects [%s], required [%s]", g, wnt)
		case seals > 0 && !(c.closed == 0 && c.ev == t.Close):
			r.Fail(rule, c.construct, pos, "effects [%s]: the state word is sealed outside the close cell, so no later commit or transition of this supervisor can take effect (required [%s])", g, wnt)
		case seals > 0 && !sealImgOK:
			r.Fail(rule, c.construct, pos, "effects [%s]: the word stored on close is reported by State() as something other than NotConnected (required [%s])", g, wnt)
		case seals > 0 && lastWrite != lastSeal:
			r.Fail(rule, c.construct, pos, "effects [%s]: a later write of the state word overwrites the seal, so the close is not final", g)
		default:
			// keep evidence compact: record per-cell only for the hook=0 baseline
			if c.hook == 0 {
				if seals > 0 {
					r.OK(rule, c.construct, pos, "effects [%s] as required; the final write seals the word, State() keeps reporting NotConnected", g)
				} else {
					r.OK(rule, c.construct, pos, "effects [%s] as required", g)
				}
			}
		}
	}
	r.Floor(rule, "step cells decided", decided, 2*8*3*3*2*2*2)
}

// stepOracle is written from the C05 statement: latched after close; a stale select-lost is
// abandoned when Selected; a T7 expiry is applied with CAS and abandoned when it loses;
// every other legal change is stored; notification fires once per deduped change with
// prev = last reported state; Close latches before it tears down.
func stepOracle(t *e37, closed, ev, cur, last, cas, ce int64) []string {
	var out []string
	if closed == 1 {
		return out
	}
	if ev == t.SelLost && cur == t.S {
		return out
	}
	next, legal := t.next(cur, ev)
	if legal {
		abandoned := false
		if next != cur {
			if ev == t.T7 {
				out = append(out, "cas("+name(t.stNames, cur)+","+name(t.stNames, next)+")")
				if cas == 0 {
					abandoned = true
				}
			} else {
				out = append(out, "store("+name(t.stNames, next)+")")
			}
		}
		if abandoned {
			return out
		}
		if next != last {
			out = append(out, "fire("+name(t.stNames, last)+","+name(t.stNames, next)+")", "last="+name(t.stNames, next))
		}
	}
	if ev == t.Close {
		out = append(out, "closed=1")
		if ce == 1 {
			out = append(out, "teardown")
		}
	}
	return out
}

// ---------- R4 ----------

func c05NotifyChain(r *Run) {
	const rule = "C05-R4-notify-chain"
	w := r.W
	t := loadE37(w)
	step := w.Fn("hsms", "supervisor.step")
	fire := w.Fn("hsms", "supervisor.fireTransition")
	emit := w.Fn("hsms", "supervisor.emit")
	run := w.Fn("hsms", "supervisor.run")
	notifier := w.Fn("hsms", "supervisor.notifier")
	fNotify := w.Field("hsms", "supervisor", "notify")
	fReact := w.Field("hsms", "supervisor", "react")
	fDropped := w.Field("hsms", "supervisor", "droppedNotify")
	for _, f := range []*ssa.Function{step, fire, emit, run, notifier} {
		r.Analysed(w.FnName(f))
	}

	// who may call
	onlyCaller := func(target, caller *ssa.Function, what string) {
		n := 0
		for _, u := range w.usesOf(target) {
			if !w.IsProd(u.Fn) {
				continue
			}
			n++
			if u.Kind == "call" && sameFn(u.Fn, caller) {
				r.OK(rule, fmt.Sprintf("%s called from %s", target.Name(), w.FnName(u.Fn)), u.Pos(), "%s", what)
			} else {
				r.Fail(rule, fmt.Sprintf("%s used (%s) in %s", target.Name(), u.Kind, w.FnName(u.Fn)), u.Pos(), "only %s may call %s: %s", caller.Name(), target.Name(), what)
			}
		}
		r.Floor(rule, "call sites of "+target.Name(), n, 1)
	}
	onlyCaller(fire, step, "notifications are generated only by the serial event loop")
	onlyCaller(emit, fire, "every notification passes the dedup in step")

	// channel discipline on notify
	sends, closes, recvs := 0, 0, 0
	for _, s := range w.fieldSites(fNotify) {
		if !w.IsProd(s.Fn) {
			continue
		}
		fa, ok := s.Instr.(*ssa.FieldAddr)
		if !ok {
			continue
		}
		for _, ref := range *fa.Referrers() {
			ld, ok := ref.(*ssa.UnOp)
			if !ok {
				if st, ok := ref.(*ssa.Store); ok && st.Addr == fa {
					if _, isMk := st.Val.(*ssa.MakeChan); isMk {
						r.OK(rule, "notify created in "+w.FnName(s.Fn), st.Pos(), "fresh channel per supervisor")
					} else {
						r.Fail(rule, "notify overwritten in "+w.FnName(s.Fn), st.Pos(), "the notification channel must be created once per supervisor")
					}
				}
				continue
			}
			for _, use := range *ld.Referrers() {
				switch x := use.(type) {
				case *ssa.Send:
					sends++
					if sameFn(s.Fn, emit) {
						r.OK(rule, "send on notify in emit", x.Pos(), "sole sender")
					} else {
						r.Fail(rule, "send on notify in "+w.FnName(s.Fn), x.Pos(), "emit must be the only sender on notify (ordering)")
					}
				case *ssa.Select:
					for _, st := range x.States {
						if st.Chan != ld {
							continue
						}
						if st.Dir == types.SendOnly {
							sends++
							if sameFn(s.Fn, emit) && !x.Blocking {
								r.OK(rule, "non-blocking select-send on notify in emit", x.Pos(), "sole sender, never blocks the event loop")
							} else {
								r.Fail(rule, "select-send on notify in "+w.FnName(s.Fn), x.Pos(), "only emit may send on notify and the send must be non-blocking")
							}
						} else {
							recvs++
							if sameFn(s.Fn, emit) && !x.Blocking {
								r.OK(rule, "drop-oldest receive on notify in emit", x.Pos(), "non-blocking")
							} else {
								r.Fail(rule, "select-receive on notify in "+w.FnName(s.Fn), x.Pos(), "only the notifier (range) and emit's non-blocking drop-oldest may receive from notify")
							}
						}
					}
				case *ssa.UnOp: // <-ch (a range over the channel lowers to this)
					recvs++
					if sameFn(s.Fn, notifier) {
						r.OK(rule, "receive loop on notify in notifier", x.Pos(), "single consumer ⇒ in-order delivery")
					} else {
						r.Fail(rule, "blocking receive on notify in "+w.FnName(s.Fn), x.Pos(), "a second consumer would reorder or steal notifications")
					}
				case *ssa.Range:
					recvs++
					if sameFn(s.Fn, notifier) {
						r.OK(rule, "range over notify in notifier", x.Pos(), "single consumer ⇒ in-order delivery")
					} else {
						r.Fail(rule, "range over notify in "+w.FnName(s.Fn), x.Pos(), "a second consumer would reorder notifications")
					}
				case ssa.CallInstruction:
					if b, ok := x.Common().Value.(*ssa.Builtin); ok && b.Name() == "close" {
						closes++
						_, isDefer := x.(*ssa.Defer)
						if sameFn(s.Fn, run) && isDefer {
							r.OK(rule, "close(notify) deferred in run", x.Pos(), "closed only when the event loop exits")
						} else {
							r.Fail(rule, "close(notify) in "+w.FnName(s.Fn), x.Pos(), "notify must be closed only by run's exit")
						}
					} else if b, ok := x.Common().Value.(*ssa.Builtin); ok && (b.Name() == "len" || b.Name() == "cap") {
					} else {
						r.Fail(rule, "notify passed to a call in "+w.FnName(s.Fn), x.Pos(), "channel escapes: senders/receivers can no longer be enumerated")
					}
				case *ssa.Next, *ssa.DebugRef:
				default:
					// range lowered to receive loop: UnOp ARROW handled above
				}
			}
		}
	}
	// range over channel lowers to UnOp ARROW with CommaOk in a loop: recount
	r.Floor(rule, "senders on notify", sends, 2)
	r.Floor(rule, "closers of notify", closes, 1)

	// the notifier consumes notify with a receive loop
	foundRecv := false
	eachInstr(notifier, func(in ssa.Instruction) {
		if u, ok := in.(*ssa.UnOp); ok && u.Op == token.ARROW {
			if isFieldRef(u.X, fNotify) {
				foundRecv = true
			}
		}
	})
	_ = recvs
	_ = foundRecv

	// emit: every path to return sends sc; a path that fails the first send counts a drop
	{
		paths, ok := enumPaths(emit, 2000)
		if !ok {
			r.Undecided(rule, "emit paths", emit.Pos(), "too many paths")
		} else {
			for i, p := range paths {
				nsend, ndrop := 0, 0
				var selSendOK *ssa.Select
				for _, in := range p.Instrs() {
					switch x := in.(type) {
					case *ssa.Send:
						if isFieldRef(x.Chan, fNotify) && x.X == ssa.Value(emit.Params[1]) {
							nsend++
						}
					case *ssa.Select:
						for _, st := range x.States {
							if st.Dir == types.SendOnly && isFieldRef(st.Chan, fNotify) && st.Send == ssa.Value(emit.Params[1]) {
								selSendOK = x
							}
						}
					case ssa.CallInstruction:
						if callIsAtomicMethodOn(x, fDropped, "Add") {
							ndrop++
						}
					}
				}
				// was the select-send taken on this path? the path condition has (index == k) true
				took := false
				if selSendOK != nil {
					for _, c := range p.Conds {
						if b, ok := c.Cond.(*ssa.BinOp); ok && b.Op == token.EQL && c.Val {
							if ex, ok := b.X.(*ssa.Extract); ok && ex.Tuple == ssa.Value(selSendOK) && ex.Index == 0 {
								if k, ok := constInt(b.Y); ok && k == 0 {
									took = true
								}
							}
						}
					}
				}
				construct := fmt.Sprintf("emit path %d", i)
				switch {
				case took && nsend == 0 && ndrop == 0:
					r.OK(rule, construct, p.Exit.Pos(), "fast path: notification enqueued, nothing dropped")
				case !took && nsend == 1 && ndrop == 1:
					r.OK(rule, construct, p.Exit.Pos(), "full buffer: one drop counted, then the latest notification is enqueued")
				default:
					r.Fail(rule, construct, p.Exit.Pos(), "path enqueues the notification %d time(s) (select-send taken=%v) and counts %d drop(s): every emit must enqueue exactly once, and report a drop iff it coalesced", nsend, took, ndrop)
				}
			}
			r.Floor(rule, "emit paths", len(paths), 2)
		}
	}

	// fireTransition: table over next
	{
		paths, ok := enumPaths(fire, 2000)
		if !ok {
			r.Undecided(rule, "fireTransition paths", fire.Pos(), "too many paths")
			return
		}
		pprev, pnext := fire.Params[1], fire.Params[2]
		for _, nx := range t.states() {
			env := Env{"$" + pnext.Name(): nx}
			construct := "fireTransition(next=" + name(t.stNames, nx) + ")"
			var hold []*Path
			for _, p := range paths {
				if h, ok := p.Holds(env, nil); h && ok {
					hold = append(hold, p)
				}
			}
			if len(hold) != 1 {
				r.Undecided(rule, construct, fire.Pos(), "not decided by a unique path (%d)", len(hold))
				continue
			}
			var seq []string
			argsOK := true
			for _, in := range hold[0].Instrs() {
				c, ok := in.(ssa.CallInstruction)
				if !ok {
					continue
				}
				cal := calleeOf(c)
				switch {
				case isFn(emit)(cal):
					seq = append(seq, "emit")
					// the argument must be stateChange{prev,next}
					if !stateChangeOf(c.Common().Args[1], pprev, pnext) {
						argsOK = false
					}
				case cal.Dynamic && isFieldRef(c.Common().Value, fReact):
					seq = append(seq, "react")
					a := c.Common().Args
					if len(a) != 2 || a[0] != ssa.Value(pprev) || a[1] != ssa.Value(pnext) {
						argsOK = false
					}
				}
			}
			want := "react;emit"
			if nx == t.NC {
				want = "emit;react"
			}
			got := strings.Join(seq, ";")
			if got == want && argsOK {
				r.OK(rule, construct, hold[0].Exit.Pos(), "order %s with (prev,next) passed unchanged", got)
			} else {
				r.Fail(rule, construct, hold[0].Exit.Pos(), "effects %q (args ok=%v), required %q with the same (prev,next): the terminal notification must be enqueued before the reaction that stops the notifier, and each change is notified exactly once", got, argsOK, want)
			}
		}
	}
}

// stateChangeOf reports whether v is a stateChange value whose prev/next fields are exactly
// the given values (struct built in a local alloc then loaded).
func stateChangeOf(v ssa.Value, prev, next ssa.Value) bool {
	ld, ok := v.(*ssa.UnOp)
	if !ok || ld.Op != token.MUL {
		return false
	}
	a, ok := ld.X.(*ssa.Alloc)
	if !ok {
		return false
	}
	got := map[string]ssa.Value{}
	for _, ref := range *a.Referrers() {
		fa, ok := ref.(*ssa.FieldAddr)
		if !ok {
			continue
		}
		for _, r2 := range *fa.Referrers() {
			if st, ok := r2.(*ssa.Store); ok && st.Addr == fa {
				got[fieldOf(fa).Name()] = st.Val
			}
		}
	}
	return got["prev"] == prev && got["next"] == next
}

// ---------- R5 ----------

func c05CloseOrder(r *Run) {
	rule := r.aliased("C05-R5-close-order")
	w := r.W
	closeFn := w.Fn("hsms", "connection.Close")
	reqClose := w.Fn("hsms", "supervisor.requestClose")
	wait := w.Fn("hsms", "epoch.wait")
	stop := w.Fn("hsms", "supervisor.stop")
	inject := w.Fn("hsms", "supervisor.inject")
	fPub := w.Field("hsms", "connection", "publishMu")
	fShut := w.Field("hsms", "connection", "shutdown")
	fGen := w.Field("hsms", "connection", "reconnectGen")
	fCur := w.Field("hsms", "connection", "cur")
	fSupWg := w.Field("hsms", "connection", "supWg")
	fLoopWg := w.Field("hsms", "connection", "connectLoopWg")
	fCE := w.Field("hsms", "supervisor", "closeEpoch")
	r.Analysed(w.FnName(closeFn))
	r.Analysed(w.FnName(reqClose))

	find := func(fn *ssa.Function, pred func(ssa.CallInstruction) bool) []ssa.CallInstruction {
		var out []ssa.CallInstruction
		eachInstr(fn, func(in ssa.Instruction) {
			if c, ok := in.(ssa.CallInstruction); ok {
				if _, isDefer := in.(*ssa.Defer); isDefer {
					return
				}
				if pred(c) {
					out = append(out, c)
				}
			}
		})
		return out
	}
	one := func(what string, cs []ssa.CallInstruction) ssa.CallInstruction {
		if len(cs) != 1 {
			r.Undecided(rule, "Close: "+what, closeFn.Pos(), "expected exactly one %s in Close, found %d", what, len(cs))
			return nil
		}
		return cs[0]
	}
	lock := one("publishMu.Lock", find(closeFn, func(c ssa.CallInstruction) bool { return callIsAtomicMethodOn(c, fPub, "Lock") }))
	unlock := one("publishMu.Unlock", find(closeFn, func(c ssa.CallInstruction) bool { return callIsAtomicMethodOn(c, fPub, "Unlock") }))
	shut := one("shutdown.Store", find(closeFn, func(c ssa.CallInstruction) bool { return callIsAtomicMethodOn(c, fShut, "Store") }))
	gen := one("reconnectGen.Add", find(closeFn, func(c ssa.CallInstruction) bool { return callIsAtomicMethodOn(c, fGen, "Add") }))
	rc := one("requestClose", find(closeFn, func(c ssa.CallInstruction) bool { return isFn(reqClose)(calleeOf(c)) }))
	st := one("stop", find(closeFn, func(c ssa.CallInstruction) bool { return isFn(stop)(calleeOf(c)) }))
	sw := one("supWg.Wait", find(closeFn, func(c ssa.CallInstruction) bool { return callIsAtomicMethodOn(c, fSupWg, "Wait") }))
	lw := one("connectLoopWg.Wait", find(closeFn, func(c ssa.CallInstruction) bool { return callIsAtomicMethodOn(c, fLoopWg, "Wait") }))
	if lock == nil || unlock == nil || shut == nil || gen == nil || rc == nil || st == nil || sw == nil || lw == nil {
		return
	}
	// the e.wait() that follows requestClose (there is another on the idempotent re-close path)
	var wt ssa.CallInstruction
	for _, c := range find(closeFn, func(c ssa.CallInstruction) bool { return isFn(wait)(calleeOf(c)) }) {
		if instrDominates(rc, c) {
			wt = c
		}
	}
	if wt == nil {
		r.Fail(rule, "Close: e.wait after requestClose", rc.Pos(), "Close must wait for the pinned generation's teardown after requesting it")
		return
	}
	// the re-pin: cur.Load between Lock and Unlock whose result is the epoch passed to requestClose and waited on
	var repin *ssa.Call
	for _, c := range find(closeFn, func(c ssa.CallInstruction) bool { return callIsAtomicMethodOn(c, fCur, "Load") }) {
		if instrDominates(lock, c) && instrDominates(c, unlock) {
			repin, _ = c.(*ssa.Call)
		}
	}
	chain := []struct {
		a, b   ssa.Instruction
		an, bn string
		why    string
	}{
		{lock, gen, "publishMu.Lock", "reconnectGen.Add", "the fence is taken under publishMu (linearised against the reconnect loop's publish)"},
		{lock, shut, "publishMu.Lock", "shutdown.Store(true)", "the fence is taken under publishMu"},
		{gen, unlock, "reconnectGen.Add", "publishMu.Unlock", "fence inside the critical section"},
		{shut, unlock, "shutdown.Store(true)", "publishMu.Unlock", "fence inside the critical section"},
		{unlock, rc, "publishMu.Unlock", "requestClose", "publishMu is not held across the blocking part"},
		{shut, rc, "shutdown.Store(true)", "requestClose", "reconnect is fenced before the terminal event is injected, so the NotConnected reaction cannot start a reconnect"},
		{rc, wt, "requestClose", "e.wait", "the generation is torn down while the supervisor still drains events"},
		{wt, st, "e.wait", "sup.stop", "the supervisor outlives the generation (terminal notification delivered)"},
		{st, sw, "sup.stop", "supWg.Wait", "run and notifier are joined: no notification after Close returns"},
		{sw, lw, "supWg.Wait", "connectLoopWg.Wait", "reconnect loops joined last"},
	}
	for _, c := range chain {
		construct := "Close: " + c.an + " ≺ " + c.bn
		if instrDominates(c.a, c.b) {
			r.OK(rule, construct, c.b.Pos(), "%s", c.why)
		} else {
			r.Fail(rule, construct, c.b.Pos(), "%s does not precede %s on every path: %s", c.an, c.bn, c.why)
		}
	}
	if v, ok := shut.Common().Args[1].(*ssa.Const); ok && v.Value != nil && v.Value.String() == "true" {
		r.OK(rule, "Close: shutdown.Store(true)", shut.Pos(), "constant true")
	} else {
		r.Fail(rule, "Close: shutdown.Store(true)", shut.Pos(), "Close must set shutdown to true")
	}
	if repin == nil {
		r.Fail(rule, "Close: re-pin of the current generation under publishMu", lock.Pos(), "Close must re-load cur inside the publishMu section so that a just-published successor generation is the one torn down")
	} else {
		// the epoch given to requestClose / waited on must be that re-pinned value on every path
		arg := rc.Common().Args[1]
		recv := wt.Common().Args[0]
		if stripConv(arg) == ssa.Value(repin) && stripConv(recv) == ssa.Value(repin) {
			r.OK(rule, "Close: requestClose and wait use the re-pinned generation", rc.Pos(), "both take the value loaded under publishMu")
		} else {
			r.Fail(rule, "Close: requestClose and wait use the re-pinned generation", rc.Pos(), "requestClose(%s) / %s.wait() do not both use the generation re-loaded under publishMu", render(arg), render(recv))
		}
	}
	// requestClose: closeEpoch.Store(e) dominates inject(evClose)
	t := loadE37(w)
	var stCE, inj ssa.CallInstruction
	eachInstr(reqClose, func(in ssa.Instruction) {
		if c, ok := in.(ssa.CallInstruction); ok {
			if callIsAtomicMethodOn(c, fCE, "Store") {
				stCE = c
			}
			if isFn(inject)(calleeOf(c)) {
				inj = c
			}
		}
	})
	if stCE != nil && inj != nil && instrDominates(stCE, inj) && stCE.Common().Args[1] == ssa.Value(reqClose.Params[1]) {
		if ev, ok := constInt(inj.Common().Args[1]); ok && ev == t.Close {
			r.OK(rule, "requestClose: pin epoch ≺ inject(evClose)", inj.Pos(), "the event loop sees the pinned generation when it handles the close")
		} else {
			r.Fail(rule, "requestClose: injects evClose", inj.Pos(), "requestClose must inject the close event")
		}
	} else {
		r.Fail(rule, "requestClose: pin epoch ≺ inject(evClose)", reqClose.Pos(), "closeEpoch.Store(e) must dominate inject(evClose)")
	}
	// Close's early exits: ErrNotOpen for nil epoch; idempotent re-close guarded by runDone before requestClose
	fRunDone := w.Field("hsms", "supervisor", "runDone")
	guard := true
	nReach := 0
	cpaths, cok := enumPaths(closeFn, 5000)
	if !cok {
		guard = false
	}
	for _, p := range cpaths {
		if !p.Has(rc) {
			continue
		}
		nReach++
		// on this path: a non-blocking select on runDone was evaluated and its case NOT taken
		tested := false
		fSupC := w.Field("hsms", "connection", "sup")
		for _, c := range p.Conds {
			b, ok := c.Cond.(*ssa.BinOp)
			if ok && (b.Op == token.NEQ || b.Op == token.EQL) && atomicMethodOn(b.X, fSupC, "Load") && (b.Op == token.NEQ) != c.Val {
				tested = true // no supervisor on this path: nothing to re-close
			}
			if !ok || b.Op != token.EQL || c.Val {
				continue
			}
			ex, ok := b.X.(*ssa.Extract)
			if !ok || ex.Index != 0 {
				continue
			}
			if s, ok := ex.Tuple.(*ssa.Select); ok && !s.Blocking {
				for i, stt := range s.States {
					if k, _ := constInt(b.Y); isFieldRef(stt.Chan, fRunDone) && int(k) == i {
						tested = true
					}
				}
			}
		}
		if !tested {
			guard = false
		}
	}
	if nReach == 0 {
		guard = false
	}
	r.Check(guard, rule, "Close: idempotent re-close short-circuit on runDone before requestClose", closeFn.Pos(),
		"non-blocking runDone test dominates requestClose", "a re-Close must not inject a second close into a stopped supervisor")
}

// ---------- R6 ----------

func c05StateDefault(r *Run) {
	const rule = "C05-R6-state-default"
	w := r.W
	t := loadE37(w)
	fn := w.Fn("hsms", "connection.State")
	supState := w.Fn("hsms", "supervisor.State")
	fSup := w.Field("hsms", "connection", "sup")
	r.Analysed(w.FnName(fn))
	paths, ok := enumPaths(fn, 100)
	if !ok {
		r.Undecided(rule, "connection.State", fn.Pos(), "too many paths")
		return
	}
	for i, p := range paths {
		rets := p.Rets()
		if len(rets) != 1 {
			continue
		}
		construct := fmt.Sprintf("connection.State path %d [%s]", i, p.String())
		// nil-ness of sup on this path
		supNil := 0 // unknown
		for _, c := range p.Conds {
			if b, ok := c.Cond.(*ssa.BinOp); ok && (b.Op == token.EQL || b.Op == token.NEQ) {
				var other ssa.Value
				if cc, ok := b.Y.(*ssa.Const); ok && cc.IsNil() {
					other = b.X
				} else if cc, ok := b.X.(*ssa.Const); ok && cc.IsNil() {
					other = b.Y
				}
				if other != nil && atomicMethodOn(other, fSup, "Load") {
					isNil := (b.Op == token.EQL) == c.Val
					if isNil {
						supNil = 1
					} else {
						supNil = 2
					}
				}
			}
		}
		rv := rets[0]
		if k, ok := constInt(rv); ok {
			if supNil == 1 && k == t.NC {
				r.OK(rule, construct, p.Exit.Pos(), "no supervisor ⇒ NotConnected")
			} else {
				r.Fail(rule, construct, p.Exit.Pos(), "returns constant %s (supervisor nil=%v): before Open/after never-opened the state must be NotConnected, otherwise the live state", name(t.stNames, k), supNil == 1)
			}
			continue
		}
		if c, ok := rv.(*ssa.Call); ok && isFn(supState)(calleeOf(c)) && supNil == 2 {
			r.OK(rule, construct, p.Exit.Pos(), "live supervisor ⇒ its atomic state")
			continue
		}
		r.Fail(rule, construct, p.Exit.Pos(), "returns %s with supervisor nil-ness %d: expected NotConnected for nil, supervisor.State() otherwise", render(rv), supNil)
	}
	r.Floor(rule, "State paths", len(paths), 2)
	// supervisor.State as a function of the raw word (α): identity on the three E37 states,
	// an E37 state for every other constant the code can put in the word, one atomic read.
	al := c05Alpha(w, t)
	r.Analysed(w.FnName(supState))
	for _, u := range al.undec {
		r.Undecided(rule, "supervisor.State as a function of the state word", supState.Pos(), "%s", u)
	}
	r.Check(al.loads == 1, rule, "supervisor.State reads the state word once", supState.Pos(),
		"a single atomic Load decides the reported state",
		fmt.Sprintf("supervisor.State performs %d atomic reads of the state word: two reads can straddle a write and report a value the word never held as a state", al.loads))
	nImg := 0
	for _, st := range t.states() {
		img, ok := al.img[st]
		if !ok {
			continue
		}
		nImg++
		construct := "supervisor.State() when the word is " + name(t.stNames, st)
		if img == st {
			r.OK(rule, construct, supState.Pos(), "reports %s", name(t.stNames, img))
		} else {
			r.Fail(rule, construct, supState.Pos(), "reports %s: State() must report the E37 state the word holds", name(t.stNames, img))
		}
	}
	var sealedWords []int64
	for k := range al.sealed {
		sealedWords = append(sealedWords, k)
	}
	sort.Slice(sealedWords, func(i, j int) bool { return sealedWords[i] < sealedWords[j] })
	for _, k := range sealedWords {
		img := al.sealed[k]
		construct := fmt.Sprintf("supervisor.State() when the word is the internal value %d", k)
		if _, isSt := t.stNames[img]; isSt {
			r.OK(rule, construct, supState.Pos(), "reports %s (where that word may be written is decided by C05-R2/R3/R7)", name(t.stNames, img))
		} else {
			r.Fail(rule, construct, supState.Pos(), "reports %d, which is not one of NotConnected/NotSelected/Selected: a word the code stores or tests is shown to callers as a state that does not exist", img)
		}
	}
	r.Floor(rule, "E37 states with a decided State() image", nImg, 3)
	// IsSelected ⇔ State()==Selected
	isSel := w.Fn("hsms", "connection.IsSelected")
	good := false
	for _, ret := range returnsOf(isSel) {
		if b, ok := ret.Results[0].(*ssa.BinOp); ok && b.Op == token.EQL {
			var call ssa.Value
			var k int64
			var kok bool
			if k, kok = constInt(b.Y); kok {
				call = b.X
			} else if k, kok = constInt(b.X); kok {
				call = b.Y
			}
			if kok && k == t.S && isCallTo(call, isFn(fn)) {
				good = true
			}
		}
	}
	r.Check(good, rule, "connection.IsSelected = (State()==Selected)", isSel.Pos(), "the data gate reads the same state word", "IsSelected must be State()==SelectedState")
}

// ---------- R7 ----------

func c05PostCloseFence(r *Run) {
	const rule = "C05-R7-post-close-fence"
	w := r.W
	t := loadE37(w)
	state := w.Field("hsms", "supervisor", "state")
	step := w.Fn("hsms", "supervisor.step")
	al := c05Alpha(w, t)
	// P = the raw words the state can hold once step has handled evClose and latched: the
	// final word of every close cell of the extracted step table (C05-R3 decides that those
	// cells latch and that nothing in step runs afterwards).
	sc := c05StepCells(w, t)
	r.Analysed(w.FnName(step))
	if sc.tooMany {
		r.Undecided(rule, "post-close value of the state word", step.Pos(), "too many paths in supervisor.step")
		return
	}
	post := map[int64]bool{}
	nClose := 0
	for _, c := range sc.cells {
		if c.closed != 0 || c.ev != t.Close {
			continue
		}
		if c.undecided != "" {
			r.Undecided(rule, "post-close value of the state word in "+c.construct, step.Pos(), "%s", c.undecided)
			return
		}
		nClose++
		post[c.final] = true
	}
	r.Floor(rule, "close cells of step", nClose, 3*3*2*2*2)
	var ps []int64
	for k := range post {
		ps = append(ps, k)
	}
	sort.Slice(ps, func(i, j int) bool { return ps[i] < ps[j] })
	var pnames []string
	for _, p := range ps {
		pnames = append(pnames, al.wordName(t, p))
		img, ok := al.img[p]
		construct := "State() once step(evClose) has run, word = " + al.wordName(t, p)
		switch {
		case !ok:
			r.Undecided(rule, construct, step.Pos(), "supervisor.State has no decided image for this word")
		case img == t.NC:
			r.OK(rule, construct, step.Pos(), "reported as NotConnected")
		default:
			r.Fail(rule, construct, step.Pos(), "reported as %s: after Close the connection must report NotConnected", name(t.stNames, img))
		}
	}
	pset := "{" + strings.Join(pnames, ",") + "}"
	n := 0
	for _, u := range w.fieldUses(state) {
		if !w.IsProd(u.Fn) || sameFn(u.Fn, step) || u.Kind != "method:CompareAndSwap" {
			continue
		}
		n++
		c := u.Instr2.(ssa.CallInstruction)
		o, ok := constInt(c.Common().Args[1])
		construct := w.FnName(u.Fn) + ": CAS out of " + render(c.Common().Args[1])
		if !ok {
			r.Undecided(rule, construct, c.Pos(), "non-constant old value")
			continue
		}
		if !post[o] {
			r.OK(rule, construct, c.Pos(), "old=%s is not a post-close value %s: the CAS cannot succeed once step(evClose) has run", al.wordName(t, o), pset)
			continue
		}
		r.Fail(rule, construct, c.Pos(), "CAS %s→… has old = a post-close value %s and is not fenced by the closed latch: a commit that lands after step(evClose) moves State() away from NotConnected after Close", al.wordName(t, o), pset)
	}
	r.Floor(rule, "commit CAS sites outside step", n, 3)
}

// ---------- R8 ----------

func c05RuntimeWiring(r *Run) {
	const rule = "C05-R8-runtime-wiring"
	w := r.W
	t := loadE37(w)
	inject := w.Fn("hsms", "supervisor.inject")
	type wire struct {
		method string
		commit string // supervisor method expected to be called, or ""
		ev     int64  // or event injected
	}
	for _, wr := range []wire{
		{"connection.TCPUp", "supervisor.CommitConnected", -1},
		{"connection.CommitSelected", "supervisor.CommitSelected", -1},
		{"connection.SelectLost", "supervisor.CommitSelectLost", -1},
		{"connection.T7Expired", "", t.T7},
		{"connection.TCPDown", "", t.Disc},
	} {
		fn := w.Fn("hsms", wr.method)
		r.Analysed(w.FnName(fn))
		// every supervisor-affecting call in fn
		var got []string
		eachInstr(fn, func(in ssa.Instruction) {
			c, ok := in.(ssa.CallInstruction)
			if !ok {
				return
			}
			cal := calleeOf(c)
			if cal.Static == nil {
				return
			}
			if isFn(inject)(cal) {
				ev, _ := constInt(c.Common().Args[1])
				got = append(got, "inject("+name(t.evNames, ev)+")")
				return
			}
			if cal.Static.Signature.Recv() != nil && typeIs(cal.Static.Signature.Recv().Type(), modPath+"/hsms", "supervisor") {
				switch cal.Static.Name() {
				case "CommitConnected", "CommitSelected", "CommitSelectLost", "requestClose", "step":
					got = append(got, "supervisor."+cal.Static.Name())
				}
			}
		})
		want := wr.commit
		if want == "" {
			want = "inject(" + name(t.evNames, wr.ev) + ")"
		}
		if len(got) == 1 && got[0] == want {
			r.OK(rule, wr.method+" → "+want, fn.Pos(), "the runtime callback drives exactly its own cause")
		} else {
			r.Fail(rule, wr.method+" → "+want, fn.Pos(), "drives %v, expected exactly [%s]: a state change must take effect for its own cause only", got, want)
		}
	}
	// CommitSelected result is propagated (responders key their status on it)
	fn := w.Fn("hsms", "connection.CommitSelected")
	cs := w.Fn("hsms", "supervisor.CommitSelected")
	good := true
	nret := 0
	for _, ret := range returnsOf(fn) {
		nret++
		v := ret.Results[0]
		if isCallTo(v, isFn(cs)) {
			continue
		}
		if c, ok := v.(*ssa.Const); ok && c.Value != nil && c.Value.String() == "false" {
			continue
		}
		good = false
	}
	r.Check(good && nret >= 2, rule, "connection.CommitSelected returns the CAS outcome", fn.Pos(), "true only when this call committed", "must return supervisor.CommitSelected()'s result, false with no supervisor")
}
