package main

import (
	"fmt"
	"sort"
	"strings"

	"golang.org/x/tools/go/ssa"
)

// recursionGuards: every cycle of the static call graph among the fragment's functions
// must carry a depth parameter that (i) never decreases along the cycle's call edges,
// (ii) strictly increases on at least one edge of every cycle and (iii) is bounded by a
// constant at the call sites of at least one function of every cycle (a guard that
// dominates the recursive call). Then the recursion depth is bounded by that constant
// whatever the input. A cycle without such a parameter is a violation: its depth is
// whatever the input makes it.
func recursionGuards(r *Run, rule string, frag []*ssa.Function, minCycles int) {
	w := r.W
	inFrag := map[*ssa.Function]bool{}
	for _, f := range frag {
		inFrag[f] = true
	}
	type edge struct {
		from, to *ssa.Function
		call     ssa.CallInstruction
	}
	out := map[*ssa.Function][]edge{}
	for _, f := range frag {
		eachInstr(f, func(in ssa.Instruction) {
			if c, ok := in.(ssa.CallInstruction); ok {
				if cal := calleeOf(c); cal.Static != nil && inFrag[cal.Static] {
					out[f] = append(out[f], edge{f, cal.Static, c})
				}
			}
		})
	}
	// Tarjan SCC
	index := map[*ssa.Function]int{}
	low := map[*ssa.Function]int{}
	on := map[*ssa.Function]bool{}
	var stack []*ssa.Function
	var sccs [][]*ssa.Function
	n := 0
	var strong func(v *ssa.Function)
	strong = func(v *ssa.Function) {
		index[v], low[v] = n, n
		n++
		stack = append(stack, v)
		on[v] = true
		for _, e := range out[v] {
			if _, seen := index[e.to]; !seen {
				strong(e.to)
				if low[e.to] < low[v] {
					low[v] = low[e.to]
				}
			} else if on[e.to] && index[e.to] < low[v] {
				low[v] = index[e.to]
			}
		}
		if low[v] == index[v] {
			var comp []*ssa.Function
			for {
				x := stack[len(stack)-1]
				stack = stack[:len(stack)-1]
				on[x] = false
				comp = append(comp, x)
				if x == v {
					break
				}
			}
			sccs = append(sccs, comp)
		}
	}
	sorted := append([]*ssa.Function{}, frag...)
	sort.Slice(sorted, func(i, j int) bool { return sorted[i].String() < sorted[j].String() })
	for _, f := range sorted {
		if _, seen := index[f]; !seen {
			strong(f)
		}
	}
	e := newBndEngine(w, "recursion", frag, nil)
	nCycles := 0
	for _, comp := range sccs {
		in := map[*ssa.Function]bool{}
		for _, f := range comp {
			in[f] = true
		}
		var edges []edge
		for _, f := range comp {
			for _, ed := range out[f] {
				if in[ed.to] {
					edges = append(edges, ed)
				}
			}
		}
		if len(edges) == 0 {
			continue
		}
		nCycles++
		sort.Slice(comp, func(i, j int) bool { return comp[i].String() < comp[j].String() })
		var names []string
		for _, f := range comp {
			names = append(names, w.FnName(f))
			r.Analysed(w.FnName(f))
		}
		construct := "recursion cycle {" + strings.Join(names, ", ") + "}"
		ctxs := map[*ssa.Function]*fnCtx{}
		for _, f := range comp {
			ctxs[f] = e.newCtx(f, nil)
		}
		// candidate depth parameters
		var intParams [][]int
		total := 1
		for _, f := range comp {
			var ps []int
			for i, p := range f.Params {
				if isSlotInt(p.Type()) {
					ps = append(ps, i)
				}
			}
			intParams = append(intParams, ps)
			total *= len(ps)
		}
		if total == 0 || total > 4096 {
			r.Fail(rule, construct, comp[0].Pos(), "no integer parameter can carry a depth through this cycle: nothing bounds the recursion depth (stack exhaustion on hostile input is a fatal error)")
			continue
		}
		found := ""
		maxStep := int64(0)
		lastBound := int64(-1)
		assign := make([]int, len(comp))
		var try func(i int) bool
		check := func() (bool, string) {
			maxStep = 0
			d := map[*ssa.Function]int{}
			for i, f := range comp {
				d[f] = intParams[i][assign[i]]
			}
			inc := map[int]bool{} // edge index strictly increasing
			guard := map[*ssa.Function]int64{}
			guarded := map[*ssa.Function]bool{}
			for ei, ed := range edges {
				c := ctxs[ed.from]
				args := ed.call.Common().Args
				if d[ed.to] >= len(args) {
					return false, ""
				}
				la := c.lin(args[d[ed.to]])
				lp := c.lin(ed.from.Params[d[ed.from]])
				diff, ok := la.sub(lp)
				if !ok || !diff.isConst() || diff.K < 0 {
					return false, ""
				}
				if diff.K >= 1 {
					inc[ei] = true
				}
				if diff.K > maxStep {
					maxStep = diff.K
				}
			}
			// guards: the depth passed at every intra-cycle call site of f is bounded by a constant
			for _, f := range comp {
				c := ctxs[f]
				var sites []edge
				for _, ed := range edges {
					if ed.from == f {
						sites = append(sites, ed)
					}
				}
				if len(sites) == 0 {
					continue
				}
				// constants the depth parameter is compared with in f
				consts := map[int64]bool{}
				pid := c.id(f.Params[d[f]])
				eachInstr(f, func(in ssa.Instruction) {
					if b, ok := in.(*ssa.BinOp); ok && isIntType(b.X.Type()) {
						if dd, ok := c.lin(b.X).sub(c.lin(b.Y)); ok && len(dd.C) == 1 && (dd.C[pid] == 1 || dd.C[pid] == -1) {
							k := dd.K
							if dd.C[pid] == 1 {
								k = -k
							}
							for _, j := range []int64{-1, 0, 1, 2} {
								consts[k+j] = true
							}
						}
					}
				})
				var ks []int64
				for k := range consts {
					ks = append(ks, k)
				}
				sort.Slice(ks, func(i, j int) bool { return ks[i] < ks[j] })
				for _, k := range ks {
					all := true
					for _, ed := range sites {
						la := c.lin(ed.call.Common().Args[d[ed.to]])
						q, ok := leq(la, linConst(k), "depth ≤ K")
						if !ok || !c.proveAt(ed.call.Block(), blockIndexOf(ed.call), q) {
							all = false
							break
						}
					}
					if all {
						guarded[f] = true
						guard[f] = k
						break
					}
				}
			}
			// every cycle passes through a guarded function and through an increasing edge
			acyclicWithout := func(dropFn map[*ssa.Function]bool, dropEdge map[int]bool) bool {
				adj := map[*ssa.Function][]*ssa.Function{}
				for ei, ed := range edges {
					if dropEdge[ei] || dropFn[ed.from] || dropFn[ed.to] {
						continue
					}
					adj[ed.from] = append(adj[ed.from], ed.to)
				}
				state := map[*ssa.Function]int{}
				var dfs func(v *ssa.Function) bool
				dfs = func(v *ssa.Function) bool {
					state[v] = 1
					for _, x := range adj[v] {
						if state[x] == 1 || (state[x] == 0 && !dfs(x)) {
							return false
						}
					}
					state[v] = 2
					return true
				}
				for _, f := range comp {
					if state[f] == 0 && !dfs(f) {
						return false
					}
				}
				return true
			}
			if !acyclicWithout(guarded, nil) || !acyclicWithout(nil, inc) {
				return false, ""
			}
			lastBound = -1
			for f, g := range guard {
				if guarded[f] && g > lastBound {
					lastBound = g
				}
			}
			var parts []string
			for _, f := range comp {
				s := fmt.Sprintf("%s(%s)", f.Name(), f.Params[d[f]].Name())
				if guarded[f] {
					s += fmt.Sprintf(" passes depth ≤ %d", guard[f])
				}
				parts = append(parts, s)
			}
			return true, strings.Join(parts, "; ")
		}
		try = func(i int) bool {
			if i == len(comp) {
				ok, how := check()
				if ok {
					found = how
				}
				return ok
			}
			for k := range intParams[i] {
				assign[i] = k
				if try(i + 1) {
					return true
				}
			}
			return false
		}
		if try(0) {
			r.OK(rule, construct, comp[0].Pos(), "depth parameter increases round the cycle and is bounded where it is passed on: %s", found)
			if lim := w.ConstInt("secs2", "MaxListDepth"); true {
				r.Check(lastBound == lim, rule, construct+": nesting is bounded by exactly secs2.MaxListDepth", comp[0].Pos(), fmt.Sprint(lim), fmt.Sprintf("the recursion is entered with depth ≤ %d, the documented nesting limit is %d: items nested up to the limit must be accepted and deeper ones refused, by encoder-side, decoder and parser alike", lastBound, lim))
			}
			r.Check(maxStep == 1, rule, construct+": depth grows by exactly one per nesting level", comp[0].Pos(), "+1", fmt.Sprintf("a call passes depth+%d: the nesting limit that inputs actually meet is lower than the documented one, so items nested up to the limit are refused", maxStep))
		} else {
			r.Fail(rule, construct, comp[0].Pos(), "no parameter both increases round this cycle and is bounded by a constant before the recursive call: the recursion depth is controlled by the input (stack exhaustion is a fatal, unrecoverable error)")
		}
	}
	r.Floor(rule, "recursion cycles in the fragment", nCycles, minCycles)
}

// noExplicitPanic: no explicit panic and no unchecked type assertion in the fragment.
func noExplicitPanic(r *Run, rule string, frag []*ssa.Function, allow map[string]string) {
	n := 0
	for _, fn := range frag {
		eachInstr(fn, func(in ssa.Instruction) {
			switch x := in.(type) {
			case *ssa.Panic:
				if !x.Pos().IsValid() {
					return
				}
				if mi, ok := x.X.(*ssa.MakeInterface); ok {
					if c, ok := mi.X.(*ssa.Const); ok && strings.Contains(c.Value.String(), "blocking select matched no case") {
						return
					}
				}
				n++
				name := r.W.FnName(fn)
				if why, ok := allow[name]; ok {
					r.OK(rule, name+": explicit panic", x.Pos(), "%s", why)
				} else {
					r.Fail(rule, name+": explicit panic", x.Pos(), "code reachable from untrusted input must report errors, not panic")
				}
			case *ssa.TypeAssert:
				if x.CommaOk {
					return
				}
				if types_IsInterfaceIdentical(x) {
					return
				}
				n++
				r.Fail(rule, r.W.FnName(fn)+": unchecked type assertion "+render(x), x.Pos(), "an unchecked assertion panics when the dynamic type differs")
			}
		})
	}
	r.Stats[rule+":panic/assert sites"] = n
	r.Trivial(rule, fmt.Sprintf("scan of %d functions for explicit panic / unchecked assertion", len(frag)), 0, "%d sites found", n)
}
