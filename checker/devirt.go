package main

import (
	"go/token"
	"go/types"

	"golang.org/x/tools/go/ssa"
)

// staticOrFieldCallee resolves a call to its static callee, or — for a call through a
// func-typed struct field (a test seam such as transport.allocFrame) — to the single
// function every production store assigns to that field. Test code may override the
// field; the property is about the production wiring.
func (w *World) staticOrFieldCallee(call ssa.CallInstruction) *ssa.Function {
	cal := calleeOf(call)
	if cal.Static != nil {
		return cal.Static
	}
	if !cal.Dynamic {
		return nil
	}
	ld, ok := call.Common().Value.(*ssa.UnOp)
	if !ok || ld.Op != token.MUL {
		return nil
	}
	fa, ok := ld.X.(*ssa.FieldAddr)
	if !ok {
		return nil
	}
	f := fieldOf(fa)
	if f == nil {
		return nil
	}
	if w.devirtMemo == nil {
		w.devirtMemo = map[*types.Var]*ssa.Function{}
	}
	if fn, ok := w.devirtMemo[f.Origin()]; ok {
		return fn
	}
	var target *ssa.Function
	n, bad := 0, false
	for _, fn := range w.srcFns {
		if !w.IsProd(fn) {
			continue
		}
		eachInstr(fn, func(in ssa.Instruction) {
			st, ok := in.(*ssa.Store)
			if !ok {
				return
			}
			a, ok := st.Addr.(*ssa.FieldAddr)
			if !ok || !sameVar(fieldOf(a), f) {
				return
			}
			n++
			switch v := st.Val.(type) {
			case *ssa.Function:
				if target == nil || target == v {
					target = v
				} else {
					bad = true
				}
			default:
				bad = true
			}
		})
	}
	if bad || n == 0 {
		target = nil
	}
	w.devirtMemo[f.Origin()] = target
	return target
}
