package main

// Control-message layouts when the header is built by a shared helper (a factory that only
// validates its request and returns helper(req, stype, status)).

import (
	"fmt"
	"regexp"
	"strings"

	"golang.org/x/tools/go/ssa"
)

// helperLayout is the byte map a header-building helper produces on every success path, in
// terms of its own parameters.
type helperLayout struct {
	bytes []string
	reply string
	ok    bool
	why   string
}

func c08HelperLayout(w *World, h *ssa.Function) helperLayout {
	arr := localByteArray(h, 10)
	if arr == nil {
		return helperLayout{why: "helper has no unique local [10]byte"}
	}
	paths, ok := enumPaths(h, 200)
	if !ok {
		return helperLayout{why: "helper has too many paths"}
	}
	var out helperLayout
	n := 0
	for _, p := range paths {
		ret, isRet := p.Exit.(*ssa.Return)
		if !isRet || len(ret.Results) == 0 || isNilConst(p.Resolve(ret.Results[0])) {
			continue
		}
		m, okm := byteMapOnPath(p, arr, 10)
		if !okm {
			return helperLayout{why: "helper writes the header outside the layout vocabulary"}
		}
		okHdr, reply := false, "false"
		for _, in := range p.Instrs() {
			if st, ok := in.(*ssa.Store); ok {
				if fa, ok := st.Addr.(*ssa.FieldAddr); ok {
					switch fieldOf(fa).Name() {
					case "header":
						if loadOf(st.Val, arr) {
							okHdr = true
						}
					case "replyExpected":
						reply = renderWith(st.Val, p.Resolve)
					}
				}
			}
		}
		if !okHdr {
			return helperLayout{why: "helper does not store the header it built in the message it returns"}
		}
		if n > 0 && (strings.Join(m, ",") != strings.Join(out.bytes, ",") || reply != out.reply) {
			return helperLayout{why: "helper builds different headers on different paths"}
		}
		out.bytes, out.reply = m, reply
		n++
	}
	if n == 0 {
		return helperLayout{why: "helper has no success path"}
	}
	out.ok = true
	return out
}

func c08LayoutViaHelper(r *Run, rule string, fn *ssa.Function, want func(Env) []string, doms []dom, wantReply string) bool {
	w := r.W
	// the single in-package helper whose result the factory returns
	var helper *ssa.Function
	for _, c := range callsIn(fn, func(cl Callee) bool {
		return cl.Static != nil && fnPkgPath(cl.Static) == fnPkgPath(fn) && cl.Static != fn && localByteArray(cl.Static, 10) != nil
	}) {
		g := calleeOf(c).Static
		if helper != nil && helper != g {
			return false
		}
		helper = g
	}
	if helper == nil {
		return false
	}
	r.Analysed(w.FnName(helper))
	hl := c08HelperLayout(w, helper)
	if !hl.ok {
		r.Undecided(rule, w.FnName(fn)+": header built by "+helper.Name(), fn.Pos(), "%s", hl.why)
		return true
	}
	dt, ok := newDT(fn, 2000)
	if !ok {
		r.Undecided(rule, w.FnName(fn), fn.Pos(), "too many paths")
		return true
	}
	dt.Leaf = func(env Env, v ssa.Value, e *Evaluator) (int64, bool, bool) {
		if c, ok := v.(*ssa.Call); ok {
			if cal := calleeOf(c); cal.Static != nil && cal.Static.Name() == "Type" {
				val, has := env["type"]
				return val, has, true
			}
		}
		return 0, false, false
	}
	product(doms, func(env Env) {
		res := dt.Cell(env)
		construct := fmt.Sprintf("%s(%s) header bytes", fn.Name(), envString(env, domNames(doms)))
		if res.Err != "" {
			r.Undecided(rule, construct, res.Pos, "%s", res.Err)
			return
		}
		exp := want(env)
		if exp == nil {
			if len(res.Rets) >= 1 && res.Rets[0] == "0" {
				r.OK(rule, construct, res.Pos, "rejected (nil message)")
			} else {
				r.Fail(rule, construct, res.Pos, "must be rejected for this request type, returns %v", res.Rets)
			}
			return
		}
		rets := res.Path.Rets()
		var call *ssa.Call
		if len(rets) >= 1 {
			if c, ok := res.Path.Resolve(rets[0]).(*ssa.Call); ok && calleeOf(c).Static == helper {
				call = c
			}
		}
		if call == nil {
			r.Fail(rule, construct, res.Pos, "the factory does not return the message %s built", helper.Name())
			return
		}
		// substitute the helper's parameters by the arguments of this call
		sub := func(s string) string {
			for i, hp := range helper.Params {
				if i >= len(call.Call.Args) {
					break
				}
				actual := renderWith(call.Call.Args[i], res.Path.Resolve)
				re := regexp.MustCompile(`\$` + regexp.QuoteMeta(hp.Name()) + `\b`)
				s = re.ReplaceAllLiteralString(s, actual)
			}
			return s
		}
		m := make([]string, len(hl.bytes))
		for i, b := range hl.bytes {
			m[i] = sub(b)
		}
		reply := sub(hl.reply)
		if strings.Join(m, ",") != strings.Join(exp, ",") {
			r.Fail(rule, construct, res.Pos, "header bytes [%s] (built by %s), E37 requires [%s]", strings.Join(m, ", "), helper.Name(), strings.Join(exp, ", "))
			return
		}
		if reply != wantReply {
			r.Fail(rule, construct, res.Pos, "returned message must have replyExpected=%s (got %s)", wantReply, reply)
			return
		}
		r.OK(rule, construct, res.Pos, "[%s] replyExpected=%s (via %s)", strings.Join(m, ", "), reply, helper.Name())
	})
	return true
}
