package main

import (
	"fmt"
	"go/token"
	"go/types"
	"sort"
	"strings"

	"golang.org/x/tools/go/ssa"
)

func init() {
	p := registry["C02"]
	p.Rules = append(p.Rules,
		Rule{Name: "C02-R2-required-rejections", Doc: "at every success return of the item decoders the facts the E5 grammar demands are established: the format code is one of the defined codes, the length-byte count is ≥ 1, header and payload lie inside the input, the payload is a multiple of the element width, a localized string carries its 2-byte header, a list is nested no deeper than MaxListDepth", Run: c02Rejections},
		Rule{Name: "C02-R4-recursion-guard", Doc: "the only recursion reachable from Decode carries a depth parameter that increases per level and is bounded by a constant before the recursive call", Run: func(r *Run) { recursionGuards(r, "C02-R4-recursion-guard", secs2DecodeFragment(r.W), 1) }},
		Rule{Name: "C02-R5-entry-agreement", Doc: "Decode and DecodeOwned run the same decoder from position 0 / depth 0 with a fresh slab; Decode hands it a private copy of the input, DecodeOwned the caller's buffer; both map empty input to the empty item", Run: c02Entries},
		Rule{Name: "C02-R6-no-panic", Doc: "no explicit panic and no unchecked type assertion in the decode fragment", Run: func(r *Run) { noExplicitPanic(r, "C02-R6-no-panic", secs2DecodeFragment(r.W), nil) }},
	)
}

// successReturns: returns whose error result is the nil constant.
func successReturns(fn *ssa.Function) []*ssa.Return {
	var out []*ssa.Return
	for _, ret := range returnsOf(fn) {
		if len(ret.Results) == 0 {
			continue
		}
		last := ret.Results[len(ret.Results)-1]
		if c, ok := last.(*ssa.Const); ok && c.IsNil() && types.Identical(last.Type(), types.Universe.Lookup("error").Type()) {
			out = append(out, ret)
		}
	}
	return out
}

func c02Rejections(r *Run) {
	const rule = "C02-R2-required-rejections"
	w := r.W
	e := newBndEngine(w, "c02-rej", secs2DecodeFragment(w), nil)
	di := w.Fn("secs2", "decodeItem")
	r.Analysed(w.FnName(di))
	c := e.newCtx(di, nil)
	buf := byteSliceParam(di)
	if buf == nil {
		bail("decodeItem has no []byte parameter")
	}
	// roles, found semantically: the header byte is the element of the buffer loaded at the
	// position parameter; count = header & 3; code = header >> 2; length = the phi assembled
	// from the following bytes.
	var hdr ssa.Value
	var posParam *ssa.Parameter
	eachInstr(di, func(in ssa.Instruction) {
		if hdr != nil {
			return
		}
		if ld, ok := in.(*ssa.UnOp); ok && ld.Op == token.MUL {
			if ia, ok := ld.X.(*ssa.IndexAddr); ok && ia.X == ssa.Value(buf) {
				if p, ok := ia.Index.(*ssa.Parameter); ok {
					hdr, posParam = ld, p
				}
			}
		}
	})
	if hdr == nil {
		bail("decodeItem: header byte load buf[pos] not found")
	}
	var count, code ssa.Value
	eachInstr(di, func(in ssa.Instruction) {
		b, ok := in.(*ssa.BinOp)
		if !ok || b.X != hdr {
			return
		}
		if k, ok := constInt(b.Y); ok {
			if b.Op == token.AND && k == 3 {
				count = b
			}
			if b.Op == token.SHR && k == 2 {
				code = b
			}
		}
	})
	if count == nil || code == nil {
		bail("decodeItem: header&3 / header>>2 not found")
	}
	var length *ssa.Phi
	eachInstr(di, func(in ssa.Instruction) {
		phi, ok := in.(*ssa.Phi)
		if !ok || !isIntType(phi.Type()) || length != nil {
			return
		}
		fromBuf := 0
		for _, ed := range phi.Edges {
			if mentions(ed, func(v ssa.Value) bool {
				ia, ok := v.(*ssa.IndexAddr)
				return ok && ia.X == ssa.Value(buf)
			}) {
				fromBuf++
			}
		}
		if fromBuf >= 3 {
			length = phi
		}
	})
	if length == nil {
		bail("decodeItem: the length value assembled from 1..3 length bytes not found")
	}
	// the depth parameter: the one passed on incremented in the self-call
	var depthParam *ssa.Parameter
	eachInstr(di, func(in ssa.Instruction) {
		if call, ok := in.(*ssa.Call); ok && isFn(di)(calleeOf(call)) {
			for i, a := range call.Call.Args {
				if i < len(di.Params) && isIntType(a.Type()) {
					if d, ok := c.lin(a).sub(c.lin(di.Params[i])); ok && d.isConst() && d.K >= 1 {
						depthParam = di.Params[i]
					}
				}
			}
		}
	})
	maxDepth := w.ConstInt("secs2", "MaxListDepth")
	codes := map[string]int64{}
	for _, n := range []string{"List", "Binary", "Boolean", "ASCII", "JIS8", "LocalizedStr", "Int64", "Int8", "Int16", "Int32", "Float64", "Float32", "Uint64", "Uint8", "Uint16", "Uint32"} {
		codes[n] = w.ConstInt("secs2", n+"FormatCode")
	}
	lc := c.lin(count)
	lpos := c.lin(posParam)
	llen := c.lin(length)
	lbuf := c.linLen(buf)
	hdrEnd, _ := lpos.add(linConst(1))
	hdrEnd, _ = hdrEnd.add(lc)
	payEnd, _ := hdrEnd.add(llen)

	// which arm a return belongs to: the format code fixed by the must-facts at the return
	armOf := func(b *ssa.BasicBlock) (int64, bool) {
		for _, f := range c.facts[b] {
			if !f.Val {
				continue
			}
			if bo, ok := f.Cond.(*ssa.BinOp); ok && bo.Op == token.EQL {
				for _, pr := range [][2]ssa.Value{{bo.X, bo.Y}, {bo.Y, bo.X}} {
					if stripConv(pr[0]) == code || pr[0] == code {
						if k, ok := constInt(pr[1]); ok {
							return k, true
						}
					}
					if cv, ok := pr[0].(*ssa.Convert); ok && cv.X == code {
						if k, ok := constInt(pr[1]); ok {
							return k, true
						}
					}
				}
			}
		}
		return 0, false
	}
	name := func(k int64) string {
		for n, v := range codes {
			if v == k {
				return n
			}
		}
		return fmt.Sprintf("code %d", k)
	}
	type site struct {
		b   *ssa.BasicBlock
		idx int
		pos token.Pos
		why string
	}
	var sites []site
	for _, ret := range successReturns(di) {
		sites = append(sites, site{ret.Block(), len(ret.Block().Instrs) - 1, ret.Pos(), "return"})
	}
	// tail calls into the numeric decoders count as success exits of their arm
	numeric := map[*ssa.Function]bool{}
	for _, n := range []string{"decodeIntItem", "decodeUintItem", "decodeFloatItem"} {
		numeric[w.Fn("secs2", n)] = true
	}
	eachInstr(di, func(in ssa.Instruction) {
		if call, ok := in.(*ssa.Call); ok {
			if cal := calleeOf(call); cal.Static != nil && numeric[cal.Static] {
				sites = append(sites, site{call.Block(), blockIndexOf(call), call.Pos(), "hand-off to " + cal.Static.Name()})
			}
		}
	})
	seenArms := map[int64]bool{}
	prove := func(s site, construct string, q Ineq, ok bool, okMsg, failMsg string) {
		if ok && c.proveAt(s.b, s.idx, q) {
			r.OK(rule, construct, s.pos, "%s", okMsg)
		} else {
			r.Fail(rule, construct, s.pos, "%s", failMsg)
		}
	}
	for _, s := range sites {
		k, ok := armOf(s.b)
		if !ok {
			r.Fail(rule, fmt.Sprintf("decodeItem success exit (%s) without a decided format code", s.why), s.pos, "a success exit must lie in the arm of one defined format code (unknown codes are rejected)")
			continue
		}
		defined := false
		for _, v := range codes {
			if v == k {
				defined = true
			}
		}
		arm := name(k)
		seenArms[k] = true
		tag := fmt.Sprintf("decodeItem[%s] %s", arm, s.why)
		r.Check(defined, rule, tag+": format code is a defined E5 code", s.pos, fmt.Sprintf("code %d", k), fmt.Sprintf("format code %d is not an E5 item format", k))
		q, ok2 := leq(linConst(1), lc, "")
		prove(s, tag+": length-byte count ≥ 1", q, ok2, "zero length-byte count is rejected before this exit", "an item header with zero length bytes must be rejected")
		q, ok2 = leq(hdrEnd, lbuf, "")
		prove(s, tag+": header inside the input", q, ok2, "pos+1+count ≤ len", "a truncated header must be rejected")
		if strings.HasPrefix(s.why, "hand-off") {
			// the numeric decoder checks its own payload bounds (decided below at its returns)
		} else if arm != "List" {
			q, ok2 = leq(payEnd, lbuf, "")
			prove(s, tag+": payload inside the input", q, ok2, "pos+1+count+length ≤ len", "a truncated payload must be rejected")
		} else if depthParam != nil {
			q, ok2 = leq(c.lin(depthParam), linConst(maxDepth-1), "")
			prove(s, tag+": nesting ≤ MaxListDepth", q, ok2, fmt.Sprintf("depth+1 ≤ %d", maxDepth), "a list nested deeper than MaxListDepth must be rejected")
		} else {
			r.Fail(rule, tag+": nesting ≤ MaxListDepth", s.pos, "no depth parameter found")
		}
		if arm == "LocalizedStr" {
			q, ok2 = leq(linConst(2), llen, "")
			prove(s, tag+": length ≥ 2 (LSH)", q, ok2, "length ≥ 2", "a localized string shorter than its 2-byte header must be rejected")
		}
	}
	var missing []string
	for n, v := range codes {
		if !seenArms[v] {
			missing = append(missing, n)
		}
	}
	sort.Strings(missing)
	r.Check(len(missing) == 0, rule, "decodeItem: a success exit exists for every defined format code", di.Pos(), "16 codes", "no success exit for: "+strings.Join(missing, ", "))
	// numeric decoders: payload multiple of the element width, payload inside the input
	for fn := range numeric {
		r.Analysed(w.FnName(fn))
		b := byteSliceParam(fn)
		for _, env := range e.constEnvs(fn) {
			cc := e.newCtx(fn, env)
			var rem *ssa.BinOp
			eachInstr(fn, func(in ssa.Instruction) {
				if bo, ok := in.(*ssa.BinOp); ok && bo.Op == token.REM {
					if _, ok := bo.X.(*ssa.Parameter); ok {
						if _, ok := bo.Y.(*ssa.Parameter); ok {
							rem = bo
						}
					}
				}
			})
			if rem == nil {
				r.Fail(rule, fn.Name()+": length % byteSize", fn.Pos(), "the element-width check was not found")
				continue
			}
			for _, ret := range successReturns(fn) {
				tag := fmt.Sprintf("%s[%s] return", fn.Name(), cc.envS)
				la := cc.lin(rem)
				ok1 := la.isConst() && la.K == 0
				if !ok1 {
					q1, o1 := leq(la, linConst(0), "")
					q2, o2 := leq(linConst(0), la, "")
					ok1 = o1 && o2 && cc.proveAt(ret.Block(), len(ret.Block().Instrs)-1, q1) && cc.proveAt(ret.Block(), len(ret.Block().Instrs)-1, q2)
				}
				r.Check(ok1, rule, tag+": length % width = 0", ret.Pos(), "payload is a whole number of elements", "a payload that is not a multiple of the element width must be rejected")
				// pos+length ≤ len(owned): pos is the parameter added to length in the bounds test; use result1 = pos+length
				if len(ret.Results) >= 2 && b != nil {
					q, ok := leq(cc.lin(ret.Results[1]), cc.linLen(b), "")
					r.Check(ok && cc.proveAt(ret.Block(), len(ret.Block().Instrs)-1, q), rule, tag+": consumed prefix inside the input", ret.Pos(), "returned position ≤ len", "the consumed prefix must lie inside the input")
				}
			}
		}
	}
}

func c02Entries(r *Run) {
	const rule = "C02-R5-entry-agreement"
	w := r.W
	di := w.Fn("secs2", "decodeItem")
	emptyCtor := w.Fn("secs2", "NewEmptyItem")
	for _, name := range []string{"Decode", "DecodeOwned"} {
		fn := w.Fn("secs2", name)
		r.Analysed(w.FnName(fn))
		calls := callsIn(fn, isFn(di))
		if len(calls) != 1 {
			r.Fail(rule, name+": exactly one decodeItem call", fn.Pos(), fmt.Sprintf("found %d", len(calls)))
			continue
		}
		call := calls[0].(*ssa.Call)
		args := call.Call.Args
		p0, _ := constInt(args[1])
		_, okp := constInt(args[1])
		d0, okd := constInt(args[2])
		r.Check(okp && okd && p0 == 0 && d0 == 0, rule, name+": decodeItem(buf, 0, 0, slab)", call.Pos(), "starts at position 0, depth 0", "both entry points must start at position 0 and depth 0, got "+render(args[1])+", "+render(args[2]))
		_, fresh := args[3].(*ssa.Alloc)
		r.Check(fresh, rule, name+": fresh slab per call", call.Pos(), "new decodeSlab", "the slab must be a fresh allocation (no state shared between calls), got "+render(args[3]))
		switch name {
		case "Decode":
			cl, ok := args[0].(*ssa.Call)
			okClone := ok && calleeOf(cl).Static != nil && calleeOf(cl).Static.Pkg != nil && calleeOf(cl).Static.Pkg.Pkg.Path() == "bytes" && calleeOf(cl).Static.Name() == "Clone" && cl.Call.Args[0] == ssa.Value(fn.Params[0])
			r.Check(okClone, rule, "Decode: decodes a private copy of the input", call.Pos(), "bytes.Clone(data)", "Decode must copy its input before decoding (the result must not alias the caller's buffer), got "+render(args[0]))
		case "DecodeOwned":
			r.Check(args[0] == ssa.Value(fn.Params[0]), rule, "DecodeOwned: decodes the caller's buffer", call.Pos(), "data", "DecodeOwned must decode the very buffer it is given, got "+render(args[0]))
		}
		// empty input → NewEmptyItem(), nil ; otherwise the decoder's (item, err)
		paths, ok := enumPaths(fn, 100)
		if !ok {
			r.Undecided(rule, name+": paths", fn.Pos(), "too many paths")
			continue
		}
		for _, p := range paths {
			rets := p.Rets()
			usesDecoder := len(p.Calls(isFn(di))) == 1
			// what the path decided about len(data): an interval [lo, hi] (hi < 0: unbounded)
			lo, hi := int64(0), int64(-1)
			for _, f := range p.Conds {
				b, ok := f.Cond.(*ssa.BinOp)
				if !ok {
					continue
				}
				lc, ok := stripConv(b.X).(*ssa.Call)
				k, isK := constInt(b.Y)
				if !ok || !isK || calleeOf(lc).Builtin != "len" || lc.Call.Args[0] != ssa.Value(fn.Params[0]) {
					continue
				}
				op := b.Op
				if !f.Val {
					op = map[token.Token]token.Token{token.EQL: token.NEQ, token.NEQ: token.EQL, token.LSS: token.GEQ, token.GEQ: token.LSS, token.GTR: token.LEQ, token.LEQ: token.GTR}[op]
				}
				setHi := func(v int64) {
					if hi < 0 || v < hi {
						hi = v
					}
				}
				switch op {
				case token.EQL:
					lo = max(lo, k)
					setHi(k)
				case token.NEQ:
					if k == lo {
						lo = k + 1
					}
				case token.LSS:
					setHi(k - 1)
				case token.LEQ:
					setHi(k)
				case token.GTR:
					lo = max(lo, k+1)
				case token.GEQ:
					lo = max(lo, k)
				}
			}
			cond := p.String()
			if usesDecoder {
				okr := len(rets) == 2 && render(rets[0]) == render(call)+"#0" && render(rets[1]) == render(call)+"#2"
				r.Check(okr, rule, name+": returns the decoder's item and error", p.Exit.Pos(), "(item, err) of decodeItem", "must return decodeItem's item and error unchanged, got "+render(rets[0])+", "+render(rets[1]))
				r.Check(lo == 1 && hi < 0, rule, name+": every non-empty input goes to the decoder", p.Exit.Pos(), "len(data) ≥ 1", "the decoder must run for exactly the non-empty inputs; this path runs it under ["+cond+"]")
			} else {
				okr := len(rets) == 2 && isCallTo(stripConv(rets[0]), isFn(emptyCtor)) && render(rets[1]) == "nil"
				r.Check(okr && lo == 0 && hi == 0, rule, name+": empty input → empty item", p.Exit.Pos(), "len(data)==0 → NewEmptyItem(), nil", "the only path that skips the decoder must be len(data)==0 returning the empty item; path ["+cond+"]")
			}
		}
	}
	// DecodeOwnedFrame delegates to DecodeOwned
	dof := w.Fn("secs2", "DecodeOwnedFrame")
	do := w.Fn("secs2", "DecodeOwned")
	r.Check(len(callsIn(dof, isFn(do))) == 1, rule, "DecodeOwnedFrame delegates to DecodeOwned", dof.Pos(), "one call", "DecodeOwnedFrame must go through DecodeOwned")
}
