package main

import (
	"fmt"
	"go/token"
	"go/types"
	"strings"

	"golang.org/x/tools/go/ssa"
)

func init() {
	p := registry["C14"]
	p.Rules = append(p.Rules,
		Rule{Name: "C14-R3-recursion-guard", Doc: "every recursion cycle reachable from the parse entry points carries a depth parameter that increases per nesting level and is bounded by a constant before the recursive call (so nesting cannot exhaust the stack)", Run: func(r *Run) { recursionGuards(r, "C14-R3-recursion-guard", smlParseFragment(r.W), 1) }},
		Rule{Name: "C14-R4-error-positions", Doc: "every ParseError is built by newParseError from the parser's own input with an offset that is the current position or a position saved earlier; newParseError clamps the offset to len(input) and derives line/column by one scan of input[:offset] (line = 1 + newlines, col = 1 + bytes since the last newline)", Run: c14ErrorPositions},
		Rule{Name: "C14-R5-no-shared-state", Doc: "no function of package sml writes a package-level variable; Parser fields are written only through the receiver of Parser methods (or by option closures on the parser under construction); Encoder fields only in NewEncoder and option closures", Run: c14NoSharedState},
		Rule{Name: "C14-R6-no-panic", Doc: "no explicit panic and no unchecked type assertion in the parse fragment", Run: func(r *Run) { noExplicitPanic(r, "C14-R6-no-panic", smlParseFragment(r.W), nil) }},
	)
}

func c14ErrorPositions(r *Run) {
	const rule = "C14-R4-error-positions"
	w := r.W
	npe := w.Fn("sml", "newParseError")
	r.Analysed(w.FnName(npe))
	fPos := w.Field("sml", "Parser", "pos")
	fInput := w.Field("sml", "Parser", "input")
	pe := w.Named("sml", "ParseError")
	// 1. every ParseError literal is built in newParseError
	nLit := 0
	for _, fn := range w.FnsInPkg("sml") {
		eachInstr(fn, func(in ssa.Instruction) {
			if a, ok := in.(*ssa.Alloc); ok {
				if n, ok := derefType(a.Type()).(*types.Named); ok && n.Origin() == pe.Origin() {
					nLit++
					r.Check(sameFn(fn, npe), rule, "ParseError literal in "+w.FnName(fn), a.Pos(), "built by newParseError", "a ParseError must be built by newParseError so that offset, line and column stay consistent")
				}
			}
		})
	}
	r.Floor(rule, "ParseError literals", nLit, 1)
	// 2. callers of newParseError: input is the parser's input, offset is p.pos or a parameter that
	//    itself is p.pos / a saved p.pos at every call site
	isPosLoad := func(v ssa.Value) bool {
		ld, ok := v.(*ssa.UnOp)
		return ok && ld.Op == token.MUL && isFieldRef(ld.X, fPos)
	}
	var offsetOK func(v ssa.Value, fn *ssa.Function, depth int) (bool, string)
	offsetOK = func(v ssa.Value, fn *ssa.Function, depth int) (bool, string) {
		if isPosLoad(v) {
			return true, "p.pos"
		}
		if p, ok := v.(*ssa.Parameter); ok && depth < 3 {
			idx := -1
			for i, q := range fn.Params {
				if q == p {
					idx = i
				}
			}
			uses := w.usesOf(fn)
			if idx < 0 || len(uses) == 0 {
				return false, "parameter with no visible caller"
			}
			for _, u := range uses {
				if !w.IsProd(u.Fn) {
					continue
				}
				call, ok := u.Instr.(ssa.CallInstruction)
				if !ok || u.Kind != "call" {
					return false, "used as a value"
				}
				if ok2, why := offsetOK(call.Common().Args[idx], u.Fn, depth+1); !ok2 {
					return false, "caller " + w.FnName(u.Fn) + " passes " + why
				}
			}
			return true, "parameter that is p.pos at every call site"
		}
		return false, render(v)
	}
	nCalls := 0
	for _, u := range w.usesOf(npe) {
		if !w.IsProd(u.Fn) {
			continue
		}
		call, ok := u.Instr.(ssa.CallInstruction)
		if !ok {
			r.Fail(rule, "newParseError used as a value in "+w.FnName(u.Fn), u.Pos(), "must be called directly")
			continue
		}
		nCalls++
		args := call.Common().Args
		ld, ok := args[0].(*ssa.UnOp)
		r.Check(ok && ld.Op == token.MUL && isFieldRef(ld.X, fInput), rule, "newParseError input argument in "+w.FnName(u.Fn), u.Pos(), "p.input", "line/column must be computed on the parser's own input, got "+render(args[0]))
		ok2, why := offsetOK(args[1], u.Fn, 0)
		r.Check(ok2, rule, "newParseError offset argument in "+w.FnName(u.Fn), u.Pos(), why, "the error offset must be the parser position (or one saved earlier), got "+why)
	}
	r.Floor(rule, "newParseError call sites", nCalls, 1)
	// offsets are relative to the caller's text: the parser's input is the entry point's argument,
	// stored unchanged (a trimmed or re-sliced copy would shift every reported position)
	nIn := 0
	for _, fu := range w.fieldUses(fInput) {
		if fu.Kind != "store" || !w.IsProd(fu.Fn) {
			continue
		}
		nIn++
		st := fu.Instr2.(*ssa.Store)
		_, isParam := st.Val.(*ssa.Parameter)
		r.Check(isParam, rule, "Parser.input stored in "+w.FnName(fu.Fn), st.Pos(), "the caller's string, unchanged", "the text positions are reported against must be exactly the string the caller passed, stores "+render(st.Val))
		if isParam {
			// and every caller passes its own parameter on unchanged
			idx := paramIndexOf(st.Val.(*ssa.Parameter))
			for _, u := range w.usesOf(fu.Fn) {
				if !w.IsProd(u.Fn) {
					continue
				}
				if call, ok := u.Instr.(ssa.CallInstruction); ok && idx < len(call.Common().Args) {
					_, p2 := call.Common().Args[idx].(*ssa.Parameter)
					r.Check(p2, rule, "input handed to "+fu.Fn.Name()+" by "+w.FnName(u.Fn), u.Pos(), "the entry point's own argument", "the parser must be initialised with the caller's text unchanged, passes "+render(call.Common().Args[idx]))
				}
			}
		}
	}
	r.Floor(rule, "stores to Parser.input", nIn, 1)
	// saved positions: locals passed to errfAt are loads of p.pos taken earlier (start := p.pos)
	errfAt := w.Fn("sml", "Parser.errfAt")
	for _, u := range w.usesOf(errfAt) {
		if !w.IsProd(u.Fn) || sameFn(u.Fn, w.Fn("sml", "Parser.errf")) {
			continue
		}
		call, ok := u.Instr.(ssa.CallInstruction)
		if !ok {
			continue
		}
		off := call.Common().Args[1]
		r.Check(isPosLoad(off), rule, "errfAt offset in "+w.FnName(u.Fn), u.Pos(), "a p.pos value saved before the item was consumed", "errfAt must be given a saved parser position, got "+render(off))
	}
	// 3. newParseError: clamp and scan
	paths, ok := enumPaths(npe, 200)
	if !ok {
		r.Undecided(rule, "newParseError paths", npe.Pos(), "too many paths")
		return
	}
	_ = paths
	hs := loopHeaders(npe)
	if len(hs) != 1 {
		r.Fail(rule, "newParseError: one scan loop", npe.Pos(), fmt.Sprintf("found %d loops", len(hs)))
		return
	}
	h := hs[0]
	in0, off0 := npe.Params[0], npe.Params[1]
	// the offset used by the loop and stored in the result: phi(offset, len(input)) guarded by offset > len(input)
	var offPhi *ssa.Phi
	eachInstr(npe, func(in ssa.Instruction) {
		if phi, ok := in.(*ssa.Phi); ok && !h.Dominates(phi.Block()) || ok && phi.Block() != h {
			if ok && len(phi.Edges) == 2 {
				a, b := render(phi.Edges[0]), render(phi.Edges[1])
				if (a == "$"+off0.Name() && b == "len($"+in0.Name()+")") || (b == "$"+off0.Name() && a == "len($"+in0.Name()+")") {
					offPhi = phi
				}
			}
		}
	})
	if offPhi == nil {
		r.Fail(rule, "newParseError: offset clamped to len(input)", npe.Pos(), "the clamp `if offset > len(input) { offset = len(input) }` was not found")
		return
	}
	// which edge carries len(input): its predecessor must be dominated by (offset > len(input)) = true
	clampOK := false
	for k, pb := range offPhi.Block().Preds {
		if render(offPhi.Edges[k]) == "len($"+in0.Name()+")" {
			for _, f := range factsIn(npe)[pb] {
				_ = f
			}
			fs := bndMustFacts(npe)[pb]
			for _, f := range fs {
				s := render(f.Cond)
				if f.Val && (s == "(len($"+in0.Name()+") < $"+off0.Name()+")") {
					clampOK = true
				}
			}
			// the block that assigns may be the branch target itself
			if len(pb.Preds) == 1 {
				if iff, ok := pb.Preds[0].Instrs[len(pb.Preds[0].Instrs)-1].(*ssa.If); ok {
					s := render(iff.Cond)
					if s == "(len($"+in0.Name()+") < $"+off0.Name()+")" && pb.Preds[0].Succs[0] == pb {
						clampOK = true
					}
				}
			}
		}
	}
	r.Check(clampOK, rule, "newParseError: offset clamped to len(input)", offPhi.Pos(), "offset > len(input) ⇒ offset = len(input)", "the reported offset must never exceed len(input)")
	// loop-carried line / col / i
	var phis []*ssa.Phi
	for _, in := range h.Instrs {
		if phi, ok := in.(*ssa.Phi); ok {
			phis = append(phis, phi)
		}
	}
	iter, ok := enumIterPaths(npe, h, 100)
	if !ok || len(phis) != 3 {
		r.Fail(rule, "newParseError: scan loop carries (line, col, i)", h.Instrs[0].Pos(), fmt.Sprintf("expected three loop-carried values, found %d", len(phis)))
		return
	}
	// classify phis by their entry values and updates
	type upd struct{ nl, other string }
	got := map[string]upd{}
	entry := map[string]string{}
	for _, phi := range phis {
		for k, pb := range h.Preds {
			if !h.Dominates(pb) {
				entry[phi.Comment] = render(phi.Edges[k])
			}
		}
	}
	exitOK := false
	for _, p := range iter {
		cond := strings.Join(p.CondStrings(), " ∧ ")
		if p.Exit != nil {
			// loop exit: must be i ≥ offset (rendered as !(i < offset))
			if strings.Contains(cond, "!(") {
				exitOK = true
			}
			continue
		}
		isNL := strings.Contains(cond, "== 10") && !strings.Contains(cond, "!(") || strings.Contains(cond, "(10:byte ==") && !strings.Contains(cond, "!((10")
		for _, phi := range phis {
			nv := p.NextIter(phi)
			s := renderWith(nv, func(v ssa.Value) ssa.Value { return v })
			// express relative to the phi itself
			s = strings.ReplaceAll(s, render(phi), "self")
			u := got[phi.Comment]
			if isNL {
				u.nl = s
			} else {
				u.other = s
			}
			got[phi.Comment] = u
		}
	}
	_ = exitOK
	// expected: line: entry 1, nl → self+1, other → self; col: entry 1, nl → 1, other → self+1; i: entry 0, +1 both
	want := map[string][3]string{"line": {"1", "(1 + self)", "self"}, "col": {"1", "1", "(1 + self)"}, "i": {"0", "(1 + self)", "(1 + self)"}}
	for name, wv := range want {
		u, ok := got[name]
		okv := ok && entry[name] == wv[0] && u.nl == wv[1] && u.other == wv[2]
		r.Check(okv, rule, "newParseError scan: "+name, h.Instrs[0].Pos(), fmt.Sprintf("starts at %s; on '\\n' → %s; otherwise → %s", wv[0], wv[1], wv[2]), fmt.Sprintf("%s must start at %s and become %s on a newline, %s otherwise; found start=%s newline→%s other→%s", name, wv[0], wv[1], wv[2], entry[name], u.nl, u.other))
	}
	// the loop bound is the clamped offset and the scanned string is the input parameter
	boundOK, scanOK := false, false
	eachInstr(npe, func(in ssa.Instruction) {
		if b, ok := in.(*ssa.BinOp); ok && b.Op == token.LSS && b.Y == ssa.Value(offPhi) {
			boundOK = true
		}
		if lk, ok := in.(*ssa.Lookup); ok && lk.X == ssa.Value(in0) {
			scanOK = true
		}
		if ix, ok := in.(*ssa.Index); ok && ix.X == ssa.Value(in0) {
			scanOK = true
		}
	})
	r.Check(boundOK && scanOK, rule, "newParseError scan: over input[:offset]", npe.Pos(), "i < clamped offset, reads input[i]", "line/column must be computed from exactly the first `offset` bytes of the input")
	// the result carries the clamped offset and the scanned line/col
	for _, st := range npe.Blocks {
		for _, in := range st.Instrs {
			if s, ok := in.(*ssa.Store); ok {
				if fa, ok := s.Addr.(*ssa.FieldAddr); ok {
					switch fieldOf(fa).Name() {
					case "Offset":
						r.Check(s.Val == ssa.Value(offPhi), rule, "ParseError.Offset = clamped offset", s.Pos(), "clamped", "Offset must be the clamped offset, got "+render(s.Val))
					case "Line", "Col":
						phi, ok := s.Val.(*ssa.Phi)
						r.Check(ok && phi.Block() == h && strings.EqualFold(phi.Comment, fieldOf(fa).Name()), rule, "ParseError."+fieldOf(fa).Name()+" = scanned value", s.Pos(), "loop result", "must be the scan's "+strings.ToLower(fieldOf(fa).Name())+", got "+render(s.Val))
					}
				}
			}
		}
	}
}

// isPlainData: basic values, strings and arrays/structs of them — no pointer, map, slice,
// channel, function, interface or sync primitive inside.
func isPlainData(t types.Type) bool {
	switch u := t.Underlying().(type) {
	case *types.Basic:
		return true
	case *types.Array:
		return isPlainData(u.Elem())
	case *types.Struct:
		if n, ok := t.(*types.Named); ok && n.Obj().Pkg() != nil && (n.Obj().Pkg().Path() == "sync" || n.Obj().Pkg().Path() == "sync/atomic") {
			return false
		}
		for i := 0; i < u.NumFields(); i++ {
			if !isPlainData(u.Field(i).Type()) {
				return false
			}
		}
		return true
	}
	return false
}

func c14NoSharedState(r *Run) {
	const rule = "C14-R5-no-shared-state"
	w := r.W
	parser := w.Named("sml", "Parser")
	encoder := w.Named("sml", "Encoder")
	nStores, nGlobals := 0, 0
	rootOf := func(v ssa.Value) ssa.Value {
		for {
			switch x := v.(type) {
			case *ssa.FieldAddr:
				v = x.X
			case *ssa.IndexAddr:
				v = x.X
			default:
				return v
			}
		}
	}
	for _, fn := range w.FnsInPkg("sml") {
		if !w.IsProd(fn) {
			continue
		}
		r.Analysed(w.FnName(fn))
		eachInstr(fn, func(in ssa.Instruction) {
			st, ok := in.(*ssa.Store)
			if !ok {
				return
			}
			root := rootOf(st.Addr)
			if g, ok := root.(*ssa.Global); ok {
				nGlobals++
				if fn.Name() == "init" {
					r.OK(rule, "package variable "+g.Name()+" initialised", st.Pos(), "package initialiser")
				} else {
					r.Fail(rule, "write to package variable "+g.Name()+" in "+w.FnName(fn), st.Pos(), "parser/encoder instances must not share mutable state")
				}
				return
			}
			fa, ok := st.Addr.(*ssa.FieldAddr)
			if !ok {
				return
			}
			n, ok := derefType(fa.X.Type()).(*types.Named)
			if !ok {
				return
			}
			switch n.Origin() {
			case parser.Origin():
				nStores++
				recv := fn.Signature.Recv() != nil && len(fn.Params) > 0 && fa.X == ssa.Value(fn.Params[0])
				optClosure := fn.Parent() != nil && len(fn.Params) == 1 && fa.X == ssa.Value(fn.Params[0]) // func(p *Parser) {...} option
				r.Check(recv || optClosure, rule, "store to Parser."+fieldOf(fa).Name()+" in "+w.FnName(fn), st.Pos(), "own receiver / parser under construction", "Parser state may be written only through the method receiver or by an option on the parser being built")
			case encoder.Origin():
				nStores++
				_, fresh := fa.X.(*ssa.Alloc)
				optClosure := fn.Parent() != nil && len(fn.Params) == 1 && fa.X == ssa.Value(fn.Params[0])
				r.Check((fresh && fn.Name() == "NewEncoder") || optClosure, rule, "store to Encoder."+fieldOf(fa).Name()+" in "+w.FnName(fn), st.Pos(), "constructor / option", "an Encoder is immutable after construction")
			}
		})
	}
	r.Floor(rule, "stores to Parser/Encoder fields", nStores, 10)
	// package-level variables *used* by the parse/encode code: only error sentinels (loaded,
	// never stored) and read-only tables may be referenced — a pool, cache or map shared by
	// all instances is mutable state even when no Store to the variable itself exists
	nGlobRefs := 0
	for _, fn := range w.FnsInPkg("sml") {
		if !w.IsProd(fn) || fn.Name() == "init" {
			continue
		}
		seen := map[*ssa.Global]bool{}
		eachInstr(fn, func(in ssa.Instruction) {
			for _, op := range in.Operands(nil) {
				g, ok := (*op).(*ssa.Global)
				if !ok || seen[g] {
					continue
				}
				seen[g] = true
				nGlobRefs++
				t := derefType(g.Type())
				construct := "package variable " + g.Name() + " referenced in " + w.FnName(fn)
				switch {
				case isErrorType(t):
					r.OK(rule, construct, in.Pos(), "error sentinel")
				case isPlainData(t):
					r.OK(rule, construct, in.Pos(), "plain data of type %s (writes are decided above)", typeShort(t))
				default:
					r.Fail(rule, construct, in.Pos(), "a package-level %s is state shared by every parser/encoder instance", typeShort(t))
				}
			}
		})
	}
	r.Stats[rule+":package-variable references"] = nGlobRefs
	r.Stats[rule+":package-variable stores"] = nGlobals
	// option closures run only inside the constructors
	for _, ctor := range []string{"NewParser", "NewEncoder"} {
		fn := w.Fn("sml", ctor)
		dyn := 0
		eachInstr(fn, func(in ssa.Instruction) {
			if c, ok := in.(*ssa.Call); ok && calleeOf(c).Dynamic {
				dyn++
				_, fresh := c.Call.Args[0].(*ssa.Alloc)
				r.Check(fresh, rule, ctor+": options applied to the object under construction", c.Pos(), "fresh object", "options must be applied to the freshly allocated object only")
			}
		})
		r.Floor(rule, ctor+" option applications", dyn, 1)
	}
}
