package main

// Rules motivated by surviving mutants of the mutation campaign (tools/mutgen):
//   C15-R6 — nesting depth: both list renderers recurse exactly one level deeper
//   C16-R12 — signed arguments of unsigned items: refused iff negative (zero is accepted)

import (
	"fmt"
	"go/token"
	"go/types"
	"strings"

	"golang.org/x/tools/go/ssa"
)

func init() {
	registry["C15"].Rules = append(registry["C15"].Rules,
		Rule{Name: "C15-R6-nesting-depth", Doc: "both list renderers start at depth 0, pass depth+1 — exactly — to every child (nested lists and leaves alike), compute the list's own indentation from depth and the children's from depth+1, and the encoder's item dispatcher hands its depth to the list renderer unchanged: a list nested n deep is indented by n units in both", Run: c15NestingDepth})
	registry["C16"].Rules = append(registry["C16"].Rules,
		Rule{Name: "C16-R12-unsigned-accepts-zero", Doc: "a signed argument of an unsigned item is converted only when it was found ≥ 0, and 0 itself is still accepted: negative values are errors, zero is a value", Run: c16UnsignedZero})
}

// linIn returns the linear form of v inside fn (captured write-once variables are single atoms).
func linIn(w *World, fn *ssa.Function, v ssa.Value) (string, bool) {
	e := newBndEngine(w, "lin-"+fn.Name(), []*ssa.Function{fn}, nil)
	c := e.newCtx(fn, nil)
	l := c.lin(v)
	return l.String(), true
}

func c15NestingDepth(r *Run) {
	const rule = "C15-R6-nesting-depth"
	w := r.W
	el := w.Fn("sml", "Encoder.encodeList")
	ei := w.Fn("sml", "Encoder.encodeItem")
	fs := w.Fn("secs2", "ListItem.formatSML")
	r.Analysed(w.FnName(el))
	r.Analysed(w.FnName(ei))
	r.Analysed(w.FnName(fs))
	// where the recursion's depth argument is, and what it must be in terms of the caller's own depth
	depthParam := func(fn *ssa.Function) *ssa.Parameter {
		for _, p := range fn.Params {
			if isIntType(p.Type()) {
				return p
			}
		}
		return nil
	}
	// expected rendering of "own depth" inside fn or one of its closures
	ownDepth := func(fn *ssa.Function) []string {
		root := fn
		for root.Parent() != nil {
			root = root.Parent()
		}
		p := depthParam(root)
		if p == nil {
			return nil
		}
		return []string{"$" + p.Name(), "^" + p.Name()}
	}
	var isOwn func(fn *ssa.Function, v ssa.Value) bool
	isOwn = func(fn *ssa.Function, v ssa.Value) bool {
		root := fn
		for root.Parent() != nil {
			root = root.Parent()
		}
		p := depthParam(root)
		v = resolveCell(v)
		if v == ssa.Value(p) {
			return true
		}
		// inside a closure: a load of the captured, write-once depth variable
		if u, ok := v.(*ssa.UnOp); ok && u.Op == token.MUL {
			if fv, ok := u.X.(*ssa.FreeVar); ok && stableCapturedCell(fv) {
				if al, ok := freeVarBindings(fv)[0].(*ssa.Alloc); ok {
					for _, ref := range *al.Referrers() {
						if st, ok := ref.(*ssa.Store); ok && st.Addr == ssa.Value(al) {
							return st.Val == ssa.Value(p)
						}
					}
				}
			}
		}
		return false
	}
	isOwnPlus := func(fn *ssa.Function, v ssa.Value, k int64) bool {
		if k == 0 {
			return isOwn(fn, v)
		}
		b, ok := v.(*ssa.BinOp)
		if !ok || b.Op != token.ADD {
			return false
		}
		if c, isK := constInt(b.Y); isK && c == k && isOwn(fn, b.X) {
			return true
		}
		if c, isK := constInt(b.X); isK && c == k && isOwn(fn, b.Y) {
			return true
		}
		return false
	}
	_ = ownDepth
	n := 0
	// every call of a renderer that takes a depth
	for _, callee := range []*ssa.Function{ei, el, fs} {
		dp := depthParam(callee)
		if dp == nil {
			r.Undecided(rule, w.FnName(callee)+": depth parameter", callee.Pos(), "not found")
			continue
		}
		idx := -1
		for i, p := range callee.Params {
			if p == dp {
				idx = i
			}
		}
		for _, u := range w.usesOf(callee) {
			c, ok := u.Instr.(ssa.CallInstruction)
			if !ok || !w.IsProd(u.Fn) || idx >= len(c.Common().Args) {
				continue
			}
			n++
			arg := c.Common().Args[idx]
			caller := u.Fn
			root := caller
			for root.Parent() != nil {
				root = root.Parent()
			}
			construct := fmt.Sprintf("%s → %s: depth argument %s", w.FnName(caller), callee.Name(), shortRender(arg))
			switch {
			case root == ei && callee == el:
				// the dispatcher hands its own depth on unchanged
				r.Check(isOwnPlus(caller, arg, 0), rule, construct, c.Pos(), "own depth", "the item dispatcher must hand its depth to the list renderer unchanged")
			case root == el || root == fs:
				// a list renders its children one level deeper
				r.Check(isOwnPlus(caller, arg, 1), rule, construct, c.Pos(), "own depth + 1", "children of a list are rendered exactly one level deeper than the list")
			default:
				// an entry point starts at depth 0
				k, isK := constInt(arg)
				r.Check(isK && k == 0, rule, construct, c.Pos(), "0", "rendering starts at depth 0")
			}
		}
	}
	r.Floor(rule, "calls that pass a nesting depth", n, 5)
	// the indentation strings: Repeat(unit, depth) for the list itself, Repeat(unit, depth+1) (or
	// the list's own indentation followed by one unit) for its leaf children
	for _, fn := range []*ssa.Function{el, fs} {
		var reps []int64
		bad := false
		eachInstrDeep(fn, func(in ssa.Instruction) {
			c, ok := in.(*ssa.Call)
			if !ok || calleeOf(c).Static == nil || fnPkgPath(calleeOf(c).Static) != "strings" || calleeOf(c).Static.Name() != "Repeat" {
				return
			}
			host := in.Parent()
			switch {
			case isOwnPlus(host, c.Call.Args[1], 0):
				reps = append(reps, 0)
			case isOwnPlus(host, c.Call.Args[1], 1):
				reps = append(reps, 1)
			default:
				bad = true
			}
		})
		has0 := false
		for _, k := range reps {
			if k == 0 {
				has0 = true
			}
		}
		r.Check(!bad && has0, rule, w.FnName(fn)+": indentation is a function of depth and depth+1 only", fn.Pos(), fmt.Sprint(reps), "an indentation string is computed from something other than the list's depth or depth+1")
	}
}

func c16UnsignedZero(r *Run) {
	const rule = "C16-R12-unsigned-accepts-zero"
	w := r.W
	n := 0
	for _, name := range []string{"UintItem.combineUintValues", "UintItem.combineUintValuesSlow"} {
		fn := w.Fn("secs2", name)
		r.Analysed(w.FnName(fn))
		e := newBndEngine(w, "c16-u0-"+name, []*ssa.Function{fn}, nil)
		e.entries[fn] = true
		e.run()
		if len(e.ctxs[fn]) == 0 {
			r.Undecided(rule, name+" analysed", fn.Pos(), "no context")
			continue
		}
		c := e.ctxs[fn][0]
		eachInstr(fn, func(in ssa.Instruction) {
			cv, ok := in.(*ssa.Convert)
			if !ok || !isIntType(cv.X.Type()) || isUnsigned(cv.X.Type()) || !isIntType(cv.Type()) || !isUnsigned(cv.Type()) {
				return
			}
			if b, ok := cv.X.Type().Underlying().(*types.Basic); !ok || b.Info()&types.IsInteger == 0 {
				return
			}
			// only conversions of argument values (type-asserted or ranged-over), not of lengths etc.
			if !strings.Contains(render(cv.X), "value") && !strings.Contains(render(cv.X), "values") {
				return
			}
			n++
			v := c.lin(cv.X)
			b, idx := cv.Block(), blockIndexOf(cv)
			what := shortRender(cv.X) + " in " + name
			q, okq := leq(linConst(0), v, "")
			r.Check(okq && c.proveAt(b, idx, q), rule, "signed → unsigned only when ≥ 0: "+what, cv.Pos(), "v ≥ 0", "a negative argument would wrap into a huge unsigned value instead of being refused")
			qa, _ := leq(v, linConst(0), "")
			fs := c.factsAt(b, idx)
			fs.ineqs = append(fs.ineqs, qa)
			r.Check(!c.entailsSat(fs, Ineq{linConst(1), ""}), rule, "zero is still accepted: "+what, cv.Pos(), "v = 0 reachable", "the guards refuse 0, which is a valid unsigned value")
		})
	}
	r.Floor(rule, "signed → unsigned conversions of arguments", n, 4)
	_ = token.ADD
}
