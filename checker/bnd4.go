package main

import (
	"go/token"

	"golang.org/x/tools/go/ssa"
)

// seamStoreOnlyCalledInFragment: the value use u stores fn into a func-typed struct field
// whose only production value is fn, and every production call through that field is made
// by a fragment function (so fn's preconditions can be checked at those call sites).
func (e *bndEngine) seamStoreOnlyCalledInFragment(u Use, fn *ssa.Function) bool {
	st, ok := u.Instr.(*ssa.Store)
	if !ok {
		return false
	}
	fa, ok := st.Addr.(*ssa.FieldAddr)
	if !ok {
		return false
	}
	f := fieldOf(fa)
	okAll := true
	n := 0
	for _, g := range e.w.srcFns {
		if !e.w.IsProd(g) {
			continue
		}
		eachInstr(g, func(in ssa.Instruction) {
			call, ok := in.(ssa.CallInstruction)
			if !ok {
				return
			}
			ld, ok := call.Common().Value.(*ssa.UnOp)
			if !ok || ld.Op != token.MUL {
				return
			}
			a, ok := ld.X.(*ssa.FieldAddr)
			if !ok || !sameVar(fieldOf(a), f) {
				return
			}
			n++
			if e.w.staticOrFieldCallee(call) != fn || !e.frag[g] {
				okAll = false
			}
		})
		// any other read of the field (handing the function value elsewhere) defeats the argument
		eachInstr(g, func(in ssa.Instruction) {
			ld, ok := in.(*ssa.UnOp)
			if !ok || ld.Op != token.MUL {
				return
			}
			a, ok := ld.X.(*ssa.FieldAddr)
			if !ok || !sameVar(fieldOf(a), f) || ld.Referrers() == nil {
				return
			}
			for _, ref := range *ld.Referrers() {
				if c, ok := ref.(ssa.CallInstruction); ok && c.Common().Value == ssa.Value(ld) {
					continue
				}
				if _, ok := ref.(*ssa.DebugRef); ok {
					continue
				}
				okAll = false
			}
		})
	}
	return okAll && n > 0
}

// errResultOf returns the SSA value holding the error (last) result of a call, if the
// callee's last result is an error.
func errResultOf(call ssa.CallInstruction) ssa.Value {
	v, ok := call.(*ssa.Call)
	if !ok {
		return nil
	}
	res := v.Call.Signature().Results()
	if res.Len() == 0 || !isErrorType(res.At(res.Len()-1).Type()) {
		return nil
	}
	if res.Len() == 1 {
		return v
	}
	if v.Referrers() == nil {
		return nil
	}
	for _, ref := range *v.Referrers() {
		if ex, ok := ref.(*ssa.Extract); ok && ex.Index == res.Len()-1 {
			return ex
		}
	}
	return nil
}

// errNilKnown: on every path to block b the error result of call was tested and found nil.
func (c *fnCtx) errNilKnown(call ssa.CallInstruction, b *ssa.BasicBlock) bool {
	ev := errResultOf(call)
	if ev == nil {
		return false
	}
	for _, f := range c.facts[b] {
		x, eq, ok := isNilCmp(f.Cond)
		if !ok || x != ev {
			continue
		}
		// (x == nil) = true   or   (x != nil) = false
		if eq == f.Val {
			return true
		}
	}
	return false
}

// returnsNonNilError: the error result of this return is certainly non-nil (so a
// success-only postcondition has nothing to say about it).
func (c *fnCtx) returnsNonNilError(ret *ssa.Return) bool {
	if len(ret.Results) == 0 {
		return false
	}
	v := ret.Results[len(ret.Results)-1]
	if !isErrorType(v.Type()) {
		return false
	}
	return c.nonNilErr(v, ret.Block(), 0)
}

func (c *fnCtx) nonNilErr(v ssa.Value, at *ssa.BasicBlock, depth int) bool {
	if depth > 4 {
		return false
	}
	switch x := v.(type) {
	case *ssa.Const:
		return !x.IsNil()
	case *ssa.MakeInterface:
		// a concrete pointer/value boxed into error: non-nil interface (even if the pointer is nil)
		return true
	case *ssa.Call:
		if f := calleeOf(x).Static; f != nil && f.Pkg != nil {
			switch f.Pkg.Pkg.Path() + "." + f.Name() {
			case "fmt.Errorf", "errors.New":
				return true
			}
		}
	case *ssa.Phi:
		for _, e := range x.Edges {
			if !c.nonNilErr(e, at, depth+1) {
				return false
			}
		}
		return len(x.Edges) > 0
	case *ssa.UnOp:
		if x.Op == token.MUL {
			if g, ok := x.X.(*ssa.Global); ok && g.Pkg != nil {
				// package-level sentinel error variables (Err…): initialised once, never nil
				return len(g.Name()) > 3 && g.Name()[:3] == "Err"
			}
		}
	}
	// tested non-nil on every path here
	for _, f := range c.facts[at] {
		y, eq, ok := isNilCmp(f.Cond)
		if ok && y == v && eq != f.Val {
			return true
		}
	}
	return false
}
