package main

import (
	"go/types"

	"golang.org/x/tools/go/ssa"
)

func init() {
	register(&PropSpec{
		ID: "C14",
		Rules: []Rule{
			{Name: "C14-R1-bounds", Doc: "every index/slice of the scan window and of the input, every allocation size (make, Builder.Grow) and every forward/backward step reachable from Parse/ParseStrict/ParseMessage/ParseHeader is proven in range from the dominating guards, inductively inferred contracts and the inferred Parser invariants (data = input[pos:], len = len(input), 0 ≤ pos ≤ len) — so no text can make the parser panic on a bounds check or allocate more than the remaining input justifies", Run: c14Bounds},
		},
		NotDec:  []string{"polynomial running time (loop nesting is not measured)", "equivalence of concurrent and sequential use beyond the absence of shared state"},
		Trusted: []string{"integer arithmetic on offsets does not overflow (inputs < 2^31 bytes)", "standard-library string functions do not panic on the arguments the parser gives them"},
	})
}

func smlParseFragment(w *World) []*ssa.Function {
	entries := []*ssa.Function{w.Fn("sml", "Parse"), w.Fn("sml", "ParseStrict"), w.Fn("sml", "Parser.Parse"), w.Fn("sml", "Parser.ParseMessage"), w.Fn("sml", "Parser.ParseHeader"), w.Fn("sml", "NewParser")}
	return fragmentFrom(w, entries, func(p string) bool { return p == "sml" })
}

func c14Bounds(r *Run) {
	const rule = "C14-R1-bounds"
	w := r.W
	frag := smlParseFragment(w)
	e := newBndEngine(w, "sml-parse", frag, []*types.Named{w.Named("sml", "Parser")})
	e.allocBound = func(c *fnCtx, at ssa.Instruction) (Lin, string, bool) {
		// the size must be bounded by the unread input: len(p.data) at the allocation
		if c.tracked == nil {
			return Lin{}, "", false
		}
		st := c.stateAt(at)
		for fi, f := range c.tracked.fields {
			if f.Name() == "data" {
				if l, ok := c.fieldLen(fi, st[fi]); ok {
					return l, "len(p.data)", true
				}
			}
		}
		return Lin{}, "", false
	}
	e.checkWrap = true // the wrap obligations are reported by the R7 rule
	res := bndReport(r, rule, e, 30)
	trackedWritersOK(r, rule, e, res)
}
