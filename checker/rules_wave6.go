package main

import (
	"go/token"
	"strings"

	"golang.org/x/tools/go/ssa"
)

// Rules added after the sixth round of independently seeded changes.

func init() {
	registry["C01"].Rules = append(registry["C01"].Rules,
		Rule{Name: "C01-R12-equal-wire-precision", Doc: "equalFloat (with every helper it calls or passes as a function value) compares full float64 bit patterns only where the element width was found not to be 4, and float32 bit patterns only where it was found to be 4: an F4 item built from a float64 that is not float32-representable is equal to its own decoded encoding, scalar and multi-element alike", Run: c01EqualWirePrecision},
		Rule{Name: "C01-R13-depth-counts-nesting", Doc: "the decoder's depth value grows by exactly one per list level and by nothing else (it is not a counter shared between siblings), and is compared with secs2.MaxListDepth: every tree nested up to the limit — however many lists it holds side by side — decodes (shared with C02-R4)", Run: func(r *Run) {
			recursionGuards(r, "C01-R13-depth-counts-nesting", secs2DecodeFragment(r.W), 1)
		}})
	registry["C17"].Rules = append(registry["C17"].Rules,
		Rule{Name: "C17-R8-one-assembler-per-generation", Doc: "blocks taken from the idle line and blocks taken while yielding to a contending master are fed to the same assembler, the one the generation's line engine built: a correctly ordered multi-block message whose continuation arrives during a yield is still delivered, and the duplicate record covers both paths (shared with C18-R4)", Run: func(r *Run) {
			r.ruleAlias = "C17-R8-one-assembler-per-generation"
			defer func() { r.ruleAlias = "" }()
			c18SingleSink(r)
		}})
}

func c01EqualWirePrecision(r *Run) {
	const rule = "C01-R12-equal-wire-precision"
	w := r.W
	root := w.Fn("secs2", "equalFloat")
	// fragment: equalFloat and every secs2 function it calls or mentions as a value, transitively
	frag := []*ssa.Function{root}
	inFrag := map[*ssa.Function]bool{root: true}
	refs := map[*ssa.Function][]ssa.Instruction{} // function → instructions mentioning it
	for i := 0; i < len(frag); i++ {
		fn := frag[i]
		r.Analysed(w.FnName(fn))
		eachInstrDeep(fn, func(in ssa.Instruction) {
			for _, op := range in.Operands(nil) {
				if op == nil || *op == nil {
					continue
				}
				g, ok := (*op).(*ssa.Function)
				if !ok || g.Pkg == nil || g.Pkg.Pkg.Name() != "secs2" || g.Blocks == nil {
					continue
				}
				refs[g] = append(refs[g], in)
				if !inFrag[g] {
					inFrag[g] = true
					frag = append(frag, g)
				}
			}
		})
	}
	// widthIs(in, 4) : 1 decided 4, -1 decided not 4, 0 not decided — from the must-facts of in's block
	factsOf := map[*ssa.Function]map[*ssa.BasicBlock][]Fact{}
	widthAt := func(in ssa.Instruction) int {
		fn := in.Parent()
		if factsOf[fn] == nil {
			factsOf[fn] = bndMustFacts(fn)
		}
		res := 0
		for _, f := range factsOf[fn][in.Block()] {
			bo, ok := f.Cond.(*ssa.BinOp)
			if !ok || (bo.Op != token.EQL && bo.Op != token.NEQ) {
				continue
			}
			x, y := bo.X, bo.Y
			k, isK := constInt(y)
			if !isK {
				if k, isK = constInt(x); !isK {
					continue
				}
				x = y
			}
			if !strings.Contains(render(x), "byteSize") {
				continue
			}
			eq := (bo.Op == token.EQL) == f.Val
			switch {
			case k == 4 && eq:
				res = 1
			case k == 4 && !eq, k == 8 && eq:
				res = -1
			}
		}
		return res
	}
	// guarded(in, want): the instruction itself sits under the wanted width decision, or the function
	// it is in is only ever mentioned (called / passed as a value) under that decision
	var guarded func(in ssa.Instruction, want int, depth int) bool
	guarded = func(in ssa.Instruction, want int, depth int) bool {
		if got := widthAt(in); got != 0 {
			return got == want
		}
		fn := in.Parent()
		if fn == root || depth > 4 || len(refs[fn]) == 0 {
			return false
		}
		for _, ref := range refs[fn] {
			if !guarded(ref, want, depth+1) {
				return false
			}
		}
		return true
	}
	n64, n32 := 0, 0
	for _, fn := range frag {
		eachInstrDeep(fn, func(in ssa.Instruction) {
			c, ok := in.(*ssa.Call)
			if !ok || calleeOf(c).Static == nil || calleeOf(c).Static.Pkg == nil || calleeOf(c).Static.Pkg.Pkg.Path() != "math" {
				return
			}
			switch calleeOf(c).Static.Name() {
			case "Float64bits":
				n64++
				r.Check(guarded(in, -1, 0), rule, w.FnName(fn)+": full-width comparison only for F8", in.Pos(), "reached only where byteSize is not 4", "a float64 bit pattern is compared where the element width may be 4: an F4 element constructed from a value that is not float32-representable differs from its decoded encoding")
			case "Float32bits":
				n32++
				r.Check(guarded(in, 1, 0), rule, w.FnName(fn)+": narrowed comparison only for F4", in.Pos(), "reached only where byteSize is 4", "a float32 bit pattern is compared where the element width may be 8: distinct F8 values would compare equal")
			}
		})
		// no comparison of the float payloads that bypasses the bit patterns
		eachInstrDeep(fn, func(in ssa.Instruction) {
			if bo, ok := in.(*ssa.BinOp); ok && (bo.Op == token.EQL || bo.Op == token.NEQ) && isFloatType(bo.X.Type()) {
				r.Fail(rule, w.FnName(fn)+": payload compared by bit pattern", in.Pos(), "float operands compared with ==/!=: NaN payloads and F4 narrowing are not honoured")
			}
			if c, ok := in.(*ssa.Call); ok && calleeOf(c).Static != nil && fnPkgPath(calleeOf(c).Static) == "slices" && strings.HasPrefix(calleeOf(c).Static.Name(), "Equal") && !strings.HasPrefix(calleeOf(c).Static.Name(), "EqualFunc") {
				r.Fail(rule, w.FnName(fn)+": payload compared by bit pattern", in.Pos(), "slices.Equal over the float payload compares float64 values, not the transmitted bit patterns")
			}
		})
	}
	r.Floor(rule, "float64 bit-pattern comparisons", n64, 2)
	r.Floor(rule, "float32 bit-pattern comparisons", n32, 2)
}

func isFloatType(t interface{ String() string }) bool {
	s := t.String()
	return s == "float64" || s == "float32"
}
