package main

import (
	"fmt"
	"go/token"
	"go/types"
	"strings"

	"golang.org/x/tools/go/ssa"
)

func init() {
	register(&PropSpec{
		ID: "C07",
		Rules: []Rule{
			{Name: "C07-R1-chokepoints", Doc: "transport.Write is invoked only from writeFrame and the farewell; writeFrame only from sendWaitReply/sendNoReply/drainSendCh; the only send on epoch.sendCh is in SendAsync and the only receive in drainSendCh", Run: c07Chokepoints},
			{Name: "C07-R2-gates", Doc: "on every path of every send entry point, each write/enqueue is preceded by a decision 'not a data message' or 'Selected', and by 'epoch != nil'; a nil epoch returns ErrNotOpen with no effect", Run: c07Gates},
			{Name: "C07-R3-one-drop", Doc: "every path that takes the not-selected branch returns ErrNotSelectedState after exactly one dropNotSelected and performs no write/enqueue; no other path calls dropNotSelected; dropNotSelected is the only caller of the drop counter", Run: c07OneDrop},
			{Name: "C07-R4-inbound-reject", Doc: "dispatchFrame: a data frame while State()≠Selected is answered by sendRejectNotSelected, not delivered, link kept; the reject echoes session id and system bytes with reason 4", Run: c07InboundReject},
			{Name: "C07-R5-sync-select-commit", Doc: "handleSelectReq commits Selected before queuing Select.rsp; the Select.rsp arm commits right after routing on the receive goroutine; no goroutine hop between recvLoop and the commit", Run: c07SyncCommit},
			{Name: "C07-R6-api-funnel", Doc: "every data-sending session API reaches the wire only through WriteMessage/WriteMessageNoReply/SendAsync of the runtime, which delegate to the gated functions", Run: c07APIFunnel},
		},
		NotDec: []string{"every history that leads to a not-selected condition", "the peer's write groupings on a real socket", "that State() is accurate (C05)"},
	})
}

func c07Chokepoints(r *Run) {
	const rule = "C07-R1-chokepoints"
	w := r.W
	s := newSendCtx(w)
	// transport.Write invoke sites
	n := 0
	for _, site := range w.invokeSites(func(m *types.Func) bool { return s.isTrMethod("Write")(Callee{Method: m}) }) {
		if !w.IsProd(site.Fn) {
			continue
		}
		n++
		ok := sameFn(site.Fn, s.writeFrame) || sameFn(site.Fn, s.farewell)
		r.Check(ok, rule, "transport.Write invoked in "+w.FnName(site.Fn), site.Pos(),
			"sanctioned on-wire chokepoint", "bytes may reach the socket only through writeFrame (gated) or the farewell Separate (control)")
	}
	r.Floor(rule, "transport.Write invoke sites", n, 2)
	// implementations of transport.Write must not be called directly from elsewhere
	for _, impl := range []struct{ pkg, name string }{{"hsmsss", "transport.Write"}, {"secs1", "transport.Write"}} {
		f := w.Fn(impl.pkg, impl.name)
		for _, u := range w.usesOf(f) {
			if w.IsProd(u.Fn) {
				r.Fail(rule, impl.pkg+".transport.Write used directly in "+w.FnName(u.Fn), u.Pos(), "a direct transport write bypasses the Selected gate and the per-generation write lock")
			}
		}
		r.Trivial(rule, impl.pkg+".transport.Write has no direct callers", f.Pos(), "only reachable through the interface from the chokepoints")
	}
	// writeFrame callers
	n = 0
	for _, u := range w.usesOf(s.writeFrame) {
		if !w.IsProd(u.Fn) {
			continue
		}
		n++
		ok := u.Kind == "call" && (sameFn(u.Fn, s.sendWaitReply) || sameFn(u.Fn, s.sendNoReply) || sameFn(u.Fn, s.drain))
		r.Check(ok, rule, "writeFrame used ("+u.Kind+") in "+w.FnName(u.Fn), u.Pos(), "gated caller", "writeFrame may be called only by sendWaitReply, sendNoReply and drainSendCh")
	}
	r.Floor(rule, "writeFrame call sites", n, 3)
	// sendCh senders / receivers
	ns, nr := 0, 0
	for _, site := range w.fieldSites(s.fSendCh) {
		if !w.IsProd(site.Fn) {
			continue
		}
		fa, ok := site.Instr.(*ssa.FieldAddr)
		if !ok {
			continue
		}
		for _, ref := range *fa.Referrers() {
			switch x := ref.(type) {
			case *ssa.Store:
				if _, isMk := x.Val.(*ssa.MakeChan); isMk && x.Addr == fa {
					r.OK(rule, "sendCh created in "+w.FnName(site.Fn), x.Pos(), "fresh channel")
				} else {
					r.Fail(rule, "sendCh overwritten in "+w.FnName(site.Fn), x.Pos(), "the async queue must be created once per generation")
				}
			case *ssa.UnOp:
				for _, use := range *x.Referrers() {
					switch y := use.(type) {
					case *ssa.Send:
						ns++
						r.Check(sameFn(site.Fn, s.sendAsync), rule, "send on sendCh in "+w.FnName(site.Fn), y.Pos(), "gated enqueue", "only SendAsync may enqueue on the async send channel")
					case *ssa.Select:
						for _, st := range y.States {
							if st.Chan != x {
								continue
							}
							if st.Dir == types.SendOnly {
								ns++
								r.Check(sameFn(site.Fn, s.sendAsync), rule, "select-send on sendCh in "+w.FnName(site.Fn), y.Pos(), "gated enqueue", "only SendAsync may enqueue on the async send channel")
							} else {
								nr++
								r.Check(sameFn(site.Fn, s.drain), rule, "receive on sendCh in "+w.FnName(site.Fn), y.Pos(), "sole consumer", "only drainSendCh may dequeue (it writes through the gated writeFrame)")
							}
						}
					case *ssa.UnOp:
						nr++
						r.Check(sameFn(site.Fn, s.drain), rule, "receive on sendCh in "+w.FnName(site.Fn), y.Pos(), "sole consumer", "only drainSendCh may dequeue")
					case ssa.CallInstruction:
						if b, ok := y.Common().Value.(*ssa.Builtin); ok && (b.Name() == "len" || b.Name() == "cap") {
							continue
						}
						r.Fail(rule, "sendCh escapes in "+w.FnName(site.Fn), y.Pos(), "channel passed to a call: senders can no longer be enumerated")
					}
				}
			}
		}
	}
	r.Floor(rule, "senders on sendCh", ns, 1)
	r.Floor(rule, "receivers on sendCh", nr, 1)
}

// gateFns are the functions that contain a Selected gate.
func (s *sendCtx) gateFns() []*ssa.Function {
	return []*ssa.Function{s.sendWaitReply, s.sendNoReply, s.sendAsync, s.writeFrame}
}

func isEffect(k string) bool {
	return k == "writeFrame" || k == "trWrite" || (k == "enqueue?")
}

func c07Gates(r *Run) {
	const rule = "C07-R2-gates"
	w := r.W
	s := newSendCtx(w)
	for _, fn := range s.gateFns() {
		r.Analysed(w.FnName(fn))
		paths, ok := enumPaths(fn, 50000)
		if !ok {
			r.Undecided(rule, w.FnName(fn), fn.Pos(), "too many paths")
			continue
		}
		nEff := 0
		bad := map[string]bool{}
		for _, p := range paths {
			evs := s.events(p)
			passedData, passedSel, open := false, false, false
			if sameFn(fn, s.writeFrame) {
				open = true // receives the pinned epoch as a parameter
			}
			for _, e := range evs {
				switch e.Kind {
				case "data?":
					if !e.Val {
						passedData = true // not a data message: control traffic is unaffected
					}
				case "sel?":
					if e.Val {
						passedSel = true
					}
				case "open?":
					if e.Val {
						open = true
					}
				}
				if isEffect(e.Kind) && (e.Kind != "enqueue?" || e.Val) {
					nEff++
					key := fmt.Sprintf("%s: %s", w.FnName(fn), e.Kind)
					if !(passedData || passedSel) {
						if !bad[key+"gate"] {
							bad[key+"gate"] = true
							r.Fail(rule, key+" gated by ¬data ∨ Selected", e.Instr.Pos(), "a path reaches this %s without first deciding 'not a data message' or 'Selected': [%s]", e.Kind, p.String())
						}
					}
					if !open {
						if !bad[key+"open"] {
							bad[key+"open"] = true
							r.Fail(rule, key+" requires a live epoch", e.Instr.Pos(), "a path reaches this %s without the epoch≠nil decision: [%s]", e.Kind, p.String())
						}
					}
				}
			}
			// nil epoch ⇒ ErrNotOpen, no effects
			for i, e := range evs {
				if e.Kind == "open?" && !e.Val {
					eff := false
					for _, e2 := range evs[i+1:] {
						if isEffect(e2.Kind) || e2.Kind == "drop" || e2.Kind == "register" {
							eff = true
						}
					}
					if retErr(p) != "ErrNotOpen" || eff {
						r.Fail(rule, w.FnName(fn)+": nil epoch ⇒ ErrNotOpen", p.Exit.Pos(), "path with no open generation returns %s (effects=%v)", retErr(p), eff)
					} else {
						r.OK(rule, w.FnName(fn)+": nil epoch ⇒ ErrNotOpen", p.Exit.Pos(), "never-opened connection fails with the not-open error and no side effect")
					}
				}
			}
		}
		for _, kind := range []string{"writeFrame", "trWrite", "enqueue?"} {
			key := fmt.Sprintf("%s: %s", w.FnName(fn), kind)
			has := false
			for _, p := range paths {
				for _, e := range s.events(p) {
					if e.Kind == kind {
						has = true
					}
				}
			}
			if has && !bad[key+"gate"] {
				r.OK(rule, key+" gated by ¬data ∨ Selected", fn.Pos(), "holds on all %d paths", len(paths))
			}
			if has && !bad[key+"open"] {
				r.OK(rule, key+" requires a live epoch", fn.Pos(), "holds on all %d paths", len(paths))
			}
		}
		r.Floor(rule, "effects on paths of "+fn.Name(), nEff, 1)
	}
	// the gate in each function tests the SAME message that is written
	for _, fn := range s.gateFns() {
		var msgParam ssa.Value
		for _, p := range fn.Params {
			if n, ok := p.Type().(*types.Named); ok && n.Obj().Name() == "Message" {
				msgParam = p
			}
		}
		if msgParam == nil {
			r.Undecided(rule, w.FnName(fn)+": message parameter", fn.Pos(), "no Message parameter")
			continue
		}
		ok := true
		n := 0
		eachInstr(fn, func(in ssa.Instruction) {
			if ta, isTA := in.(*ssa.TypeAssert); isTA {
				if p, isP := ta.AssertedType.(*types.Pointer); isP && types.Identical(p.Elem(), s.dataMsg) {
					n++
					if ta.X != msgParam {
						ok = false
					}
				}
			}
		})
		r.Check(ok && n > 0, rule, w.FnName(fn)+": data test is on the message being sent", fn.Pos(), "type test applied to the msg parameter", "the data/control discrimination must test the message that is written")
	}
}

func c07OneDrop(r *Run) {
	const rule = "C07-R3-one-drop"
	w := r.W
	s := newSendCtx(w)
	for _, fn := range s.gateFns() {
		paths, ok := enumPaths(fn, 50000)
		if !ok {
			r.Undecided(rule, w.FnName(fn), fn.Pos(), "too many paths")
			continue
		}
		nGate := 0
		okAll := true
		for _, p := range paths {
			evs := s.events(p)
			drops := 0
			refused := false // took data ∧ ¬selected
			isData := false
			var effAfter []string
			for _, e := range evs {
				switch {
				case e.Kind == "data?" && e.Val:
					isData = true
				case e.Kind == "sel?" && !e.Val && isData:
					refused = true
				case e.Kind == "drop":
					drops++
				case refused && (isEffect(e.Kind) && (e.Kind != "enqueue?" || e.Val) || e.Kind == "register"):
					effAfter = append(effAfter, e.Kind)
				}
			}
			re := retErr(p)
			switch {
			case refused:
				nGate++
				if drops != 1 || re != "ErrNotSelectedState" || len(effAfter) > 0 {
					okAll = false
					r.Fail(rule, w.FnName(fn)+": refused data path", p.Exit.Pos(), "data ∧ ¬Selected path returns %s with %d drop(s) and effects %v; required: ErrNotSelectedState, exactly one drop, nothing written/queued/registered [%s]", re, drops, effAfter, p.String())
				}
			default:
				if drops != 0 {
					okAll = false
					r.Fail(rule, w.FnName(fn)+": drop counted on a non-refused path", p.Exit.Pos(), "%d drop(s) on a path that did not take data ∧ ¬Selected [%s]", drops, p.String())
				}
				if re == "ErrNotSelectedState" {
					okAll = false
					r.Fail(rule, w.FnName(fn)+": ErrNotSelectedState without the gate", p.Exit.Pos(), "returns the not-selected error on a path that did not test data ∧ ¬Selected [%s]", p.String())
				}
			}
		}
		if okAll {
			r.OK(rule, w.FnName(fn)+": refused ⇔ one drop ∧ ErrNotSelectedState ∧ no effect", fn.Pos(), "%d refusing paths of %d", nGate, len(paths))
		}
		r.Floor(rule, "refusing paths in "+fn.Name(), nGate, 1)
	}
	// who may call dropNotSelected / the counter
	n := 0
	for _, u := range w.usesOf(s.dropNS) {
		if !w.IsProd(u.Fn) {
			continue
		}
		n++
		ok := false
		for _, g := range s.gateFns() {
			if sameFn(u.Fn, g) {
				ok = true
			}
		}
		r.Check(ok && u.Kind == "call", rule, "dropNotSelected called in "+w.FnName(u.Fn), u.Pos(), "gate site", "drops may be counted only at the Selected gates")
	}
	r.Floor(rule, "dropNotSelected call sites", n, 4)
	inc := w.Fn("hsms", "ConnectionMetrics.incDataMsgDropNotSelected")
	n = 0
	for _, u := range w.usesOf(inc) {
		if !w.IsProd(u.Fn) {
			continue
		}
		n++
		r.Check(sameFn(u.Fn, s.dropNS) && u.Kind == "call", rule, "incDataMsgDropNotSelected called in "+w.FnName(u.Fn), u.Pos(), "single chokepoint", "the drop counter may be incremented only by dropNotSelected")
	}
	r.Floor(rule, "drop counter call sites", n, 1)
	// dropNotSelected increments exactly once on every path
	paths, ok := enumPaths(s.dropNS, 1000)
	if ok {
		good := true
		for _, p := range paths {
			if len(p.Calls(isFn(inc))) != 1 {
				good = false
			}
		}
		r.Check(good, rule, "dropNotSelected increments the counter exactly once on every path", s.dropNS.Pos(), fmt.Sprintf("%d paths", len(paths)), "a refused send must count exactly one drop")
	}
	// the counter helper adds exactly +1
	c07CounterAddsOne(r, rule, inc)
}

func c07CounterAddsOne(r *Run, rule string, inc *ssa.Function) {
	adds := 0
	okv := true
	eachInstr(inc, func(in ssa.Instruction) {
		if c, ok := in.(ssa.CallInstruction); ok {
			cal := calleeOf(c)
			if cal.Static != nil && baseName(cal.Static) == "Add" && cal.Static.Signature.Recv() != nil {
				adds++
				if k, ok := constInt(c.Common().Args[1]); !ok || k != 1 {
					okv = false
				}
			}
			if cal.Static != nil && (baseName(cal.Static) == "Store" || baseName(cal.Static) == "Swap") {
				okv = false
			}
		}
	})
	r.Check(adds == 1 && okv, rule, r.W.FnName(inc)+" adds exactly 1", inc.Pos(), "single Add(1)", "counter helper must add exactly one")
}

// ---------- R4 ----------

func c07InboundReject(r *Run) {
	const rule = "C07-R4-inbound-reject"
	w := r.W
	disp := w.Fn("hsmsss", "transport.dispatchFrame")
	rejNS := w.Fn("hsmsss", "transport.sendRejectNotSelected")
	r.Analysed(w.FnName(disp))
	r.Analysed(w.FnName(rejNS))
	sel := w.ConstInt("hsms", "SelectedState")

	// (a) DeliverOwnedFrame is dominated by State()==Selected, sendRejectNotSelected by State()!=Selected,
	// both inside the data arm; (b) on paths with sendRejectNotSelected: no DeliverOwnedFrame/TCPDown, return true.
	facts := factsIn(disp)
	stateIsSel := func(fs factSet) (known bool, val bool) {
		for f := range fs {
			if b, ok := f.Cond.(*ssa.BinOp); ok && (b.Op == token.EQL || b.Op == token.NEQ) {
				if k, isK := constInt(b.Y); isK && k == sel {
					if c, isC := b.X.(*ssa.Call); isC && c.Common().IsInvoke() && c.Common().Method.Name() == "State" {
						return true, (b.Op == token.EQL) == f.Val
					}
				}
			}
		}
		return false, false
	}
	isRT := func(name string) func(Callee) bool {
		return func(c Callee) bool { return c.Method != nil && c.Method.Name() == name }
	}
	nd := 0
	for _, c := range callsIn(disp, isRT("DeliverOwnedFrame")) {
		nd++
		known, v := stateIsSel(facts[c.Block()])
		r.Check(known && v, rule, "dispatchFrame: DeliverOwnedFrame only while Selected", c.Pos(), "dominated by State()==Selected", "inbound data must not be delivered unless State()==Selected dominates the hand-off")
	}
	r.Floor(rule, "DeliverOwnedFrame call sites in dispatchFrame", nd, 1)
	nr := 0
	for _, c := range callsIn(disp, isFn(rejNS)) {
		nr++
		known, v := stateIsSel(facts[c.Block()])
		r.Check(known && !v, rule, "dispatchFrame: Reject(not selected) only while not Selected", c.Pos(), "dominated by State()≠Selected", "the not-selected reject must be conditioned on State()≠Selected")
		// argument is the frame itself
		r.Check(c.Common().Args[1] == ssa.Value(disp.Params[2]), rule, "dispatchFrame: reject built from the offending frame", c.Pos(), "frame passed unchanged", "the reject must echo the offending frame's header")
	}
	r.Floor(rule, "sendRejectNotSelected call sites in dispatchFrame", nr, 1)

	// data-arm decision table (shared with C08-R1): State≠Selected ⇒ exactly Reject(4), keep reading;
	// Selected ⇒ exactly deliver; never a disconnect
	c08DispatchTable(r, rule, true)

	// the reject itself: NewRejectReqRaw(BE16(frame[0:2]), 0, 0, frame[6:10], RejectNotSelected) then SendAsync
	newRej := w.Fn("hsms", "NewRejectReqRaw")
	reason := w.ConstInt("hsms", "RejectNotSelected")
	calls := callsIn(rejNS, isFn(newRej))
	if len(calls) != 1 {
		r.Undecided(rule, "sendRejectNotSelected: NewRejectReqRaw", rejNS.Pos(), "expected one NewRejectReqRaw call, found %d", len(calls))
		return
	}
	c := calls[0]
	a := c.Common().Args
	frame := rejNS.Params[1]
	sid := render(a[0])
	okSid := strings.Contains(sid, "Uint16($"+frame.Name()+"[0:2])")
	r.Check(okSid, rule, "reject(not selected): session id echoed", c.Pos(), "BigEndian.Uint16(frame[0:2])", "session id must be the big-endian bytes 0-1 of the offending frame (got "+sid+")")
	p0, ok0 := constInt(a[1])
	s0, ok1 := constInt(a[2])
	r.Check(ok0 && ok1 && p0 == 0 && s0 == 0, rule, "reject(not selected): PType/SType bytes are 0 (data message)", c.Pos(), "constants 0,0", "a data message has PType 0 and SType 0")
	rs, okr := constInt(a[4])
	r.Check(okr && rs == reason && reason == 4, rule, "reject(not selected): reason code 4", c.Pos(), "RejectNotSelected = 4", fmt.Sprintf("reason must be 4 (got %s)", render(a[4])))
	// system bytes: local [4]byte filled by copy(systemBytes[:], frame[6:10])
	okSB := false
	if ld, ok := a[3].(*ssa.UnOp); ok && ld.Op == token.MUL {
		if al, ok := ld.X.(*ssa.Alloc); ok {
			for _, ref := range *al.Referrers() {
				if sl, ok := ref.(*ssa.Slice); ok {
					for _, use := range *sl.Referrers() {
						if cc, ok := use.(*ssa.Call); ok {
							if b, ok := cc.Common().Value.(*ssa.Builtin); ok && b.Name() == "copy" && cc.Common().Args[0] == ssa.Value(sl) {
								if render(cc.Common().Args[1]) == "$"+frame.Name()+"[6:10]" && instrDominates(cc, c) {
									okSB = true
								}
							}
						}
					}
				}
			}
		}
	}
	r.Check(okSB, rule, "reject(not selected): system bytes echoed", c.Pos(), "copy(systemBytes[:], frame[6:10]) before building the reject", "system bytes must be bytes 6-9 of the offending frame")
	// sent via SendAsync with the built reject
	sends := callsIn(rejNS, func(cal Callee) bool { return cal.Method != nil && cal.Method.Name() == "SendAsync" })
	okSend := len(sends) == 1 && stripConv(sends[0].Common().Args[1]) == c.(ssa.Value)
	r.Check(okSend, rule, "reject(not selected): queued through the serialized send path", c.Pos(), "rt.SendAsync(reject)", "the built reject must be handed to rt.SendAsync exactly once")
}

// ---------- R5 ----------

func c07SyncCommit(r *Run) {
	const rule = "C07-R5-sync-select-commit"
	w := r.W
	hsr := w.Fn("hsmsss", "transport.handleSelectReq")
	disp := w.Fn("hsmsss", "transport.dispatchFrame")
	recv := w.Fn("hsmsss", "transport.recvLoop")
	hcr := w.Fn("hsmsss", "transport.handleControlReq")
	isRT := func(name string) func(Callee) bool {
		return func(c Callee) bool { return c.Method != nil && c.Method.Name() == name }
	}
	// handleSelectReq: CommitSelected dominates SendAsync
	commits := callsIn(hsr, isRT("CommitSelected"))
	sends := callsIn(hsr, isRT("SendAsync"))
	if len(commits) == 1 && len(sends) >= 1 {
		ok := true
		for _, s := range sends {
			if !instrDominates(commits[0], s) {
				ok = false
			}
		}
		r.Check(ok, rule, "handleSelectReq: CommitSelected ≺ SendAsync(Select.rsp)", commits[0].Pos(), "state is Selected before the response can reach the wire", "the Selected commit must precede queuing Select.rsp, or data pipelined behind the response is rejected")
	} else {
		r.Undecided(rule, "handleSelectReq: CommitSelected ≺ SendAsync", hsr.Pos(), "expected one CommitSelected and ≥1 SendAsync, found %d/%d", len(commits), len(sends))
	}
	// dispatchFrame: CommitSelected call dominated by RouteReply()==true and SelectRsp ∧ status==success, same function (no hop)
	facts := factsIn(disp)
	cs := callsIn(disp, isRT("CommitSelected"))
	if len(cs) != 1 {
		r.Undecided(rule, "dispatchFrame: CommitSelected in the Select.rsp arm", disp.Pos(), "expected one CommitSelected call, found %d", len(cs))
	} else {
		routed, isRsp, isOK := false, false, false
		selRsp := w.ConstInt("hsms", "SelectRspType")
		succ := w.ConstInt("hsms", "SelectStatusSuccess")
		for f := range facts[cs[0].Block()] {
			if c, ok := f.Cond.(*ssa.Call); ok && isRT("RouteReply")(calleeOf(c)) && f.Val {
				routed = true
			}
			if b, ok := f.Cond.(*ssa.BinOp); ok && b.Op == token.EQL && f.Val {
				if k, isK := constInt(b.Y); isK {
					if c, isC := b.X.(*ssa.Call); isC {
						if isRT("Type")(calleeOf(c)) && k == selRsp {
							isRsp = true
						}
						if cal := calleeOf(c); cal.Static != nil && cal.Static.Name() == "selectStatus" && k == succ {
							isOK = true
						}
					}
				}
			}
		}
		r.Check(routed && isRsp && isOK, rule, "dispatchFrame: Selected commit right after a routed Select.rsp(status 0)", cs[0].Pos(),
			"dominated by RouteReply()==true ∧ Type()==Select.rsp ∧ status==0, on the receive goroutine",
			fmt.Sprintf("commit must be conditioned on routed=%v selectRsp=%v status0=%v", routed, isRsp, isOK))
	}
	// no goroutine hop: recvLoop → dispatchFrame → handleControlReq → handleSelectReq are plain calls
	chain := []struct{ from, to *ssa.Function }{{recv, disp}, {disp, hcr}, {hcr, hsr}}
	for _, c := range chain {
		plain := 0
		for _, u := range w.usesOf(c.to) {
			if sameFn(u.Fn, c.from) && u.Kind == "call" {
				plain++
			}
			if sameFn(u.Fn, c.from) && u.Kind != "call" {
				plain = -100
			}
		}
		r.Check(plain >= 1, rule, fmt.Sprintf("%s → %s is a synchronous call", c.from.Name(), c.to.Name()), c.to.Pos(), "same goroutine as the frame reader ⇒ the commit precedes reading the next frame", "the select commit must run synchronously on the receive goroutine (no go/defer/closure hop)")
	}
	for _, f := range []*ssa.Function{disp, hcr, hsr} {
		n := 0
		eachInstr(f, func(in ssa.Instruction) {
			if _, ok := in.(*ssa.Go); ok {
				n++
			}
		})
		r.Check(n == 0, rule, f.Name()+" launches no goroutine", f.Pos(), "sequential", "a go statement here would let the next frame be dispatched before the commit")
	}
	// in recvLoop the next readFrame happens after dispatchFrame returns (same loop, dispatch call result tested)
	// secs1: TCPUp then CommitSelected before the line engine is launched
	for _, name := range []string{"transport.startActive", "transport.acceptLoop"} {
		f := w.FnOpt("secs1", name)
		if f == nil {
			continue
		}
		ups := callsIn(f, isRT("TCPUp"))
		cms := callsIn(f, isRT("CommitSelected"))
		for _, up := range ups {
			found := false
			for _, cm := range cms {
				if instrDominates(up, cm) && up.Block() == cm.Block() {
					found = true
				}
			}
			r.Check(found, rule, "secs1."+name+": TCPUp immediately followed by CommitSelected", up.Pos(), "SECS-I has no select handshake: Selected as soon as the line is up", "SECS-I must commit Selected right after TCPUp, before any block is exchanged")
		}
	}
}

// ---------- R6 ----------

func c07APIFunnel(r *Run) {
	const rule = "C07-R6-api-funnel"
	w := r.W
	s := newSendCtx(w)
	// runtime entry points delegate 1:1
	deleg := []struct {
		outer string
		inner *ssa.Function
	}{
		{"connection.WriteMessage", s.sendWaitReply},
		{"connection.WriteMessageNoReply", s.sendNoReply},
	}
	for _, d := range deleg {
		f := w.Fn("hsms", d.outer)
		ok := true
		n := 0
		for _, ret := range returnsOf(f) {
			n++
			for _, res := range ret.Results {
				v := res
				if ex, isEx := v.(*ssa.Extract); isEx {
					v = ex.Tuple
				}
				if !isCallTo(v, isFn(d.inner)) {
					ok = false
				}
			}
		}
		r.Check(ok && n == 1, rule, d.outer+" = "+d.inner.Name(), f.Pos(), "pure delegation to the gated function", "the runtime entry point must return exactly the gated function's result")
	}
	// session send APIs: every path that does not return an early argument error ends in exactly one rt call
	sess := []string{"SendDataMessage", "SendDataMessageAsync", "SendSECS2Message", "ForwardDataMessage", "ForwardDataMessageAsync", "ReplyDataMessage"}
	rtSend := func(c Callee) bool {
		return c.Method != nil && (c.Method.Name() == "WriteMessage" || c.Method.Name() == "WriteMessageNoReply" || c.Method.Name() == "SendAsync")
	}
	for _, name := range sess {
		f := w.Fn("hsms", "session."+name)
		r.Analysed(w.FnName(f))
		paths, ok := enumPaths(f, 5000)
		if !ok {
			r.Undecided(rule, "session."+name, f.Pos(), "too many paths")
			continue
		}
		good := true
		nsend := 0
		for _, p := range paths {
			n := len(p.Calls(rtSend))
			nsend += n
			if n > 1 {
				good = false
			}
			// nothing else can reach a socket: no direct transport or conn use
			for _, c := range p.Calls(func(c Callee) bool { return c.Static != nil && (isFn(s.writeFrame)(c)) }) {
				_ = c
				good = false
			}
		}
		r.Check(good && nsend > 0, rule, "session."+name+" sends through exactly one gated runtime call per path", f.Pos(), fmt.Sprintf("%d paths", len(paths)), "a session send API must hand the message to WriteMessage / WriteMessageNoReply / SendAsync at most once and never write directly")
	}
}
