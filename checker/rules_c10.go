package main

import (
	"fmt"
	"go/token"
	"go/types"
	"sort"
	"strings"

	"golang.org/x/tools/go/ssa"
)

func init() {
	register(&PropSpec{
		ID: "C10",
		Rules: []Rule{
			{Name: "C10-R1-goroutine-accounting", Doc: "every goroutine launch in the connection/transport packages is joined: WaitGroup.Add before the go (or WaitGroup.Go), `defer Done` in the goroutine's entry block on the same WaitGroup field, and a Wait site exists; or it is a bounded join helper / the epoch join whose completion is published on a channel", Run: c10Goroutines},
			{Name: "C10-R2-bounded-joins", Doc: "every WaitGroup.Wait runs on a helper goroutine whose completion channel is selected against a deadline/ctx, or is one of the enumerated fenced waits (Close/Open: supWg, connectLoopWg; Stop: accept)", Run: c10BoundedJoins},
			{Name: "C10-R3-lock-discipline", Doc: "every Lock/RLock is released on every path (deferred or explicit); no blocking operation while a short-section mutex is held; every blocking operation performed while the Open/Close serialisation mutex is held is bounded by Close's own fences/timeouts", Run: c10Locks},
			{Name: "C10-R4-close-once", Doc: "every close(ch) is once-guarded: inside sync.Once.Do, deferred in a goroutine body launched once per object, on a fresh local channel, or an enumerated site with its guard checked", Run: c10CloseOnce},
			{Name: "C10-R5-open-close-guards", Doc: "Open: a live supervisor with shutdown clear ⇒ ErrAlreadyOpen with no side effect, and that test precedes every store/spawn/Start; Close: nil epoch ⇒ ErrNotOpen with no side effect; nil-message guards on the forward APIs", Run: c10Guards},
			{Name: "C10-R6-panic-surface", Doc: "no explicit panic in connection/transport code (one documented invariant panic in wire.chunkView); no unchecked type assertion; user callbacks off the receive path run under recover", Run: c10PanicSurface},
		},
		NotDec: []string{"the wall-clock bound of Close", "actual absence of leaked goroutines/sockets after every history", "OS socket state"},
	})
}

var connPkgs = []string{"hsms", "hsmsss", "secs1", "internal/pool", "internal/wire", "internal/framecodec", "internal/throttle"}

func inConnPkgs(w *World, fn *ssa.Function) bool {
	p := w.PkgOf(fn)
	for _, c := range connPkgs {
		if p == c {
			return true
		}
	}
	return false
}

func isWaitGroupPtr(t types.Type) bool {
	return typeIs(t, "sync", "WaitGroup")
}

// wgKey identifies a WaitGroup by the struct field holding it.
func wgKey(v ssa.Value) string {
	if fa, ok := v.(*ssa.FieldAddr); ok && isWaitGroupPtr(fa.Type()) {
		f := fieldOf(fa)
		owner := typeShort(derefType(fa.X.Type()))
		return owner + "." + f.Name()
	}
	return ""
}

// wgCalls lists calls of method `name` on a WaitGroup field in fn: key → instructions.
func wgCalls(fn *ssa.Function, name string) map[string][]ssa.CallInstruction {
	out := map[string][]ssa.CallInstruction{}
	eachInstr(fn, func(in ssa.Instruction) {
		c, ok := in.(ssa.CallInstruction)
		if !ok {
			return
		}
		cal := calleeOf(c)
		if cal.Static == nil || cal.Static.Name() != name || cal.Static.Signature.Recv() == nil || !isWaitGroupPtr(cal.Static.Signature.Recv().Type()) {
			return
		}
		if k := wgKey(c.Common().Args[0]); k != "" {
			out[k] = append(out[k], c)
		} else {
			out["?"] = append(out["?"], c)
		}
	})
	return out
}

// isJoinHelper: body only waits on WaitGroups and closes one channel captured from its parent.
func isJoinHelper(body *ssa.Function) bool {
	nWait, nClose, other := 0, 0, 0
	eachInstr(body, func(in ssa.Instruction) {
		c, ok := in.(ssa.CallInstruction)
		if !ok {
			return
		}
		cal := calleeOf(c)
		switch {
		case cal.Static != nil && cal.Static.Name() == "Wait" && cal.Static.Signature.Recv() != nil && isWaitGroupPtr(cal.Static.Signature.Recv().Type()):
			nWait++
		case cal.Builtin == "close":
			nClose++
		default:
			other++
		}
	})
	return nWait >= 1 && nClose == 1 && other == 0
}

func c10Goroutines(r *Run) {
	const rule = "C10-R1-goroutine-accounting"
	w := r.W
	join := w.Fn("hsms", "epoch.join")
	nLaunch := 0
	added := map[string]bool{}
	for _, fn := range w.ProdFns() {
		if !inConnPkgs(w, fn) {
			continue
		}
		adds := wgCalls(fn, "Add")
		for k := range adds {
			added[k] = true
		}
		for k := range wgCalls(fn, "Go") {
			added[k] = true
		}
		eachInstr(fn, func(in ssa.Instruction) {
			// WaitGroup.Go(func)
			if c, ok := in.(*ssa.Call); ok {
				cal := calleeOf(c)
				if cal.Static != nil && cal.Static.Name() == "Go" && cal.Static.Signature.Recv() != nil && isWaitGroupPtr(cal.Static.Signature.Recv().Type()) {
					nLaunch++
					k := wgKey(c.Call.Args[0])
					r.Check(k != "", rule, fmt.Sprintf("%s: %s.Go(…)", w.FnName(fn), k), c.Pos(), "WaitGroup.Go registers synchronously and signals Done itself", "WaitGroup.Go on a WaitGroup that is not a struct field cannot be matched to a Wait")
				}
				return
			}
			g, ok := in.(*ssa.Go)
			if !ok {
				return
			}
			nLaunch++
			cal := calleeOf(g)
			body := cal.Static
			construct := fmt.Sprintf("%s: go %s", w.FnName(fn), calleeLabel(cal))
			if body == nil {
				r.Fail(rule, construct, g.Pos(), "goroutine body cannot be resolved: it cannot be matched to a join")
				return
			}
			r.Analysed(w.FnName(body))
			// find `defer W.Done()` in the body's entry block
			var doneKey string
			for _, in2 := range body.Blocks[0].Instrs {
				if d, ok := in2.(*ssa.Defer); ok {
					dc := calleeOf(d)
					if dc.Static != nil && dc.Static.Name() == "Done" && dc.Static.Signature.Recv() != nil && isWaitGroupPtr(dc.Static.Signature.Recv().Type()) {
						doneKey = wgKey(d.Call.Args[0])
					}
				}
			}
			if doneKey != "" {
				// a dominating Add on the same WaitGroup field in the launcher
				okAdd := false
				for _, a := range adds[doneKey] {
					if instrDominates(a, g) {
						if k, isK := constInt(a.Common().Args[1]); isK && k >= 1 {
							okAdd = true
						}
					}
				}
				r.Check(okAdd, rule, construct, g.Pos(), doneKey+".Add precedes the launch; defer "+doneKey+".Done() opens the goroutine", "the goroutine signals "+doneKey+".Done() but no dominating "+doneKey+".Add(n≥1) precedes its launch: the join can miss it")
				return
			}
			switch {
			case isJoinHelper(body):
				r.OK(rule, construct, g.Pos(), "bounded join helper: waits on the WaitGroup(s) and closes its completion channel (C10-R2 checks the deadline)")
			case sameFn(body, join):
				// its completion is published on e.done (closed last in join), which Close / connectLoop wait on
				closesDone := false
				fDone := w.Field("hsms", "epoch", "done")
				eachInstr(join, func(in3 ssa.Instruction) {
					if c, ok := in3.(*ssa.Call); ok && calleeOf(c).Builtin == "close" && isFieldRef(c.Call.Args[0], fDone) {
						closesDone = true
					}
				})
				r.Check(closesDone, rule, construct, g.Pos(), "the epoch join publishes completion on e.done, which Close and the reconnect loop wait on", "epoch.join must close e.done so waiters can join it")
			default:
				r.Fail(rule, construct, g.Pos(), "goroutine has no `defer <WaitGroup>.Done()` in its entry block and is not a bounded join helper: nothing joins it, so it can outlive Close")
			}
		})
	}
	r.Floor(rule, "goroutine launch sites", nLaunch, 17)
	// every WaitGroup that is added to is waited on somewhere
	waited := map[string]bool{}
	for _, fn := range w.ProdFns() {
		for k := range wgCalls(fn, "Wait") {
			waited[k] = true
		}
	}
	var ks []string
	for k := range added {
		ks = append(ks, k)
	}
	sort.Strings(ks)
	for _, k := range ks {
		r.Check(waited[k], rule, "WaitGroup "+k+" has a Wait site", token.NoPos, "joined", "goroutines are registered on "+k+" but nothing ever waits on it")
	}
	r.Floor(rule, "WaitGroups with registered goroutines", len(ks), 9)
}

func calleeLabel(c Callee) string {
	if c.Static != nil {
		return c.Static.Name()
	}
	return calleeName(c)
}

func c10BoundedJoins(r *Run) {
	const rule = "C10-R2-bounded-joins"
	w := r.W
	allowed := map[string]string{
		"hsms.Close|hsms.connection.supWg":         "follows sup.stop(): run/notifier exit as soon as stopCh closes; neither blocks on user code except a handler that returns (property precondition)",
		"hsms.Close|hsms.connection.connectLoopWg": "fenced: shutdown+reconnectGen set and reconnectCancel closed before the wait; the loop's sleep and fence observe them",
		"hsms.Open|hsms.connection.connectLoopWg":  "fenced by the reconnectGen bump made just before",
		"hsms.Open|hsms.connection.supWg":          "failed-Open rollback after sup.stop()",
		"hsmsss.Stop|hsmsss.genWG.accept":          "the listener was closed just before: Accept returns immediately",
		"secs1.Stop|secs1.genWG.accept":            "the listener was closed just before: Accept returns immediately",
	}
	n := 0
	for _, fn := range w.ProdFns() {
		if !inConnPkgs(w, fn) {
			continue
		}
		for k, cs := range wgCalls(fn, "Wait") {
			for _, c := range cs {
				n++
				construct := fmt.Sprintf("%s: %s.Wait()", w.FnName(fn), k)
				if fn.Parent() != nil && isJoinHelper(fn) {
					// the parent must select on the helper's channel against a deadline / ctx
					parent := fn.Parent()
					bounded := false
					eachInstr(parent, func(in ssa.Instruction) {
						if sl, ok := in.(*ssa.Select); ok && sl.Blocking && len(sl.States) >= 2 {
							hasJoined, hasBound := false, false
							for _, st := range sl.States {
								s := render(st.Chan)
								if strings.Contains(s, "local:joined") || strings.Contains(s, "makechan") {
									hasJoined = true
								}
								if strings.Contains(s, "time.After(") || strings.HasSuffix(s, ".Done()") {
									hasBound = true
								}
							}
							if hasJoined && hasBound {
								bounded = true
							}
						}
					})
					r.Check(bounded, rule, construct, c.Pos(), "runs on a helper goroutine; "+parent.Name()+" selects its completion against a deadline/ctx", "the helper's completion must be awaited with a deadline or ctx, or teardown is unbounded")
					continue
				}
				key := w.PkgOf(fn) + "." + fn.Name() + "|" + k
				if why, ok := allowed[key]; ok {
					r.OK(rule, construct, c.Pos(), "enumerated fenced wait: %s", why)
				} else {
					r.Fail(rule, construct, c.Pos(), "a direct WaitGroup.Wait that is neither bounded by a deadline nor one of the enumerated fenced waits can block Close indefinitely")
				}
			}
		}
	}
	r.Floor(rule, "WaitGroup.Wait sites", n, 12)
	// the epoch join deadline derives from the teardown timeout
	join := w.Fn("hsms", "epoch.join")
	okDeadline := false
	eachInstr(join, func(in ssa.Instruction) {
		if c, ok := in.(*ssa.Call); ok {
			if cal := calleeOf(c); cal.Static != nil && cal.Static.Name() == "Add" && cal.Static.Pkg != nil && cal.Static.Pkg.Pkg.Path() == "time" {
				if c.Call.Args[1] == ssa.Value(join.Params[1]) {
					okDeadline = true
				}
			}
		}
	})
	r.Check(okDeadline, rule, "epoch.join: deadline = now + timeout parameter", join.Pos(), "the configured close timeout bounds the join", "the join deadline must be derived from the timeout it is given")
	// teardown closes the socket before starting the join: C09-R4 decides the order
}

// ---------- locks ----------

type lockSite struct {
	fn     *ssa.Function
	call   ssa.CallInstruction
	key    string // owner.field
	base   string // rendered base object
	method string
}

func mutexCall(c ssa.CallInstruction) (key, base, method string, ok bool) {
	cal := calleeOf(c)
	if cal.Static == nil || cal.Static.Signature.Recv() == nil {
		return
	}
	rt := cal.Static.Signature.Recv().Type()
	if !typeIs(rt, "sync", "Mutex") && !typeIs(rt, "sync", "RWMutex") {
		return
	}
	fa, isFA := c.Common().Args[0].(*ssa.FieldAddr)
	if !isFA {
		return "?", render(c.Common().Args[0]), cal.Static.Name(), true
	}
	return typeShort(derefType(fa.X.Type())) + "." + fieldOf(fa).Name(), render(fa.X), cal.Static.Name(), true
}

func c10Locks(r *Run) {
	const rule = "C10-R3-lock-discipline"
	w := r.W
	noBlock := map[string]bool{"hsms.connection.publishMu": true, "hsms.epoch.spawnMu": true, "hsms.epoch.connMu": true, "hsms.connection.cfgMu": true,
		"hsmsss.transport.connMu": true, "secs1.transport.connMu": true, "hsms.session.mu": true}
	nLocks := 0
	for _, fn := range w.ProdFns() {
		if !inConnPkgs(w, fn) {
			continue
		}
		var locks, unlocks []lockSite
		eachInstr(fn, func(in ssa.Instruction) {
			c, ok := in.(ssa.CallInstruction)
			if !ok {
				return
			}
			key, base, m, ok := mutexCall(c)
			if !ok {
				return
			}
			ls := lockSite{fn, c, key, base, m}
			switch m {
			case "Lock", "RLock", "TryLock", "TryRLock":
				locks = append(locks, ls)
			case "Unlock", "RUnlock":
				unlocks = append(unlocks, ls)
			}
		})
		for _, l := range locks {
			nLocks++
			wantUn := "Unlock"
			if strings.Contains(l.method, "R") && l.method != "TryLock" {
				wantUn = "RUnlock"
			}
			barrier := map[ssa.Instruction]bool{}
			deferred := false
			// a deferred closure that (conditionally) unlocks the same mutex field also counts
			eachInstr(fn, func(in2 ssa.Instruction) {
				d, ok := in2.(*ssa.Defer)
				if !ok || !instrDominates(l.call, d) {
					return
				}
				var body *ssa.Function
				switch v := d.Call.Value.(type) {
				case *ssa.MakeClosure:
					body, _ = v.Fn.(*ssa.Function)
				case *ssa.Function:
					body = v
				}
				if body == nil || body.Parent() != fn {
					return
				}
				eachInstr(body, func(in3 ssa.Instruction) {
					if c3, ok := in3.(ssa.CallInstruction); ok {
						if k3, _, m3, ok := mutexCall(c3); ok && k3 == l.key && m3 == wantUn {
							deferred = true
						}
					}
				})
			})
			for _, u := range unlocks {
				if u.key == l.key && u.base == l.base && u.method == wantUn {
					if _, isDefer := u.call.(*ssa.Defer); isDefer {
						if instrDominates(l.call, u.call) || (strings.HasPrefix(l.method, "Try")) {
							deferred = true
						}
					} else {
						barrier[u.call] = true
					}
				}
			}
			construct := fmt.Sprintf("%s: %s.%s()", w.FnName(fn), l.key, l.method)
			start := ssa.Instruction(l.call)
			if strings.HasPrefix(l.method, "Try") {
				// only the success edge holds the lock
				if v, ok := l.call.(*ssa.Call); ok {
					for _, ref := range *v.Referrers() {
						if iff, ok := ref.(*ssa.If); ok {
							start = iff.Block().Succs[0].Instrs[0]
							// `if !TryLock() { return }` form: success is the else edge
							if u, ok := iff.Cond.(*ssa.UnOp); ok && u.Op == token.NOT && u.X == ssa.Value(v) {
								start = iff.Block().Succs[1].Instrs[0]
							}
						}
					}
				}
			}
			if !deferred {
				leak := false
				for _, ret := range exitsOf(fn) {
					if start == ret || canReachWithout(start, ret, barrier) {
						leak = true
					}
				}
				if leak {
					r.Fail(rule, construct, l.call.Pos(), "a path from this %s reaches a function exit without %s: the mutex stays held", l.method, wantUn)
					continue
				}
			}
			r.OK(rule, construct, l.call.Pos(), "released on every path (%s)", map[bool]string{true: "deferred", false: "explicit on all exits"}[deferred])
			// blocking operations while held
			full := l.key
			region := heldRegion(start, barrier, deferred)
			if noBlock[full] {
				for _, in := range region {
					if what := blockingOp(in); what != "" {
						r.Fail(rule, fmt.Sprintf("%s: no blocking operation under %s", w.FnName(fn), l.key), in.Pos(), "%s while %s is held: a short-section mutex must never be held across a blocking operation", what, l.key)
					}
				}
				r.Trivial(rule, fmt.Sprintf("%s: %s section scanned", w.FnName(fn), l.key), l.call.Pos(), "%d instructions, no blocking operation", len(region))
			}
			if full == "hsms.connection.lifeMu" {
				c10LifeMuRegion(r, rule, fn, region)
			}
		}
	}
	r.Floor(rule, "lock acquisition sites", nLocks, 40)
}

func exitsOf(fn *ssa.Function) []ssa.Instruction {
	var out []ssa.Instruction
	eachInstr(fn, func(in ssa.Instruction) {
		switch in.(type) {
		case *ssa.Return:
			out = append(out, in)
		}
	})
	return out
}

// heldRegion lists the instructions that may execute while the lock taken at start is held.
func heldRegion(start ssa.Instruction, unlocks map[ssa.Instruction]bool, deferred bool) []ssa.Instruction {
	var out []ssa.Instruction
	seen := map[*ssa.BasicBlock]bool{}
	var scan func(b *ssa.BasicBlock, from int)
	scan = func(b *ssa.BasicBlock, from int) {
		for i := from; i < len(b.Instrs); i++ {
			in := b.Instrs[i]
			if unlocks[in] {
				return
			}
			out = append(out, in)
		}
		for _, s := range b.Succs {
			if !seen[s] {
				seen[s] = true
				scan(s, 0)
			}
		}
	}
	scan(start.Block(), blockIndexOf(start)+1)
	return out
}

// blockingOp classifies an instruction that can block indefinitely.
func blockingOp(in ssa.Instruction) string {
	switch x := in.(type) {
	case *ssa.Send:
		return "channel send"
	case *ssa.Select:
		if x.Blocking {
			return "blocking select"
		}
	case *ssa.UnOp:
		if x.Op == token.ARROW {
			return "channel receive"
		}
	case ssa.CallInstruction:
		if _, isDefer := in.(*ssa.Defer); isDefer {
			return ""
		}
		if _, isGo := in.(*ssa.Go); isGo {
			return ""
		}
		cal := calleeOf(x)
		if cal.Static != nil {
			n := cal.Static.Name()
			if cal.Static.Signature.Recv() != nil && isWaitGroupPtr(cal.Static.Signature.Recv().Type()) && n == "Wait" {
				return "WaitGroup.Wait"
			}
			if cal.Static.Pkg != nil && cal.Static.Pkg.Pkg.Path() == "time" && n == "Sleep" {
				return "time.Sleep"
			}
			if n == "wait" && cal.Static.Signature.Recv() != nil && typeIs(cal.Static.Signature.Recv().Type(), modPath+"/hsms", "epoch") {
				return "epoch.wait"
			}
			if n == "waitSelected" || n == "inject" || n == "requestClose" {
				return n
			}
		}
		if cal.Method != nil {
			switch cal.Method.Name() {
			case "Start", "Stop", "Write", "Read", "Accept", "WriteMessage":
				return "interface call " + cal.Method.Name()
			}
		}
	}
	return ""
}

// c10LifeMuRegion: blocking operations performed while the Open/Close serialisation mutex is held.
func c10LifeMuRegion(r *Run, rule string, fn *ssa.Function, region []ssa.Instruction) {
	w := r.W
	bounded := map[string]string{
		"WaitGroup.Wait":       "fenced joins (C10-R2)",
		"epoch.wait":           "the epoch join is bounded by the close timeout (C10-R2)",
		"requestClose":         "inject is released by runDone; the event loop never blocks (C05-R4)",
		"inject":               "released by runDone",
		"interface call Stop":  "bounded by its ctx deadline",
		"blocking select":      "", // judged below
		"channel receive":      "",
		"channel send":         "",
		"time.Sleep":           "",
		"waitSelected":         "",
		"interface call Start": "",
	}
	for _, in := range region {
		what := blockingOp(in)
		if what == "" {
			continue
		}
		construct := fmt.Sprintf("%s: %s while lifeMu is held", w.FnName(fn), what)
		if why := bounded[what]; why != "" {
			r.OK(rule, construct, in.Pos(), "bounded: %s", why)
			continue
		}
		switch what {
		case "waitSelected":
			r.Fail(rule, construct, in.Pos(), "Open waits for Selected (bounded only by the CALLER's context) while holding the mutex Close must take first: a concurrent Close blocks for as long as that wait, not for the close timeout")
		case "interface call Start":
			r.Fail(rule, construct, in.Pos(), "the initial dial/listen runs while holding the mutex Close must take first; its context is cancelled only by a teardown that Close cannot start, so a stalled dial delays Close beyond the close timeout")
		default:
			r.Fail(rule, construct, in.Pos(), "unbounded blocking operation under the Open/Close serialisation mutex")
		}
	}
}

// ---------- close-once ----------

func c10CloseOnce(r *Run) {
	const rule = "C10-R4-close-once"
	w := r.W
	n := 0
	for _, fn := range w.ProdFns() {
		if !inConnPkgs(w, fn) {
			continue
		}
		eachInstr(fn, func(in ssa.Instruction) {
			c, ok := in.(ssa.CallInstruction)
			if !ok || calleeOf(c).Builtin != "close" {
				return
			}
			n++
			ch := c.Common().Args[0]
			chs := render(ch)
			construct := fmt.Sprintf("%s: close(%s)", w.FnName(fn), chs)
			_, isDefer := in.(*ssa.Defer)
			switch {
			case isOnceBody(w, fn):
				r.OK(rule, construct, c.Pos(), "inside a sync.Once.Do body")
			case isFreshLocalChan(ch, fn):
				r.OK(rule, construct, c.Pos(), "fresh local channel created in this call")
			case isDefer && launchedOnce(w, fn):
				r.OK(rule, construct, c.Pos(), "deferred in a goroutine body launched exactly once per owner object")
			case w.PkgOf(fn) == "hsms" && fn.Name() == "join" && strings.HasSuffix(chs, ".done"):
				// join runs only from teardown's closeOnce body
				ok := true
				for _, u := range w.usesOf(fn) {
					if w.IsProd(u.Fn) && !isOnceBody(w, u.Fn) {
						ok = false
					}
				}
				r.Check(ok, rule, construct, c.Pos(), "epoch.join is started only from teardown's closeOnce body ⇒ runs once per epoch", "epoch.join must be reachable only through closeOnce")
			case w.PkgOf(fn) == "hsms" && fn.Name() == "Close" && strings.Contains(chs, "reconnectCancel"):
				// guarded by lifeMu + the runDone short-circuit (C05-R5) + a fresh channel per Open
				open := w.Fn("hsms", "connection.Open")
				fresh := false
				eachInstr(open, func(in2 ssa.Instruction) {
					if cc, ok := in2.(*ssa.Call); ok && callIsAtomicMethodOn(cc, w.Field("hsms", "connection", "reconnectCancel"), "Store") {
						fresh = true
					}
				})
				r.Check(fresh, rule, construct, c.Pos(), "one close per Open cycle: Open installs a fresh channel, a re-Close short-circuits on runDone (C05-R5), both under lifeMu", "Open must install a fresh reconnectCancel channel per cycle")
			case w.PkgOf(fn) == "secs1" && fn.Name() == "Stop" && strings.Contains(chs, "genDone"):
				// t.genDone is taken and niled under startGate.Lock before the close; ArmStart installs a fresh one
				fGD := w.Field("secs1", "transport", "genDone")
				niled := false
				eachInstr(fn, func(in2 ssa.Instruction) {
					if st, ok := in2.(*ssa.Store); ok && isFieldRef(st.Addr, fGD) {
						if k, ok := st.Val.(*ssa.Const); ok && k.IsNil() && instrDominates(st, c) {
							niled = true
						}
					}
				})
				facts := factsIn(fn)
				nn := false
				for f := range facts[c.Block()] {
					if x, eq, isCmp := isNilCmp(f.Cond); isCmp && x == ch && eq != f.Val {
						nn = true
					}
				}
				r.Check(niled && nn, rule, construct, c.Pos(), "the field is swapped to nil under startGate before the close and the captured value is nil-checked ⇒ one close per generation", "secs1.Stop must take-and-nil genDone under the seal before closing it")
			case w.PkgOf(fn) == "hsms" && strings.HasPrefix(fn.Name(), "init"):
				r.OK(rule, construct, c.Pos(), "package initialiser")
			default:
				r.Fail(rule, construct, c.Pos(), "close of a channel with no once-guard recognised: a second close panics")
			}
		})
	}
	r.Floor(rule, "close() sites", n, 10)
}

// isOnceBody: fn is a closure passed to (*sync.Once).Do.
func isOnceBody(w *World, fn *ssa.Function) bool {
	p := fn.Parent()
	if p == nil {
		return false
	}
	ok := false
	eachInstr(p, func(in ssa.Instruction) {
		if c, isC := in.(*ssa.Call); isC {
			cal := calleeOf(c)
			if cal.Static != nil && cal.Static.Name() == "Do" && cal.Static.Signature.Recv() != nil && typeIs(cal.Static.Signature.Recv().Type(), "sync", "Once") {
				if mc, isMC := c.Call.Args[1].(*ssa.MakeClosure); isMC && mc.Fn == ssa.Value(fn) {
					ok = true
				}
				if c.Call.Args[1] == ssa.Value(fn) { // a closure without captured variables
					ok = true
				}
			}
		}
	})
	return ok
}

func isFreshLocalChan(ch ssa.Value, fn *ssa.Function) bool {
	// the channel value is (a load of a captured/local variable holding) a MakeChan made in
	// this function or its parent in the same call
	var find func(v ssa.Value, f *ssa.Function, depth int) bool
	find = func(v ssa.Value, f *ssa.Function, depth int) bool {
		if depth > 4 || v == nil {
			return false
		}
		switch x := v.(type) {
		case *ssa.MakeChan:
			return true
		case *ssa.UnOp:
			if x.Op == token.MUL {
				switch a := x.X.(type) {
				case *ssa.Alloc:
					return find(singleStore(a), f, depth+1)
				case *ssa.FreeVar:
					if f.Parent() != nil {
						return find(bindingOf(f.Parent(), a), f.Parent(), depth+1)
					}
				}
			}
		case *ssa.FreeVar:
			if f.Parent() != nil {
				return find(bindingOf(f.Parent(), x), f.Parent(), depth+1)
			}
		}
		return false
	}
	return find(ch, fn, 0)
}

// launchedOnce: fn (or the closure wrapping its only call) is started by exactly one go
// statement, in a function that creates the owner object in the same call.
func launchedOnce(w *World, fn *ssa.Function) bool {
	uses := 0
	okAll := true
	for _, u := range w.usesOf(fn) {
		if !w.IsProd(u.Fn) {
			continue
		}
		uses++
		// called from a closure that is itself the body of a go statement in Open
		host := u.Fn
		if host.Parent() == nil {
			okAll = false
			continue
		}
		launched := 0
		eachInstr(host.Parent(), func(in ssa.Instruction) {
			if g, ok := in.(*ssa.Go); ok {
				if mc, ok := g.Call.Value.(*ssa.MakeClosure); ok && mc.Fn == ssa.Value(host) {
					launched++
				}
			}
		})
		if launched != 1 {
			okAll = false
		}
	}
	return uses == 1 && okAll
}

// ---------- guards ----------

func c10Guards(r *Run) {
	const rule = "C10-R5-open-close-guards"
	w := r.W
	s := newSendCtx(w)
	open := w.Fn("hsms", "connection.Open")
	closeFn := w.Fn("hsms", "connection.Close")
	fSup := w.Field("hsms", "connection", "sup")
	fShut := w.Field("hsms", "connection", "shutdown")
	r.Analysed(w.FnName(open))
	isEffect := func(in ssa.Instruction) string {
		switch x := in.(type) {
		case *ssa.Go:
			return "go"
		case ssa.CallInstruction:
			if _, isDefer := in.(*ssa.Defer); isDefer {
				return ""
			}
			cal := calleeOf(x)
			if cal.Static != nil && cal.Static.Signature.Recv() != nil {
				rt := cal.Static.Signature.Recv().Type()
				n := baseName(cal.Static)
				if (typeIs(rt, "sync/atomic", "Pointer") || typeIs(rt, "sync/atomic", "Bool") || typeIs(rt, "sync/atomic", "Uint64")) && (n == "Store" || n == "Add" || n == "Swap") {
					return render(x.Common().Args[0]) + "." + n
				}
				if isWaitGroupPtr(rt) && (n == "Add" || n == "Go" || n == "Wait") {
					return "WaitGroup." + n
				}
				if typeIs(rt, modPath+"/hsms", "epoch") && (n == "spawn" || n == "teardown") {
					return "epoch." + n
				}
				if typeIs(rt, modPath+"/hsms", "supervisor") && (n == "requestClose" || n == "stop") {
					return "supervisor." + n
				}
			}
			if cal.Static != nil && (cal.Static.Name() == "newEpoch" || cal.Static.Name() == "newSupervisor") {
				return cal.Static.Name()
			}
			if cal.Method != nil && (s.isTrMethod("Start")(cal) || s.isTrMethod("ArmStart")(cal) || s.isTrMethod("Stop")(cal)) {
				return "tr." + cal.Method.Name()
			}
			if cal.Builtin == "close" {
				return "close"
			}
		}
		return ""
	}
	// Open
	{
		paths, ok := enumPaths(open, 200000)
		if !ok {
			r.Undecided(rule, "Open paths", open.Pos(), "too many paths")
		} else {
			nGuard, nProceed := 0, 0
			good := true
			for _, p := range paths {
				supLive, shut, decided := false, false, false
				var effBefore []string
				p.Walk(func(in ssa.Instruction) {
					if !decided {
						if e := isEffect(in); e != "" {
							effBefore = append(effBefore, e)
						}
					}
				}, func(f Fact) {
					if x, eq, isCmp := isNilCmp(f.Cond); isCmp && atomicMethodOn(x, fSup, "Load") {
						supLive = eq != f.Val
						if !supLive {
							decided = true
						}
					}
					if atomicMethodOn(f.Cond, fShut, "Load") {
						shut = f.Val
						decided = true
					}
				})
				if supLive && !shut {
					nGuard++
					all := []string{}
					for _, in := range p.Instrs() {
						if e := isEffect(in); e != "" {
							all = append(all, e)
						}
					}
					if retErr(p) != "ErrAlreadyOpen" || len(all) != 0 {
						good = false
						r.Fail(rule, "Open on a live connection", p.Exit.Pos(), "returns %s with side effects %v; required ErrAlreadyOpen and none", retErr(p), all)
					}
					continue
				}
				if len(effBefore) > 0 {
					good = false
					r.Fail(rule, "Open: double-open test precedes every side effect", p.Exit.Pos(), "effects %v happen before the liveness test", effBefore)
				}
				if decided {
					nProceed++
				}
			}
			if good {
				r.OK(rule, "Open: live supervisor ∧ ¬shutdown ⇒ ErrAlreadyOpen, no side effect; the test precedes every store/spawn/Start", open.Pos(), "%d refusing paths, %d proceeding paths", nGuard, nProceed)
			}
			r.Floor(rule, "Open refusing paths", nGuard, 1)
		}
	}
	// Close: nil epoch
	{
		paths, ok := enumPaths(closeFn, 20000)
		if ok {
			n, good := 0, true
			for _, p := range paths {
				for _, c := range p.Conds {
					if x, eq, isCmp := isNilCmp(c.Cond); isCmp && atomicMethodOn(x, s.fCur, "Load") && eq == c.Val {
						n++
						var all []string
						for _, in := range p.Instrs() {
							if e := isEffect(in); e != "" {
								all = append(all, e)
							}
						}
						if retErr(p) != "ErrNotOpen" || len(all) != 0 {
							good = false
						}
					}
				}
			}
			r.Check(good && n >= 1, rule, "Close on a never-opened connection ⇒ ErrNotOpen, no side effect", closeFn.Pos(), fmt.Sprintf("%d paths", n), "Close with no epoch must return ErrNotOpen and touch nothing")
		}
	}
	// nil-message guards
	for _, name := range []string{"session.ForwardDataMessage", "session.ForwardDataMessageAsync"} {
		fn := w.Fn("hsms", name)
		paths, ok := enumPaths(fn, 1000)
		good, n := ok, 0
		for _, p := range paths {
			for _, c := range p.Conds {
				if x, eq, isCmp := isNilCmp(c.Cond); isCmp && x == ssa.Value(fn.Params[2]) && eq == c.Val {
					n++
					if retErr(p) != "ErrNilMessage" || len(p.Calls(func(c Callee) bool { return c.Method != nil })) != 0 {
						good = false
					}
				}
			}
		}
		r.Check(good && n == 1, rule, name+"(nil) ⇒ ErrNilMessage", fn.Pos(), "guarded before any runtime call", "a nil message must be refused, not dereferenced")
	}
}

// ---------- panic surface ----------

func c10PanicSurface(r *Run) {
	const rule = "C10-R6-panic-surface"
	w := r.W
	nPanic := 0
	for _, fn := range w.ProdFns() {
		if !inConnPkgs(w, fn) {
			continue
		}
		eachInstr(fn, func(in ssa.Instruction) {
			switch x := in.(type) {
			case *ssa.Panic:
				// compiler-generated "blocking select matched no case" is unreachable by construction
				if mi, ok := x.X.(*ssa.MakeInterface); ok {
					if c, ok := mi.X.(*ssa.Const); ok && strings.Contains(c.Value.String(), "blocking select matched no case") {
						return
					}
				}
				if !x.Pos().IsValid() {
					return // compiler-generated (range-over-func protocol checks), not an explicit panic
				}
				nPanic++
				if w.PkgOf(fn) == "internal/wire" && fn.Name() == "chunkView" {
					r.OK(rule, "internal/wire.chunkView: invariant panic", x.Pos(), "offsets are produced by the encoder itself (C01 decides the length arithmetic)")
				} else {
					r.Fail(rule, w.FnName(fn)+": explicit panic", x.Pos(), "connection/transport code must not panic on any API input")
				}
			case *ssa.TypeAssert:
				if !x.CommaOk && types.IsInterface(x.AssertedType) && types.Identical(x.AssertedType, x.X.Type()) {
					return // go/ssa's nil-check for a method value on an interface (x.M as a func value)
				}
				if !x.CommaOk {
					r.Fail(rule, w.FnName(fn)+": unchecked type assertion "+render(x), x.Pos(), "an unchecked assertion panics when a peer/caller supplies another dynamic type")
				}
			}
		})
	}
	r.Floor(rule, "explicit panic sites (expected: the one documented invariant)", nPanic, 1)
	// user callbacks off the receive path run under recover
	type cb struct{ pkg, fn, what string }
	for _, c := range []cb{{"hsms", "supervisor.callHandler", "state-change handler"}, {"hsms", "connection.callAsyncSendErrorHandler", "async send error handler"}} {
		fn := w.Fn(c.pkg, c.fn)
		rec := false
		for _, af := range fn.AnonFuncs {
			eachInstr(af, func(in ssa.Instruction) {
				if cc, ok := in.(*ssa.Call); ok && calleeOf(cc).Builtin == "recover" {
					rec = true
				}
			})
		}
		// the deferred recover closure is installed before the dynamic call
		var def ssa.Instruction
		var dyn ssa.Instruction
		eachInstr(fn, func(in ssa.Instruction) {
			if d, ok := in.(*ssa.Defer); ok {
				if mc, ok := d.Call.Value.(*ssa.MakeClosure); ok && len(fn.AnonFuncs) > 0 && mc.Fn == ssa.Value(fn.AnonFuncs[0]) {
					def = in
				}
				if f, ok := d.Call.Value.(*ssa.Function); ok && len(fn.AnonFuncs) > 0 && f == fn.AnonFuncs[0] {
					def = in
				}
			}
			if cc, ok := in.(*ssa.Call); ok && calleeOf(cc).Dynamic {
				dyn = in
			}
		})
		r.Check(rec && def != nil && dyn != nil && instrDominates(def, dyn), rule, c.fn+": "+c.what+" invoked under recover", fn.Pos(), "defer recover() precedes the callback", "a panicking user callback must not kill a library goroutine")
	}
	// the handler is invoked only through the guarded wrapper
	fHandlers := w.Field("hsms", "supervisor", "handlers")
	for _, site := range w.fieldSites(fHandlers) {
		if !w.IsProd(site.Fn) {
			continue
		}
		n := site.Fn.Name()
		r.Check(n == "notifier" || strings.HasPrefix(n, "newSupervisor"), rule, "supervisor.handlers used in "+w.FnName(site.Fn), site.Pos(), "read by the notifier only", "handlers must be invoked only by the notifier through callHandler")
	}
	// epoch.spawn wraps tasks in recover
	spawn := w.Fn("hsms", "epoch.spawn")
	rec := false
	var walk func(f *ssa.Function)
	walk = func(f *ssa.Function) {
		eachInstr(f, func(in ssa.Instruction) {
			if cc, ok := in.(*ssa.Call); ok && calleeOf(cc).Builtin == "recover" {
				rec = true
			}
		})
		for _, af := range f.AnonFuncs {
			walk(af)
		}
	}
	walk(spawn)
	r.Check(rec, rule, "epoch.spawn: tasks run under recover", spawn.Pos(), "panic-guarded goroutine", "a panicking task must not crash the process")
}
