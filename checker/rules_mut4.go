package main

// Rules motivated by the last batch of surviving mutants:
//   C19-R5  — every successful Selected commit starts the prober
//   C10-R12 — an accepted connection that is not adopted is closed (both accept loops)
//   C13-R8  — every SML option stores its argument in the field it is named for, and the
//             strictness flags reach the code they switch
//   C14/C02 — the nesting bound the recursion is guarded with is secs2.MaxListDepth

import (
	"fmt"
	"go/token"
	"go/types"
	"strings"

	"golang.org/x/tools/go/ssa"
)

func init() {
	registry["C19"].Rules = append(registry["C19"].Rules,
		Rule{Name: "C19-R5-prober-started-on-select", Doc: "every place that commits Selected successfully (the responder of Select.req and the initiator on Select.rsp) starts the linktest prober on that same path: whichever side completes the select, a link that goes dead afterwards is probed", Run: c19ProberStarted})
	registry["C10"].Rules = append(registry["C10"].Rules,
		Rule{Name: "C10-R12-unadopted-connection-closed", Doc: "in both accept loops every return taken after a connection was accepted but before it was handed to the core (TCPUp) closes that connection: a peer accepted while Stop was sealing the transport is not left open", Run: c10UnadoptedClosed})
	registry["C13"].Rules = append(registry["C13"].Rules,
		Rule{Name: "C13-R8-option-wiring", Doc: "every encoder and parser option stores its argument (WithASCIIQuote after mapping QuoteNone to the double quote) in its own field and in no other; the encoder's strict flag is what selects strict rendering of ASCII items and the parser's strict flag is what selects the strict ASCII parser — so the option combinations the property quantifies over are the ones that take effect", Run: c13OptionWiring})
}

func c19ProberStarted(r *Run) {
	const rule = "C19-R5-prober-started-on-select"
	w := r.W
	start := w.Fn("hsmsss", "transport.startLinktest")
	n := 0
	for _, fn := range w.FnsInPkg("hsmsss") {
		if !w.IsProd(fn) {
			continue
		}
		eachInstr(fn, func(in ssa.Instruction) {
			c, ok := in.(*ssa.Call)
			if !ok || !c.Call.IsInvoke() || c.Call.Method.Name() != "CommitSelected" {
				return
			}
			n++
			r.Analysed(w.FnName(fn))
			var iff *ssa.If
			for _, ref := range *c.Referrers() {
				if i2, ok := ref.(*ssa.If); ok {
					iff = i2
				}
			}
			if iff == nil {
				r.Fail(rule, w.FnName(fn)+": the result of CommitSelected is tested", c.Pos(), "the commit's outcome is not branched on")
				return
			}
			succ := iff.Block().Succs[0]
			// the prober is started in the success block or in a block it dominates on every way on
			started := false
			for _, sc := range callsIn(fn, isFn(start)) {
				b := sc.Block()
				if b == succ || succ.Dominates(b) {
					started = true
				}
			}
			r.Check(started, rule, w.FnName(fn)+": a successful Selected commit starts the linktest prober", c.Pos(), "startLinktest on the success edge", "a session selected through this path is never probed: a peer that goes silent afterwards is not detected by the linktest")
		})
	}
	r.Floor(rule, "CommitSelected call sites in hsmsss", n, 2)
}

func c10UnadoptedClosed(r *Run) {
	const rule = "C10-R12-unadopted-connection-closed"
	w := r.W
	n := 0
	for _, pkg := range []string{"hsmsss", "secs1"} {
		fn := w.Fn(pkg, "transport.acceptLoop")
		r.Analysed(w.FnName(fn))
		// the first Accept (the one whose connection may be adopted): the Accept call that dominates TCPUp
		var up ssa.CallInstruction
		for _, c := range callsIn(fn, func(cl Callee) bool { return cl.Method != nil && cl.Method.Name() == "TCPUp" }) {
			up = c
		}
		if up == nil {
			r.Undecided(rule, w.FnName(fn)+": hand-over to the core", fn.Pos(), "no TCPUp call")
			continue
		}
		var acc *ssa.Call
		for _, c := range callsIn(fn, func(cl Callee) bool { return cl.Method != nil && cl.Method.Name() == "Accept" }) {
			if cc, ok := c.(*ssa.Call); ok && instrDominates(cc, up.(ssa.Instruction)) {
				acc = cc
			}
		}
		if acc == nil {
			r.Undecided(rule, w.FnName(fn)+": accepted connection", fn.Pos(), "no Accept call dominating TCPUp")
			continue
		}
		var conn ssa.Value
		for _, ref := range *acc.Referrers() {
			if ex, ok := ref.(*ssa.Extract); ok && ex.Index == 0 {
				conn = ex
			}
		}
		facts := factsIn(fn)
		for _, b := range fn.Blocks {
			ret, ok := b.Instrs[len(b.Instrs)-1].(*ssa.Return)
			if !ok || !acc.Block().Dominates(b) || up.Block().Dominates(b) || b == up.Block() {
				continue
			}
			// returns where Accept itself failed hold no connection
			acceptFailed := false
			for f := range facts[b] {
				if x, eq, isCmp := isNilCmp(f.Cond); isCmp {
					if ex, ok := x.(*ssa.Extract); ok && ex.Tuple == ssa.Value(acc) && ex.Index == 1 && eq != f.Val {
						acceptFailed = true
					}
				}
			}
			if acceptFailed {
				continue
			}
			n++
			closed := false
			for _, c := range callsIn(fn, func(cl Callee) bool { return cl.Method != nil && cl.Method.Name() == "Close" }) {
				if c.Common().Value == conn && (c.Block() == b || c.Block().Dominates(b)) && acc.Block().Dominates(c.Block()) {
					closed = true
				}
			}
			r.Check(closed, rule, fmt.Sprintf("%s: return at %s before the connection is adopted", w.FnName(fn), w.Pos(ret.Pos())), ret.Pos(), "conn.Close() on the way", "the accepted connection is neither handed to the core nor closed: it stays open after Close")
		}
	}
	// hsmsss adopts unconditionally (a late peer is closed by Stop's re-read, C10-R7); secs1 re-checks
	// the seal after Accept and returns
	r.Floor(rule, "returns between Accept and TCPUp", n, 1)
}

func c13OptionWiring(r *Run) {
	const rule = "C13-R8-option-wiring"
	w := r.W
	type opt struct{ fn, field string }
	n := 0
	for _, o := range []opt{{"WithEncoderStrictMode", "strict"}, {"WithASCIIQuote", "asciiQuote"}, {"WithSFQuote", "sfQuote"}, {"WithBinaryStyle", "binaryStyle"}, {"WithIndent", "indent"}, {"WithParserStrictMode", "strict"}} {
		fn := w.FnOpt("sml", o.fn)
		if fn == nil {
			r.Fail(rule, "option "+o.fn+" exists", 0, "the option function was not found")
			continue
		}
		r.Analysed(w.FnName(fn))
		if len(fn.AnonFuncs) != 1 {
			r.Undecided(rule, o.fn+": one option closure", fn.Pos(), "found %d closures", len(fn.AnonFuncs))
			continue
		}
		cl := fn.AnonFuncs[0]
		var stores []*ssa.Store
		eachInstr(cl, func(in ssa.Instruction) {
			if st, ok := in.(*ssa.Store); ok {
				if _, isField := st.Addr.(*ssa.FieldAddr); isField {
					stores = append(stores, st)
				}
			}
		})
		n++
		good := len(stores) == 1
		if good {
			st := stores[0]
			fa := st.Addr.(*ssa.FieldAddr)
			good = fieldOf(fa).Name() == o.field && fa.X == ssa.Value(cl.Params[0])
			// the stored value is the option's argument (a captured variable, possibly re-assigned in
			// the closure for normalisation — then every value it can hold is the argument or a constant)
			var fromArg func(v ssa.Value, depth int) bool
			fromArg = func(v ssa.Value, depth int) bool {
				if depth > 6 {
					return false
				}
				switch x := v.(type) {
				case *ssa.FreeVar:
					for _, b := range freeVarBindings(x) {
						if al, ok := b.(*ssa.Alloc); ok {
							okc := false
							for _, ref := range *al.Referrers() {
								if s2, ok := ref.(*ssa.Store); ok && s2.Addr == ssa.Value(al) && s2.Val == ssa.Value(fn.Params[0]) {
									okc = true
								}
							}
							return okc
						}
						return b == ssa.Value(fn.Params[0])
					}
				case *ssa.UnOp:
					if x.Op == token.MUL {
						return fromArg(x.X, depth+1)
					}
				case *ssa.Phi:
					for _, e := range x.Edges {
						if _, isK := e.(*ssa.Const); !isK && !fromArg(e, depth+1) {
							return false
						}
					}
					return true
				}
				return false
			}
			good = good && fromArg(st.Val, 0)
		}
		r.Check(good, rule, fmt.Sprintf("%s stores its argument in %s (and nothing else)", o.fn, o.field), fn.Pos(), "one store, field = argument", "the option does not put its argument into the field it configures: the option would have no effect (or a different one)")
	}
	r.Floor(rule, "option functions", n, 6)
	// the encoder's strict flag reaches the ASCII rendering
	enc := w.Fn("sml", "Encoder.encodeItem")
	es := w.Fn("sml", "Encoder.encodeString")
	fStrictE := w.Field("sml", "Encoder", "strict")
	okE := false
	for _, c := range callsIn(enc, isFn(es)) {
		a := c.Common().Args
		if k, ok := a[2].(*ssa.Const); ok && k.Value != nil && strings.Contains(k.Value.String(), "A") {
			if ld, ok := a[4].(*ssa.UnOp); ok && ld.Op == token.MUL && isFieldRef(ld.X, fStrictE) {
				okE = true
			}
		}
	}
	r.Check(okE, rule, "the encoder's strict flag selects strict rendering of ASCII items", enc.Pos(), "encodeString(\"A\", s, e.strict)", "ASCII items are not rendered under the encoder's own strict flag")
	// the parser's strict flag selects the strict ASCII parser
	pi := w.Fn("sml", "Parser.parseItemAt")
	ps := w.Fn("sml", "Parser.parseASCIIStrict")
	fStrictP := w.Field("sml", "Parser", "strict")
	okP := false
	for _, c := range callsIn(pi, isFn(ps)) {
		for f := range factsIn(pi)[c.Block()] {
			if ld, ok := f.Cond.(*ssa.UnOp); ok && ld.Op == token.MUL && isFieldRef(ld.X, fStrictP) && f.Val {
				okP = true
			}
		}
	}
	r.Check(okP, rule, "the parser's strict flag selects the strict ASCII parser", pi.Pos(), "p.strict → parseASCIIStrict", "the strict ASCII parser is not selected by the parser's own strict flag")
	_ = types.Typ
}
