package main

// Rules added after the fifth round of seeded changes:
//   C10-R13 — the Stop seal is re-checked after the dial / listen, before anything is registered
//   C05-R10 — the notifier is joined by Close (no notification after Close returned)
//   C05-R11 — a straggler of an old generation cannot inject events into a newer one (alias)

import (
	"fmt"
	"go/token"

	"golang.org/x/tools/go/ssa"
)

func init() {
	registry["C10"].Rules = append(registry["C10"].Rules,
		Rule{Name: "C10-R13-seal-rechecked-after-acquire", Doc: "in startActive / startPassive (both transports) the 'Stop is sealing' flag is read after the dial or listen returned, and every goroutine the bring-up registers or launches is dominated by that check having found the transport unsealed: a Close that seals while the dial/listen is in flight is seen before anything of the new generation is left running", Run: c10SealRechecked})
	registry["C09"].Rules = append(registry["C09"].Rules,
		Rule{Name: "C09-R7-per-generation-assembler", Doc: "the SECS-I inbound assembler (the partial-message state) is built once per generation by that generation's line engine, never kept on the transport: blocks received on one generation cannot be stitched to blocks of the next into a message that completes a later send (shared with C18-R4)", Run: func(r *Run) {
			r.ruleAlias = "C09-R7-per-generation-assembler"
			defer func() { r.ruleAlias = "" }()
			c18SingleSink(r)
		}})
	registry["C05"].Rules = append(registry["C05"].Rules,
		Rule{Name: "C05-R10-notifier-joined", Doc: "Open launches the supervisor's run loop and its notifier under the WaitGroup Close joins (Add before the launches, counting exactly them; each goroutine defers Done): Close does not return while a notification can still be delivered", Run: c05NotifierJoined},
		Rule{Name: "C05-R11-stale-generation-silent", Doc: "the per-generation goroutines of both transports use the generation context and channels they captured when they were started, never the transport's current ones: a straggler that outlived its generation cannot take a newer generation down (shared with C09-R3)", Run: func(r *Run) {
			r.ruleAlias = "C05-R11-stale-generation-silent"
			defer func() { r.ruleAlias = "" }()
			c09WriteBound(r)
		}})
}

func init() {
	registry["C10"].Rules = append(registry["C10"].Rules,
		Rule{Name: "C10-R14-adopted-connection-published", Doc: "in every bring-up path the socket handed to the core (rt.TCPUp(conn)) was first stored in the transport's own connection field: Stop — which closes what it finds there — can always reach the socket of the generation it tears down", Run: c10AdoptedPublished})
}

func init() {
	registry["C10"].Rules = append(registry["C10"].Rules,
		Rule{Name: "C10-R15-open-resets-cycle-state", Doc: "before Open starts the transport it clears the shutdown flag a previous Close left set, installs a fresh reconnect-cancel channel and a fresh supervisor: a connection opened again after Close reconnects, notifies and closes like a new one", Run: c10OpenResets})
}

func c10OpenResets(r *Run) {
	const rule = "C10-R15-open-resets-cycle-state"
	w := r.W
	open := w.Fn("hsms", "connection.Open")
	r.Analysed(w.FnName(open))
	var start ssa.Instruction
	eachInstr(open, func(in ssa.Instruction) {
		if c, ok := in.(ssa.CallInstruction); ok && c.Common().IsInvoke() && c.Common().Method.Name() == "Start" {
			start = in
		}
	})
	if start == nil {
		r.Undecided(rule, "Open: transport start", open.Pos(), "no tr.Start call")
		return
	}
	storeOn := func(field string, pred func(args []ssa.Value) bool) bool {
		f := w.Field("hsms", "connection", field)
		found := false
		eachInstr(open, func(in ssa.Instruction) {
			c, ok := in.(*ssa.Call)
			if !ok || calleeOf(c).Static == nil || baseName(calleeOf(c).Static) != "Store" || len(c.Call.Args) < 2 {
				return
			}
			if fa, ok := c.Call.Args[0].(*ssa.FieldAddr); ok && sameVar(fieldOf(fa), f) && instrDominates(in, start) && pred(c.Call.Args[1:]) {
				found = true
			}
		})
		return found
	}
	r.Check(storeOn("shutdown", func(a []ssa.Value) bool {
		c, ok := a[0].(*ssa.Const)
		return ok && c.Value != nil && c.Value.String() == "false"
	}), rule, "Open clears the shutdown flag before starting the transport", open.Pos(), "shutdown.Store(false) ≺ tr.Start", "a connection re-opened after Close keeps shutdown set: after the next involuntary drop it never reconnects")
	r.Check(storeOn("reconnectCancel", func(a []ssa.Value) bool {
		// the address of a channel made in this call
		al, ok := a[0].(*ssa.Alloc)
		if !ok {
			return false
		}
		for _, ref := range *al.Referrers() {
			if st, ok := ref.(*ssa.Store); ok && st.Addr == ssa.Value(al) {
				if _, isMake := st.Val.(*ssa.MakeChan); isMake {
					return true
				}
			}
		}
		return false
	}), rule, "Open installs a fresh reconnect-cancel channel", open.Pos(), "reconnectCancel.Store(&make(chan struct{}))", "the channel a previous Close closed would still be in place: every reconnect backoff of the new cycle is skipped or the loop is told to stop at once")
	r.Check(storeOn("sup", func(a []ssa.Value) bool {
		c, ok := resolveCell(a[0]).(*ssa.Call)
		return ok && calleeOf(c).Static != nil && calleeOf(c).Static.Name() == "newSupervisor"
	}), rule, "Open installs a fresh supervisor", open.Pos(), "sup.Store(newSupervisor(…))", "the supervisor of the previous cycle (closed latch set, state word sealed) would be reused")
}

func c10AdoptedPublished(r *Run) {
	const rule = "C10-R14-adopted-connection-published"
	w := r.W
	n := 0
	for _, pkg := range []string{"hsmsss", "secs1"} {
		fConn := w.Field(pkg, "transport", "conn")
		for _, fn := range w.FnsInPkg(pkg) {
			if !w.IsProd(fn) {
				continue
			}
			for _, up := range callsIn(fn, func(cl Callee) bool { return cl.Method != nil && cl.Method.Name() == "TCPUp" }) {
				n++
				r.Analysed(w.FnName(fn))
				conn := up.Common().Args[0]
				published := false
				eachInstr(fn, func(in ssa.Instruction) {
					st, ok := in.(*ssa.Store)
					if !ok || !isFieldRef(st.Addr, fConn) {
						return
					}
					if stripConv(st.Val) == stripConv(conn) && instrDominates(in, up.(ssa.Instruction)) {
						published = true
					}
				})
				r.Check(published, rule, w.FnName(fn)+": the socket is stored in t.conn before rt.TCPUp", up.Pos(), "t.conn = conn ≺ rt.TCPUp(conn)", "the core is given a socket the transport itself does not remember: Stop cannot close it")
			}
		}
	}
	r.Floor(rule, "TCPUp call sites", n, 4)
}

func c10SealRechecked(r *Run) {
	const rule = "C10-R13-seal-rechecked-after-acquire"
	w := r.W
	n := 0
	for _, pkg := range []string{"hsmsss", "secs1"} {
		fStopping := w.Field(pkg, "transport", "stopping")
		for _, name := range []string{"transport.startActive", "transport.startPassive"} {
			fn := w.Fn(pkg, name)
			r.Analysed(w.FnName(fn))
			var acq ssa.CallInstruction
			eachInstr(fn, func(in ssa.Instruction) {
				if c, ok := in.(ssa.CallInstruction); ok && (cfgFuncCall(c, "dial") || cfgFuncCall(c, "listen")) {
					acq = c
				}
			})
			if acq == nil {
				r.Undecided(rule, w.FnName(fn)+": dial/listen call", fn.Pos(), "not found")
				continue
			}
			// reads of the seal after the acquisition
			var checks []ssa.Instruction
			eachInstr(fn, func(in ssa.Instruction) {
				if ld, ok := in.(*ssa.UnOp); ok && ld.Op == token.MUL && isFieldRef(ld.X, fStopping) && instrDominates(acq.(ssa.Instruction), in) {
					checks = append(checks, in)
				}
			})
			n++
			if !r.Check(len(checks) >= 1, rule, w.FnName(fn)+": the seal is read again after the dial/listen", acq.Pos(), "t.stopping read after the call", "the seal is only checked before the blocking dial/listen: a Close that seals while it is in flight goes unnoticed and the new generation's goroutines are started on a transport Stop has already finished with") {
				continue
			}
			// everything registered / launched afterwards is under "not sealed"
			facts := factsIn(fn)
			unsealedAt := func(b *ssa.BasicBlock) bool {
				for f := range facts[b] {
					if ld, ok := f.Cond.(*ssa.UnOp); ok && ld.Op == token.MUL && isFieldRef(ld.X, fStopping) && !f.Val {
						for _, c := range checks {
							if c == ssa.Instruction(ld) {
								return true
							}
						}
					}
				}
				return false
			}
			eachInstr(fn, func(in ssa.Instruction) {
				if !instrDominates(acq.(ssa.Instruction), in) {
					return
				}
				what := ""
				switch x := in.(type) {
				case *ssa.Go:
					what = "go " + shortRender(x.Call.Value)
				case *ssa.Call:
					if g := calleeOf(x).Static; g != nil && fnPkgPath(g) == "sync" && (g.Name() == "Add" || g.Name() == "Go") {
						what = "WaitGroup." + g.Name()
					}
				}
				if what == "" {
					return
				}
				r.Check(unsealedAt(in.Block()), rule, fmt.Sprintf("%s: %s only after the seal was found clear", w.FnName(fn), what), in.Pos(), "dominated by !t.stopping (read after the dial/listen)", "a goroutine of the new generation is registered or launched without the post-acquire seal check: it can start after Stop has already joined this generation")
			})
		}
	}
	r.Floor(rule, "bring-up functions", n, 4)
}

func c05NotifierJoined(r *Run) {
	const rule = "C05-R10-notifier-joined"
	w := r.W
	open := w.Fn("hsms", "connection.Open")
	closeFn := w.Fn("hsms", "connection.Close")
	fSupWg := w.Field("hsms", "connection", "supWg")
	run := w.Fn("hsms", "supervisor.run")
	notifier := w.Fn("hsms", "supervisor.notifier")
	r.Analysed(w.FnName(open))
	// launches of run / notifier in Open
	launched := map[string]bool{}
	nLaunch := 0
	eachInstr(open, func(in ssa.Instruction) {
		g, ok := in.(*ssa.Go)
		if !ok {
			return
		}
		var body *ssa.Function
		switch v := g.Call.Value.(type) {
		case *ssa.MakeClosure:
			body, _ = v.Fn.(*ssa.Function)
		case *ssa.Function:
			body = v
		}
		if body == nil {
			return
		}
		which := ""
		direct := false
		if body == run || body == notifier {
			which = body.Name()
			direct = true
		}
		for _, c := range callsIn(body, func(cl Callee) bool { return cl.Static == run || cl.Static == notifier }) {
			which = calleeOf(c).Static.Name()
		}
		if which == "" {
			return
		}
		nLaunch++
		launched[which] = true
		// the goroutine defers supWg.Done in its entry block
		done := false
		if !direct {
			for _, in2 := range body.Blocks[0].Instrs {
				if d, ok := in2.(*ssa.Defer); ok {
					if g2 := d.Call.StaticCallee(); g2 != nil && g2.Name() == "Done" && len(d.Call.Args) == 1 {
						// the WaitGroup is c.supWg (through the captured receiver)
						if fa, ok := d.Call.Args[0].(*ssa.FieldAddr); ok && sameVar(fieldOf(fa), fSupWg) {
							done = true
						}
					}
				}
			}
		}
		r.Check(done, rule, "Open: the "+which+" goroutine is joined through supWg", g.Pos(), "defer c.supWg.Done()", "the goroutine is launched outside the WaitGroup Close waits on: Close can return while it still runs (a notification can be delivered after Close returned)")
	})
	r.Check(launched["run"] && launched["notifier"], rule, "Open launches the supervisor loop and the notifier", open.Pos(), "both", fmt.Sprintf("launched: %v", launched))
	// Add(n) counts exactly those launches and precedes them
	okAdd := false
	for _, c := range callsIn(open, isMethodNamed("sync", "WaitGroup", "Add")) {
		if fa, ok := c.Common().Args[0].(*ssa.FieldAddr); ok && sameVar(fieldOf(fa), fSupWg) {
			if k, isK := constInt(c.Common().Args[1]); isK && int(k) == nLaunch {
				okAdd = true
			}
		}
	}
	r.Check(okAdd, rule, "Open: supWg.Add counts exactly the goroutines it launches", open.Pos(), fmt.Sprintf("Add(%d)", nLaunch), "the WaitGroup count does not match the goroutines launched under it: Close would return early or hang")
	// Close waits on it
	okWait := false
	for _, c := range callsIn(closeFn, isMethodNamed("sync", "WaitGroup", "Wait")) {
		if fa, ok := c.Common().Args[0].(*ssa.FieldAddr); ok && sameVar(fieldOf(fa), fSupWg) {
			okWait = true
		}
	}
	r.Check(okWait, rule, "Close waits for the supervisor loop and the notifier", closeFn.Pos(), "supWg.Wait()", "Close does not join the notifier: notifications can be delivered after it returned")
}
