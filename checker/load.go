package main

import (
	"fmt"
	"go/token"
	"go/types"
	"os"
	"sort"
	"strings"

	"golang.org/x/tools/go/callgraph"
	"golang.org/x/tools/go/callgraph/cha"
	"golang.org/x/tools/go/callgraph/vta"
	"golang.org/x/tools/go/packages"
	"golang.org/x/tools/go/ssa"
	"golang.org/x/tools/go/ssa/ssautil"
)

const modPath = "github.com/arloliu/go-secs/v2"

// World is the resolved program: type-checked packages of /repo (non-test), their SSA
// form and (lazily) the VTA call graph.
type World struct {
	Repo    string
	Fset    *token.FileSet
	Pkgs    []*packages.Package
	ByPath  map[string]*packages.Package
	Prog    *ssa.Program
	SSAPkgs map[string]*ssa.Package
	cg      *callgraph.Graph
	allFns  map[*ssa.Function]bool
	srcFns  []*ssa.Function // every function whose source is in the module (incl. anonymous)
	GOARCH  string
	GOOS    string

	devirtMemo map[*types.Var]*ssa.Function
}

// anchorErr is raised (via panic) when a named anchor cannot be resolved; the rule
// runner turns it into an `undecided` obligation, which fails the check (fail closed).
type anchorErr struct{ msg string }

func (a anchorErr) Error() string { return a.msg }

func bail(format string, args ...any) {
	panic(anchorErr{fmt.Sprintf(format, args...)})
}

func loadWorld(repo, goos, goarch string) (*World, error) {
	env := os.Environ()
	// Fail closed on workspace interference and make sure the loader is offline.
	env = append(env, "GOWORK=off", "GOFLAGS=-mod=mod", "GOPROXY=off")
	if goos != "" {
		env = append(env, "GOOS="+goos)
	}
	if goarch != "" {
		env = append(env, "GOARCH="+goarch, "CGO_ENABLED=0")
	}
	cfg := &packages.Config{
		Mode: packages.LoadAllSyntax,
		Dir:  repo,
		Env:  env,
	}
	pkgs, err := packages.Load(cfg, "./...")
	if err != nil {
		return nil, fmt.Errorf("packages.Load: %w", err)
	}
	w := &World{Repo: repo, Pkgs: pkgs, ByPath: map[string]*packages.Package{}, SSAPkgs: map[string]*ssa.Package{}, GOOS: goos, GOARCH: goarch}
	nerr := 0
	var firstErr string
	packages.Visit(pkgs, nil, func(p *packages.Package) {
		for _, e := range p.Errors {
			nerr++
			if firstErr == "" {
				firstErr = e.Error()
			}
		}
	})
	if nerr > 0 {
		return nil, fmt.Errorf("%d load/type errors, first: %s", nerr, firstErr)
	}
	n := 0
	for _, p := range pkgs {
		if strings.HasPrefix(p.PkgPath, modPath) {
			n++
			w.ByPath[strings.TrimPrefix(strings.TrimPrefix(p.PkgPath, modPath), "/")] = p
		}
		w.Fset = p.Fset
	}
	if n < 12 {
		return nil, fmt.Errorf("only %d module packages loaded (expected >= 12)", n)
	}
	prog, ssapkgs := ssautil.AllPackages(pkgs, ssa.InstantiateGenerics)
	prog.Build()
	w.Prog = prog
	for i, p := range pkgs {
		if ssapkgs[i] != nil && strings.HasPrefix(p.PkgPath, modPath) {
			w.SSAPkgs[strings.TrimPrefix(strings.TrimPrefix(p.PkgPath, modPath), "/")] = ssapkgs[i]
		}
	}
	w.allFns = ssautil.AllFunctions(prog)
	for f := range w.allFns {
		if w.InModule(f) && f.Blocks != nil {
			w.srcFns = append(w.srcFns, f)
		}
	}
	sort.Slice(w.srcFns, func(i, j int) bool {
		a, b := w.srcFns[i], w.srcFns[j]
		if a.Pos() != b.Pos() {
			return a.Pos() < b.Pos()
		}
		return a.String() < b.String()
	})
	return w, nil
}

// InModule reports whether fn's source lives in the module under analysis.
func (w *World) InModule(fn *ssa.Function) bool {
	for f := fn; f != nil; f = f.Parent() {
		if f.Pkg != nil {
			return strings.HasPrefix(f.Pkg.Pkg.Path(), modPath)
		}
		if o := f.Origin(); o != nil && o.Pkg != nil {
			return strings.HasPrefix(o.Pkg.Pkg.Path(), modPath)
		}
	}
	return false
}

// PkgOf returns the short module-relative package path of fn ("hsms", "internal/wire").
func (w *World) PkgOf(fn *ssa.Function) string {
	for f := fn; f != nil; f = f.Parent() {
		var p *ssa.Package
		if f.Pkg != nil {
			p = f.Pkg
		} else if o := f.Origin(); o != nil {
			p = o.Pkg
		}
		if p != nil {
			return strings.TrimPrefix(strings.TrimPrefix(p.Pkg.Path(), modPath), "/")
		}
	}
	return ""
}

// IsProd reports whether fn belongs to a production package (not test helpers, tools,
// benchmarks or integration harnesses).
func (w *World) IsProd(fn *ssa.Function) bool {
	p := w.PkgOf(fn)
	switch {
	case p == "" && !w.InModule(fn):
		return false
	case strings.HasPrefix(p, "tools"), strings.HasPrefix(p, "benchmarks"), strings.HasPrefix(p, "integration"),
		strings.HasSuffix(p, "test"), strings.Contains(p, "/internal/testutil"):
		return false
	}
	return w.InModule(fn)
}

func (w *World) Pkg(short string) *packages.Package {
	p := w.ByPath[short]
	if p == nil {
		bail("package %q not loaded", short)
	}
	return p
}

// Obj resolves a package-level object.
func (w *World) Obj(pkg, name string) types.Object {
	o := w.Pkg(pkg).Types.Scope().Lookup(name)
	if o == nil {
		bail("anchor %s.%s not found", pkg, name)
	}
	return o
}

// Named resolves a named type.
func (w *World) Named(pkg, name string) *types.Named {
	o := w.Obj(pkg, name)
	tn, ok := o.(*types.TypeName)
	if !ok {
		bail("anchor %s.%s is not a type", pkg, name)
	}
	n, ok := tn.Type().(*types.Named)
	if !ok {
		bail("anchor %s.%s is not a named type", pkg, name)
	}
	return n
}

// Field resolves a struct field of a named type.
func (w *World) Field(pkg, typ, field string) *types.Var {
	n := w.Named(pkg, typ)
	st, ok := n.Underlying().(*types.Struct)
	if !ok {
		bail("anchor %s.%s is not a struct", pkg, typ)
	}
	for i := 0; i < st.NumFields(); i++ {
		if st.Field(i).Name() == field {
			return st.Field(i)
		}
	}
	bail("anchor field %s.%s.%s not found", pkg, typ, field)
	return nil
}

// Fn resolves "pkg", "Func" or "Type.Method" to its SSA function.
func (w *World) Fn(pkg, name string) *ssa.Function {
	f := w.FnOpt(pkg, name)
	if f == nil {
		bail("anchor function %s.%s not found", pkg, name)
	}
	return f
}

func (w *World) FnOpt(pkg, name string) *ssa.Function {
	p := w.ByPath[pkg]
	if p == nil {
		return nil
	}
	if i := strings.IndexByte(name, '.'); i >= 0 {
		tname, mname := name[:i], name[i+1:]
		o := p.Types.Scope().Lookup(tname)
		if o == nil {
			return nil
		}
		tn, ok := o.(*types.TypeName)
		if !ok {
			return nil
		}
		for _, t := range []types.Type{tn.Type(), types.NewPointer(tn.Type())} {
			ms := types.NewMethodSet(t)
			for i := 0; i < ms.Len(); i++ {
				sel := ms.At(i)
				if sel.Obj().Name() == mname && sel.Obj().Pkg() == p.Types {
					if fn, ok := sel.Obj().(*types.Func); ok {
						if len(sel.Index()) == 1 { // declared on this type, not promoted
							return w.Prog.FuncValue(fn)
						}
					}
				}
			}
		}
		return nil
	}
	o := p.Types.Scope().Lookup(name)
	if fn, ok := o.(*types.Func); ok {
		return w.Prog.FuncValue(fn)
	}
	return nil
}

// CG returns the VTA call graph (built on first use).
func (w *World) CG() *callgraph.Graph {
	if w.cg == nil {
		w.cg = vta.CallGraph(w.allFns, cha.CallGraph(w.Prog))
	}
	return w.cg
}

// SrcFns returns every module function with a body, including closures, in source order.
func (w *World) SrcFns() []*ssa.Function { return w.srcFns }

// ProdFns returns every production module function with a body.
func (w *World) ProdFns() []*ssa.Function {
	var out []*ssa.Function
	for _, f := range w.srcFns {
		if w.IsProd(f) {
			out = append(out, f)
		}
	}
	return out
}

// FnsInPkg returns the production functions (incl. closures) of one package.
func (w *World) FnsInPkg(pkg string) []*ssa.Function {
	var out []*ssa.Function
	for _, f := range w.srcFns {
		if w.PkgOf(f) == pkg {
			out = append(out, f)
		}
	}
	return out
}

func (w *World) Pos(p token.Pos) string {
	if !p.IsValid() {
		return "-"
	}
	pos := w.Fset.Position(p)
	return fmt.Sprintf("%s:%d", strings.TrimPrefix(pos.Filename, w.Repo+"/"), pos.Line)
}

// FnName renders a function as pkg.(*T).m or pkg.f or pkg.f$1.
func (w *World) FnName(f *ssa.Function) string {
	if f == nil {
		return "<nil>"
	}
	s := f.String()
	s = strings.ReplaceAll(s, modPath+"/", "")
	return s
}
