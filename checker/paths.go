package main

import (
	"go/constant"
	"go/token"
	"go/types"
	"strings"

	"golang.org/x/tools/go/ssa"
)

// Path is one entry→exit path through a function's CFG (each CFG edge used at most once,
// so loop bodies are taken zero or one time).
type Path struct {
	Fn     *ssa.Function
	Blocks []*ssa.BasicBlock
	Conds  []Fact          // branch decisions, phi-resolved along this path
	Exit   ssa.Instruction // *ssa.Return or *ssa.Panic
}

// predOf returns the predecessor block from which block index i of the path was entered.
func (p *Path) predAt(i int) *ssa.BasicBlock {
	if i <= 0 {
		return nil
	}
	return p.Blocks[i-1]
}

// Resolve replaces phis by the edge value selected on this path (using the LAST visit of
// the phi's block) and strips nothing else.
func (p *Path) Resolve(v ssa.Value) ssa.Value {
	for d := 0; d < 20; d++ {
		phi, ok := v.(*ssa.Phi)
		if !ok {
			return v
		}
		b := phi.Block()
		idx := -1
		for i := len(p.Blocks) - 1; i >= 0; i-- {
			if p.Blocks[i] == b {
				idx = i
				break
			}
		}
		if idx <= 0 {
			return v
		}
		pred := p.Blocks[idx-1]
		found := false
		for k, pb := range b.Preds {
			if pb == pred {
				v = phi.Edges[k]
				found = true
				break
			}
		}
		if !found {
			return v
		}
	}
	return v
}

// Instrs returns every instruction executed on the path, in order.
func (p *Path) Instrs() []ssa.Instruction {
	var out []ssa.Instruction
	for _, b := range p.Blocks {
		out = append(out, b.Instrs...)
	}
	return out
}

// Calls returns, in order, the call/defer/go instructions on the path whose callee
// satisfies pred.
func (p *Path) Calls(pred func(Callee) bool) []ssa.CallInstruction {
	var out []ssa.CallInstruction
	for _, in := range p.Instrs() {
		if c, ok := in.(ssa.CallInstruction); ok && pred(calleeOf(c)) {
			out = append(out, c)
		}
	}
	return out
}

// Rets returns the phi-resolved returned values (nil for a panic exit).
func (p *Path) Rets() []ssa.Value {
	r, ok := p.Exit.(*ssa.Return)
	if !ok {
		return nil
	}
	out := make([]ssa.Value, len(r.Results))
	for i, v := range r.Results {
		out[i] = p.Resolve(p.ResolveLocalLoad(p.Resolve(v)))
	}
	return out
}

// ResolveLocalLoad: if v is a load of a non-escaping local Alloc (the form go/ssa uses for
// results of functions with defers), returns the value last stored to it on this path
// before the load; otherwise v.
func (p *Path) ResolveLocalLoad(v ssa.Value) ssa.Value {
	ld, ok := v.(*ssa.UnOp)
	if !ok || ld.Op != token.MUL {
		return v
	}
	a, ok := ld.X.(*ssa.Alloc)
	if !ok {
		return v
	}
	for _, ref := range *a.Referrers() {
		switch x := ref.(type) {
		case *ssa.Store:
			if x.Addr != a {
				return v // address stored somewhere: escapes
			}
		case *ssa.UnOp, *ssa.DebugRef:
		case *ssa.MakeClosure:
			// captured by a closure that only reads it
			fn, _ := x.Fn.(*ssa.Function)
			if fn == nil {
				return v
			}
			for i, b := range x.Bindings {
				if b != ssa.Value(a) || i >= len(fn.FreeVars) {
					continue
				}
				for _, r2 := range *fn.FreeVars[i].Referrers() {
					if u, ok := r2.(*ssa.UnOp); !ok || u.Op != token.MUL {
						if _, isDbg := r2.(*ssa.DebugRef); !isDbg {
							return v
						}
					}
				}
			}
		default:
			return v
		}
	}
	var last ssa.Value
	done := false
	for _, b := range p.Blocks {
		for _, in := range b.Instrs {
			if in == ssa.Instruction(ld) {
				done = true
				break
			}
			if st, ok := in.(*ssa.Store); ok && st.Addr == a {
				last = st.Val
			}
		}
		if done {
			break
		}
	}
	if last == nil {
		return v
	}
	return last
}

// Has reports whether the path executes instruction in.
func (p *Path) Has(in ssa.Instruction) bool {
	for _, b := range p.Blocks {
		if b == in.Block() {
			return true
		}
	}
	return false
}

// CondStrings renders the path condition.
func (p *Path) CondStrings() []string {
	var out []string
	for _, c := range p.Conds {
		s := p.renderResolved(c.Cond)
		if !c.Val {
			s = "!" + s
		}
		out = append(out, s)
	}
	return out
}

func (p *Path) String() string { return strings.Join(p.CondStrings(), " ∧ ") }

// renderResolved renders v with phis resolved along the path (top level and operands).
func (p *Path) renderResolved(v ssa.Value) string {
	return renderWith(v, p.Resolve)
}

// renderWith renders v applying sub to every sub-value first.
func renderWith(v ssa.Value, sub func(ssa.Value) ssa.Value) string {
	r := &renderer{seen: map[ssa.Value]bool{}}
	return r.rs(v, sub)
}

// rs is render with substitution; implemented by temporarily wrapping r.r.
func (r *renderer) rs(v ssa.Value, sub func(ssa.Value) ssa.Value) string {
	// A light-weight approach: substitute at the top and inside BinOp/UnOp/Call operands.
	r.depth++
	defer func() { r.depth-- }()
	if r.depth > 40 {
		return "…" // loop-carried value substituted into itself
	}
	v = sub(v)
	switch x := v.(type) {
	case *ssa.BinOp:
		a, b := r.rs(x.X, sub), r.rs(x.Y, sub)
		op := x.Op
		switch op {
		case token.GTR:
			a, b, op = b, a, token.LSS
		case token.GEQ:
			a, b, op = b, a, token.LEQ
		case token.EQL, token.NEQ, token.ADD, token.MUL, token.AND, token.OR, token.XOR:
			if a > b {
				a, b = b, a
			}
		}
		return "(" + a + " " + op.String() + " " + b + ")"
	case *ssa.UnOp:
		if x.Op == token.NOT {
			return "!" + r.rs(x.X, sub)
		}
	case *ssa.Convert:
		return typeShort(x.Type()) + "(" + r.rs(x.X, sub) + ")"
	case *ssa.ChangeType:
		return r.rs(x.X, sub)
	}
	return r.r(v)
}

// enumPaths enumerates entry→exit paths of fn. Each CFG edge is used at most once per
// path. Branches whose (phi-resolved) condition is a constant, or contradicts an earlier
// decision on the same SSA value within a single visit of its block, are pruned. Returns
// ok=false if more than maxPaths paths exist (caller must treat as undecided).
func enumPaths(fn *ssa.Function, maxPaths int) (paths []*Path, ok bool) {
	if len(fn.Blocks) == 0 {
		return nil, true
	}
	type edge struct{ a, b *ssa.BasicBlock }
	ok = true
	var blocks []*ssa.BasicBlock
	var conds []Fact
	used := map[edge]bool{}
	visits := map[*ssa.BasicBlock]int{}
	var walk func(b *ssa.BasicBlock)
	walk = func(b *ssa.BasicBlock) {
		if !ok {
			return
		}
		blocks = append(blocks, b)
		visits[b]++
		defer func() {
			blocks = blocks[:len(blocks)-1]
			visits[b]--
		}()
		last := b.Instrs[len(b.Instrs)-1]
		switch t := last.(type) {
		case *ssa.Return, *ssa.Panic:
			if len(paths) >= maxPaths {
				ok = false
				return
			}
			p := &Path{Fn: fn, Blocks: append([]*ssa.BasicBlock{}, blocks...), Conds: append([]Fact{}, conds...), Exit: last}
			paths = append(paths, p)
			return
		case *ssa.If:
			cur := &Path{Fn: fn, Blocks: blocks}
			cv := cur.Resolve(t.Cond)
			nf := normFact(cv, true)
			for i, s := range b.Succs {
				val := i == 0
				f := Fact{nf.Cond, nf.Val == val}
				// constant condition
				if c, isC := f.Cond.(*ssa.Const); isC && c.Value != nil && c.Value.Kind() == constant.Bool {
					if constant.BoolVal(c.Value) != f.Val {
						continue
					}
				}
				// contradiction with an earlier decision on the same value (only sound when the
				// defining block was entered once on this path)
				contra := false
				if in, isIn := f.Cond.(ssa.Instruction); !isIn || visits[in.Block()] <= 1 {
					for _, pc := range conds {
						if pc.Cond == f.Cond && pc.Val != f.Val {
							contra = true
							break
						}
					}
				}
				if contra {
					continue
				}
				e := edge{b, s}
				if used[e] {
					continue
				}
				used[e] = true
				conds = append(conds, f)
				walk(s)
				conds = conds[:len(conds)-1]
				used[e] = false
			}
			return
		default:
			for _, s := range b.Succs {
				e := edge{b, s}
				if used[e] {
					continue
				}
				used[e] = true
				walk(s)
				used[e] = false
			}
		}
	}
	walk(fn.Blocks[0])
	return paths, ok
}

// ---------- evaluation of path conditions under a valuation of leaf terms ----------

// Env maps a rendered leaf term to an integer value (booleans are 0/1).
type Env map[string]int64

// Evaluator evaluates integer/boolean SSA expression trees over an Env. Leaves are looked
// up by their rendered form. Unknown leaves make the evaluation fail (ok=false).
type Evaluator struct {
	Env     Env
	Resolve func(ssa.Value) ssa.Value
	Missing map[string]bool
	// Leaf lets a rule give a value to a sub-expression before structural evaluation
	// (e.g. a field load, a pure accessor call). handled=false falls through.
	Leaf func(v ssa.Value, e *Evaluator) (val int64, ok bool, handled bool)
}

func (e *Evaluator) res(v ssa.Value) ssa.Value {
	if e.Resolve != nil {
		return e.Resolve(v)
	}
	return v
}

func (e *Evaluator) Int(v ssa.Value) (int64, bool) {
	v = e.res(v)
	if e.Leaf != nil {
		if val, ok, handled := e.Leaf(v, e); handled {
			return val, ok
		}
	}
	key := renderWith(v, e.res)
	if x, ok := e.Env[key]; ok {
		return x, true
	}
	switch x := v.(type) {
	case *ssa.Const:
		if x.Value == nil {
			return 0, true
		}
		switch x.Value.Kind() {
		case constant.Int:
			if i, ok := constant.Int64Val(x.Value); ok {
				return i, true
			}
			if u, ok := constant.Uint64Val(x.Value); ok {
				return int64(u), true
			}
		case constant.Bool:
			if constant.BoolVal(x.Value) {
				return 1, true
			}
			return 0, true
		case constant.Float:
			f, _ := constant.Float64Val(x.Value)
			if f == float64(int64(f)) {
				return int64(f), true
			}
		}
		return 0, false
	case *ssa.Convert:
		i, ok := e.Int(x.X)
		if !ok {
			return 0, false
		}
		return truncTo(i, x.Type()), true
	case *ssa.ChangeType:
		return e.Int(x.X)
	case *ssa.UnOp:
		switch x.Op {
		case token.NOT:
			i, ok := e.Int(x.X)
			if !ok {
				return 0, false
			}
			return 1 - i, true
		case token.SUB:
			i, ok := e.Int(x.X)
			return -i, ok
		}
	case *ssa.BinOp:
		a, ok1 := e.Int(x.X)
		b, ok2 := e.Int(x.Y)
		if !ok1 || !ok2 {
			return 0, false
		}
		bool2 := func(c bool) (int64, bool) {
			if c {
				return 1, true
			}
			return 0, true
		}
		uns := isUnsigned(x.X.Type())
		switch x.Op {
		case token.ADD:
			return truncTo(a+b, x.Type()), true
		case token.SUB:
			return truncTo(a-b, x.Type()), true
		case token.MUL:
			return truncTo(a*b, x.Type()), true
		case token.QUO:
			if b == 0 {
				return 0, false
			}
			return a / b, true
		case token.REM:
			if b == 0 {
				return 0, false
			}
			return a % b, true
		case token.AND:
			return a & b, true
		case token.OR:
			return a | b, true
		case token.XOR:
			return a ^ b, true
		case token.SHL:
			return truncTo(a<<uint(b), x.Type()), true
		case token.SHR:
			if uns {
				return int64(uint64(a) >> uint(b)), true
			}
			return a >> uint(b), true
		case token.AND_NOT:
			return a &^ b, true
		case token.EQL:
			return bool2(a == b)
		case token.NEQ:
			return bool2(a != b)
		case token.LSS:
			if uns {
				return bool2(uint64(a) < uint64(b))
			}
			return bool2(a < b)
		case token.LEQ:
			if uns {
				return bool2(uint64(a) <= uint64(b))
			}
			return bool2(a <= b)
		case token.GTR:
			if uns {
				return bool2(uint64(a) > uint64(b))
			}
			return bool2(a > b)
		case token.GEQ:
			if uns {
				return bool2(uint64(a) >= uint64(b))
			}
			return bool2(a >= b)
		}
	}
	if e.Missing != nil {
		e.Missing[key] = true
	}
	return 0, false
}

func isUnsigned(t types.Type) bool {
	b, ok := t.Underlying().(*types.Basic)
	return ok && b.Info()&types.IsUnsigned != 0
}

func truncTo(i int64, t types.Type) int64 {
	b, ok := t.Underlying().(*types.Basic)
	if !ok {
		return i
	}
	switch b.Kind() {
	case types.Int8:
		return int64(int8(i))
	case types.Int16:
		return int64(int16(i))
	case types.Int32:
		return int64(int32(i))
	case types.Uint8:
		return int64(uint8(i))
	case types.Uint16:
		return int64(uint16(i))
	case types.Uint32:
		return int64(uint32(i))
	}
	return i
}

// PathHolds evaluates whether all of p's conditions hold under env. ok=false if a
// condition could not be evaluated.
func (p *Path) Holds(env Env, missing map[string]bool) (holds, ok bool) {
	return p.HoldsWith(&Evaluator{Env: env, Missing: missing})
}

// HoldsWith is Holds with a caller-supplied evaluator (Resolve is set to this path).
func (p *Path) HoldsWith(ev *Evaluator) (holds, ok bool) {
	ev.Resolve = p.Resolve
	ok = true
	holds = true
	for _, c := range p.Conds {
		v, vok := ev.Int(c.Cond)
		if !vok {
			ok = false
			continue
		}
		if (v != 0) != c.Val {
			holds = false
		}
	}
	if !holds {
		return false, true // a definitely-false atom decides regardless of unknown others
	}
	return holds, ok
}

// Walk visits the path in execution order: every instruction of every block, and after a
// block that ends in a conditional branch, the (phi-resolved) decision taken there.
func (p *Path) Walk(onInstr func(ssa.Instruction), onCond func(Fact)) {
	k := 0
	for i, b := range p.Blocks {
		for _, in := range b.Instrs {
			if onInstr != nil {
				onInstr(in)
			}
		}
		if _, ok := b.Instrs[len(b.Instrs)-1].(*ssa.If); ok && i < len(p.Blocks)-1 {
			if k < len(p.Conds) && onCond != nil {
				onCond(p.Conds[k])
			}
			k++
		}
	}
}

// loopHeaders returns the blocks that are targets of a back edge (a predecessor they
// dominate).
func loopHeaders(fn *ssa.Function) []*ssa.BasicBlock {
	var out []*ssa.BasicBlock
	for _, b := range fn.Blocks {
		for _, p := range b.Preds {
			if b.Dominates(p) {
				out = append(out, b)
				break
			}
		}
	}
	return out
}

// enumIterPaths enumerates the paths of ONE iteration of the loop headed by header: from
// header until control returns to header (Path.Exit == nil, the path's last block is the
// back-edge source) or leaves the function (Exit is the Return/Panic). Phis of header are
// left unresolved inside the path (they denote the loop-carried values at iteration start);
// NextIter resolves their value for the following iteration.
func enumIterPaths(fn *ssa.Function, header *ssa.BasicBlock, maxPaths int) (paths []*Path, ok bool) {
	type edge struct{ a, b *ssa.BasicBlock }
	ok = true
	var blocks []*ssa.BasicBlock
	var conds []Fact
	used := map[edge]bool{}
	visits := map[*ssa.BasicBlock]int{}
	emit := func(exit ssa.Instruction) {
		if len(paths) >= maxPaths {
			ok = false
			return
		}
		paths = append(paths, &Path{Fn: fn, Blocks: append([]*ssa.BasicBlock{}, blocks...), Conds: append([]Fact{}, conds...), Exit: exit})
	}
	var walk func(b *ssa.BasicBlock)
	step := func(from, to *ssa.BasicBlock) {
		if to == header {
			emit(nil)
			return
		}
		e := edge{from, to}
		if used[e] {
			return
		}
		used[e] = true
		walk(to)
		used[e] = false
	}
	walk = func(b *ssa.BasicBlock) {
		if !ok {
			return
		}
		blocks = append(blocks, b)
		visits[b]++
		defer func() {
			blocks = blocks[:len(blocks)-1]
			visits[b]--
		}()
		last := b.Instrs[len(b.Instrs)-1]
		switch t := last.(type) {
		case *ssa.Return, *ssa.Panic:
			emit(last)
		case *ssa.If:
			cur := &Path{Fn: fn, Blocks: blocks}
			nf := normFact(cur.resolveNotHeader(t.Cond, header), true)
			for i, s := range b.Succs {
				f := Fact{nf.Cond, nf.Val == (i == 0)}
				if c, isC := f.Cond.(*ssa.Const); isC && c.Value != nil && c.Value.Kind() == constant.Bool {
					if constant.BoolVal(c.Value) != f.Val {
						continue
					}
				}
				contra := false
				if in, isIn := f.Cond.(ssa.Instruction); !isIn || visits[in.Block()] <= 1 {
					for _, pc := range conds {
						if pc.Cond == f.Cond && pc.Val != f.Val {
							contra = true
						}
					}
				}
				if contra {
					continue
				}
				conds = append(conds, f)
				step(b, s)
				conds = conds[:len(conds)-1]
			}
		default:
			for _, s := range b.Succs {
				step(b, s)
			}
		}
	}
	walk(header)
	return paths, ok
}

// resolveNotHeader resolves phis along the path except those of the loop header (index 0).
func (p *Path) resolveNotHeader(v ssa.Value, header *ssa.BasicBlock) ssa.Value {
	if phi, ok := v.(*ssa.Phi); ok && phi.Block() == header {
		return v
	}
	return p.Resolve(v)
}

// NextIter returns the value a header phi takes on the next iteration after this path
// (which must end with a back edge to header).
func (p *Path) NextIter(phi *ssa.Phi) ssa.Value {
	last := p.Blocks[len(p.Blocks)-1]
	for k, pb := range phi.Block().Preds {
		if pb == last {
			v := phi.Edges[k]
			if ph2, ok := v.(*ssa.Phi); ok && ph2.Block() == phi.Block() {
				return v
			}
			return p.Resolve(v)
		}
	}
	return nil
}
