package main

import (
	"strings"

	"golang.org/x/tools/go/ssa"
)

func init() {
	register(&PropSpec{
		ID: "C04",
		Rules: []Rule{
			{Name: "C04-R1-bounds", Doc: "every index, slice, binary.BigEndian access and allocation size in the frame decoders (hsms.DecodeHSMSMessage/Payload/OwnedPayload, decodeOwnedFrame) and on the receive path (recvLoop, readFrame, readN, dispatchFrame, the reject/responder helpers, decodeControlFrame) is proven in range from guards and inductively inferred contracts (e.g. a frame returned by readFrame without error is at least 10 bytes long) — so no byte string or segmentation can make frame decoding panic on a bounds check", Run: c04Bounds},
		},
		NotDec:  []string{"behaviour under every cut position and delay (timing)", "kernel/socket semantics of SetReadDeadline"},
		Trusted: []string{"integer arithmetic on frame lengths does not overflow after the cap check", "net.Conn.Read returns 0 ≤ n ≤ len(buf)"},
	})
}

func c04Fragment(w *World) []*ssa.Function {
	entries := []*ssa.Function{
		w.Fn("hsms", "DecodeHSMSMessage"), w.Fn("hsms", "DecodeHSMSPayload"), w.Fn("hsms", "DecodeOwnedHSMSPayload"),
		w.Fn("hsmsss", "transport.recvLoop"),
	}
	return fragmentFrom(w, entries, func(p string) bool {
		return p == "hsms" || p == "hsmsss" || strings.HasPrefix(p, "internal/wire") || p == "internal/framecodec"
	})
}

func c04Bounds(r *Run) {
	const rule = "C04-R1-bounds"
	w := r.W
	frag := c04Fragment(w)
	e := newBndEngine(w, "hsms-frames", frag, nil)
	e.allocBound = nil // allocation sizes on this path are decided by C04-R2 (validate-before-allocate)
	bndReport(r, rule, e, 20)
}
