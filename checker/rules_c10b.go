package main

// C10-R9 (the dial / listen of a generation is bound to that generation's context) and
// C10-R10 (a bring-up that fails after it obtained a socket or listener releases it).

import (
	"fmt"
	"go/types"
	"strings"

	"golang.org/x/tools/go/ssa"
)

func init() {
	registry["C10"].Rules = append(registry["C10"].Rules,
		Rule{Name: "C10-R9-dial-bound-to-generation", Doc: "in every transport bring-up the context handed to the configured dialer / listener is the generation context the function was given, or derived from it (WithTimeout / WithCancel …): teardown cancels that context, so a dial in flight is aborted and Close is not held for the connect timeout", Run: c10DialCtx},
		Rule{Name: "C10-R10-failed-bringup-releases", Doc: "on every path of startActive / startPassive (both transports) that returns an error after the dial or listen succeeded, the socket or listener just obtained is closed on that path: a bring-up aborted because Close sealed the transport leaves nothing open", Run: c10BringupReleases})
}

// ctxRoots traces a context value back to where it comes from.
func ctxRoots(v ssa.Value, seen map[ssa.Value]bool, out map[string]bool) {
	if seen[v] {
		return
	}
	seen[v] = true
	switch x := v.(type) {
	case *ssa.Parameter:
		out["param:"+x.Name()] = true
	case *ssa.FreeVar:
		out["captured:"+x.Name()] = true
	case *ssa.Phi:
		for _, e := range x.Edges {
			ctxRoots(e, seen, out)
		}
	case *ssa.Extract:
		ctxRoots(x.Tuple, seen, out)
	case *ssa.ChangeInterface:
		ctxRoots(x.X, seen, out)
	case *ssa.MakeInterface:
		ctxRoots(x.X, seen, out)
	case *ssa.UnOp:
		// a local variable cell: every value stored into it
		if al, ok := x.X.(*ssa.Alloc); ok && al.Referrers() != nil {
			n := 0
			for _, ref := range *al.Referrers() {
				if st, ok := ref.(*ssa.Store); ok && st.Addr == ssa.Value(al) {
					ctxRoots(st.Val, seen, out)
					n++
				}
			}
			if n > 0 {
				return
			}
		}
		out["unknown:"+shortRender(v)] = true
	case *ssa.Call:
		g := calleeOf(x).Static
		if g != nil && fnPkgPath(g) == "context" {
			switch g.Name() {
			case "Background", "TODO":
				out["background"] = true
				return
			case "WithTimeout", "WithCancel", "WithDeadline", "WithValue", "WithCancelCause", "WithTimeoutCause", "WithDeadlineCause", "WithoutCancel":
				if g.Name() == "WithoutCancel" {
					out["background"] = true
					return
				}
				ctxRoots(x.Call.Args[0], seen, out)
				return
			}
		}
		out["unknown:"+shortRender(v)] = true
	default:
		out["unknown:"+shortRender(v)] = true
	}
}

// cfgFuncCall: a call through the func-typed configuration field of that name (t.cfg.dial(...)).
func cfgFuncCall(c ssa.CallInstruction, field string) bool {
	cc := c.Common()
	if cc.IsInvoke() || cc.StaticCallee() != nil {
		return false
	}
	v := cc.Value
	if u, ok := v.(*ssa.UnOp); ok {
		if fa, ok := u.X.(*ssa.FieldAddr); ok {
			return fieldOf(fa).Name() == field
		}
	}
	if f, ok := v.(*ssa.Field); ok {
		if st, ok := f.X.Type().Underlying().(*types.Struct); ok {
			return st.Field(f.Field).Name() == field
		}
	}
	return false
}

func isContextType(t types.Type) bool {
	n, ok := t.(*types.Named)
	return ok && n.Obj().Pkg() != nil && n.Obj().Pkg().Path() == "context" && n.Obj().Name() == "Context"
}

func c10DialCtx(r *Run) {
	const rule = "C10-R9-dial-bound-to-generation"
	w := r.W
	n := 0
	for _, pkg := range []string{"hsmsss", "secs1"} {
		for _, fn := range w.FnsInPkg(pkg) {
			if !w.IsProd(fn) {
				continue
			}
			eachInstr(fn, func(in ssa.Instruction) {
				c, ok := in.(ssa.CallInstruction)
				if !ok {
					return
				}
				which := ""
				switch {
				case cfgFuncCall(c, "dial"):
					which = "dial"
				case cfgFuncCall(c, "listen"):
					which = "listen"
				default:
					return
				}
				n++
				r.Analysed(w.FnName(fn))
				args := c.Common().Args
				construct := fmt.Sprintf("%s: %s through the configured %ser", w.FnName(fn), which, which)
				if len(args) == 0 || !isContextType(args[0].Type()) {
					r.Fail(rule, construct, c.Pos(), "the call takes no context: it cannot be aborted by teardown")
					return
				}
				roots := map[string]bool{}
				ctxRoots(args[0], map[ssa.Value]bool{}, roots)
				var bad []string
				hasParam := false
				for k := range roots {
					if strings.HasPrefix(k, "param:") {
						hasParam = true
					} else {
						bad = append(bad, k)
					}
				}
				// the parameter must be a context of the enclosing function (the generation / engine ctx)
				if hasParam && len(bad) == 0 {
					r.OK(rule, construct, c.Pos(), "context derived from the function's own context parameter (%s)", strings.Join(keysOf(roots), ", "))
				} else {
					r.Fail(rule, construct, c.Pos(), "the context handed to the %ser is not (only) derived from the generation context the function was given (%s): teardown cancelling the generation would not abort this %s, and Close would wait for it", which, strings.Join(keysOf(roots), ", "), which)
				}
			})
		}
	}
	r.Floor(rule, "dial/listen calls through the configured functions", n, 4)
	// and the context the bring-up functions receive is the one Start was given (or derived from it)
	for _, pkg := range []string{"hsmsss", "secs1"} {
		start := w.Fn(pkg, "transport.Start")
		r.Analysed(w.FnName(start))
		for _, name := range []string{"transport.startActive", "transport.startPassive"} {
			callee := w.Fn(pkg, name)
			for _, c := range callsIn(start, isFn(callee)) {
				args := c.Common().Args
				var ctxArg ssa.Value
				for _, a := range args {
					if isContextType(a.Type()) {
						ctxArg = a
						break
					}
				}
				construct := fmt.Sprintf("%s → %s: generation context", w.FnName(start), name)
				if ctxArg == nil {
					r.Fail(rule, construct, c.Pos(), "no context is passed on")
					continue
				}
				roots := map[string]bool{}
				ctxRoots(ctxArg, map[ssa.Value]bool{}, roots)
				ok := len(roots) > 0
				for k := range roots {
					if !strings.HasPrefix(k, "param:") {
						ok = false
					}
				}
				r.Check(ok, rule, construct, c.Pos(), strings.Join(keysOf(roots), ", "), "the bring-up must run under the context Start was given (the core cancels it on teardown), got "+strings.Join(keysOf(roots), ", "))
			}
		}
	}
}

func c10BringupReleases(r *Run) {
	const rule = "C10-R10-failed-bringup-releases"
	w := r.W
	n := 0
	for _, pkg := range []string{"hsmsss", "secs1"} {
		for _, name := range []string{"transport.startActive", "transport.startPassive"} {
			fn := w.Fn(pkg, name)
			r.Analysed(w.FnName(fn))
			// the resource: result 0 of the dial / listen call
			var acq ssa.CallInstruction
			eachInstr(fn, func(in ssa.Instruction) {
				if c, ok := in.(ssa.CallInstruction); ok && (cfgFuncCall(c, "dial") || cfgFuncCall(c, "listen")) {
					acq = c
				}
			})
			if acq == nil {
				r.Undecided(rule, w.FnName(fn)+": dial/listen call", fn.Pos(), "not found")
				continue
			}
			var res ssa.Value
			if v := acq.Value(); v != nil && v.Referrers() != nil {
				for _, ref := range *v.Referrers() {
					if ex, ok := ref.(*ssa.Extract); ok && ex.Index == 0 {
						res = ex
					}
				}
			}
			if res == nil {
				r.Undecided(rule, w.FnName(fn)+": obtained socket/listener", fn.Pos(), "result not found")
				continue
			}
			paths, ok := enumPaths(fn, 5000)
			if !ok {
				r.Undecided(rule, w.FnName(fn)+" paths", fn.Pos(), "too many")
				continue
			}
			for _, p := range paths {
				ret, isRet := p.Exit.(*ssa.Return)
				if !isRet {
					continue
				}
				rets := p.Rets()
				if len(rets) == 0 || isNilConst(rets[len(rets)-1]) {
					continue // success
				}
				// did the path obtain the resource (acquisition executed and its error was nil)?
				got := false
				for _, in := range p.Instrs() {
					if in == acq.(ssa.Instruction) {
						got = true
					}
				}
				if !got {
					continue
				}
				acqFailed := false
				for _, f := range p.Conds {
					if b, ok := f.Cond.(*ssa.BinOp); ok {
						if ex, ok := b.X.(*ssa.Extract); ok && ex.Tuple == acq.Value() && ex.Index == 1 && isNilConst(b.Y) {
							// err != nil true  /  err == nil false
							if (b.Op.String() == "!=" && f.Val) || (b.Op.String() == "==" && !f.Val) {
								acqFailed = true
							}
						}
					}
				}
				if acqFailed {
					continue
				}
				n++
				closed := false
				for _, in := range p.Instrs() {
					if c, ok := in.(ssa.CallInstruction); ok && c.Common().IsInvoke() && c.Common().Method.Name() == "Close" && c.Common().Value == res {
						closed = true
					}
				}
				construct := fmt.Sprintf("%s: error return after a successful %s [%s]", w.FnName(fn), map[bool]string{true: "dial", false: "listen"}[cfgFuncCall(acq, "dial")], shortCond(p))
				r.Check(closed, rule, construct, ret.Pos(), "the obtained socket/listener is closed on this path", "the bring-up gives up but leaves the socket / listener it just obtained open: nothing else is guaranteed to close it (Stop may already have run)")
			}
		}
	}
	r.Floor(rule, "error paths after a successful dial/listen", n, 4)
}
