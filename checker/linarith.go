package main

import (
	"fmt"
	"math/bits"
	"sort"
	"strings"
)

// Linear integer arithmetic over opaque atoms, decided by Fourier–Motzkin elimination
// on the rational relaxation. Used by the bounds engine (bnd.go). Everything here is
// exact: coefficients are int64 with overflow detection; an overflow or a blow-up makes
// the query "not proven" (never "proven").

// Lin is Σ C[a]·a + K over atoms a (named by string keys).
type Lin struct {
	C map[string]int64
	K int64
}

func linConst(k int64) Lin { return Lin{K: k} }

func linAtom(a string) Lin { return Lin{C: map[string]int64{a: 1}} }

func (l Lin) clone() Lin {
	c := make(map[string]int64, len(l.C))
	for k, v := range l.C {
		c[k] = v
	}
	return Lin{C: c, K: l.K}
}

func (l Lin) isConst() bool { return len(l.C) == 0 }

func mulOv(a, b int64) (int64, bool) {
	if a == 0 || b == 0 {
		return 0, true
	}
	hi, lo := bits.Mul64(uint64(abs64(a)), uint64(abs64(b)))
	if hi != 0 || lo > 1<<62 {
		return 0, false
	}
	r := int64(lo)
	if (a < 0) != (b < 0) {
		r = -r
	}
	return r, true
}

func addOv(a, b int64) (int64, bool) {
	s := a + b
	if (a > 0 && b > 0 && s < 0) || (a < 0 && b < 0 && s >= 0) {
		return 0, false
	}
	if s > 1<<62 || s < -(1<<62) {
		return 0, false
	}
	return s, true
}

func abs64(a int64) int64 {
	if a < 0 {
		return -a
	}
	return a
}

// add returns l + m·s; ok=false on overflow.
func (l Lin) addScaled(m Lin, s int64) (Lin, bool) {
	r := l.clone()
	if r.C == nil {
		r.C = map[string]int64{}
	}
	for a, c := range m.C {
		p, ok := mulOv(c, s)
		if !ok {
			return Lin{}, false
		}
		q, ok := addOv(r.C[a], p)
		if !ok {
			return Lin{}, false
		}
		if q == 0 {
			delete(r.C, a)
		} else {
			r.C[a] = q
		}
	}
	p, ok := mulOv(m.K, s)
	if !ok {
		return Lin{}, false
	}
	k, ok := addOv(r.K, p)
	if !ok {
		return Lin{}, false
	}
	r.K = k
	return r, true
}

func (l Lin) add(m Lin) (Lin, bool) { return l.addScaled(m, 1) }
func (l Lin) sub(m Lin) (Lin, bool) { return l.addScaled(m, -1) }
func (l Lin) scale(s int64) (Lin, bool) {
	return Lin{}.addScaled(l, s)
}

func (l Lin) String() string {
	var ks []string
	for a := range l.C {
		ks = append(ks, a)
	}
	sort.Strings(ks)
	var sb strings.Builder
	for _, a := range ks {
		c := l.C[a]
		switch {
		case c == 1:
			sb.WriteString(" + " + a)
		case c == -1:
			sb.WriteString(" - " + a)
		case c < 0:
			fmt.Fprintf(&sb, " - %d·%s", -c, a)
		default:
			fmt.Fprintf(&sb, " + %d·%s", c, a)
		}
	}
	if l.K != 0 || sb.Len() == 0 {
		if l.K < 0 {
			fmt.Fprintf(&sb, " - %d", -l.K)
		} else {
			fmt.Fprintf(&sb, " + %d", l.K)
		}
	}
	return strings.TrimPrefix(strings.TrimPrefix(sb.String(), " + "), " ")
}

// Ineq is the constraint L ≤ 0.
type Ineq struct {
	L   Lin
	Why string // provenance, for diagnostics
}

func (q Ineq) String() string { return q.L.String() + " ≤ 0" }

// leq builds a ≤ b.
func leq(a, b Lin, why string) (Ineq, bool) {
	d, ok := a.sub(b)
	return Ineq{d, why}, ok
}

// lt builds a < b  (integers: a − b + 1 ≤ 0).
func lt(a, b Lin, why string) (Ineq, bool) {
	d, ok := a.sub(b)
	if !ok {
		return Ineq{}, false
	}
	d, ok = d.add(linConst(1))
	return Ineq{d, why}, ok
}

func gcd64(a, b int64) int64 {
	a, b = abs64(a), abs64(b)
	for b != 0 {
		a, b = b, a%b
	}
	return a
}

// normalise divides by the gcd of the coefficients (tightening the constant: integer
// solutions only) and returns a canonical key.
func (q Ineq) normalise() (Ineq, string) {
	g := int64(0)
	for _, c := range q.L.C {
		g = gcd64(g, c)
	}
	if g > 1 {
		n := q.L.clone()
		for a, c := range n.C {
			n.C[a] = c / g
		}
		// Σ c·a ≤ −K  ⇒  Σ (c/g)·a ≤ floor(−K/g)
		nk := -q.L.K
		fl := nk / g
		if nk%g != 0 && nk < 0 {
			fl--
		}
		n.K = -fl
		q = Ineq{n, q.Why}
	}
	return q, q.L.String()
}

// fmInfeasible reports whether the conjunction of cs has no rational solution (hence no
// integer solution). budget bounds the number of derived constraints.
func fmInfeasible(cs []Ineq, budget int) (infeasible bool, exhausted bool) {
	cur := map[string]Ineq{}
	addC := func(q Ineq) bool {
		q, key := q.normalise()
		if q.L.isConst() {
			return q.L.K > 0 // K ≤ 0 violated
		}
		if _, ok := cur[key]; !ok {
			cur[key] = q
		}
		return false
	}
	for _, c := range cs {
		if addC(c) {
			return true, false
		}
	}
	derived := 0
	for len(cur) > 0 {
		// choose the atom with the fewest pos×neg combinations
		occPos := map[string]int{}
		occNeg := map[string]int{}
		for _, q := range cur {
			for a, c := range q.L.C {
				if c > 0 {
					occPos[a]++
				} else {
					occNeg[a]++
				}
			}
		}
		best, bestCost, have := "", 0, false
		var names []string
		for a := range occPos {
			names = append(names, a)
		}
		for a := range occNeg {
			if occPos[a] == 0 {
				names = append(names, a)
			}
		}
		sort.Strings(names)
		for _, a := range names {
			cost := occPos[a]*occNeg[a] - occPos[a] - occNeg[a]
			if !have || cost < bestCost {
				best, bestCost, have = a, cost, true
			}
		}
		if best == "" {
			return false, false
		}
		var pos, neg []Ineq
		next := map[string]Ineq{}
		for key, q := range cur {
			c := q.L.C[best]
			switch {
			case c > 0:
				pos = append(pos, q)
			case c < 0:
				neg = append(neg, q)
			default:
				next[key] = q
			}
		}
		cur = next
		for _, p := range pos {
			for _, n := range neg {
				cp, cn := p.L.C[best], -n.L.C[best]
				g := gcd64(cp, cn)
				// (cn/g)·p + (cp/g)·n eliminates best
				a, ok1 := p.L.scale(cn / g)
				b, ok2 := n.L.scale(cp / g)
				if !ok1 || !ok2 {
					return false, true
				}
				s, ok := a.add(b)
				if !ok {
					return false, true
				}
				delete(s.C, best)
				derived++
				if derived > budget {
					return false, true
				}
				if addC(Ineq{s, ""}) {
					return true, false
				}
			}
		}
	}
	return false, false
}

// entails reports whether facts ⊨ goal (goal: L ≤ 0), i.e. facts ∧ (L ≥ 1) is infeasible.
func entails(facts []Ineq, goal Ineq) bool {
	if goal.L.isConst() {
		if goal.L.K <= 0 {
			return true
		}
	}
	// fast path: a single fact with the same coefficients and a constant at least as strong
	for _, f := range facts {
		if len(f.L.C) != len(goal.L.C) || f.L.K < goal.L.K {
			continue
		}
		same := true
		for a, c := range goal.L.C {
			if f.L.C[a] != c {
				same = false
				break
			}
		}
		if same {
			return true
		}
	}
	neg, ok := Lin{}.addScaled(goal.L, -1)
	if !ok {
		return false
	}
	neg, ok = neg.add(linConst(1)) // −L + 1 ≤ 0
	if !ok {
		return false
	}
	// relevance pruning: keep facts connected to the goal's atoms
	rel := map[string]bool{}
	for a := range goal.L.C {
		rel[a] = true
	}
	used := make([]bool, len(facts))
	if goal.L.isConst() {
		// "are the facts contradictory?" — every fact is relevant
		for i := range used {
			used[i] = true
		}
	}
	for changed := true; changed; {
		changed = false
		for i, f := range facts {
			if used[i] {
				continue
			}
			hit := false
			for a := range f.L.C {
				if rel[a] {
					hit = true
					break
				}
			}
			if hit || f.L.isConst() {
				used[i] = true
				changed = true
				for a := range f.L.C {
					rel[a] = true
				}
			}
		}
	}
	cs := []Ineq{{neg, "¬goal"}}
	for i, f := range facts {
		if used[i] {
			cs = append(cs, f)
		}
	}
	inf, _ := fmInfeasible(cs, 20000)
	return inf
}
