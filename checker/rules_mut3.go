package main

// More rules motivated by surviving mutants:
//   C09-R6  — every generation gets its async sender before its transport is started
//   C10-R11 — Close interrupts a reconnect loop parked in its backoff
//   C13-R7  — the text parsers accept both quote characters as opener and nothing else
//   C03-R7  — the send path's own slicing/allocation sizes are in range (no panic on send)

import (
	"go/constant"
	"go/token"
	"go/types"
	"strings"

	"golang.org/x/tools/go/ssa"
)

func init() {
	registry["C09"].Rules = append(registry["C09"].Rules,
		Rule{Name: "C09-R6-sender-per-generation", Doc: "every place that creates a generation (newEpoch) also starts that generation's async sender — spawn on the new epoch of a closure that drains exactly that epoch's queue — before the transport of that generation is started: what SendAsync queues on a generation is written (or discarded at teardown) by that generation's own sender", Run: c09SenderPerGeneration})
	registry["C10"].Rules = append(registry["C10"].Rules,
		Rule{Name: "C10-R11-close-interrupts-backoff", Doc: "Close closes the cancel channel of the current open cycle (when there is one) before it joins the reconnect loop, and the reconnect loop's backoff wait selects on exactly that channel (taken when non-nil): a Close during a backoff does not wait the backoff out", Run: c10CloseInterruptsBackoff})
	registry["C13"].Rules = append(registry["C13"].Rules,
		Rule{Name: "C13-R7-quote-openers", Doc: "the non-strict ASCII parser and the JIS-8 parser refuse an opening character exactly when it is neither the single nor the double quote: whichever quote style the encoder was configured with, its quoted text is accepted", Run: c13QuoteOpeners})
	registry["C03"].Rules = append(registry["C03"].Rules,
		Rule{Name: "C03-R7-send-path-bounds", Doc: "every index, slice bound and allocation size in the functions that build a frame for sending (buildFrameBuffers, the two ToBytes, the body append helpers) is proven in range: building the frame of a valid message cannot panic", Run: c03SendPathBounds})
}

func c09SenderPerGeneration(r *Run) {
	const rule = "C09-R6-sender-per-generation"
	w := r.W
	ne := w.Fn("hsms", "newEpoch")
	drain := w.Fn("hsms", "connection.drainSendCh")
	spawn := w.Fn("hsms", "epoch.spawn")
	n := 0
	for _, u := range w.usesOf(ne) {
		if !w.IsProd(u.Fn) {
			continue
		}
		call, ok := u.Instr.(*ssa.Call)
		if !ok {
			continue
		}
		n++
		fn := u.Fn
		r.Analysed(w.FnName(fn))
		construct := w.FnName(fn) + ": generation created by newEpoch"
		// the spawn of the sender on this epoch
		var sender ssa.CallInstruction
		for _, sc := range callsIn(fn, isFn(spawn)) {
			if resolveCell(sc.Common().Args[0]) != ssa.Value(call) {
				continue
			}
			// the closure argument calls drainSendCh(ctx, e) with this very epoch
			for _, a := range sc.Common().Args {
				mc, ok := a.(*ssa.MakeClosure)
				if !ok {
					continue
				}
				cf := mc.Fn.(*ssa.Function)
				for _, dc := range callsIn(cf, isFn(drain)) {
					args := dc.Common().Args
					last := args[len(args)-1]
					// the epoch inside the closure: a captured variable bound to the new epoch
					okE := false
					if fv, ok := resolveCell(last).(*ssa.FreeVar); ok {
						for _, b := range freeVarBindings(fv) {
							if resolveCell(b) == ssa.Value(call) {
								okE = true
							}
						}
					}
					if ld, ok := last.(*ssa.UnOp); ok && ld.Op == token.MUL {
						if fv, ok := ld.X.(*ssa.FreeVar); ok {
							for _, b := range freeVarBindings(fv) {
								if al, ok := b.(*ssa.Alloc); ok {
									for _, ref := range *al.Referrers() {
										if st, ok := ref.(*ssa.Store); ok && st.Addr == ssa.Value(al) && st.Val == ssa.Value(call) {
											okE = true
										}
									}
								}
							}
						}
					}
					if okE {
						sender = sc
					}
				}
			}
		}
		if !r.Check(sender != nil, rule, construct+" gets its own async sender", call.Pos(), "e.spawn(…drainSendCh(ctx, e))", "no sender is started for the new generation: frames queued by SendAsync on it would never be written") {
			continue
		}
		// before the transport of this generation is started
		started := false
		for _, in := range instrsOf(fn) {
			c, ok := in.(ssa.CallInstruction)
			if !ok || !c.Common().IsInvoke() || c.Common().Method.Name() != "Start" {
				continue
			}
			started = true
			r.Check(instrDominates(sender.(ssa.Instruction), in), rule, construct+": sender started before the transport", c.Pos(), "spawn ≺ tr.Start", "the transport of the new generation can be started without its async sender running")
		}
		r.Check(started, rule, construct+": transport start found", call.Pos(), "tr.Start", "the function that creates a generation does not start its transport")
	}
	r.Floor(rule, "newEpoch call sites", n, 2)
}

func instrsOf(fn *ssa.Function) []ssa.Instruction {
	var out []ssa.Instruction
	eachInstr(fn, func(in ssa.Instruction) { out = append(out, in) })
	return out
}

func c10CloseInterruptsBackoff(r *Run) {
	const rule = "C10-R11-close-interrupts-backoff"
	w := r.W
	closeFn := w.Fn("hsms", "connection.Close")
	loop := w.Fn("hsms", "connection.connectLoop")
	fCancel := w.Field("hsms", "connection", "reconnectCancel")
	fLoopWg := w.Field("hsms", "connection", "connectLoopWg")
	r.Analysed(w.FnName(closeFn))
	r.Analysed(w.FnName(loop))
	// loads of the cancel pointer
	loadsOf := func(fn *ssa.Function) []*ssa.Call {
		var out []*ssa.Call
		eachInstr(fn, func(in ssa.Instruction) {
			c, ok := in.(*ssa.Call)
			if !ok || calleeOf(c).Static == nil || baseName(calleeOf(c).Static) != "Load" || len(c.Call.Args) == 0 {
				return
			}
			if fa, ok := c.Call.Args[0].(*ssa.FieldAddr); ok && sameVar(fieldOf(fa), fCancel) {
				out = append(out, c)
			}
		})
		return out
	}
	// Close: close(*p) under p != nil, before the join of the reconnect loop
	var closed *ssa.Call
	for _, ld := range loadsOf(closeFn) {
		eachInstr(closeFn, func(in ssa.Instruction) {
			c, ok := in.(*ssa.Call)
			if !ok || calleeOf(c).Builtin != "close" {
				return
			}
			if d, ok := c.Call.Args[0].(*ssa.UnOp); ok && d.Op == token.MUL && d.X == ssa.Value(ld) {
				// dominated by p != nil
				nonNil := false
				for f := range factsIn(closeFn)[c.Block()] {
					if b, ok := f.Cond.(*ssa.BinOp); ok && b.X == ssa.Value(ld) && isNilConst(b.Y) {
						if (b.Op == token.NEQ && f.Val) || (b.Op == token.EQL && !f.Val) {
							nonNil = true
						}
					}
				}
				if nonNil {
					closed = c
				}
			}
		})
	}
	if r.Check(closed != nil, rule, "Close closes the cycle's cancel channel when there is one", closeFn.Pos(), "p := reconnectCancel.Load(); p != nil → close(*p)", "Close does not close the reconnect loop's cancel channel (or does so under the wrong condition): a loop parked in its backoff is not woken") {
		for _, wc := range callsIn(closeFn, isMethodNamed("sync", "WaitGroup", "Wait")) {
			if fa, ok := wc.Common().Args[0].(*ssa.FieldAddr); ok && sameVar(fieldOf(fa), fLoopWg) {
				// the decision "is there a cancel channel" is taken on every path to the join, and the
				// close sits on its true side, not after the join
				var decide ssa.Instruction
				for _, ref := range *closed.Call.Args[0].(*ssa.UnOp).X.(*ssa.Call).Referrers() {
					if b, ok := ref.(*ssa.BinOp); ok && isNilConst(b.Y) {
						decide = b
					}
				}
				okOrder := decide != nil && instrDominates(decide, wc.(ssa.Instruction)) && !instrDominates(wc.(ssa.Instruction), closed)
				r.Check(okOrder, rule, "the cancel channel is closed before the reconnect loop is joined", wc.Pos(), "close ≺ connectLoopWg.Wait", "Close joins the reconnect loop before waking it")
			}
		}
	}
	// connectLoop: the backoff wait receives from *cancel, taken when cancel != nil; cancel is the
	// parameter every caller fills with reconnectCancel.Load()
	var lds []ssa.Value
	for _, p := range loop.Params {
		if pt, ok := p.Type().Underlying().(*types.Pointer); ok {
			if _, isChan := pt.Elem().Underlying().(*types.Chan); isChan {
				lds = append(lds, p)
				idx := -1
				for i, q := range loop.Params {
					if q == p {
						idx = i
					}
				}
				nCallers := 0
				for _, u := range w.usesOf(loop) {
					c, ok := u.Instr.(ssa.CallInstruction)
					if !ok || !w.IsProd(u.Fn) || idx >= len(c.Common().Args) {
						continue
					}
					nCallers++
					arg := resolveCell(c.Common().Args[idx])
					fromField := false
					for _, l := range loadsOf(u.Fn) {
						if arg == ssa.Value(l) {
							fromField = true
						}
					}
					// the go statement may sit in a closure that captured the loaded value
					if u, ok := arg.(*ssa.UnOp); ok && u.Op == token.MUL {
						if fv, ok := u.X.(*ssa.FreeVar); ok && stableCapturedCell(fv) {
							arg = fv
						}
					}
					if fv, ok := arg.(*ssa.FreeVar); ok {
						for _, b := range freeVarBindings(fv) {
							bv := resolveCell(b)
							if al, ok := b.(*ssa.Alloc); ok && al.Referrers() != nil {
								// captured by reference: the single value stored in the cell
								for _, ref := range *al.Referrers() {
									if st, ok := ref.(*ssa.Store); ok && st.Addr == ssa.Value(al) {
										bv = resolveCell(st.Val)
									}
								}
							}
							for _, l := range loadsOf(fv.Parent().Parent()) {
								if bv == ssa.Value(l) {
									fromField = true
								}
							}
						}
					}
					r.Check(fromField, rule, "the reconnect loop is given the cycle's cancel channel ("+w.FnName(u.Fn)+")", c.Pos(), "reconnectCancel.Load()", "the loop is started with a cancel channel other than the one Close closes: "+shortRender(arg))
				}
				r.Floor(rule, "callers of the reconnect loop", nCallers, 1)
			}
		}
	}
	// the "stop" value of the loop: a phi whose non-nil edge is *cancel, taken when cancel != nil
	var stops []ssa.Value
	eachInstr(loop, func(in ssa.Instruction) {
		phi, ok := in.(*ssa.Phi)
		if !ok {
			return
		}
		for k, e := range phi.Edges {
			v := e
			if cv, ok := v.(*ssa.ChangeType); ok {
				v = cv.X
			}
			d, ok := v.(*ssa.UnOp)
			if !ok || d.Op != token.MUL {
				continue
			}
			for _, ld := range lds {
				if d.X != ld {
					continue
				}
				pb := phi.Block().Preds[k]
				for f := range factsIn(loop)[pb] {
					if b, ok := f.Cond.(*ssa.BinOp); ok && b.X == ld && isNilConst(b.Y) {
						if (b.Op == token.NEQ && f.Val) || (b.Op == token.EQL && !f.Val) {
							stops = append(stops, phi)
						}
					}
				}
			}
		}
	})
	listensOn := func(fn *ssa.Function, ch ssa.Value) (all bool, n int) {
		all = true
		eachInstr(fn, func(in ssa.Instruction) {
			sel, ok := in.(*ssa.Select)
			if !ok {
				return
			}
			n++
			has := false
			for _, st := range sel.States {
				c := st.Chan
				if cv, ok := c.(*ssa.ChangeType); ok {
					c = cv.X
				}
				if st.Dir == types.RecvOnly && c == ch {
					has = true
				}
			}
			if !has {
				all = false
			}
		})
		return
	}
	okSel := false
	for _, stop := range stops {
		// a select in the loop itself
		if all, n := listensOn(loop, stop); n > 0 && all {
			okSel = true
		}
		// or a sleep helper the loop hands the channel to: every select of the helper listens on it,
		// and the loop ends when the helper reports the interruption
		for _, in := range instrsOf(loop) {
			c, ok := in.(*ssa.Call)
			if !ok || calleeOf(c).Static == nil {
				continue
			}
			g := calleeOf(c).Static
			for i, a := range c.Call.Args {
				if a != stop || i >= len(g.Params) {
					continue
				}
				r.Analysed(w.FnName(g))
				all, n := listensOn(g, g.Params[i])
				endsLoop := false
				for _, ref := range *c.Referrers() {
					if iff, ok := ref.(*ssa.If); ok {
						for _, s := range iff.Block().Succs {
							if _, isRet := s.Instrs[len(s.Instrs)-1].(*ssa.Return); isRet {
								endsLoop = true
							}
						}
					}
				}
				if n > 0 && all && endsLoop {
					okSel = true
				}
			}
		}
	}
	r.Check(okSel, rule, "the reconnect backoff selects on the cycle's cancel channel", loop.Pos(), "stop = *cancel when cancel != nil; select { … case <-stop }", "the backoff wait does not listen on the channel Close closes (or takes it under the wrong condition)")
	r.Floor(rule, "cancel-channel parameter of the reconnect loop", len(lds), 1)
}

func c13QuoteOpeners(r *Run) {
	const rule = "C13-R7-quote-openers"
	w := r.W
	n := 0
	for _, name := range []string{"Parser.parseASCIIFast", "Parser.parseJIS8"} {
		fn := w.Fn("sml", name)
		r.Analysed(w.FnName(fn))
		facts := bndMustFacts(fn)
		found := false
		eachInstr(fn, func(in ssa.Instruction) {
			c, ok := in.(*ssa.Call)
			if !ok || calleeOf(c).Static == nil || calleeOf(c).Static.Name() != "errf" || len(c.Call.Args) < 2 {
				return
			}
			k, ok := c.Call.Args[1].(*ssa.Const)
			if !ok || k.Value == nil || k.Value.Kind() != constant.String || !strings.Contains(constant.StringVal(k.Value), "invalid quote") {
				return
			}
			found = true
			n++
			// the refusal is taken exactly under ch ≠ ' ∧ ch ≠ "
			ne := map[int64]bool{}
			other := false
			for _, f := range facts[c.Block()] {
				b, ok := f.Cond.(*ssa.BinOp)
				if !ok {
					continue
				}
				kk, isK := constInt(b.Y)
				if !isK {
					continue
				}
				differs := (b.Op == token.NEQ && f.Val) || (b.Op == token.EQL && !f.Val)
				equals := (b.Op == token.EQL && f.Val) || (b.Op == token.NEQ && !f.Val)
				if kk == '\'' || kk == '"' {
					if differs {
						ne[kk] = true
					}
					if equals {
						other = true
					}
				}
			}
			r.Check(ne['\''] && ne['"'] && !other, rule, name+": an opener is refused only when it is neither ' nor \"", c.Pos(), "ch ≠ ' ∧ ch ≠ \"", "the 'invalid quote' refusal is not taken exactly for the characters that are neither quote: one quote style would be refused (or a non-quote accepted)")
		})
		r.Check(found, rule, name+" refuses a non-quote opener", fn.Pos(), "present", "no refusal of an invalid opening character was found")
	}
	r.Floor(rule, "quote-opener refusals", n, 2)
}

func c03SendPathBounds(r *Run) {
	const rule = "C03-R7-send-path-bounds"
	w := r.W
	var frag []*ssa.Function
	for _, nm := range [][2]string{{"hsms", "buildFrameBuffers"}, {"hsms", "DataMessage.ToBytes"}, {"hsms", "ControlMessage.ToBytes"}, {"hsms", "DataMessage.AppendBodyTo"}, {"internal/wire", "rawFrameBody.AppendTo"}, {"internal/wire", "treeBody.AppendTo"}, {"internal/wire", "rawFrameBody.Buffers"}, {"internal/wire", "treeBody.Buffers"}} {
		if o := w.FnOpt(nm[0], nm[1]); o != nil {
			frag = append(frag, o)
		}
	}
	e := newBndEngine(w, "c03-send", frag, nil)
	for _, f := range frag {
		e.entries[f] = true
	}
	bndReport(r, rule, e, 3)
}
