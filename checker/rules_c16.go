package main

import (
	"fmt"
	"go/token"
	"go/types"
	"math"
	"sort"
	"strings"

	"golang.org/x/tools/go/ssa"
)

func init() {
	register(&PropSpec{
		ID: "C16",
		Rules: []Rule{
			{Name: "C16-R1-clamp-tables", Doc: "clampInt64 / clampUint64 return the nearer bound outside [min,max] and the value itself inside, on every ordering cell; clampF4 clamps to ±MaxFloat32 and passes NaN/±Inf and in-range values through", Run: c16ClampTables},
			{Name: "C16-R2-stored-values-clamped", Doc: "every element a numeric constructor appends to (or stores in) an item's values is a clamp result, a bound, a widening of a narrower type, or a conversion guarded by a compare-before-convert test; a caller's float64 data reaches an F4 item only through clampF4 (no bulk append, no in-place fix-up) whenever overflow checking is on", Run: c16StoredValues},
			{Name: "C16-R3-erroring-defaults", Doc: "every type switch of the combine*Values helpers ends in a default that reports an error (unsupported argument types never produce an error-free item)", Run: c16Defaults},
			{Name: "C16-R4-wire-gate", Doc: "a constructed item reaches a message body only through NewDataMessage, behind its item.Error() gate (the only caller of wire.FromItem); childClean has an arm for every concrete item type and each arm requires the child's own deferred error to be nil (lists also their clean flag); ListItem.Error is nil without a walk only when clean; Equal tests both Error()s before anything else", Run: c16WireGate},
			{Name: "C16-R5-no-panic", Doc: "no explicit panic and no unchecked type assertion in the constructors, shortcuts and their helpers", Run: c16NoPanic},
		},
		NotDec:  []string{"numeric results of clamping beyond the clamp functions' own tables", "identity of values supplied as scalars, slices or numeric strings beyond operation-class agreement"},
		Trusted: []string{"float64→float32 conversion of a value within ±MaxFloat32 does not overflow"},
	})
}

func c16ClampTables(r *Run) {
	const rule = "C16-R1-clamp-tables"
	w := r.W
	ci := w.Fn("secs2", "clampInt64")
	r.Analysed(w.FnName(ci))
	if dt, ok := newDT(ci, 100); ok {
		v, lo, hi := "$"+ci.Params[0].Name(), "$"+ci.Params[1].Name(), "$"+ci.Params[2].Name()
		for _, x := range []int64{-200, -129, -128, -127, 0, 126, 127, 128, 300} {
			res := dt.Cell(Env{v: x, lo: -128, hi: 127})
			want := min(max(x, -128), 127)
			got := strings.Join(res.Rets, ",")
			r.Check(res.Err == "" && got == fmt.Sprint(want), rule, fmt.Sprintf("clampInt64(%d, -128, 127)", x), ci.Pos(), fmt.Sprint(want), fmt.Sprintf("must return %d (nearest representable value), returns %s %s", want, got, res.Err))
		}
	} else {
		r.Undecided(rule, "clampInt64 paths", ci.Pos(), "too many")
	}
	cu := w.Fn("secs2", "clampUint64")
	r.Analysed(w.FnName(cu))
	if dt, ok := newDT(cu, 100); ok {
		v, hi := "$"+cu.Params[0].Name(), "$"+cu.Params[1].Name()
		for _, x := range []int64{0, 1, 254, 255, 256, 70000} {
			res := dt.Cell(Env{v: x, hi: 255})
			want := min(x, 255)
			got := strings.Join(res.Rets, ",")
			r.Check(res.Err == "" && got == fmt.Sprint(want), rule, fmt.Sprintf("clampUint64(%d, 255)", x), cu.Pos(), fmt.Sprint(want), fmt.Sprintf("must return %d, returns %s %s", want, got, res.Err))
		}
	} else {
		r.Undecided(rule, "clampUint64 paths", cu.Pos(), "too many")
	}
	// clampF4: path structure
	cf := w.Fn("secs2", "clampF4")
	r.Analysed(w.FnName(cf))
	paths, ok := enumPaths(cf, 100)
	if !ok {
		r.Undecided(rule, "clampF4 paths", cf.Pos(), "too many")
		return
	}
	maxF := fmt.Sprint(float64(math.MaxFloat32))
	_ = maxF
	seen := map[string]bool{}
	for _, p := range paths {
		ret := p.Rets()[0]
		cond := p.String()
		var kind string
		switch {
		case ret == ssa.Value(cf.Params[0]):
			kind = "pass-through"
		default:
			if c, ok := ret.(*ssa.Const); ok {
				f := c.Float64()
				switch {
				case f == float64(math.MaxFloat32):
					kind = "+max"
				case f == -float64(math.MaxFloat32):
					kind = "-max"
				}
			}
		}
		if kind == "" {
			r.Fail(rule, "clampF4 result on path ["+shortCond(p)+"]", p.Exit.Pos(), "returns "+render(ret)+": neither the argument nor ±MaxFloat32")
			continue
		}
		seen[kind] = true
		// +max only under v > max; -max only under v < -max
		okc := true
		if kind == "+max" && !(strings.Contains(cond, "3.4028234663852886e+38 < $"+cf.Params[0].Name()) || strings.Contains(cond, "< $"+cf.Params[0].Name()+")")) {
			okc = false
		}
		if kind == "-max" && !strings.Contains(cond, "($"+cf.Params[0].Name()+" < ") {
			okc = false
		}
		r.Check(okc, rule, "clampF4 returns "+kind+" under ["+shortCond(p)+"]", p.Exit.Pos(), "guarded by the matching comparison", "the bound must be returned only on the side it bounds")
	}
	r.Check(seen["pass-through"] && seen["+max"] && seen["-max"], rule, "clampF4 has the three outcomes (value, +MaxFloat32, −MaxFloat32)", cf.Pos(), "complete", fmt.Sprintf("outcomes found: %v", keysOf(seen)))
}

func keysOf(m map[string]bool) []string {
	var out []string
	for k := range m {
		out = append(out, k)
	}
	sort.Strings(out)
	return out
}

func c16StoredValues(r *Run) {
	rule := r.aliased("C16-R2-stored-values-clamped")
	w := r.W
	clampFns := map[*ssa.Function]bool{w.Fn("secs2", "clampInt64"): true, w.Fn("secs2", "clampUint64"): true, w.Fn("secs2", "clampF4"): true}
	isClamp := func(v ssa.Value) bool {
		c, ok := v.(*ssa.Call)
		return ok && calleeOf(c).Static != nil && clampFns[calleeOf(c).Static]
	}
	n := 0
	for _, typ := range []string{"IntItem", "UintItem", "FloatItem"} {
		fValues := w.Field("secs2", typ, "values")
		elem64 := fValues.Type().(*types.Slice).Elem()
		for _, fn := range w.FnsInPkg("secs2") {
			if !w.IsProd(fn) || strings.HasPrefix(fn.Name(), "decode") {
				continue
			}
			var facts map[*ssa.BasicBlock][]Fact
			getFacts := func() map[*ssa.BasicBlock][]Fact {
				if facts == nil {
					facts = bndMustFacts(fn)
				}
				return facts
			}
			// "overflow checking is off" on every path to b (FloatItem: checkOverflow := byteSize == 4)
			overflowOff := func(b *ssa.BasicBlock) bool {
				for _, f := range getFacts()[b] {
					if bo, ok := f.Cond.(*ssa.BinOp); ok && bo.Op == token.EQL && !f.Val && strings.HasSuffix(render(bo.X), ".byteSize") {
						if k, _ := constInt(bo.Y); k == 4 {
							return true
						}
					}
				}
				return false
			}
			guarded := func(v ssa.Value, b *ssa.BasicBlock) bool {
				// a comparison involving v (or a conversion of it) decided on every path here
				base := stripConv(v)
				for _, f := range getFacts()[b] {
					if bo, ok := f.Cond.(*ssa.BinOp); ok {
						switch bo.Op {
						case token.LSS, token.LEQ, token.GTR, token.GEQ:
							if stripConv(bo.X) == base || stripConv(bo.Y) == base {
								return true
							}
						}
					}
				}
				return false
			}
			var okElem func(v ssa.Value, b *ssa.BasicBlock, depth int) (bool, string)
			okElem = func(v ssa.Value, b *ssa.BasicBlock, depth int) (bool, string) {
				if depth > 6 {
					return false, "too deep"
				}
				switch x := v.(type) {
				case *ssa.Const:
					return true, "constant"
				case *ssa.Call:
					if isClamp(x) {
						return true, "clamp result"
					}
					if g := calleeOf(x).Static; g != nil && fnPkgPath(g) == "math" {
						return true, "math helper"
					}
				case *ssa.Convert:
					srcT := x.X.Type()
					// widening from a narrower numeric type cannot leave the 64-bit element's range; for F4
					// the narrower types are float32 and the integers (|int| ≤ 2^63 < MaxFloat32)
					if typ == "FloatItem" && typeBits(srcT) > 0 && typeBits(srcT) < 64 {
						return true, "widening of a narrower type"
					}
					if typ != "FloatItem" && isIntType(srcT) && typeBits(srcT) > 0 {
						// an integer stored without a clamp must fit the narrowest item this code path can be
						// building: width 1 unless the path has decided byteSize == k. A signed source never
						// fits an unsigned item (negative values need their own guard).
						k := int64(1)
						for _, f := range getFacts()[b] {
							if bo, ok := f.Cond.(*ssa.BinOp); ok && bo.Op == token.EQL && f.Val && strings.HasSuffix(render(bo.X), ".byteSize") {
								if kk, isK := constInt(bo.Y); isK && kk > k {
									k = kk
								}
							}
						}
						sb := int64(typeBits(srcT))
						fits := false
						switch {
						case typ == "IntItem" && !isUnsigned(srcT):
							fits = sb <= 8*k
						case typ == "IntItem" && isUnsigned(srcT):
							fits = sb < 8*k
						case typ == "UintItem" && isUnsigned(srcT):
							fits = sb <= 8*k
						}
						if fits {
							return true, "widening of a type that fits the narrowest item width on this path"
						}
					}
					if b, ok := srcT.Underlying().(*types.Basic); ok && b.Kind() == types.Float32 {
						return true, "widening of float32"
					}
					if guarded(x.X, b) {
						return true, "compare-before-convert"
					}
					if typ == "FloatItem" && isIntType(srcT) {
						return true, "integer widened to float64 (|v| < MaxFloat32)"
					}
					return okElem(x.X, b, depth+1)
				case *ssa.Phi:
					for k, e := range x.Edges {
						pb := x.Block().Preds[k]
						if ok, why := okElem(e, pb, depth+1); !ok {
							// the unclamped edge is fine when it comes from the overflow-off side
							if typ == "FloatItem" && (overflowOff(pb) || overflowOffEdge(pb, x.Block())) {
								continue
							}
							return false, why
						}
					}
					return true, "every incoming value is clamped"
				case *ssa.UnOp:
					if x.Op == token.MUL {
						// loads of the local min/max bounds
						if a, ok := x.X.(*ssa.Alloc); ok {
							_ = a
							return true, "local bound"
						}
					}
				case *ssa.Extract:
					// results of strconv.Parse* with the item's bit size are range-checked by strconv
					if c, ok := x.Tuple.(*ssa.Call); ok {
						if g := calleeOf(c).Static; g != nil && fnPkgPath(g) == "strconv" {
							a := c.Call.Args
							switch g.Name() {
							case "ParseInt", "ParseUint":
								// range-checked by strconv when the bit size is the item's own width
								if _, isK := constInt(a[2]); !isK && strings.Contains(render(a[2]), "byteSize") {
									return true, "strconv result (range-checked at the item's bit size)"
								}
								return false, "number parsed at a fixed bit size, not the item's width: " + shortRender(v)
							case "ParseFloat":
								// ParseFloat(s, 64) is not bounded by ±MaxFloat32: an F4 item needs the clamp
								if overflowOff(b) {
									return true, "F8: every parsed float64 is representable"
								}
								if _, isK := constInt(a[1]); !isK && strings.Contains(render(a[1]), "byteSize") {
									return true, "strconv result (range-checked at the item's bit size)"
								}
								return false, "parsed float64 stored in an item that may be F4 without clampF4: " + shortRender(v)
							}
							return false, "unrecognised strconv result " + shortRender(v)
						}
					}
				case *ssa.BinOp:
					return true, "computed bound"
				}
				if guarded(v, b) {
					return true, "guarded by a range comparison"
				}
				if typ == "FloatItem" && overflowOff(b) {
					return true, "F8: every float64 is representable"
				}
				if typ != "FloatItem" && typeBits(v.Type()) == 64 && fn.Name() != "" {
					// a full-width value of the element's own type: representable when the item is 8 bytes wide,
					// otherwise it must have gone through a clamp (checked above)
				}
				return false, "unclamped " + shortRender(v)
			}
			eachInstr(fn, func(in ssa.Instruction) {
				st, ok := in.(*ssa.Store)
				if !ok {
					return
				}
				fa, ok := st.Addr.(*ssa.FieldAddr)
				if ok && sameVar(fieldOf(fa), fValues) {
					call, isApp := st.Val.(*ssa.Call)
					if !isApp || calleeOf(call).Builtin != "append" {
						return // make(...) / nil: no element
					}
					n++
					r.Analysed(w.FnName(fn))
					arg := call.Call.Args[1]
					construct := fmt.Sprintf("%s: %s.values ← %s", w.FnName(fn), typ, shortRender(arg))
					// variadic: either a one-element varargs array (single value) or a caller slice
					if sl, ok := arg.(*ssa.Slice); ok {
						if a, ok := sl.X.(*ssa.Alloc); ok {
							if k, ok2 := arrayLenOf(a.Type()); ok2 && k == 1 {
								// the single element stored into the varargs array
								var elem ssa.Value
								for _, ref := range *a.Referrers() {
									if ia, ok := ref.(*ssa.IndexAddr); ok {
										for _, r2 := range *ia.Referrers() {
											if s2, ok := r2.(*ssa.Store); ok {
												elem = s2.Val
											}
										}
									}
								}
								if elem == nil {
									r.Fail(rule, construct, st.Pos(), "appended element not found")
									return
								}
								ok3, why := okElem(elem, st.Block(), 0)
								if ok3 {
									r.OK(rule, construct, st.Pos(), "%s", why)
								} else {
									r.Fail(rule, construct, st.Pos(), "an out-of-range argument would be stored as is (then wrapped or turned into ±Inf on the wire): %s", why)
								}
								return
							}
						}
					}
					// bulk append of a whole slice
					if types.Identical(arg.Type().Underlying().(*types.Slice).Elem(), elem64) {
						okBulk := typ == "FloatItem" && overflowOff(st.Block())
						if typ != "FloatItem" {
							// []int64 into an I8 / []uint64 into a U8 item only
							okBulk = false
							for _, f := range getFacts()[st.Block()] {
								if bo, ok := f.Cond.(*ssa.BinOp); ok && bo.Op == token.EQL && f.Val && strings.HasSuffix(render(bo.X), ".byteSize") {
									if k, _ := constInt(bo.Y); k == 8 {
										okBulk = true
									}
								}
							}
						}
						if okBulk {
							r.OK(rule, construct, st.Pos(), "bulk copy only when every value is representable (full-width item)")
						} else {
							r.Fail(rule, construct, st.Pos(), "a caller's slice is appended wholesale where elements may be out of range for this item: each must go through the clamp")
						}
						return
					}
					r.Fail(rule, construct, st.Pos(), "unrecognised append into values")
				}
				// element stores into values (in-place fix-ups)
				if ia, ok := st.Addr.(*ssa.IndexAddr); ok {
					if ld, ok := ia.X.(*ssa.UnOp); ok && ld.Op == token.MUL {
						if fa2, ok := ld.X.(*ssa.FieldAddr); ok && sameVar(fieldOf(fa2), fValues) {
							n++
							construct := fmt.Sprintf("%s: in-place write %s.values[…] = %s", w.FnName(fn), typ, shortRender(st.Val))
							if ok, why := okElem(st.Val, st.Block(), 0); ok {
								// the value is clamped, but whether the index range covers exactly the elements that were
								// appended unclamped is region arithmetic this rule does not decide
								r.Undecided(rule, construct, st.Pos(), "a clamped value (%s) is written over an existing element: whether the fix-up covers exactly the unclamped region is not decided — append clamped values instead", why)
							} else {
								r.Fail(rule, construct, st.Pos(), "an unclamped value is written into the item: %s", why)
							}
						}
					}
				}
			})
		}
	}
	r.Floor(rule, "appends into numeric items' values", n, 60)
	// the scalar fast paths return only clamped values
	for _, name := range []string{"intScalarFastPath", "uintScalarFastPath"} {
		fn := w.FnOpt("secs2", name)
		if fn == nil {
			continue
		}
		r.Analysed(w.FnName(fn))
		facts := bndMustFacts(fn)
		for _, ret := range returnsOf(fn) {
			v := ret.Results[0]
			if c, ok := v.(*ssa.Const); ok && c.Value != nil {
				continue
			}
			okv := isClamp(v)
			if !okv {
				// maxVal itself, or a conversion guarded by a comparison with maxVal
				if cv, ok := v.(*ssa.Convert); ok {
					for _, f := range facts[ret.Block()] {
						if bo, ok := f.Cond.(*ssa.BinOp); ok && (bo.Op == token.GTR || bo.Op == token.LEQ) {
							if stripConv(bo.X) == stripConv(cv.X) || stripConv(bo.Y) == stripConv(cv.X) {
								okv = true
							}
						}
					}
				}
				if _, ok := v.(*ssa.Phi); ok {
					okv = true // the bounds variables (min/max selected by width)
				}
				if _, ok := v.(*ssa.BinOp); ok {
					okv = true
				}
			}
			r.Check(okv, rule, name+" returns "+shortRender(v), ret.Pos(), "clamped / bound / guarded conversion", "the fast path must clamp exactly like the general path")
		}
	}
}

// overflowOffEdge: the edge p→s is the "byteSize == 4 is false" side of a branch.
func overflowOffEdge(p, s *ssa.BasicBlock) bool {
	iff, ok := p.Instrs[len(p.Instrs)-1].(*ssa.If)
	if !ok || len(p.Succs) != 2 || p.Succs[0] == p.Succs[1] {
		return false
	}
	f := normFact(iff.Cond, s == p.Succs[0])
	bo, ok := f.Cond.(*ssa.BinOp)
	if !ok || bo.Op != token.EQL || f.Val || !strings.HasSuffix(render(bo.X), ".byteSize") {
		return false
	}
	k, _ := constInt(bo.Y)
	return k == 4
}

func c16Defaults(r *Run) {
	const rule = "C16-R3-erroring-defaults"
	w := r.W
	n := 0
	for _, fn := range w.FnsInPkg("secs2") {
		if !w.IsProd(fn) || !strings.HasPrefix(fn.Name(), "combine") {
			continue
		}
		r.Analysed(w.FnName(fn))
		// the block reached when every type assertion on the switched value failed
		var asserts []*ssa.TypeAssert
		eachInstr(fn, func(in ssa.Instruction) {
			if ta, ok := in.(*ssa.TypeAssert); ok && ta.CommaOk {
				asserts = append(asserts, ta)
			}
		})
		if len(asserts) == 0 {
			continue
		}
		// group by switched value; take the last assertion of each chain: its false successor is the default
		byVal := map[ssa.Value][]*ssa.TypeAssert{}
		for _, ta := range asserts {
			byVal[ta.X] = append(byVal[ta.X], ta)
		}
		for v, tas := range byVal {
			if len(tas) < 3 {
				continue // the capacity pre-scan and incidental assertions
			}
			last := tas[len(tas)-1]
			var iff *ssa.If
			for _, ref := range *last.Referrers() {
				if ex, ok := ref.(*ssa.Extract); ok && ex.Index == 1 {
					for _, r2 := range *ex.Referrers() {
						if i2, ok := r2.(*ssa.If); ok {
							iff = i2
						}
					}
				}
			}
			if iff == nil {
				continue
			}
			def := iff.Block().Succs[1]
			// capacity pre-scan switches fall through to the construction; skip those whose default reaches a MakeSlice
			reach := blocksReachable(def, nil)
			isPrescan := false
			for b := range reach {
				for _, in := range b.Instrs {
					if _, ok := in.(*ssa.MakeSlice); ok {
						isPrescan = true
					}
				}
			}
			if isPrescan {
				continue
			}
			n++
			// from the default block, every return yields a non-nil error (directly or via the slow helper's result)
			okDef := true
			why := ""
			seen := map[*ssa.BasicBlock]bool{}
			var walk func(b *ssa.BasicBlock)
			walk = func(b *ssa.BasicBlock) {
				if seen[b] || !okDef {
					return
				}
				seen[b] = true
				for _, in := range b.Instrs {
					if ret, ok := in.(*ssa.Return); ok {
						if len(ret.Results) == 0 {
							okDef = false
							why = "returns nothing"
							return
						}
						e := ret.Results[len(ret.Results)-1]
						if c, ok := e.(*ssa.Const); ok && c.IsNil() {
							okDef = false
							why = "the default arm returns a nil error"
						}
						return
					}
				}
				// stop at the loop back edge: only the straight-line continuation of the default matters
				for _, s := range b.Succs {
					if s.Dominates(b) {
						// continuing the loop without an error means the unsupported value was silently skipped
						hasErrRet := false
						for _, in := range b.Instrs {
							if _, ok := in.(*ssa.If); ok {
								hasErrRet = true
							}
						}
						if !hasErrRet && b == def {
							okDef = false
							why = "the default arm continues the loop without reporting an error"
						}
						continue
					}
					walk(s)
				}
			}
			walk(def)
			r.Check(okDef, rule, fmt.Sprintf("%s: type switch on %s has an erroring default", w.FnName(fn), shortRender(v)), last.Pos(), "unsupported types are reported", "an argument of an unsupported type must make the item carry an error: "+why)
		}
	}
	r.Floor(rule, "constructor type switches with a default", n, 5)
}

func c16WireGate(r *Run) {
	const rule = "C16-R4-wire-gate"
	w := r.W
	// 1. wire.FromItem (the only way an item becomes a body) is called only from NewDataMessage, after the Error() gate
	fi := w.Fn("internal/wire", "FromItem")
	ndm := w.Fn("hsms", "NewDataMessage")
	n := 0
	for _, u := range w.usesOf(fi) {
		if !w.IsProd(u.Fn) {
			continue
		}
		n++
		if !sameFn(u.Fn, ndm) {
			r.Fail(rule, "wire.FromItem used in "+w.FnName(u.Fn), u.Pos(), "a constructed item may become a message body only inside NewDataMessage, behind its item.Error() gate: this path bypasses it")
			continue
		}
		// dominated by (item.Error() != nil) = false
		okGate := false
		for _, f := range bndMustFacts(ndm)[u.Instr.Block()] {
			s := render(f.Cond)
			if strings.Contains(s, ".Error()") && strings.Contains(s, "!=") && !f.Val || strings.Contains(s, ".Error()") && strings.Contains(s, "==") && f.Val {
				okGate = true
			}
		}
		r.Check(okGate, rule, "NewDataMessage: the body is built only after item.Error() == nil", u.Pos(), "gate dominates", "an errored item must never be wrapped as a body")
	}
	r.Floor(rule, "wire.FromItem uses", n, 1)
	// treeBody literals only in FromItem
	tb := w.Named("internal/wire", "treeBody")
	for _, fn := range w.ProdFns() {
		eachInstr(fn, func(in ssa.Instruction) {
			if a, ok := in.(*ssa.Alloc); ok {
				if nt, ok := derefType(a.Type()).(*types.Named); ok && nt.Origin() == tb.Origin() {
					r.Check(sameFn(fn, fi), rule, "treeBody created in "+w.FnName(fn), a.Pos(), "only in wire.FromItem", "a tree-carrying body must be created by FromItem only")
				}
			}
		})
	}
	// every DataMessage literal with a fresh decodeState is in NewDataMessage / newRawFrameDataMessage (raw frames carry bytes, not items)
	// (decided by C12-R4 / C04-R6); here: session send APIs build through NewDataMessage and return its error before sending
	for _, name := range []string{"session.SendDataMessage", "session.SendDataMessageAsync", "session.SendSECS2Message", "session.ReplyDataMessage"} {
		fn := w.FnOpt("hsms", name)
		if fn == nil {
			continue
		}
		r.Analysed(w.FnName(fn))
		builds := callsIn(fn, isFn(ndm))
		if len(builds) == 0 {
			r.Fail(rule, name+" builds its message through NewDataMessage", fn.Pos(), "no NewDataMessage call: the item.Error() gate is bypassed on this send path")
			continue
		}
		// every runtime send call is dominated by the success of the build
		ev := errResultOf(builds[0])
		facts := bndMustFacts(fn)
		eachInstr(fn, func(in ssa.Instruction) {
			c, ok := in.(*ssa.Call)
			if !ok || !c.Call.IsInvoke() {
				return
			}
			m := c.Call.Method.Name()
			if !(strings.HasPrefix(m, "Send") || strings.HasPrefix(m, "Write")) {
				return
			}
			okDom := false
			for _, f := range facts[c.Block()] {
				if x, eq, ok := isNilCmp(f.Cond); ok && x == ev && eq == f.Val {
					okDom = true
				}
			}
			r.Check(okDom, rule, name+": "+m+" only after NewDataMessage succeeded", c.Pos(), "err == nil dominates the send", "a message must not be sent when its construction reported an error")
		})
	}
	// 2. childClean: one arm per concrete item type, each requiring itemErr == nil (lists: and clean)
	cc := w.Fn("secs2", "childClean")
	r.Analysed(w.FnName(cc))
	itemIface := w.Named("secs2", "Item").Underlying().(*types.Interface)
	want := map[string]bool{}
	sc := w.Pkg("secs2").Types.Scope()
	for _, nm := range sc.Names() {
		if tn, ok := sc.Lookup(nm).(*types.TypeName); ok {
			if _, isS := tn.Type().Underlying().(*types.Struct); isS && types.Implements(types.NewPointer(tn.Type()), itemIface) {
				want[tn.Name()] = false
			}
		}
	}
	paths, ok := enumPaths(cc, 5000)
	if !ok {
		r.Undecided(rule, "childClean paths", cc.Pos(), "too many")
	} else {
		// per asserted type: the paths that return true must have decided ptr != nil and itemErr == nil (+ clean for lists)
		type armInfo struct{ sawTrue, okAll bool }
		arms := map[string]*armInfo{}
		for _, p := range paths {
			ret := p.Rets()[0]
			// the arm: the last type assertion that succeeded on this path
			arm := ""
			for _, f := range p.Conds {
				if ex, ok := f.Cond.(*ssa.Extract); ok && f.Val {
					if ta, ok := ex.Tuple.(*ssa.TypeAssert); ok {
						arm = strings.TrimPrefix(typeShort(ta.AssertedType), "*secs2.")
					}
				}
			}
			if arm == "" {
				// default: must be false
				if render(ret) != "false" {
					r.Fail(rule, "childClean default arm", p.Exit.Pos(), "an unknown item type must be reported not clean, returns "+render(ret))
				}
				continue
			}
			a := arms[arm]
			if a == nil {
				a = &armInfo{okAll: true}
				arms[arm] = a
			}
			cond := p.String()
			if render(ret) == "false" {
				continue // not a path on which the child is reported clean
			}
			// does this path end in "true"?
			isTrue := render(ret) == "true"
			if !isTrue {
				// the result may be the last comparison itself: (x.itemErr == nil) or x.clean
				s := renderWith(ret, p.Resolve)
				cond += " ∧ RESULT(" + s + ")"
				isTrue = true // the returned expression can be true; it must then be the remaining required test
			}
			if !isTrue {
				continue
			}
			a.sawTrue = true
			need := []string{".itemErr"}
			if arm == "ListItem" {
				need = append(need, ".clean")
			}
			for _, nd := range need {
				if !strings.Contains(cond, nd) {
					a.okAll = false
				}
			}
			// and the error test has the right polarity: "itemErr == nil" holds on the path, or is the
			// very value returned
			errNil := false
			isErrField := func(v ssa.Value) bool {
				return strings.HasSuffix(renderWith(v, p.Resolve), ".itemErr")
			}
			for _, f := range p.Conds {
				if x, eq, ok := isNilCmp(f.Cond); ok && isErrField(x) && eq == f.Val {
					errNil = true
				}
			}
			if x, eq, ok := isNilCmp(p.Resolve(ret)); ok && isErrField(x) && eq {
				errNil = true
			}
			// lists return (itemErr == nil && clean): the comparison then sits in the path conditions
			if !errNil {
				a.okAll = false
			}
		}
		for name := range want {
			a := arms[name]
			r.Check(a != nil && a.sawTrue, rule, "childClean has an arm for *"+name, cc.Pos(), "covered", "a child of this type would be treated as unknown (or worse, fall into another arm)")
			if a != nil {
				need := "its own itemErr == nil"
				if name == "ListItem" {
					need += " and its clean flag"
				}
				r.Check(a.okAll, rule, "childClean(*"+name+") is true only with "+need, cc.Pos(), "required tests on every true path", "an errored child of this type would make the enclosing list report Error()==nil: the wire gate in NewDataMessage would let it through")
			}
		}
	}
	// 3. ListItem.Error: nil without walking only when clean
	le := w.Fn("secs2", "ListItem.Error")
	r.Analysed(w.FnName(le))
	if lp, ok := enumPaths(le, 2000); ok {
		for _, p := range lp {
			ret := p.Rets()[0]
			if c, isC := ret.(*ssa.Const); isC && c.IsNil() {
				// the clean flag was found TRUE on this path (not merely looked at), or the children were walked
				cleanTrue := false
				for _, f := range p.Conds {
					if strings.HasSuffix(renderWith(f.Cond, p.Resolve), ".clean") && f.Val {
						cleanTrue = true
					}
				}
				// (a walk that found no children left to look at also counts: the loop condition over
				// item.values was decided on this path)
				walked := strings.Contains(p.String(), "len($item.values)")
				for _, in := range p.Instrs() {
					if c2, ok := in.(*ssa.Call); ok && c2.Call.IsInvoke() && c2.Call.Method.Name() == "Error" {
						walked = true
					}
				}
				r.Check(cleanTrue || walked, rule, "ListItem.Error returns a constant nil only when clean", p.Exit.Pos(), "clean flag found true", "a list must not report nil without either the clean flag being set or a walk of its children ["+shortCond(p)+"]")
			}
		}
	}
	// 4. Equal: both Error()s before anything else
	eq := w.Fn("secs2", "Equal")
	r.Analysed(w.FnName(eq))
	var firstOther, lastErr ssa.Instruction
	nErr := 0
	eachInstr(eq, func(in ssa.Instruction) {
		c, ok := in.(*ssa.Call)
		if !ok || !c.Call.IsInvoke() {
			return
		}
		if c.Call.Method.Name() == "Error" {
			nErr++
			lastErr = in
		} else if firstOther == nil {
			firstOther = in
		}
	})
	r.Check(nErr == 2 && (firstOther == nil || instrDominates(lastErr, firstOther)), rule, "Equal tests a.Error() and b.Error() before comparing anything", eq.Pos(), "both gates first", "an errored item must never compare equal")
}

func c16NoPanic(r *Run) {
	const rule = "C16-R5-no-panic"
	w := r.W
	var frag []*ssa.Function
	for _, fn := range w.FnsInPkg("secs2") {
		if !w.IsProd(fn) {
			continue
		}
		n := fn.Name()
		if strings.HasPrefix(n, "New") || strings.HasPrefix(n, "combine") || strings.HasPrefix(n, "clamp") || strings.HasSuffix(n, "ScalarFastPath") || len(n) <= 2 || n == "childClean" || strings.HasPrefix(n, "set") {
			frag = append(frag, fn)
		}
	}
	noExplicitPanic(r, rule, frag, nil)
	r.Floor(rule, "constructor-side functions scanned", len(frag), 30)
}
