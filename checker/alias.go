package main

import "golang.org/x/tools/go/ssa"

// aliased returns the rule name a shared rule function should report under.
func (r *Run) aliased(name string) string {
	if r.ruleAlias != "" {
		return r.ruleAlias
	}
	return name
}

// eachInstrDeep visits fn and, recursively, its anonymous functions (range-over-func loop
// bodies and other closures are separate SSA functions).
func eachInstrDeep(fn *ssa.Function, f func(ssa.Instruction)) {
	eachInstr(fn, f)
	for _, a := range fn.AnonFuncs {
		eachInstrDeep(a, f)
	}
}
