package main

// aliased returns the rule name a shared rule function should report under.
func (r *Run) aliased(name string) string {
	if r.ruleAlias != "" {
		return r.ruleAlias
	}
	return name
}
