package main

import (
	"golang.org/x/tools/go/ssa"
)

// No-integer-wrap rules: the bounds rules treat + − × on offsets and sizes as mathematical
// operations. These rules discharge that assumption for the two untrusted-input fragments:
// every linearisable signed 64-bit + − × is proven to stay within ±2^60, assuming only that
// no buffer is longer than 2^40 bytes. A size parsed from the input must therefore be
// bounded by a guard before arithmetic is done on it.

func init() {
	registry["C14"].Rules = append(registry["C14"].Rules,
		Rule{Name: "C14-R7-no-integer-wrap", Doc: "every + − × on positions, offsets and sizes in the parse fragment is proven not to wrap (64-bit targets: |result| ≤ 2^60 given buffers ≤ 2^40 bytes; 32-bit targets, thorough tier: |result| ≤ 2^31−1 given buffers ≤ 2^28 bytes): a size read from the text is bounded before it takes part in arithmetic, so no guard can be defeated by overflow", Run: c14NoWrap})
	registry["C02"].Rules = append(registry["C02"].Rules,
		Rule{Name: "C02-R7-no-integer-wrap", Doc: "every + − × on positions and lengths in the decode fragment is proven not to wrap (64-bit targets: |result| ≤ 2^60 given buffers ≤ 2^40 bytes; 32-bit targets, thorough tier: |result| ≤ 2^31−1 given buffers ≤ 2^28 bytes)", Run: c02NoWrap})
}

func onlyWrap(r *Run, rule string, name string, floor int) {
	br := r.bnd[name]
	if br == nil || !br.e.checkWrap {
		r.Undecided(rule, "engine run "+name, 0, "the bounds rule of this property did not run with wrap obligations")
		return
	}
	e, res := br.e, br.res
	n := 0
	seen := map[string]int{}
	for i, o := range res.obs {
		if o.kind != "no-wrap" {
			continue
		}
		n++
		construct := o.what
		if o.ctx.envS != "" {
			construct += " [" + o.ctx.envS + "]"
		}
		seen[construct]++
		if k := seen[construct]; k > 1 {
			construct += " #" + string(rune('0'+k%10))
		}
		if res.proved[i] {
			r.OK(rule, construct, o.at.Pos(), "bounded by the guards and contracts in force")
		} else {
			r.Fail(rule, construct, o.at.Pos(), "the operands are not bounded here (%s): with a hostile value the sum wraps and every later comparison on it is meaningless", res.failDesc[i])
		}
	}
	for _, fn := range e.fns {
		r.Analysed(r.W.FnName(fn))
	}
	r.Floor(rule, "arithmetic operations examined", n, floor)
}

func c14NoWrap(r *Run) {
	if r.bnd["sml-parse"] == nil {
		c14Bounds(r)
	}
	onlyWrap(r, "C14-R7-no-integer-wrap", "sml-parse", 20)
}

func c02NoWrap(r *Run) {
	if r.bnd["secs2-decode"] == nil {
		c02Bounds(r)
	}
	onlyWrap(r, "C02-R7-no-integer-wrap", "secs2-decode", 20)
}

var _ ssa.Value
