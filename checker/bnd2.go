package main

import (
	"fmt"
	"go/token"
	"go/types"
	"sort"
	"strings"

	"golang.org/x/tools/go/ssa"
)

// ---------- engine ----------

type bndEngine struct {
	w       *World
	name    string
	frag    map[*ssa.Function]bool
	fns     []*ssa.Function
	entries map[*ssa.Function]bool // callable with arbitrary arguments: no parameter preconditions
	ctxs    map[*ssa.Function][]*fnCtx
	tracked []*trackedStruct

	callers map[*ssa.Function][]callSite // in-fragment static call sites per callee

	pre    map[*ssa.Function][]*cand
	post   map[*ssa.Function][]*cand
	postOK map[*ssa.Function][]*cand // postconditions of successful returns (error result nil)
	inv    map[*trackedStruct][]*cand
	lenK   []int64
	devirt map[*types.Var]*ssa.Function // func-typed struct fields with a single production value

	roMemo    map[*ssa.Global]*roInfo
	mwMemo    map[*ssa.Function]map[*types.Var]bool
	gen       int // bumped whenever a candidate dies
	proofs    int
	houdiniIt int

	// allocBound gives, for an allocation-size obligation in ctx, the linear upper bound the
	// size must respect (ok=false: no bound can be stated here → undecided).
	allocBound func(c *fnCtx, at ssa.Instruction) (Lin, string, bool)

	// checkWrap adds no-wrap obligations for signed 64-bit + − × and, to make them provable,
	// the assumption that no slice or string is longer than 2^40 bytes plus magnitude
	// candidates (|x| ≤ 2^41) for parameters, results, loop values and tracked fields.
	checkWrap bool
}

// Parameters of the wrap-freedom argument. On a 64-bit target: results within ±2^60, assuming
// no buffer is longer than 2^40 bytes, with magnitude candidates |x| ≤ 2^41. On a 32-bit
// target (int is 32 bits): results within ±(2^31−1) — exactly the machine range —, assuming no
// buffer is longer than 2^28 bytes (256 MiB), with magnitude candidates |x| ≤ 2^29.
func (e *bndEngine) is32() bool { return e.w.GOARCH == "386" || e.w.GOARCH == "arm" }

func (e *bndEngine) wrapBound() int64 {
	if e.is32() {
		return int64(1)<<31 - 1
	}
	return int64(1) << 60
}

func (e *bndEngine) lenCap() int64 {
	if e.is32() {
		return int64(1) << 28
	}
	return int64(1) << 40
}

func (e *bndEngine) magBound() int64 {
	if e.is32() {
		return int64(1) << 29
	}
	return int64(1) << 41
}

func (e *bndEngine) wrapNames() (res, buf, mag string) {
	if e.is32() {
		return "2^31−1", "2^28", "2^29"
	}
	return "2^60", "2^40", "2^41"
}

type callSite struct {
	ctx  *fnCtx
	call ssa.CallInstruction
}

type roInfo struct {
	lo, hi int64
	ok     bool
}

type candKind int

const (
	candPre candKind = iota
	candPost
	candBlock
	candInv
)

// cand is one Houdini candidate: L ≤ 0 over slot atoms.
type cand struct {
	kind  candKind
	key   string
	desc  string
	L     Lin
	alive bool
	ctx   *fnCtx          // candBlock
	block *ssa.BasicBlock // candBlock
	invOf *cand           // candBlock instantiating a struct invariant at a join state
	died  string
}

// substLin replaces atoms by Lins; atoms without a binding are kept when keep is true,
// otherwise the substitution fails.
func substLin(l Lin, m map[string]Lin, keep bool) (Lin, bool) {
	r := linConst(l.K)
	for a, c := range l.C {
		if b, ok := m[a]; ok {
			var ok2 bool
			r, ok2 = r.addScaled(b, c)
			if !ok2 {
				return Lin{}, false
			}
		} else if keep {
			var ok2 bool
			r, ok2 = r.addScaled(linAtom(a), c)
			if !ok2 {
				return Lin{}, false
			}
		} else {
			return Lin{}, false
		}
	}
	return r, true
}

func newBndEngine(w *World, name string, frag []*ssa.Function, tracked []*types.Named) *bndEngine {
	e := &bndEngine{w: w, name: name, frag: map[*ssa.Function]bool{}, entries: map[*ssa.Function]bool{}, ctxs: map[*ssa.Function][]*fnCtx{},
		callers: map[*ssa.Function][]callSite{}, pre: map[*ssa.Function][]*cand{}, post: map[*ssa.Function][]*cand{}, inv: map[*trackedStruct][]*cand{},
		roMemo: map[*ssa.Global]*roInfo{}, mwMemo: map[*ssa.Function]map[*types.Var]bool{}, postOK: map[*ssa.Function][]*cand{}}
	for _, f := range frag {
		if f != nil && f.Blocks != nil && !e.frag[f] {
			e.frag[f] = true
			e.fns = append(e.fns, f)
		}
	}
	sort.Slice(e.fns, func(i, j int) bool { return e.fns[i].String() < e.fns[j].String() })
	for _, n := range tracked {
		st, ok := n.Underlying().(*types.Struct)
		if !ok {
			continue
		}
		ts := &trackedStruct{named: n}
		for i := 0; i < st.NumFields(); i++ {
			ts.fields = append(ts.fields, st.Field(i))
		}
		e.tracked = append(e.tracked, ts)
	}
	return e
}

// fragmentFrom collects the functions reachable from the entries through static calls,
// restricted to packages accepted by inPkg.
func fragmentFrom(w *World, entries []*ssa.Function, inPkg func(string) bool) []*ssa.Function {
	seen := map[*ssa.Function]bool{}
	var out []*ssa.Function
	var walk func(f *ssa.Function)
	walk = func(f *ssa.Function) {
		if f == nil || seen[f] || f.Blocks == nil || !inPkg(w.PkgOf(f)) {
			return
		}
		seen[f] = true
		out = append(out, f)
		eachInstr(f, func(in ssa.Instruction) {
			if c, ok := in.(ssa.CallInstruction); ok {
				if callee := w.staticOrFieldCallee(c); callee != nil {
					walk(callee)
				}
			}
			if mc, ok := in.(*ssa.MakeClosure); ok {
				if g, ok := mc.Fn.(*ssa.Function); ok {
					walk(g)
				}
			}
		})
	}
	for _, f := range entries {
		walk(f)
	}
	return out
}

// roTableRange: value range of the elements of a package-level array/slice variable that
// is initialised by a constant composite literal and never stored to elsewhere.
func (e *bndEngine) roTableRange(g *ssa.Global) (lo, hi int64, ok bool) {
	if r, ok := e.roMemo[g]; ok {
		return r.lo, r.hi, r.ok
	}
	r := &roInfo{}
	e.roMemo[g] = r
	first := true
	good := true
	for fn := range e.w.allFns {
		if fn.Blocks == nil {
			continue
		}
		isInit := fn.Name() == "init" && fn.Pkg == g.Pkg
		eachInstr(fn, func(in ssa.Instruction) {
			st, isStore := in.(*ssa.Store)
			// any use of the global other than load/IndexAddr-load outside init disqualifies
			for _, op := range in.Operands(nil) {
				if *op != ssa.Value(g) {
					continue
				}
				switch x := in.(type) {
				case *ssa.IndexAddr:
					for _, ref := range *x.Referrers() {
						if s2, ok := ref.(*ssa.Store); ok && s2.Addr == ssa.Value(x) {
							if !isInit {
								good = false
								continue
							}
							k, ok := constInt(s2.Val)
							if !ok {
								good = false
								continue
							}
							if first || k < r.lo {
								r.lo = k
							}
							if first || k > r.hi {
								r.hi = k
							}
							first = false
						} else if u, ok := ref.(*ssa.UnOp); ok && u.Op == token.MUL {
							// load
						} else if _, ok := ref.(*ssa.DebugRef); ok {
						} else {
							good = false
						}
					}
				case *ssa.UnOp:
					// whole-value load (len(table), range) is fine
				case *ssa.DebugRef:
				default:
					if isStore && st.Addr == ssa.Value(g) && isInit {
						// whole-array store in init: accept only a zero/const value we cannot range → disqualify
						good = false
					} else {
						good = false
					}
				}
			}
		})
	}
	r.ok = good && !first
	return r.lo, r.hi, r.ok
}

// mayWrite: fields (of any tracked struct) that fn may store to, directly or through
// static callees; a dynamic call taints every field of a tracked struct whose pointer is
// passed to it.
func (e *bndEngine) mayWrite(fn *ssa.Function) map[*types.Var]bool {
	if m, ok := e.mwMemo[fn]; ok {
		return m
	}
	m := map[*types.Var]bool{}
	e.mwMemo[fn] = m // cycles see the partial set; fixed below by iteration
	for iter := 0; iter < 4; iter++ {
		before := len(m)
		e.mayWriteOnce(fn, m, map[*ssa.Function]bool{})
		if len(m) == before && iter > 0 {
			break
		}
	}
	return m
}

func (e *bndEngine) isTrackedPtr(t types.Type) *trackedStruct {
	p, ok := t.Underlying().(*types.Pointer)
	if !ok {
		return nil
	}
	n, ok := p.Elem().(*types.Named)
	if !ok {
		return nil
	}
	for _, ts := range e.tracked {
		if ts.named.Origin() == n.Origin() {
			return ts
		}
	}
	return nil
}

func (e *bndEngine) mayWriteOnce(fn *ssa.Function, m map[*types.Var]bool, seen map[*ssa.Function]bool) {
	if fn == nil || seen[fn] || fn.Blocks == nil {
		return
	}
	seen[fn] = true
	eachInstr(fn, func(in ssa.Instruction) {
		switch x := in.(type) {
		case *ssa.Store:
			if fa, ok := x.Addr.(*ssa.FieldAddr); ok {
				if ts := e.isTrackedPtr(fa.X.Type()); ts != nil {
					m[ts.fields[fa.Field].Origin()] = true
				}
			}
		case ssa.CallInstruction:
			cal := calleeOf(x)
			if cal.Static != nil && cal.Static.Blocks != nil {
				e.mayWriteOnce(cal.Static, m, seen)
				return
			}
			if cal.Builtin != "" {
				return
			}
			if cal.Static != nil && !e.w.InModule(cal.Static) {
				// external function: can write a tracked struct only through a pointer it is given
			}
			for _, a := range x.Common().Args {
				if ts := e.isTrackedPtr(a.Type()); ts != nil {
					for _, f := range ts.fields {
						m[f.Origin()] = true
					}
				}
				// address of a tracked field handed out
				if fa, ok := a.(*ssa.FieldAddr); ok {
					if ts := e.isTrackedPtr(fa.X.Type()); ts != nil {
						m[ts.fields[fa.Field].Origin()] = true
					}
				}
			}
			if x.Common().IsInvoke() {
				if ts := e.isTrackedPtr(x.Common().Value.Type()); ts != nil {
					for _, f := range ts.fields {
						m[f.Origin()] = true
					}
				}
			}
		}
	})
}

// ---------- context construction ----------

func (e *bndEngine) newCtx(fn *ssa.Function, env map[ssa.Value]int64) *fnCtx {
	c := &fnCtx{e: e, fn: fn, env: env, ids: map[ssa.Value]string{}, linMemo: map[ssa.Value]Lin{}, lenMemo: map[ssa.Value]Lin{},
		defSeen: map[string]bool{}, verAt: map[ssa.Instruction]map[int]string{}, verAfter: map[ssa.Instruction]map[int]string{},
		storeVers: map[string]ssa.Value{}, domMemo: map[*ssa.BasicBlock][]*ssa.BasicBlock{}}
	var parts []string
	for _, p := range fn.Params {
		if k, ok := env[p]; ok {
			parts = append(parts, fmt.Sprintf("%s=%d", p.Name(), k))
		}
	}
	c.envS = strings.Join(parts, ",")
	c.facts = bndMustFacts(fn)
	if fn.Signature.Recv() != nil && len(fn.Params) > 0 {
		if ts := e.isTrackedPtr(fn.Params[0].Type()); ts != nil {
			c.recv = fn.Params[0]
			c.tracked = ts
			c.computeVersions()
		}
	}
	return c
}

// isRecvField: v is &recv.f for the tracked receiver; returns the field index.
func (c *fnCtx) isRecvField(v ssa.Value) (int, bool) {
	fa, ok := v.(*ssa.FieldAddr)
	if !ok || c.recv == nil || fa.X != ssa.Value(c.recv) {
		return 0, false
	}
	return fa.Field, true
}

func copyState(m map[int]string) map[int]string {
	r := make(map[int]string, len(m))
	for k, v := range m {
		r[k] = v
	}
	return r
}

// computeVersions runs the field-version dataflow for the tracked receiver.
func (c *fnCtx) computeVersions() {
	n := len(c.tracked.fields)
	entry := map[int]string{}
	for i := 0; i < n; i++ {
		entry[i] = "0"
	}
	c.verIn = map[*ssa.BasicBlock]map[int]string{c.fn.Blocks[0]: entry}
	out := map[*ssa.BasicBlock]map[int]string{}
	transfer := func(b *ssa.BasicBlock, st map[int]string, record bool) map[int]string {
		st = copyState(st)
		for i, in := range b.Instrs {
			touched := false
			switch x := in.(type) {
			case *ssa.Store:
				if fi, ok := c.isRecvField(x.Addr); ok {
					if record {
						c.verAt[in] = copyState(st)
					}
					v := fmt.Sprintf("s%d.%d", b.Index, i)
					st[fi] = v
					c.storeVers[fmt.Sprintf("%d@%s", fi, v)] = x.Val
					touched = true
				}
			case ssa.CallInstruction:
				if record {
					c.verAt[in] = copyState(st)
				}
				for fi := range c.callWrites(x) {
					st[fi] = fmt.Sprintf("c%d.%d", b.Index, i)
				}
				touched = true
			case *ssa.UnOp:
				if x.Op == token.MUL {
					if _, ok := c.isRecvField(x.X); ok && record {
						c.verAt[in] = copyState(st)
					}
				}
			case *ssa.Return:
				if record {
					c.verAt[in] = copyState(st)
				}
			}
			if touched && record {
				c.verAfter[in] = copyState(st)
			}
		}
		return st
	}
	for changed := true; changed; {
		changed = false
		for _, b := range c.fn.Blocks {
			var in map[int]string
			if b == c.fn.Blocks[0] {
				in = entry
			} else {
				first := true
				for _, p := range b.Preds {
					po, ok := out[p]
					if !ok {
						continue
					}
					if first {
						in = copyState(po)
						first = false
						continue
					}
					for fi := 0; fi < n; fi++ {
						if in[fi] != po[fi] {
							in[fi] = fmt.Sprintf("j%d", b.Index)
						}
					}
				}
				if first {
					continue
				}
				// a join version stays a join version even if predecessors later agree on it
				if old, ok := c.verIn[b]; ok {
					for fi := 0; fi < n; fi++ {
						if strings.HasPrefix(old[fi], "j") {
							in[fi] = old[fi]
						}
					}
				}
			}
			o := transfer(b, in, false)
			if !sameState(c.verIn[b], in) || !sameState(out[b], o) {
				c.verIn[b] = in
				out[b] = o
				changed = true
			}
		}
	}
	c.verOut = out
	for _, b := range c.fn.Blocks {
		if in, ok := c.verIn[b]; ok {
			transfer(b, in, true)
		}
	}
}

func sameState(a, b map[int]string) bool {
	if len(a) != len(b) {
		return false
	}
	for k, v := range a {
		if b[k] != v {
			return false
		}
	}
	return true
}

// callWrites: tracked receiver fields a call instruction may modify.
func (c *fnCtx) callWrites(call ssa.CallInstruction) map[int]bool {
	out := map[int]bool{}
	cc := call.Common()
	passesRecv := false
	var fieldAddrs []int
	args := append([]ssa.Value{}, cc.Args...)
	if cc.IsInvoke() {
		args = append(args, cc.Value)
	}
	if mc, ok := cc.Value.(*ssa.MakeClosure); ok {
		args = append(args, mc.Bindings...)
	}
	for _, a := range args {
		if a == ssa.Value(c.recv) {
			passesRecv = true
		}
		if fi, ok := c.isRecvField(a); ok {
			fieldAddrs = append(fieldAddrs, fi)
		}
	}
	for _, fi := range fieldAddrs {
		out[fi] = true
	}
	if !passesRecv {
		return out
	}
	cal := calleeOf(call)
	if cal.Static != nil && cal.Static.Blocks != nil {
		mw := c.e.mayWrite(cal.Static)
		for i, f := range c.tracked.fields {
			if mw[f.Origin()] {
				out[i] = true
			}
		}
		return out
	}
	if cal.Builtin != "" {
		return out
	}
	for i := range c.tracked.fields {
		out[i] = true
	}
	return out
}

func (c *fnCtx) fieldAtomName(fi int, ver string) string {
	return "this." + c.tracked.fields[fi].Name() + "@" + ver
}

// fieldAtoms returns the int atom / len atom Lin for a field at a version, adding
// definitional equalities for store-created versions.
func (c *fnCtx) fieldValue(fi int, ver string) (Lin, bool) {
	f := c.tracked.fields[fi]
	name := c.fieldAtomName(fi, ver)
	if isIntType(f.Type()) {
		a := linAtom(name)
		lo, hi, okLo, okHi := c.typeRange(f.Type())
		if okLo {
			c.addDef(leq(linConst(lo), a, "range of "+name))
		}
		if okHi {
			c.addDef(leq(a, linConst(hi), "range of "+name))
		}
		if val, ok := c.storeVers[fmt.Sprintf("%d@%s", fi, ver)]; ok {
			k := "eq:" + name
			if !c.defSeen[k] {
				c.defSeen[k] = true
				l := c.lin(val)
				c.addDef(leq(a, l, name+" = stored value"))
				c.addDef(leq(l, a, name+" = stored value"))
			}
		}
		return a, true
	}
	return Lin{}, false
}

func (c *fnCtx) fieldLen(fi int, ver string) (Lin, bool) {
	f := c.tracked.fields[fi]
	switch u := f.Type().Underlying().(type) {
	case *types.Basic:
		if u.Info()&types.IsString == 0 {
			return Lin{}, false
		}
	case *types.Slice:
	default:
		return Lin{}, false
	}
	name := "len(" + c.fieldAtomName(fi, ver) + ")"
	a := linAtom(name)
	c.addDef(leq(linConst(0), a, "len ≥ 0"))
	if c.e.checkWrap {
		c.addDef(leq(a, linConst(c.e.lenCap()), "assumption: no buffer longer than the cap"))
	}
	if val, ok := c.storeVers[fmt.Sprintf("%d@%s", fi, ver)]; ok {
		k := "eq:" + name
		if !c.defSeen[k] {
			c.defSeen[k] = true
			l := c.linLen(val)
			c.addDef(leq(a, l, name+" = len(stored value)"))
			c.addDef(leq(l, a, name+" = len(stored value)"))
		}
	}
	return a, true
}

func (c *fnCtx) fieldLoadAtom(ld *ssa.UnOp) (Lin, bool) {
	fi, ok := c.isRecvField(ld.X)
	if !ok || c.unstableField(fi) {
		return Lin{}, false
	}
	st, ok := c.verAt[ld]
	if !ok {
		return Lin{}, false
	}
	return c.fieldValue(fi, st[fi])
}

func (c *fnCtx) fieldLenAtom(ld *ssa.UnOp) (Lin, bool) {
	fi, ok := c.isRecvField(ld.X)
	if !ok || c.unstableField(fi) {
		return Lin{}, false
	}
	st, ok := c.verAt[ld]
	if !ok {
		return Lin{}, false
	}
	return c.fieldLen(fi, st[fi])
}

// unstableField: the field's address escapes in this function (other than to calls, which
// the version dataflow accounts for), so loads cannot be versioned.
func (c *fnCtx) unstableField(fi int) bool {
	if c.unstable == nil {
		c.unstable = map[int]bool{}
		eachInstr(c.fn, func(in ssa.Instruction) {
			fa, ok := in.(*ssa.FieldAddr)
			if !ok || fa.X != ssa.Value(c.recv) || fa.Referrers() == nil {
				return
			}
			for _, ref := range *fa.Referrers() {
				switch x := ref.(type) {
				case *ssa.UnOp, *ssa.DebugRef, ssa.CallInstruction:
				case *ssa.Store:
					if x.Addr != ssa.Value(fa) {
						c.unstable[fa.Field] = true
					}
				case *ssa.FieldAddr, *ssa.IndexAddr:
					// sub-object addressing: writes through it are not versioned
					c.unstable[fa.Field] = true
				default:
					c.unstable[fa.Field] = true
				}
			}
		})
	}
	return c.unstable[fi]
}

// stateBinding binds the invariant slots F:<name> / len(F:<name>) to the atoms of a state.
func (c *fnCtx) stateBinding(st map[int]string) map[string]Lin {
	m := map[string]Lin{}
	for fi, f := range c.tracked.fields {
		if c.unstableField(fi) {
			continue
		}
		if l, ok := c.fieldValue(fi, st[fi]); ok {
			m["F:"+f.Name()] = l
		}
		if l, ok := c.fieldLen(fi, st[fi]); ok {
			m["len(F:"+f.Name()+")"] = l
		}
	}
	return m
}

// ---------- dominance helpers ----------

func (c *fnCtx) dominators(b *ssa.BasicBlock) []*ssa.BasicBlock {
	if d, ok := c.domMemo[b]; ok {
		return d
	}
	var out []*ssa.BasicBlock
	for x := b; x != nil; x = x.Idom() {
		out = append(out, x)
	}
	c.domMemo[b] = out
	return out
}

// ---------- fact assembly ----------

type factSetB struct {
	ineqs []Ineq
	neqs  []Lin
	at    *ssa.BasicBlock // program point the facts were collected for
	idx   int
}

// factsAt collects the facts available just before instruction index idx of block b
// (idx == len(b.Instrs) means the end of the block).
func (c *fnCtx) factsAt(b *ssa.BasicBlock, idx int) factSetB {
	var fs factSetB
	fs.at, fs.idx = b, idx
	for _, f := range c.facts[b] {
		qs, ns := c.factIneqs(f)
		fs.ineqs = append(fs.ineqs, qs...)
		fs.neqs = append(fs.neqs, ns...)
		// range-over-string key facts when the iteration is known to have produced a key
		if f.Val {
			if ex, ok := f.Cond.(*ssa.Extract); ok && ex.Index == 0 {
				if nx, ok := ex.Tuple.(*ssa.Next); ok && nx.IsString {
					if rg, ok := nx.Iter.(*ssa.Range); ok {
						for _, ref := range *nx.Referrers() {
							if k, ok := ref.(*ssa.Extract); ok && k.Index == 1 {
								ka := c.lin(k)
								if q, ok := leq(linConst(0), ka, "range key ≥ 0"); ok {
									fs.ineqs = append(fs.ineqs, q)
								}
								if q, ok := lt(ka, c.linLen(rg.X), "range key < len"); ok {
									fs.ineqs = append(fs.ineqs, q)
								}
							}
						}
					}
				}
			}
		}
	}
	// preconditions
	if !c.e.entries[c.fn] {
		bind := c.calleeBinding(nil)
		for _, cd := range c.e.pre[c.fn] {
			if cd.alive {
				if l, ok := substLin(cd.L, bind, false); ok {
					fs.ineqs = append(fs.ineqs, Ineq{l, "pre: " + cd.desc})
				}
			}
		}
	}
	// struct invariants at entry
	if c.tracked != nil {
		bind := c.stateBinding(c.verIn[c.fn.Blocks[0]])
		for _, cd := range c.e.inv[c.tracked] {
			if cd.alive {
				if l, ok := substLin(cd.L, bind, false); ok {
					fs.ineqs = append(fs.ineqs, Ineq{l, "inv@entry: " + cd.desc})
				}
			}
		}
	}
	// dominating calls: postconditions and re-established invariants
	addCall := func(call ssa.CallInstruction) {
		var cal Callee
		cal.Static = c.e.w.staticOrFieldCallee(call)
		if cal.Static == nil {
			return
		}
		if c.e.frag[cal.Static] {
			bind := c.callerBinding(call, true)
			for _, cd := range c.e.post[cal.Static] {
				if cd.alive {
					if l, ok := substLin(cd.L, bind, false); ok {
						fs.ineqs = append(fs.ineqs, Ineq{l, "post(" + cal.Static.Name() + "): " + cd.desc})
					}
				}
			}
			if len(c.e.postOK[cal.Static]) > 0 && c.errNilKnown(call, b) {
				for _, cd := range c.e.postOK[cal.Static] {
					if cd.alive {
						if l, ok := substLin(cd.L, bind, false); ok {
							fs.ineqs = append(fs.ineqs, Ineq{l, "post(" + cal.Static.Name() + "): " + cd.desc})
						}
					}
				}
			}
		}
		if c.tracked != nil && c.callEstablishesInv(call) {
			if st, ok := c.verAfter[call]; ok {
				bind := c.stateBinding(st)
				for _, cd := range c.e.inv[c.tracked] {
					if cd.alive {
						if l, ok := substLin(cd.L, bind, false); ok {
							fs.ineqs = append(fs.ineqs, Ineq{l, "inv after " + cal.Static.Name() + ": " + cd.desc})
						}
					}
				}
			}
		}
	}
	for _, d := range c.dominators(b) {
		lim := len(d.Instrs)
		if d == b {
			lim = idx
		}
		for i := 0; i < lim && i < len(d.Instrs); i++ {
			if call, ok := d.Instrs[i].(ssa.CallInstruction); ok {
				if _, isGo := call.(*ssa.Go); isGo {
					continue
				}
				if _, isDefer := call.(*ssa.Defer); isDefer {
					continue
				}
				addCall(call)
			}
		}
		for _, cd := range c.blockCands[d] {
			if cd.alive {
				fs.ineqs = append(fs.ineqs, Ineq{cd.L, "block invariant: " + cd.desc})
			}
		}
	}
	return fs
}

// callEstablishesInv: the call hands the tracked receiver to a method of the tracked
// type, which re-establishes the struct invariants before returning.
func (c *fnCtx) callEstablishesInv(call ssa.CallInstruction) bool {
	cal := calleeOf(call)
	if cal.Static == nil || cal.Static.Signature.Recv() == nil {
		return false
	}
	cc := call.Common()
	if len(cc.Args) == 0 || cc.Args[0] != ssa.Value(c.recv) {
		return false
	}
	return c.e.frag[cal.Static] && c.e.isTrackedPtr(cal.Static.Params[0].Type()) == c.tracked
}

// calleeBinding binds P<i>/len(P<i>) to the function's own parameters and, with ret,
// R<j> to the returned values.
func (c *fnCtx) calleeBinding(ret *ssa.Return) map[string]Lin {
	m := map[string]Lin{}
	for i, p := range c.fn.Params {
		if isIntType(p.Type()) {
			m[fmt.Sprintf("P%d", i)] = c.lin(p)
		} else if hasLen(p.Type()) {
			m[fmt.Sprintf("len(P%d)", i)] = c.linLen(p)
		}
	}
	if c.tracked != nil {
		for k, v := range c.stateBinding(c.verIn[c.fn.Blocks[0]]) {
			m[k] = v
		}
	}
	if ret != nil {
		for j, r := range ret.Results {
			if isIntType(r.Type()) {
				m[fmt.Sprintf("R%d", j)] = c.lin(r)
			} else if hasLen(r.Type()) {
				m[fmt.Sprintf("len(R%d)", j)] = c.linLen(r)
			}
		}
		if c.tracked != nil {
			for k, v := range c.stateBinding(c.verAt[ret]) {
				m[strings.Replace(k, "F:", "G:", 1)] = v
			}
		}
	}
	return m
}

func hasLen(t types.Type) bool {
	switch u := t.Underlying().(type) {
	case *types.Slice:
		return true
	case *types.Basic:
		return u.Info()&types.IsString != 0
	}
	return false
}

// callerBinding binds the callee's slots to the caller's values at a call site.
func (c *fnCtx) callerBinding(call ssa.CallInstruction, withResults bool) map[string]Lin {
	m := map[string]Lin{}
	cc := call.Common()
	for i, a := range cc.Args {
		if isIntType(a.Type()) {
			m[fmt.Sprintf("P%d", i)] = c.lin(a)
		} else if hasLen(a.Type()) {
			m[fmt.Sprintf("len(P%d)", i)] = c.linLen(a)
		}
	}
	// callee's view of the receiver fields at entry = caller's state before the call
	if c.tracked != nil && c.callEstablishesInv(call) {
		if st, ok := c.verAt[call]; ok {
			for k, v := range c.stateBinding(st) {
				m[k] = v
			}
		}
	}
	if withResults && c.tracked != nil && c.callEstablishesInv(call) {
		if st, ok := c.verAfter[call]; ok {
			for k, v := range c.stateBinding(st) {
				m[strings.Replace(k, "F:", "G:", 1)] = v
			}
		}
	}
	if withResults {
		if v, ok := call.(*ssa.Call); ok {
			sig := v.Call.Signature()
			if sig.Results().Len() == 1 {
				if isIntType(v.Type()) {
					m["R0"] = c.lin(v)
				} else if hasLen(v.Type()) {
					m["len(R0)"] = c.linLen(v)
				}
			} else if v.Referrers() != nil {
				for _, ref := range *v.Referrers() {
					if ex, ok := ref.(*ssa.Extract); ok {
						if isIntType(ex.Type()) {
							m[fmt.Sprintf("R%d", ex.Index)] = c.lin(ex)
						} else if hasLen(ex.Type()) {
							m[fmt.Sprintf("len(R%d)", ex.Index)] = c.linLen(ex)
						}
					}
				}
			}
		}
	}
	return m
}

// ---------- proving ----------

// usableAt: every atom of l denotes a value that exists when control is just before
// instruction idx of block b (its defining instruction / creating store or call executed
// earlier on every path). A definitional fact about the result of a partial operation (a
// slice expression, say) silently assumes the operation succeeded, so it must not be used
// to discharge the obligation of that very operation or of anything before it.
func (c *fnCtx) usableAt(l Lin, b *ssa.BasicBlock, idx int) bool {
	for a := range l.C {
		name := a
		if strings.HasPrefix(name, "len(") && strings.HasSuffix(name, ")") {
			name = name[4 : len(name)-1]
		}
		if strings.HasPrefix(name, "this.") {
			ver := name[strings.LastIndexByte(name, '@')+1:]
			if ver == "0" {
				continue
			}
			if ver == "" {
				return false
			}
			var bi, ii int
			switch ver[0] {
			case 'j':
				if n, _ := fmt.Sscanf(ver[1:], "%d", &bi); n != 1 || bi >= len(c.fn.Blocks) {
					return false
				}
				if vb := c.fn.Blocks[bi]; vb != b && !vb.Dominates(b) {
					return false
				}
			default:
				if n, _ := fmt.Sscanf(ver[1:], "%d.%d", &bi, &ii); n != 2 || bi >= len(c.fn.Blocks) {
					return false
				}
				vb := c.fn.Blocks[bi]
				if vb == b {
					if ii >= idx {
						return false
					}
				} else if !vb.Dominates(b) {
					return false
				}
			}
			continue
		}
		v, ok := c.rev[name]
		if !ok {
			continue // synthetic atom without an SSA origin
		}
		in, ok := v.(ssa.Instruction)
		if !ok {
			continue // parameter, constant, global
		}
		vb := in.Block()
		if vb == nil {
			continue
		}
		if vb == b {
			if _, isPhi := v.(*ssa.Phi); isPhi {
				continue
			}
			if blockIndexOf(in) >= idx {
				return false
			}
		} else if !vb.Dominates(b) {
			return false
		}
	}
	return true
}

func (c *fnCtx) entailsSat(fs factSetB, goal Ineq) bool {
	c.e.proofs++
	facts := append([]Ineq{}, fs.ineqs...)
	usable := func(qs []Ineq) bool {
		if fs.at == nil {
			return true
		}
		for _, q := range qs {
			if !c.usableAt(q.L, fs.at, fs.idx) {
				return false
			}
		}
		return true
	}
	for _, d := range c.defs {
		if usable([]Ineq{d}) {
			facts = append(facts, d)
		}
	}
	if entails(facts, goal) {
		return true
	}
	// saturate lemmas and disequalities, then retry
	active := map[string]bool{}
	neqDone := make([]bool, len(fs.neqs))
	for round := 0; round < 4; round++ {
		grew := false
		for _, lm := range c.lemmas {
			if active[lm.key] || !usable(lm.cond) || !usable(lm.then) {
				continue
			}
			all := true
			for _, q := range lm.cond {
				if !entails(facts, q) {
					all = false
					break
				}
			}
			if all {
				active[lm.key] = true
				facts = append(facts, lm.then...)
				grew = true
			}
		}
		for i, d := range fs.neqs {
			if neqDone[i] {
				continue
			}
			// d ≠ 0: if d ≥ 0 is known then d ≥ 1; if d ≤ 0 is known then d ≤ −1
			if neg, ok := d.scale(-1); ok {
				if entails(facts, Ineq{neg, ""}) { // −d ≤ 0
					if q, ok := leq(linConst(1), d, "≠ sharpened"); ok {
						facts = append(facts, q)
						neqDone[i] = true
						grew = true
					}
				} else if entails(facts, Ineq{d, ""}) { // d ≤ 0
					if q, ok := leq(d, linConst(-1), "≠ sharpened"); ok {
						facts = append(facts, q)
						neqDone[i] = true
						grew = true
					}
				}
			}
		}
		// new definitional facts may have been produced by lemma linearisation
		if !grew {
			break
		}
		if entails(facts, goal) {
			return true
		}
	}
	// one level of case analysis over min/max results
	for _, sp := range c.splits {
		all := len(sp) > 0
		for _, alt := range sp {
			if !usable(alt) {
				all = false
			}
		}
		if !all {
			continue
		}
		for _, alt := range sp {
			if !entails(append(append([]Ineq{}, facts...), alt...), goal) {
				all = false
				break
			}
		}
		if all {
			return true
		}
	}
	return false
}

func (c *fnCtx) proveAt(b *ssa.BasicBlock, idx int, goal Ineq) bool {
	return c.entailsSat(c.factsAt(b, idx), goal)
}

// proveOnEdge proves a block-entry goal (over the atoms valid at block b) for the edge
// p→b: phis of b and join versions are replaced by their values on that edge.
func (c *fnCtx) proveOnEdge(p, b *ssa.BasicBlock, goal Lin) bool {
	sub := map[string]Lin{}
	pi := -1
	for k, pb := range b.Preds {
		if pb == p {
			pi = k
			break
		}
	}
	if pi < 0 {
		return false
	}
	for _, in := range b.Instrs {
		phi, ok := in.(*ssa.Phi)
		if !ok {
			break
		}
		ev := phi.Edges[pi]
		if isIntType(phi.Type()) {
			sub[c.id(phi)] = c.lin(ev)
		} else if hasLen(phi.Type()) {
			sub["len("+c.id(phi)+")"] = c.linLen(ev)
		}
	}
	if c.tracked != nil {
		in := c.verIn[b]
		po := c.verOut[p]
		for fi := range c.tracked.fields {
			if in[fi] != po[fi] {
				if l, ok := c.fieldValue(fi, po[fi]); ok {
					sub[c.fieldAtomName(fi, in[fi])] = l
				}
				if l, ok := c.fieldLen(fi, po[fi]); ok {
					sub["len("+c.fieldAtomName(fi, in[fi])+")"] = l
				}
			}
		}
	}
	g, ok := substLin(goal, sub, true)
	if !ok {
		return false
	}
	fs := c.factsAt(p, len(p.Instrs))
	if iff, ok := p.Instrs[len(p.Instrs)-1].(*ssa.If); ok && p.Succs[0] != p.Succs[1] {
		qs, ns := c.factIneqs(normFact(iff.Cond, b == p.Succs[0]))
		fs.ineqs = append(fs.ineqs, qs...)
		fs.neqs = append(fs.neqs, ns...)
	}
	return c.entailsSat(fs, Ineq{g, ""})
}

// stateAt returns the tracked-field version state just before instruction `at`.
func (c *fnCtx) stateAt(at ssa.Instruction) map[int]string {
	if st, ok := c.verAt[at]; ok {
		return st
	}
	b := at.Block()
	st := copyState(c.verIn[b])
	for _, in := range b.Instrs {
		if in == at {
			break
		}
		if after, ok := c.verAfter[in]; ok {
			st = copyState(after)
		}
	}
	return st
}
