package main

import (
	"fmt"
	"go/token"
	"go/types"
	"sort"
	"strings"

	"golang.org/x/tools/go/ssa"
)

func init() {
	p := registry["C04"]
	p.Rules = append(p.Rules,
		Rule{Name: "C04-R2-acceptance", Doc: "the frame decoders accept exactly the well-formed frames: at every success exit of DecodeHSMSMessage 10 ≤ length ≤ cap and len(data) = 4+length; of DecodeHSMSPayload/DecodeOwnedHSMSPayload 10 ≤ len ≤ cap; of decodeOwnedFrame PType = 0 and SType ∈ the defined set, with a success exit for every defined SType; the cap is the same constant on every path (= secs2.MaxByteSize = the receive path's cap)", Run: c04Acceptance},
		Rule{Name: "C04-R3-validate-before-allocate", Doc: "readFrame allocates the frame buffer only after the length field was found in [10, cap]; the buffer size is that length; the copying decoders copy exactly the validated bytes", Run: c04ValidateBeforeAlloc},
		Rule{Name: "C04-R4-idle-vs-T8", Doc: "readN: before every Read the deadline is now()+T8 iff a byte of the frame has been read (else cleared); *started becomes true exactly when a Read returned n > 0, before anything else is decided; nil is returned only when the buffer is full; readFrame passes the address of one zero-initialised local flag to both reads and reads T8 live from the runtime", Run: c04ReadPolicy},
		Rule{Name: "C04-R5-drop-on-framing-error", Doc: "recvLoop: a readFrame error leads to TCPDown (unless the generation is already cancelled) and return without dispatch; only a complete frame is dispatched", Run: c04DropOnError},
		Rule{Name: "C04-R6-lazy-body-decode", Doc: "frame-level decoding never decodes the body: decodeOwnedFrame reaches no secs2 decoder; DataMessage.decode is referenced only as the argument of dec.once.Do; Item and DecodeErr both go through that Do and then read the shared state; every copy shares the decodeState pointer", Run: c04LazyDecode},
	)
}

func c04Acceptance(r *Run) { c04AcceptanceAs(r, "C04-R2-acceptance") }

func c04AcceptanceAs(r *Run, rule string) {
	w := r.W
	e := newBndEngine(w, "c04-accept", c04Fragment(w), nil)
	capV := w.ConstInt("hsms", "maxHSMSMsgLen")
	r.Check(capV == w.ConstInt("secs2", "MaxByteSize"), rule, "hsms.maxHSMSMsgLen = secs2.MaxByteSize", w.Obj("hsms", "maxHSMSMsgLen").Pos(), fmt.Sprint(capV), "the frame cap must be the SECS-II maximum size constant")
	dof := w.Fn("hsms", "decodeOwnedFrame")
	// DecodeHSMSMessage
	dm := w.Fn("hsms", "DecodeHSMSMessage")
	r.Analysed(w.FnName(dm))
	c := e.newCtx(dm, nil)
	data := byteSliceParam(dm)
	var lenField ssa.Value
	eachInstr(dm, func(in ssa.Instruction) {
		if call, ok := in.(*ssa.Call); ok {
			if n, _, ok := needLenCallee(calleeOfFn(call)); ok && n == 4 {
				if sl, ok := call.Call.Args[1].(*ssa.Slice); ok && sl.X == ssa.Value(data) {
					lo, hi := int64(0), int64(-1)
					if sl.Low != nil {
						lo, _ = constInt(sl.Low)
					}
					if sl.High != nil {
						hi, _ = constInt(sl.High)
					}
					if lo == 0 && hi == 4 {
						lenField = call
					}
				}
			}
		}
	})
	if lenField == nil {
		r.Fail(rule, "DecodeHSMSMessage: length field = BigEndian.Uint32(data[0:4])", dm.Pos(), "the big-endian length prefix read was not found")
	} else {
		lf := c.lin(lenField)
		exits := callsIn(dm, isFn(dof))
		r.Floor(rule, "DecodeHSMSMessage success exits (hand-off to decodeOwnedFrame)", len(exits), 1)
		for _, ex := range exits {
			b, idx := ex.Block(), blockIndexOf(ex)
			q1, ok1 := leq(linConst(10), lf, "")
			q2, ok2 := leq(lf, linConst(capV), "")
			four, _ := lf.add(linConst(4))
			q3, ok3 := leq(c.linLen(data), four, "")
			q4, ok4 := leq(four, c.linLen(data), "")
			r.Check(ok1 && c.proveAt(b, idx, q1), rule, "DecodeHSMSMessage accepts only length ≥ 10", ex.Pos(), "length ≥ 10", "a length field below 10 must be rejected")
			r.Check(ok2 && c.proveAt(b, idx, q2), rule, "DecodeHSMSMessage accepts only length ≤ cap", ex.Pos(), fmt.Sprintf("length ≤ %d", capV), "a length field above the cap must be rejected whatever the buffer holds")
			r.Check(ok3 && ok4 && c.proveAt(b, idx, q3) && c.proveAt(b, idx, q4), rule, "DecodeHSMSMessage accepts only len(data) = 4+length", ex.Pos(), "exact length", "the length field must equal the remaining bytes")
			// and the boundary itself is accepted: the facts in force must not exclude length = cap or length = 10
			for _, edge := range []int64{10, capV} {
				qa, _ := leq(lf, linConst(edge), "")
				qb, _ := leq(linConst(edge), lf, "")
				fs := c.factsAt(b, idx)
				fs.ineqs = append(fs.ineqs, qa, qb)
				infeasible := c.entailsSat(fs, Ineq{linConst(1), ""})
				r.Check(!infeasible, rule, fmt.Sprintf("DecodeHSMSMessage still accepts length = %d", edge), ex.Pos(), "boundary value reachable", "the guards in force reject a frame whose length field is exactly at the boundary")
			}
			// the bytes handed on are data[4:4+length] copied
			arg := ex.Common().Args[0]
			r.Check(isFreshCopyOf(arg, data), rule, "DecodeHSMSMessage decodes a private copy of data[4:]", ex.Pos(), "append([]byte(nil), data[4:…]...)", "the copying entry point must not alias the caller's buffer, got "+render(arg))
		}
	}
	for _, name := range []string{"DecodeHSMSPayload", "DecodeOwnedHSMSPayload"} {
		fn := w.Fn("hsms", name)
		r.Analysed(w.FnName(fn))
		cc := e.newCtx(fn, nil)
		p := byteSliceParam(fn)
		exits := callsIn(fn, isFn(dof))
		r.Floor(rule, name+" success exits", len(exits), 1)
		for _, ex := range exits {
			b, idx := ex.Block(), blockIndexOf(ex)
			q1, ok1 := leq(linConst(10), cc.linLen(p), "")
			q2, ok2 := leq(cc.linLen(p), linConst(capV), "")
			r.Check(ok1 && cc.proveAt(b, idx, q1), rule, name+" accepts only len ≥ 10", ex.Pos(), "len ≥ 10", "a payload shorter than the header must be rejected")
			r.Check(ok2 && cc.proveAt(b, idx, q2), rule, name+" accepts only len ≤ cap", ex.Pos(), fmt.Sprintf("len ≤ %d", capV), "a payload above the cap must be rejected")
			for _, edge := range []int64{10, capV} {
				qa, _ := leq(cc.linLen(p), linConst(edge), "")
				qb, _ := leq(linConst(edge), cc.linLen(p), "")
				fs := cc.factsAt(b, idx)
				fs.ineqs = append(fs.ineqs, qa, qb)
				r.Check(!cc.entailsSat(fs, Ineq{linConst(1), ""}), rule, fmt.Sprintf("%s still accepts len = %d", name, edge), ex.Pos(), "boundary value reachable", "the guards in force reject a payload exactly at the boundary")
			}
			arg := ex.Common().Args[0]
			if name == "DecodeHSMSPayload" {
				r.Check(isFreshCopyOf(arg, p), rule, name+" decodes a private copy", ex.Pos(), "append([]byte(nil), payload...)", "must copy, got "+render(arg))
			} else {
				r.Check(arg == ssa.Value(p), rule, name+" decodes the caller's buffer", ex.Pos(), "payload", "must hand on the very buffer, got "+render(arg))
			}
		}
	}
	// decodeOwnedFrame: PType = 0 ∧ SType defined at every success exit; every defined SType has one
	r.Analysed(w.FnName(dof))
	facts := bndMustFacts(dof)
	owned := byteSliceParam(dof)
	var hdr *ssa.Alloc
	eachInstr(dof, func(in ssa.Instruction) {
		if a, ok := in.(*ssa.Alloc); ok {
			if n, ok := arrayLenOf(a.Type()); ok && n == 10 {
				hdr = a
			}
		}
	})
	if hdr == nil {
		r.Fail(rule, "decodeOwnedFrame: local [10]byte header", dof.Pos(), "not found")
		return
	}
	// hdr is filled once by copy(h[:], owned[0:10]) and otherwise only read
	copies, otherWrites := 0, 0
	for _, ref := range *hdr.Referrers() {
		switch x := ref.(type) {
		case *ssa.Slice:
			for _, r2 := range *x.Referrers() {
				if call, ok := r2.(*ssa.Call); ok && calleeOf(call).Builtin == "copy" && call.Call.Args[0] == ssa.Value(x) {
					if src, ok := call.Call.Args[1].(*ssa.Slice); ok && src.X == ssa.Value(owned) {
						lo, hi := int64(0), int64(-1)
						if src.Low != nil {
							lo, _ = constInt(src.Low)
						}
						if src.High != nil {
							hi, _ = constInt(src.High)
						}
						if lo == 0 && hi == 10 {
							copies++
							continue
						}
					}
				}
				otherWrites++
			}
		case *ssa.IndexAddr:
			for _, r2 := range *x.Referrers() {
				if st, ok := r2.(*ssa.Store); ok && st.Addr == ssa.Value(x) {
					otherWrites++
				}
			}
		case *ssa.Store:
			if x.Addr == ssa.Value(hdr) {
				otherWrites++
			}
		}
	}
	r.Check(copies == 1 && otherWrites == 0, rule, "decodeOwnedFrame: header = copy of owned[0:10], never modified", hdr.Pos(), "one copy", fmt.Sprintf("the header must be bytes 0..9 of the frame, unmodified (copies=%d other writes=%d)", copies, otherWrites))
	hdrByte := func(v ssa.Value) (int64, bool) {
		v = stripConv(v)
		ld, ok := v.(*ssa.UnOp)
		if !ok || ld.Op != token.MUL {
			return 0, false
		}
		ia, ok := ld.X.(*ssa.IndexAddr)
		if !ok || ia.X != ssa.Value(hdr) {
			return 0, false
		}
		return constIntOK(ia.Index)
	}
	valid := map[int64]string{}
	for _, n := range []string{"DataMsgType", "SelectReqType", "SelectRspType", "DeselectReqType", "DeselectRspType", "LinktestReqType", "LinktestRspType", "RejectReqType", "SeparateReqType"} {
		valid[w.ConstInt("hsms", n)] = n
	}
	seen := map[int64]bool{}
	_ = facts
	okRet := map[*ssa.Return]bool{}
	for _, ret := range successReturns(dof) {
		okRet[ret] = true
	}
	dofPaths, okPaths := enumPaths(dof, 5000)
	if !okPaths {
		r.Undecided(rule, "decodeOwnedFrame paths", dof.Pos(), "too many paths")
		return
	}
	for _, path := range dofPaths {
		ret, isRet := path.Exit.(*ssa.Return)
		if !isRet || !okRet[ret] {
			continue
		}
		ptypeOK := false
		var stype int64 = -1
		for _, f := range path.Conds {
			bo, ok := f.Cond.(*ssa.BinOp)
			if !ok {
				continue
			}
			for _, pr := range [][2]ssa.Value{{bo.X, bo.Y}, {bo.Y, bo.X}} {
				idx, ok := hdrByte(pr[0])
				k, ok2 := constInt(pr[1])
				if !ok || !ok2 {
					continue
				}
				if idx == 4 && k == 0 && ((bo.Op == token.NEQ && !f.Val) || (bo.Op == token.EQL && f.Val)) {
					ptypeOK = true
				}
				if idx == 5 && bo.Op == token.EQL && f.Val {
					stype = k
				}
			}
		}
		tag := fmt.Sprintf("decodeOwnedFrame success exit [SType %d]", stype)
		r.Check(ptypeOK, rule, tag+": PType = 0", ret.Pos(), "header byte 4 tested", "a frame with a non-zero PType must be rejected at the frame level for every message type")
		_, def := valid[stype]
		r.Check(def, rule, tag+": SType is defined", ret.Pos(), valid[stype], "only the defined STypes may be accepted")
		seen[stype] = true
	}
	var missing []string
	for k, n := range valid {
		if !seen[k] {
			missing = append(missing, n)
		}
	}
	sort.Strings(missing)
	r.Check(len(missing) == 0, rule, "decodeOwnedFrame: every defined SType is accepted", dof.Pos(), "9 types", "no success exit for "+strings.Join(missing, ", "))
	// IsValidSType agrees with the same set
	iv := w.Fn("hsms", "IsValidSType")
	dt, ok := newDT(iv, 200)
	if ok {
		p := "$" + iv.Params[0].Name()
		for k := int64(0); k < 256; k++ {
			res := dt.Cell(Env{p: k})
			_, def := valid[k]
			want := "0"
			if def {
				want = "1"
			}
			if res.Err != "" || len(res.Rets) != 1 || res.Rets[0] != want {
				r.Fail(rule, fmt.Sprintf("IsValidSType(%d)", k), iv.Pos(), "returns %v, the defined set requires %s (%s)", res.Rets, want, res.Err)
			}
		}
		r.OK(rule, "IsValidSType agrees with the defined SType set on all 256 values", iv.Pos(), "same set as decodeOwnedFrame")
	} else {
		r.Undecided(rule, "IsValidSType table", iv.Pos(), "too many paths")
	}
}

func calleeOfFn(call *ssa.Call) *ssa.Function {
	if f := calleeOf(call).Static; f != nil {
		return f
	}
	return &ssa.Function{}
}

func constIntOK(v ssa.Value) (int64, bool) { return constInt(v) }

// isFreshCopyOf: v is append([]byte(nil), src-or-slice-of-src...) — a fresh buffer holding a
// copy of (part of) src.
func isFreshCopyOf(v ssa.Value, src ssa.Value) bool {
	call, ok := v.(*ssa.Call)
	if !ok || calleeOf(call).Builtin != "append" || len(call.Call.Args) != 2 {
		return false
	}
	if c, ok := call.Call.Args[0].(*ssa.Const); !ok || !c.IsNil() {
		return false
	}
	a := call.Call.Args[1]
	if sl, ok := a.(*ssa.Slice); ok {
		a = sl.X
	}
	return a == src
}

func c04ValidateBeforeAlloc(r *Run) {
	const rule = "C04-R3-validate-before-allocate"
	w := r.W
	rf := w.Fn("hsmsss", "transport.readFrame")
	r.Analysed(w.FnName(rf))
	e := newBndEngine(w, "c04-alloc", c04Fragment(w), nil)
	c := e.newCtx(rf, nil)
	capV := w.ConstInt("secs2", "MaxByteSize")
	mk := w.Fn("hsmsss", "makeFrame")
	n := 0
	eachInstr(rf, func(in ssa.Instruction) {
		call, ok := in.(*ssa.Call)
		if !ok || w.staticOrFieldCallee(call) != mk {
			return
		}
		n++
		arg := c.lin(call.Call.Args[0])
		b, idx := call.Block(), blockIndexOf(call)
		q1, ok1 := leq(linConst(10), arg, "")
		q2, ok2 := leq(arg, linConst(capV), "")
		r.Check(ok1 && c.proveAt(b, idx, q1), rule, "readFrame: buffer allocated only for length ≥ 10", call.Pos(), "length ≥ 10 before allocation", "a length below the header size must be rejected before any allocation")
		r.Check(ok2 && c.proveAt(b, idx, q2), rule, "readFrame: buffer allocated only for length ≤ cap", call.Pos(), fmt.Sprintf("length ≤ %d before allocation", capV), "an attacker-chosen length must be rejected before it sizes an allocation")
		// the size is the length field itself
		var lf ssa.Value
		eachInstr(rf, func(in2 ssa.Instruction) {
			if c2, ok := in2.(*ssa.Call); ok {
				if k, _, ok := needLenCallee(calleeOfFn(c2)); ok && k == 4 {
					lf = c2
				}
			}
		})
		same := lf != nil
		if same {
			d, ok := c.lin(lf).sub(arg)
			same = ok && d.isConst() && d.K == 0
			if !same {
				// the conversion to int may be opaque on a 32-bit target: equal under the guards in force
				q1, ok1 := leq(c.lin(lf), arg, "")
				q2, ok2 := leq(arg, c.lin(lf), "")
				same = ok1 && ok2 && c.proveAt(b, idx, q1) && c.proveAt(b, idx, q2)
			}
		}
		r.Check(same, rule, "readFrame: buffer size = the big-endian length field", call.Pos(), "int(msgLen)", "the frame buffer must be exactly as long as the validated length field")
	})
	r.Floor(rule, "frame allocations in readFrame", n, 1)
	// no other allocation in readFrame/readN sized by anything non-constant
	for _, fn := range []*ssa.Function{rf, w.Fn("hsmsss", "readN")} {
		eachInstr(fn, func(in ssa.Instruction) {
			if ms, ok := in.(*ssa.MakeSlice); ok {
				if _, isC := constInt(ms.Len); !isC {
					r.Fail(rule, w.FnName(fn)+": non-constant allocation "+render(ms), ms.Pos(), "only the validated frame buffer may be sized by the input")
				}
			}
		})
	}
	// makeFrame allocates exactly n
	okMk := false
	eachInstr(mk, func(in ssa.Instruction) {
		if ms, ok := in.(*ssa.MakeSlice); ok && ms.Len == ssa.Value(mk.Params[0]) {
			okMk = true
		}
	})
	r.Check(okMk, rule, "makeFrame(n) allocates n bytes", mk.Pos(), "make([]byte, n)", "the production allocator must allocate exactly the requested size")
}

func c04ReadPolicy(r *Run) {
	rule := r.aliased("C04-R4-idle-vs-T8")
	w := r.W
	rn := w.Fn("hsmsss", "readN")
	rf := w.Fn("hsmsss", "transport.readFrame")
	r.Analysed(w.FnName(rn))
	r.Analysed(w.FnName(rf))
	// parameter roles by type
	var conn, buf, t8, started, now *ssa.Parameter
	for _, p := range rn.Params {
		switch t := p.Type().Underlying().(type) {
		case *types.Interface:
			conn = p
		case *types.Slice:
			buf = p
		case *types.Pointer:
			if b, ok := t.Elem().Underlying().(*types.Basic); ok && b.Kind() == types.Bool {
				started = p
			}
		case *types.Signature:
			now = p
		case *types.Basic:
			if typeIs(p.Type(), "time", "Duration") {
				t8 = p
			}
		}
	}
	if conn == nil || buf == nil || t8 == nil || now == nil {
		bail("readN: parameter roles (conn, buf, t8, now) not found")
	}
	if started == nil {
		r.Fail(rule, "readN: the in-frame flag is shared by reference", rn.Pos(), "readN must take *bool so that the flag set while reading the length prefix is still set for the header+body read of the same frame")
		return
	}
	r.OK(rule, "readN: the in-frame flag is shared by reference", rn.Pos(), "*bool parameter")
	hs := loopHeaders(rn)
	if len(hs) != 1 {
		r.Undecided(rule, "readN: one read loop", rn.Pos(), "found %d loops", len(hs))
		return
	}
	paths, ok := enumIterPaths(rn, hs[0], 2000)
	if !ok {
		r.Undecided(rule, "readN iteration paths", rn.Pos(), "too many paths")
		return
	}
	isMethod := func(c ssa.CallInstruction, name string) bool {
		return c.Common().IsInvoke() && c.Common().Value == ssa.Value(conn) && c.Common().Method.Name() == name
	}
	startedLoad := func(v ssa.Value) bool {
		ld, ok := v.(*ssa.UnOp)
		return ok && ld.Op == token.MUL && ld.X == ssa.Value(started)
	}
	nIter := 0
	for _, p := range paths {
		var seq []string
		var readCall *ssa.Call
		startedVal := -1 // value of *started decided on this path before the Read
		for _, f := range p.Conds {
			if startedLoad(f.Cond) && readCall == nil {
				if f.Val {
					startedVal = 1
				} else {
					startedVal = 0
				}
			}
		}
		nPos := -1 // n > 0 decision
		storeTrue, storeOther := 0, 0
		var storeAt, firstDecisionAfterRead int = -1, -1
		step := 0
		p.Walk(func(in ssa.Instruction) {
			step++
			switch x := in.(type) {
			case *ssa.Call:
				switch {
				case isMethod(x, "SetReadDeadline"):
					arg := x.Call.Args[0]
					kind := "other"
					if isZeroValue(arg) {
						kind = "cleared"
					} else if c2, ok := arg.(*ssa.Call); ok && calleeOf(c2).Static != nil && calleeOf(c2).Static.Name() == "Add" && len(c2.Call.Args) == 2 && c2.Call.Args[1] == ssa.Value(t8) {
						if c3, ok := c2.Call.Args[0].(*ssa.Call); ok && c3.Call.Value == ssa.Value(now) {
							kind = "now+T8"
						}
					}
					seq = append(seq, "deadline:"+kind)
				case isMethod(x, "Read"):
					readCall = x
					okArg := false
					if sl, ok := x.Call.Args[0].(*ssa.Slice); ok && sl.X == ssa.Value(buf) && sl.High == nil && sl.Low != nil {
						okArg = true
					}
					if okArg {
						seq = append(seq, "read(buf[read:])")
					} else {
						seq = append(seq, "read(?)")
					}
				}
			case *ssa.Store:
				if x.Addr == ssa.Value(started) {
					if c, ok := x.Val.(*ssa.Const); ok && c.Value != nil && c.Value.String() == "true" {
						storeTrue++
						storeAt = step
					} else {
						storeOther++
					}
				}
			}
		}, func(f Fact) {
			step++
			if readCall == nil {
				return
			}
			if bo, ok := f.Cond.(*ssa.BinOp); ok {
				s := renderWith(bo, p.Resolve)
				if strings.Contains(s, render(readCall)+"#0") && strings.Contains(s, "0") && (bo.Op == token.GTR || bo.Op == token.LSS) && nPos == -1 && !strings.Contains(s, "len(") {
					if f.Val {
						nPos = 1
					} else {
						nPos = 0
					}
					return
				}
			}
			if firstDecisionAfterRead == -1 {
				firstDecisionAfterRead = step
			}
		})
		if readCall == nil {
			// the loop-condition exit (buffer already full / zero-length buffer)
			if p.Exit != nil {
				rets := p.Rets()
				isNil := len(rets) == 1 && render(rets[0]) == "nil"
				// or the error of a failed SetReadDeadline, returned at once
				deadlineErr := false
				if len(rets) == 1 {
					if c, ok := rets[0].(*ssa.Call); ok && isMethod(c, "SetReadDeadline") {
						deadlineErr = true
					}
				}
				r.Check(isNil || deadlineErr, rule, "readN: exit without a Read only when the buffer is already full or the deadline could not be set", p.Exit.Pos(), "read ≥ len(buf) → nil / SetReadDeadline error", "unexpected exit ["+p.String()+"]")
			}
			continue
		}
		nIter++
		construct := fmt.Sprintf("readN iteration [started=%d n>0=%d] %s", startedVal, nPos, map[bool]string{true: "→ loop", false: "→ return"}[p.Exit == nil])
		want := "deadline:cleared;read(buf[read:])"
		if startedVal == 1 {
			want = "deadline:now+T8;read(buf[read:])"
		}
		got := strings.Join(seq, ";")
		// an error from SetReadDeadline returns before the Read: those paths have no readCall and were skipped above
		r.Check(got == want && startedVal != -1, rule, construct+": deadline policy", readCall.Pos(), want, "required ["+want+"], found ["+got+"]: an idle wait must carry no deadline and every in-frame wait must carry now()+T8")
		switch nPos {
		case 1:
			r.Check(storeTrue == 1 && storeOther == 0 && (firstDecisionAfterRead == -1 || storeAt < firstDecisionAfterRead), rule, construct+": *started = true as soon as bytes arrived", readCall.Pos(), "set before any other decision", fmt.Sprintf("after a Read that returned n > 0 the in-frame flag must be set before anything else is decided (stores true=%d other=%d, store at step %d, next decision at step %d)", storeTrue, storeOther, storeAt, firstDecisionAfterRead))
		case 0:
			r.Check(storeTrue == 0 && storeOther == 0, rule, construct+": *started unchanged when nothing was read", readCall.Pos(), "no store", "the in-frame flag may change only when bytes were read")
		default:
			r.Fail(rule, construct+": n > 0 decision", readCall.Pos(), "the path does not decide whether the Read returned bytes")
		}
		if p.Exit != nil {
			rets := p.Rets()
			if len(rets) == 1 && render(rets[0]) == "nil" {
				full := false
				for _, f := range p.Conds {
					s := renderWith(f.Cond, p.Resolve)
					if f.Val && strings.Contains(s, "len($"+buf.Name()+")") && strings.Contains(s, "==") {
						full = true
					}
				}
				r.Check(full, rule, construct+": nil only when the buffer is full", p.Exit.Pos(), "read == len(buf)", "success must mean every requested byte was read")
			}
		}
	}
	r.Floor(rule, "readN iteration paths with a Read", nIter, 4)
	// readFrame: one zero-initialised local flag, passed by address to both reads, stored nowhere else;
	// T8 read live from the runtime
	var flag *ssa.Alloc
	calls := callsIn(rf, isFn(rn))
	r.Check(len(calls) == 2, rule, "readFrame: two reads (length prefix, then header+body)", rf.Pos(), "2 readN calls", fmt.Sprintf("found %d", len(calls)))
	startedIdx := -1
	for i, p := range rn.Params {
		if p == started {
			startedIdx = i
		}
	}
	same := true
	for _, c := range calls {
		a, ok := c.Common().Args[startedIdx].(*ssa.Alloc)
		if !ok {
			same = false
			continue
		}
		if flag == nil {
			flag = a
		} else if flag != a {
			same = false
		}
	}
	okFlag := same && flag != nil
	if okFlag {
		for _, ref := range *flag.Referrers() {
			switch x := ref.(type) {
			case *ssa.Store:
				// only the zero initialisation
				if !isZeroValue(x.Val) {
					okFlag = false
				}
			case ssa.CallInstruction:
				if !isFn(rn)(calleeOf(x)) {
					okFlag = false
				}
			case *ssa.DebugRef:
			default:
				okFlag = false
			}
		}
	}
	r.Check(okFlag, rule, "readFrame: one fresh in-frame flag shared by both reads", rf.Pos(), "&started (zero) to both readN calls", "both reads of a frame must share one flag that starts false, so the first byte is an idle wait and every later byte is under T8")
	t8OK := true
	for _, c := range calls {
		v := c.Common().Args[2]
		s := render(v)
		if !strings.Contains(s, ".Timers()") || !strings.HasSuffix(s, ".T8") {
			t8OK = false
		}
	}
	r.Check(t8OK, rule, "readFrame: T8 read live from rt.Timers()", rf.Pos(), "rt.Timers().T8", "T8 must be the live configured value")
	// order: the length prefix read dominates validation which dominates the second read; each
	// error returns immediately
	if len(calls) == 2 {
		r.Check(instrDominates(calls[0], calls[1]), rule, "readFrame: prefix read precedes body read", calls[1].Pos(), "ordered", "the header+body read must follow the length prefix read")
	}
}

func c04DropOnError(r *Run) {
	const rule = "C04-R5-drop-on-framing-error"
	w := r.W
	rl := w.Fn("hsmsss", "transport.recvLoop")
	rf := w.Fn("hsmsss", "transport.readFrame")
	df := w.Fn("hsmsss", "transport.dispatchFrame")
	r.Analysed(w.FnName(rl))
	hs := loopHeaders(rl)
	if len(hs) != 1 {
		r.Undecided(rule, "recvLoop: one loop", rl.Pos(), "found %d", len(hs))
		return
	}
	paths, ok := enumIterPaths(rl, hs[0], 500)
	if !ok {
		r.Undecided(rule, "recvLoop iteration paths", rl.Pos(), "too many")
		return
	}
	n := 0
	for _, p := range paths {
		reads := p.Calls(isFn(rf))
		if len(reads) != 1 {
			r.Fail(rule, "recvLoop iteration reads exactly one frame", rl.Pos(), fmt.Sprintf("%d readFrame calls on path [%s]", len(reads), p.String()))
			continue
		}
		ev := errResultOf(reads[0])
		errNonNil := -1
		for _, f := range p.Conds {
			if x, eq, ok := isNilCmp(f.Cond); ok && x == ev {
				if eq == f.Val {
					errNonNil = 0
				} else {
					errNonNil = 1
				}
			}
		}
		disp := p.Calls(isFn(df))
		down := p.Calls(func(c Callee) bool { return c.Method != nil && c.Method.Name() == "TCPDown" })
		n++
		switch errNonNil {
		case 1:
			r.Check(len(disp) == 0 && p.Exit != nil && len(down) <= 1, rule, fmt.Sprintf("recvLoop: read error → no dispatch, return (TCPDown ×%d)", len(down)), reads[0].Pos(), "link dropped, nothing delivered", "a framing/read error must end the loop without dispatching anything ["+p.String()+"]")
		case 0:
			okArg := len(disp) == 1 && len(disp[0].Common().Args) >= 3 && render(disp[0].Common().Args[2]) == render(reads[0].(*ssa.Call))+"#0"
			r.Check(okArg && len(down) == 0, rule, "recvLoop: complete frame → dispatched once, as read", reads[0].Pos(), "dispatchFrame(g, frame)", "a frame read without error must be dispatched exactly once, unmodified ["+p.String()+"]")
		default:
			r.Fail(rule, "recvLoop: read error decided before dispatch", reads[0].Pos(), "a path uses the frame without testing readFrame's error ["+p.String()+"]")
		}
	}
	r.Floor(rule, "recvLoop iteration paths", n, 3)
}

func c04LazyDecode(r *Run) { c04LazyDecodeAs(r, "C04-R6-lazy-body-decode") }

func c04LazyDecodeAs(r *Run, rule string) {
	w := r.W
	// the memoized tree encoding: treeBody.enc is written only inside the closure given to
	// treeBody.once.Do, and read only after that Do
	fEnc := w.Field("internal/wire", "treeBody", "enc")
	nEnc := 0
	for _, fu := range w.fieldUses(fEnc) {
		if !w.IsProd(fu.Fn) {
			continue
		}
		switch fu.Kind {
		case "store":
			nEnc++
			r.Check(isOnceBody(w, fu.Fn), rule, "treeBody.enc written in "+w.FnName(fu.Fn), fu.Pos(), "inside once.Do", "the memoized encoding may be written only under the body's sync.Once")
		case "load":
			dos := callsIn(fu.Fn, isMethodNamed("sync", "Once", "Do"))
			r.Check(len(dos) == 1 && instrDominates(dos[0], fu.Instr2), rule, "treeBody.enc read in "+w.FnName(fu.Fn), fu.Pos(), "after once.Do", "the memoized encoding may be read only after once.Do returned")
		default:
			r.Fail(rule, "treeBody.enc "+fu.Kind+" in "+w.FnName(fu.Fn), fu.Pos(), "unexpected use of the memoized encoding")
		}
	}
	r.Floor(rule, "treeBody.enc writes", nEnc, 1)
	// decodeOwnedFrame (and what it calls in hsms/wire) reaches no secs2 decoder
	dof := w.Fn("hsms", "decodeOwnedFrame")
	seen := map[*ssa.Function]bool{}
	var reach func(f *ssa.Function) string
	reach = func(f *ssa.Function) string {
		if f == nil || seen[f] || f.Blocks == nil {
			return ""
		}
		seen[f] = true
		var hit string
		eachInstr(f, func(in ssa.Instruction) {
			if hit != "" {
				return
			}
			if c, ok := in.(ssa.CallInstruction); ok {
				if g := calleeOf(c).Static; g != nil {
					if w.PkgOf(g) == "secs2" && strings.HasPrefix(g.Name(), "Decode") {
						hit = w.FnName(f) + " → " + g.Name()
						return
					}
					if w.InModule(g) {
						if h := reach(g); h != "" {
							hit = h
						}
					}
				}
			}
		})
		return hit
	}
	h := reach(dof)
	r.Check(h == "", rule, "decodeOwnedFrame does not decode the body", dof.Pos(), fmt.Sprintf("%d functions reached, none decodes SECS-II", len(seen)), "frame-level decoding must accept a data frame whatever its body holds: "+h)
	dec := w.Fn("hsms", "DataMessage.decode")
	r.Analysed(w.FnName(dec))
	for _, u := range w.usesOf(dec) {
		if !w.IsProd(u.Fn) {
			continue
		}
		okUse := false
		if u.Kind == "value" {
			// the bound-method closure must be the argument of (*sync.Once).Do on dec.once
			if mc, ok := u.Instr.(*ssa.MakeClosure); ok && mc.Referrers() != nil {
				for _, ref := range *mc.Referrers() {
					if c, ok := ref.(*ssa.Call); ok && isMethodNamed("sync", "Once", "Do")(calleeOf(c)) && strings.HasSuffix(render(c.Call.Args[0]), ".dec.once") {
						okUse = true
					}
				}
			}
		}
		r.Check(okUse, rule, "DataMessage.decode used in "+w.FnName(u.Fn), u.Pos(), "only as dec.once.Do(msg.decode)", "the body decode must run only under the shared sync.Once")
	}
	fDec := w.Field("hsms", "DataMessage", "dec")
	for _, name := range []string{"DataMessage.Item", "DataMessage.DecodeErr"} {
		fn := w.Fn("hsms", name)
		r.Analysed(w.FnName(fn))
		dos := callsIn(fn, isMethodNamed("sync", "Once", "Do"))
		okDo := len(dos) == 1
		// every read of dec.item / dec.err is dominated by the Do
		if okDo {
			eachInstr(fn, func(in ssa.Instruction) {
				if ld, ok := in.(*ssa.UnOp); ok && ld.Op == token.MUL {
					if fa, ok := ld.X.(*ssa.FieldAddr); ok {
						n := fieldOf(fa).Name()
						if (n == "item" || n == "err") && !instrDominates(dos[0], in) {
							okDo = false
						}
					}
				}
			})
		}
		r.Check(okDo, rule, name+": result read only after dec.once.Do", fn.Pos(), "Do dominates the reads", "every holder of the message must observe the one shared decode result")
	}
	// every DataMessage literal outside the two constructors copies dec from the receiver
	nLit := 0
	for _, fn := range w.FnsInPkg("hsms") {
		if !w.IsProd(fn) {
			continue
		}
		eachInstr(fn, func(in ssa.Instruction) {
			st, ok := in.(*ssa.Store)
			if !ok {
				return
			}
			fa, ok := st.Addr.(*ssa.FieldAddr)
			if !ok || !sameVar(fieldOf(fa), fDec) {
				return
			}
			nLit++
			_, fresh := st.Val.(*ssa.Alloc)
			shared := strings.HasSuffix(render(st.Val), ".dec")
			n := fn.Name()
			if fresh {
				r.Check(n == "NewDataMessage" || n == "newRawFrameDataMessage" || n == "NewDataMessageFromHeader", rule, "fresh decodeState in "+w.FnName(fn), st.Pos(), "created with the body", "a decodeState may be created only where the body is created")
			} else {
				r.Check(shared, rule, "decodeState shared in "+w.FnName(fn), st.Pos(), "copy of the receiver's dec pointer", "a re-stamped copy must share the original's decode state, got "+render(st.Val))
			}
		})
	}
	r.Floor(rule, "stores of DataMessage.dec", nLit, 4)
	// and no method of an existing message manufactures a second decode state for the same body by
	// going back through one of the constructors
	nM := 0
	for _, fn := range w.FnsInPkg("hsms") {
		recv := fn.Signature.Recv()
		if !w.IsProd(fn) || recv == nil || !typeIs(recv.Type(), modPath+"/hsms", "DataMessage") {
			continue
		}
		nM++
		for _, c := range callsIn(fn, func(cl Callee) bool {
			return cl.Static != nil && fnPkgPath(cl.Static) == modPath+"/hsms" && (cl.Static.Name() == "NewDataMessage" || cl.Static.Name() == "newRawFrameDataMessage" || cl.Static.Name() == "NewDataMessageFromHeader")
		}) {
			r.Fail(rule, w.FnName(fn)+" derives a message through "+calleeOf(c).Static.Name(), c.Pos(), "a message derived from an existing one must share its decode state; a constructor gives the copy a decode state of its own, so the body is decoded again and holders see different results")
		}
	}
	r.Floor(rule, "DataMessage methods examined for re-construction", nM, 10)
}
