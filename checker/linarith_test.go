package main

import "testing"

func L(k int64, kv ...any) Lin {
	l := Lin{C: map[string]int64{}, K: k}
	for i := 0; i < len(kv); i += 2 {
		l.C[kv[i].(string)] = int64(kv[i+1].(int))
	}
	return l
}

func TestEntails(t *testing.T) {
	// pos >= 0, pos+length <= n, i < count, 2*count <= length  |= pos + 2i + 2 <= n
	facts := []Ineq{
		{L(0, "pos", -1), ""},
		{L(0, "pos", 1, "length", 1, "n", -1), ""},
		{L(1, "i", 1, "count", -1), ""},
		{L(0, "count", 2, "length", -1), ""},
		{L(0, "i", -1), ""},
	}
	goal := Ineq{L(2, "pos", 1, "i", 2, "n", -1), ""}
	if !entails(facts, goal) {
		t.Fatal("should entail")
	}
	bad := Ineq{L(3, "pos", 1, "i", 2, "n", -1), ""}
	if entails(facts, bad) {
		t.Fatal("should not entail")
	}
	// idx < len, data = len - pos  does not give idx < data
	f2 := []Ineq{{L(1, "idx", 1, "len", -1), ""}, {L(0, "data", 1, "len", -1, "pos", 1), ""}, {L(0, "data", -1, "len", 1, "pos", -1), ""}, {L(0, "pos", -1), ""}}
	if entails(f2, Ineq{L(1, "idx", 1, "data", -1), ""}) {
		t.Fatal("F3 must not be provable")
	}
	f2 = append(f2, Ineq{L(0, "pos", 1), ""}) // pos <= 0
	if !entails(f2, Ineq{L(1, "idx", 1, "data", -1), ""}) {
		t.Fatal("with pos=0 provable")
	}
	// integer tightening: 2x <= 1 |= x <= 0
	if !entails([]Ineq{{L(-1, "x", 2), ""}}, Ineq{L(0, "x", 1), ""}) {
		t.Fatal("tightening")
	}
}
