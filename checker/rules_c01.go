package main

import (
	"fmt"
	"go/token"
	"go/types"
	"sort"
	"strings"

	"golang.org/x/tools/go/ssa"
)

func init() {
	register(&PropSpec{
		ID: "C01",
		Rules: []Rule{
			{Name: "C01-R1-format-codes", Doc: "the sixteen FormatCode constants equal the SEMI E5 octal table; the formatCode() methods map element width to the code of their family; decodeItem hands each numeric code to the decoder of its family with the E5 element width", Run: c01FormatCodes},
			{Name: "C01-R2-header-length-bytes", Doc: "headerLen(n) is 2/3/4 exactly for n ≤ 0xFF / ≤ 0xFFFF / above; appendHeaderBytesFC emits format<<2|count followed by the low `count` bytes of the length big-endian with the minimal count, rejects n > MaxByteSize first, and agrees with headerLen on every cell", Run: c01HeaderBytes},
			{Name: "C01-R3-byte-order-and-width", Doc: "every encoding/binary use on a wire value is BigEndian; inside every arm selected by an element width k the binary operation has width 8k (scalar arm and slice arm alike); the signed decoder passes each narrower value through the signed type of its own width before widening, the unsigned decoder through none", Run: c01ByteOrder},
			{Name: "C01-R4-length-field", Doc: "per item type the length written into the header by AppendTo and the length EncodedLen sizes the header with are the same E5 quantity (element count × width; bytes; bytes+2 for the localized header; child count) and EncodedLen = headerLen(n) + payload", Run: c01LengthField},
			{Name: "C01-R5-errored-and-raw-guards", Doc: "AppendTo and EncodedLen of every payload-carrying type return dst / 0 first when the item carries a deferred error, and re-emit the retained wire bytes of a decoded item; EncodedLen is 0 only for an errored item", Run: c01Guards},
			{Name: "C01-R7-raw-bytes", Doc: "every decoded item retains exactly owned[start:end] where start is the item's first header byte and end = header end + length (list: position after the last child)", Run: c01RawBytes},
			{Name: "C01-R9-list-arity", Doc: "the list header counts exactly the children that are emitted: NewListItem admits neither nil nor EmptyItem children (the only type whose encoding is empty without an error)", Run: c01ListArity},
		},
		NotDec:  []string{"numeric value of every encoded element", "full round-trip equality", "Equal semantics beyond type coverage"},
		Trusted: []string{"SEMI E5 format-code table as transcribed in the rule", "encoding/binary.BigEndian semantics"},
	})
}

var e5Codes = map[string]int64{
	"List": 0o00, "Binary": 0o10, "Boolean": 0o11, "ASCII": 0o20, "JIS8": 0o21, "LocalizedStr": 0o22,
	"Int64": 0o30, "Int8": 0o31, "Int16": 0o32, "Int32": 0o34, "Float64": 0o40, "Float32": 0o44,
	"Uint64": 0o50, "Uint8": 0o51, "Uint16": 0o52, "Uint32": 0o54,
}

func c01FormatCodes(r *Run) {
	const rule = "C01-R1-format-codes"
	w := r.W
	for n, v := range e5Codes {
		got := w.ConstInt("secs2", n+"FormatCode")
		r.Check(got == v, rule, fmt.Sprintf("secs2.%sFormatCode = %#o", n, v), w.Obj("secs2", n+"FormatCode").Pos(), "SEMI E5", fmt.Sprintf("E5 assigns %#o, the constant is %#o", v, got))
	}
	// formatCode(): width → code per family
	fam := map[string]map[int64]string{
		"IntItem":   {1: "Int8", 2: "Int16", 4: "Int32", 8: "Int64"},
		"UintItem":  {1: "Uint8", 2: "Uint16", 4: "Uint32", 8: "Uint64"},
		"FloatItem": {4: "Float32", 8: "Float64"},
	}
	for typ, tab := range fam {
		fn := w.Fn("secs2", typ+".formatCode")
		r.Analysed(w.FnName(fn))
		paths, ok := enumPaths(fn, 200)
		if !ok {
			r.Undecided(rule, typ+".formatCode paths", fn.Pos(), "too many")
			continue
		}
		seen := map[int64]bool{}
		for _, p := range paths {
			rets := p.Rets()
			if len(rets) != 2 {
				continue
			}
			okv := render(rets[1]) == "true"
			width := int64(-1)
			for _, f := range p.Conds {
				if b, ok := f.Cond.(*ssa.BinOp); ok && b.Op == token.EQL && f.Val && strings.HasSuffix(render(b.X), ".byteSize") {
					width, _ = constInt(b.Y)
				}
			}
			if !okv {
				continue
			}
			code, _ := constInt(rets[0])
			want, known := tab[width]
			seen[width] = true
			r.Check(known && code == e5Codes[want], rule, fmt.Sprintf("%s.formatCode(width %d)", typ, width), p.Exit.Pos(), want, fmt.Sprintf("width %d must map to %s (%#o), maps to %#o", width, want, e5Codes[want], code))
		}
		for k := range tab {
			r.Check(seen[k], rule, fmt.Sprintf("%s.formatCode covers width %d", typ, k), fn.Pos(), "covered", "no success path for this width")
		}
	}
	// decodeItem: numeric code → decoder of the family with the E5 width
	di := w.Fn("secs2", "decodeItem")
	r.Analysed(w.FnName(di))
	wantDec := map[int64][2]any{}
	for typ, tab := range fam {
		dec := "decode" + strings.TrimSuffix(typ, "Item") + "Item"
		for width, name := range tab {
			wantDec[e5Codes[name]] = [2]any{dec, width}
		}
	}
	facts := bndMustFacts(di)
	n := 0
	eachInstr(di, func(in ssa.Instruction) {
		call, ok := in.(*ssa.Call)
		if !ok {
			return
		}
		g := calleeOf(call).Static
		if g == nil || !strings.HasPrefix(g.Name(), "decode") || g == di || w.PkgOf(g) != "secs2" {
			return
		}
		// the arm: the constant the format code was found equal to
		code := int64(-1)
		for _, f := range facts[call.Block()] {
			if b, ok := f.Cond.(*ssa.BinOp); ok && b.Op == token.EQL && f.Val {
				if k, ok := constInt(b.Y); ok {
					code = k
				}
			}
		}
		want, ok := wantDec[code]
		n++
		width := int64(-1)
		for i, p := range g.Params {
			if p.Name() == "byteSize" || (i == 3 && isIntType(p.Type())) {
				width, _ = constInt(call.Call.Args[i])
			}
		}
		r.Check(ok && g.Name() == want[0].(string) && width == want[1].(int64), rule, fmt.Sprintf("decodeItem arm %#o → %s(width %d)", code, g.Name(), width), call.Pos(), "family and width per E5", fmt.Sprintf("format code %#o must be decoded by %v with element width %v", code, want[0], want[1]))
	})
	r.Floor(rule, "numeric decoder hand-offs", n, 10)
}

func c01HeaderBytes(r *Run) {
	const rule = "C01-R2-header-length-bytes"
	w := r.W
	hl := w.Fn("secs2", "headerLen")
	ah := w.Fn("secs2", "appendHeaderBytesFC")
	r.Analysed(w.FnName(hl))
	r.Analysed(w.FnName(ah))
	maxSize := w.ConstInt("secs2", "MaxByteSize")
	r.Check(maxSize == 0xFFFFFF, rule, "MaxByteSize = 2^24−1 (three length bytes)", w.Obj("secs2", "MaxByteSize").Pos(), "16777215", fmt.Sprintf("is %d", maxSize))
	dt, ok := newDT(hl, 100)
	if !ok {
		r.Undecided(rule, "headerLen paths", hl.Pos(), "too many")
		return
	}
	reps := []int64{0, 1, 0xFF, 0x100, 0x101, 0xFFFF, 0x10000, 0x10001, 0x10100, 0x123456, 0xFFFFFF}
	wantLen := func(n int64) int64 {
		switch {
		case n > 0xFFFF:
			return 4
		case n > 0xFF:
			return 3
		}
		return 2
	}
	pn := "$" + hl.Params[0].Name()
	for _, n := range reps {
		res := dt.Cell(Env{pn: n})
		got := strings.Join(res.Rets, ",")
		r.Check(res.Err == "" && got == fmt.Sprint(wantLen(n)), rule, fmt.Sprintf("headerLen(%#x)", n), hl.Pos(), fmt.Sprint(wantLen(n)), fmt.Sprintf("E5 requires %d header bytes, returns %s %s", wantLen(n), got, res.Err))
	}
	// appendHeaderBytesFC: per path, the bytes appended
	paths, ok := enumPaths(ah, 500)
	if !ok {
		r.Undecided(rule, "appendHeaderBytesFC paths", ah.Pos(), "too many")
		return
	}
	var lenParam, fcParam *ssa.Parameter
	for _, p := range ah.Params {
		if isIntType(p.Type()) && typeBits(p.Type()) == 64 {
			lenParam = p
		} else if isIntType(p.Type()) {
			fcParam = p
		}
	}
	if lenParam == nil || fcParam == nil {
		bail("appendHeaderBytesFC: parameter roles not found")
	}
	arr := localByteArray(ah, 3)
	nOK := 0
	for _, p := range paths {
		ret, isRet := p.Exit.(*ssa.Return)
		if !isRet {
			continue
		}
		rets := p.Rets()
		if render(rets[1]) != "nil" {
			// the rejecting path: must be exactly n > MaxByteSize and leave dst alone
			cond := p.String()
			r.Check(strings.Contains(cond, fmt.Sprint(maxSize)) && rets[0] == ssa.Value(ah.Params[0]), rule, "appendHeaderBytesFC rejects a length above MaxByteSize, dst untouched", ret.Pos(), "n > MaxByteSize → (dst, error)", "the only rejection is the size limit and dst must be returned unchanged ["+cond+"]")
			continue
		}
		nOK++
		e := newBitEval(p)
		var key memKey
		if arr != nil {
			key, _, _ = e.memBase(arr)
		}
		e.run()
		// which of lenBytes[0]==0 / lenBytes[1]==0 this path decided
		z0, z1 := -1, -1
		for _, f := range p.Conds {
			b, ok := f.Cond.(*ssa.BinOp)
			if !ok || (b.Op != token.EQL && b.Op != token.NEQ) {
				continue
			}
			if k, isK := constInt(b.Y); !isK || k != 0 {
				continue
			}
			ld, ok := b.X.(*ssa.UnOp)
			if !ok {
				continue
			}
			ia, ok := ld.X.(*ssa.IndexAddr)
			if !ok || ia.X != ssa.Value(arr) {
				continue
			}
			idx, _ := constInt(ia.Index)
			isZero := (b.Op == token.EQL) == f.Val
			if idx == 0 {
				z0 = boolInt(isZero)
			}
			if idx == 1 {
				z1 = boolInt(isZero)
			}
		}
		count := 3
		if z0 == 1 {
			count = 2
			if z1 == 1 {
				count = 1
			}
		}
		construct := fmt.Sprintf("appendHeaderBytesFC[high byte zero=%d, middle byte zero=%d] emits %d length byte(s)", z0, z1, count)
		if arr == nil || z0 == -1 || (z0 == 1 && z1 == -1) {
			r.Fail(rule, construct, ret.Pos(), "the path does not decide how many length bytes are needed ["+p.String()+"]")
			continue
		}
		// lenBytes = [n>>16, n>>8, n]
		nb := atomBV("$"+lenParam.Name(), 64)
		okArr := true
		for i := 0; i < 3; i++ {
			if !bitsEqual(e.mem[key][i], byteOf(nb, 2-i)) {
				okArr = false
			}
		}
		r.Check(okArr, rule, construct+": length bytes are the big-endian low 24 bits", ret.Pos(), "[n>>16, n>>8, n]", "the three candidate length bytes must be n>>16, n>>8, n")
		// the appends on this path
		var appends []*ssa.Call
		for _, in := range p.Instrs() {
			if c, ok := in.(*ssa.Call); ok && calleeOf(c).Builtin == "append" {
				appends = append(appends, c)
			}
		}
		if len(appends) != 2 {
			r.Fail(rule, construct+": format byte then length bytes", ret.Pos(), fmt.Sprintf("%d appends on the path", len(appends)))
			continue
		}
		// format byte: fc<<2 | count
		var fb bv
		if sl, ok := appends[0].Call.Args[1].(*ssa.Slice); ok {
			if k, _, okm := e.memBase(sl.X); okm && len(e.mem[k]) == 1 {
				fb = e.mem[k][0]
			}
		}
		want := make(bv, 8)
		fcb := atomBV("$"+fcParam.Name(), typeBits(fcParam.Type()))
		for i := 2; i < 8; i++ {
			want[i] = fcb[i-2]
		}
		want[0] = bsrc{k: int8(count & 1)}
		want[1] = bsrc{k: int8(count >> 1 & 1)}
		r.Check(fb != nil && bitsEqual(fb, want), rule, construct+": format byte = code<<2 | count", appends[0].Pos(), want.String(), fmt.Sprintf("must be %s, is %v", want, fb))
		// length bytes: lenBytes[3-count:]
		okSl := false
		if sl, ok := appends[1].Call.Args[1].(*ssa.Slice); ok && sl.X == ssa.Value(arr) && sl.High == nil && sl.Low != nil {
			ev := &Evaluator{Env: Env{}, Resolve: p.Resolve}
			if lo, ok := ev.Int(sl.Low); ok && lo == int64(3-count) && appends[1].Call.Args[0] == ssa.Value(appends[0]) {
				okSl = true
			}
		}
		r.Check(okSl, rule, construct+": followed by exactly the low bytes", appends[1].Pos(), fmt.Sprintf("lenBytes[%d:]", 3-count), "the minimal number of length bytes must follow the format byte")
		r.Check(rets[0] == ssa.Value(appends[1]), rule, construct+": returns the extended buffer", ret.Pos(), "dst", "must return the buffer with both appends")
	}
	r.Floor(rule, "appendHeaderBytesFC success paths", nOK, 3)
}

func c01ByteOrder(r *Run) {
	const rule = "C01-R3-byte-order-and-width"
	w := r.W
	nBin := 0
	for _, fn := range w.ProdFns() {
		eachInstr(fn, func(in ssa.Instruction) {
			// any reference to binary.LittleEndian
			for _, op := range in.Operands(nil) {
				if g, ok := (*op).(*ssa.Global); ok && g.Pkg != nil && g.Pkg.Pkg.Path() == "encoding/binary" {
					nBin++
					if g.Name() == "LittleEndian" {
						okLE := w.PkgOf(fn) == "hsms" && fn.Name() == "newMsgIDGenerator"
						r.Check(okLE, rule, "binary.LittleEndian used in "+w.FnName(fn), in.Pos(), "seeds the random message-id counter; not a wire value", "SECS-II/HSMS/SECS-I wire values are big-endian")
					}
				}
			}
		})
	}
	r.Floor(rule, "encoding/binary byte-order references", nBin, 30)
	widthOfCall := func(c *ssa.Call) int64 {
		f := calleeOf(c).Static
		if f == nil || fnPkgPath(f) != "encoding/binary" {
			return 0
		}
		for _, s := range []struct {
			suf string
			w   int64
		}{{"Uint16", 2}, {"Uint32", 4}, {"Uint64", 8}} {
			if strings.HasSuffix(f.Name(), s.suf) {
				return s.w
			}
		}
		return 0
	}
	// width facts in force at an instruction: (x.byteSize == k) or ($byteSize == k), or the
	// binary float choice (byteSize == 4) false ⇒ 8
	widthAt := func(fn *ssa.Function, facts map[*ssa.BasicBlock][]Fact, b *ssa.BasicBlock) (int64, bool) {
		for _, f := range facts[b] {
			bo, ok := f.Cond.(*ssa.BinOp)
			if !ok || bo.Op != token.EQL {
				continue
			}
			s := render(bo.X)
			if !(strings.HasSuffix(s, ".byteSize") || s == "$byteSize" || strings.HasSuffix(s, "byteSize)")) {
				continue
			}
			k, ok := constInt(bo.Y)
			if !ok {
				continue
			}
			if f.Val {
				return k, true
			}
			if k == 4 && strings.Contains(fn.Name(), "loat") || k == 4 && strings.Contains(fn.String(), "Float") {
				return 8, true
			}
		}
		return 0, false
	}
	n := 0
	for _, fn := range w.FnsInPkg("secs2") {
		if !w.IsProd(fn) {
			continue
		}
		var facts map[*ssa.BasicBlock][]Fact
		eachInstr(fn, func(in ssa.Instruction) {
			c, ok := in.(*ssa.Call)
			if !ok {
				return
			}
			bw := widthOfCall(c)
			if bw == 0 {
				return
			}
			if facts == nil {
				facts = bndMustFacts(fn)
			}
			k, ok := widthAt(fn, facts, c.Block())
			if !ok {
				// functions not parameterised by an element width (localized header, header bytes)
				return
			}
			n++
			r.Analysed(w.FnName(fn))
			r.Check(k == bw, rule, fmt.Sprintf("%s: %s in the width-%d arm", w.FnName(fn), calleeOf(c).Static.Name(), k), c.Pos(), fmt.Sprintf("%d-bit operation", 8*bw), fmt.Sprintf("an element of width %d must be read/written with a %d-bit big-endian operation, uses %d bits", k, 8*k, 8*bw))
		})
	}
	r.Floor(rule, "width-selected binary operations", n, 30)
	// sign extension in the signed decoder, none in the unsigned one
	for _, spec := range []struct {
		name   string
		signed bool
	}{{"decodeIntItem", true}, {"decodeUintItem", false}} {
		fn := w.Fn("secs2", spec.name)
		r.Analysed(w.FnName(fn))
		m := 0
		eachInstr(fn, func(in ssa.Instruction) {
			// widening conversions to the 64-bit result type
			cv, ok := in.(*ssa.Convert)
			if !ok || typeBits(cv.Type()) != 64 || !isIntType(cv.X.Type()) {
				return
			}
			src := cv.X
			srcBits := typeBits(src.Type())
			// only conversions fed (directly or through one conversion) by a wire read
			inner := src
			if c2, ok := src.(*ssa.Convert); ok {
				inner = c2.X
			}
			isWire := false
			if c, ok := inner.(*ssa.Call); ok && widthOfCall(c) > 0 {
				isWire = true
			}
			if ld, ok := inner.(*ssa.UnOp); ok && ld.Op == token.MUL {
				if _, ok := ld.X.(*ssa.IndexAddr); ok && typeBits(ld.Type()) == 8 {
					isWire = true
				}
			}
			if !isWire {
				return
			}
			m++
			wireBits := typeBits(inner.Type())
			construct := fmt.Sprintf("%s: %d-bit wire value widened to 64 bits", spec.name, wireBits)
			if spec.signed {
				okS := wireBits == 64 || (!isUnsigned(src.Type()) && srcBits == wireBits)
				r.Check(okS, rule, construct+" through the signed type of its own width", cv.Pos(), "sign-extended", fmt.Sprintf("a signed %d-bit element must pass through int%d before widening (otherwise negative values decode as large positives): %s", wireBits, wireBits, render(cv)))
			} else {
				r.Check(isUnsigned(src.Type()), rule, construct+" zero-extended", cv.Pos(), "unsigned", "an unsigned element must not pass through a signed type: "+render(cv))
			}
		})
		r.Floor(rule, spec.name+" widening conversions", m, 4)
	}
}

// c01ItemTypes: concrete item types with a payload.
func c01ItemTypes() []string {
	return []string{"IntItem", "UintItem", "FloatItem", "BooleanItem", "BinaryItem", "ASCIIItem", "JIS8Item", "LocalizedStrItem", "ListItem"}
}

// lengthTermOf normalises the E5 length expression of a type as rendered from its code.
func c01WantLength(typ string) []string {
	switch typ {
	case "IntItem", "UintItem", "FloatItem":
		return []string{"(int($item.byteSize) * int($item.size))"}
	case "BooleanItem":
		return []string{"int($item.size)"}
	case "BinaryItem", "ListItem":
		return []string{"len($item.values)"}
	case "ASCIIItem", "JIS8Item":
		return []string{"len($item.value)"}
	case "LocalizedStrItem":
		return []string{"(2 + len($item.value))"}
	}
	return nil
}

func c01LengthField(r *Run) {
	const rule = "C01-R4-length-field"
	w := r.W
	ah := w.Fn("secs2", "appendHeaderBytesFC")
	hl := w.Fn("secs2", "headerLen")
	for _, typ := range c01ItemTypes() {
		at := w.Fn("secs2", typ+".AppendTo")
		el := w.Fn("secs2", typ+".EncodedLen")
		r.Analysed(w.FnName(at))
		r.Analysed(w.FnName(el))
		ac := callsIn(at, isFn(ah))
		ec := callsIn(el, isFn(hl))
		if len(ac) != 1 || len(ec) != 1 {
			r.Fail(rule, typ+": one header write and one header sizing", at.Pos(), fmt.Sprintf("appendHeaderBytesFC calls=%d, headerLen calls=%d", len(ac), len(ec)))
			continue
		}
		// receivers are both named item in this code base; normalise the receiver name
		norm := func(fn *ssa.Function, v ssa.Value) string {
			return strings.ReplaceAll(render(v), "$"+fn.Params[0].Name(), "$item")
		}
		la := norm(at, ac[0].Common().Args[2])
		le := norm(el, ec[0].Common().Args[0])
		r.Check(la == le, rule, typ+": AppendTo and EncodedLen use the same length term", ac[0].Pos(), la, "the header is written for length "+la+" but sized for "+le+": EncodedLen disagrees with the bytes produced whenever the two select a different number of length bytes")
		want := c01WantLength(typ)
		okW := false
		for _, x := range want {
			if la == x {
				okW = true
			}
		}
		r.Check(okW, rule, typ+": length field is the E5 quantity", ac[0].Pos(), la, "E5 requires "+strings.Join(want, " / ")+", the code writes "+la)
		// EncodedLen returns headerLen(n) + payload where payload is n (lists: Σ children)
		okRet := false
		for _, ret := range returnsOf(el) {
			s := norm(el, ret.Results[0])
			if strings.Contains(s, "headerLen(") {
				if typ == "ListItem" {
					okRet = strings.Contains(s, ".EncodedLen()")
				} else {
					okRet = strings.Contains(s, "("+le+" + headerLen("+le+"))") || strings.Contains(s, "(headerLen("+le+") + "+le+")")
				}
			}
		}
		r.Check(okRet, rule, typ+": EncodedLen = headerLen(n) + payload bytes", el.Pos(), "header + payload", "EncodedLen must be the header size for n plus the payload size")
		// the format code written
		fcArg := ac[0].Common().Args[1]
		if k, ok := constInt(fcArg); ok {
			name := strings.TrimSuffix(typ, "Item")
			r.Check(k == e5Codes[name], rule, typ+": header carries the "+name+" format code", ac[0].Pos(), fmt.Sprintf("%#o", k), fmt.Sprintf("must be %#o", e5Codes[name]))
		} else {
			r.Check(strings.Contains(render(fcArg), "formatCode()"), rule, typ+": header carries the family's formatCode()", ac[0].Pos(), "formatCode()", "the format code must come from the type's width→code table, got "+render(fcArg))
		}
	}
	// the localized header bytes: high then low byte of lsh, before the text
	ls := w.Fn("secs2", "LocalizedStrItem.AppendTo")
	paths, ok := enumPaths(ls, 100)
	if ok {
		done := false
		for _, p := range paths {
			if len(p.Calls(isFn(ah))) != 1 {
				continue
			}
			e := newBitEval(p)
			e.run()
			var appends []*ssa.Call
			for _, in := range p.Instrs() {
				if c, ok := in.(*ssa.Call); ok && calleeOf(c).Builtin == "append" {
					appends = append(appends, c)
				}
			}
			if len(appends) < 2 {
				continue
			}
			sl, ok := appends[0].Call.Args[1].(*ssa.Slice)
			if !ok {
				continue
			}
			k, _, okm := e.memBase(sl.X)
			if !okm || len(e.mem[k]) != 2 {
				continue
			}
			lsh := atomBV("$"+ls.Params[0].Name()+".lsh", 16)
			done = true
			r.Check(bitsEqual(e.mem[k][0], byteOf(lsh, 1)) && bitsEqual(e.mem[k][1], byteOf(lsh, 0)), rule, "LocalizedStrItem: language header emitted high byte then low byte, before the text", appends[0].Pos(), "big-endian LSH", fmt.Sprintf("bytes are %v %v", e.mem[k][0], e.mem[k][1]))
		}
		r.Check(done, rule, "LocalizedStrItem: language header bytes found", ls.Pos(), "2 bytes", "the 2-byte language header write was not found")
	}
}

func c01Guards(r *Run) {
	const rule = "C01-R5-errored-and-raw-guards"
	w := r.W
	for _, typ := range c01ItemTypes() {
		for _, m := range []string{"AppendTo", "EncodedLen"} {
			fn := w.Fn("secs2", typ+"."+m)
			r.Analysed(w.FnName(fn))
			paths, ok := enumPaths(fn, 20000)
			if !ok {
				r.Undecided(rule, typ+"."+m+" paths", fn.Pos(), "too many")
				continue
			}
			okErr, okRaw, zeroOnlyErr := true, true, true
			for _, p := range paths {
				if _, isRet := p.Exit.(*ssa.Return); !isRet {
					continue
				}
				errSet, rawSet := -1, -1
				firstIsErr := false
				for i, f := range p.Conds {
					s := renderWith(f.Cond, p.Resolve)
					if strings.Contains(s, ".itemErr") {
						errSet = boolInt(strings.Contains(s, "!=") == f.Val)
						if i == 0 {
							firstIsErr = true
						}
					}
					if strings.Contains(s, ".rawPtr") {
						rawSet = boolInt(strings.Contains(s, "!=") == f.Val)
					}
				}
				ret := p.Rets()[0]
				if !firstIsErr {
					okErr = false
				}
				if errSet == 1 {
					if m == "AppendTo" && ret != ssa.Value(fn.Params[1]) {
						okErr = false
					}
					if m == "EncodedLen" && render(ret) != "0" {
						okErr = false
					}
				} else if errSet == 0 {
					if rawSet == 1 {
						s := render(ret)
						if m == "AppendTo" && !(strings.HasPrefix(s, "append($"+fn.Params[1].Name()) && strings.Contains(s, ".raw()")) {
							okRaw = false
						}
						if m == "EncodedLen" && !strings.HasSuffix(s, ".rawLen") {
							okRaw = false
						}
					}
					if m == "EncodedLen" && render(ret) == "0" {
						zeroOnlyErr = false
					}
				}
			}
			r.Check(okErr, rule, typ+"."+m+": deferred error checked first and yields "+map[string]string{"AppendTo": "dst", "EncodedLen": "0"}[m], fn.Pos(), "guarded", "an errored item must contribute nothing to an encoding")
			r.Check(okRaw, rule, typ+"."+m+": a decoded item re-emits its retained wire bytes", fn.Pos(), "raw bytes", "a decoded item must re-emit exactly the bytes it was decoded from")
			if m == "EncodedLen" {
				r.Check(zeroOnlyErr, rule, typ+".EncodedLen is 0 only for an errored item", fn.Pos(), "≥ 2 otherwise", "a list header counts this child, so its encoding must not be empty")
			}
		}
	}
}

func c01RawBytes(r *Run) {
	const rule = "C01-R7-raw-bytes"
	w := r.W
	setRaw := w.Fn("secs2", "baseItem.setRaw")
	// the loop invariants of the list arm are needed: run the full contract inference once
	e := newBndEngine(w, "c01-raw", secs2DecodeFragment(w), []*types.Named{w.Named("secs2", "itemSlab")})
	e.run()
	n := 0
	for _, name := range []string{"decodeItem", "decodeIntItem", "decodeUintItem", "decodeFloatItem"} {
		fn := w.Fn("secs2", name)
		r.Analysed(w.FnName(fn))
		buf := byteSliceParam(fn)
		for _, c := range e.ctxs[fn] {
			// start: for decodeItem the position parameter; for the numeric decoders the startPos parameter
			var start, length ssa.Value
			var hdrEnd Lin
			haveHdr := false
			if name == "decodeItem" {
				// roles as in C02-R2
				eachInstr(fn, func(in ssa.Instruction) {
					if ld, ok := in.(*ssa.UnOp); ok && ld.Op == token.MUL && start == nil {
						if ia, ok := ld.X.(*ssa.IndexAddr); ok && ia.X == ssa.Value(buf) {
							if p, ok := ia.Index.(*ssa.Parameter); ok {
								start = p
								eachInstr(fn, func(in2 ssa.Instruction) {
									if b, ok := in2.(*ssa.BinOp); ok && b.X == ssa.Value(ld) && b.Op == token.AND {
										if k, _ := constInt(b.Y); k == 3 {
											if h, ok := c.lin(p).add(linConst(1)); ok {
												if h2, ok := h.add(c.lin(b)); ok {
													hdrEnd, haveHdr = h2, true
												}
											}
										}
									}
								})
							}
						}
					}
					if phi, ok := in.(*ssa.Phi); ok && isIntType(phi.Type()) && length == nil {
						k := 0
						for _, ed := range phi.Edges {
							if mentions(ed, func(v ssa.Value) bool { ia, ok := v.(*ssa.IndexAddr); return ok && ia.X == ssa.Value(buf) }) {
								k++
							}
						}
						if k >= 3 {
							length = phi
						}
					}
				})
			} else {
				for _, p := range fn.Params {
					switch p.Name() {
					case "startPos":
						start = p
					case "length":
						length = p
					case "pos":
						hdrEnd, haveHdr = c.lin(p), true
					}
				}
			}
			if start == nil || length == nil || !haveHdr {
				r.Undecided(rule, name+": roles (start, header end, length)", fn.Pos(), "not found")
				continue
			}
			end, _ := hdrEnd.add(c.lin(length))
			for _, call := range callsIn(fn, isFn(setRaw)) {
				sl, ok := call.Common().Args[1].(*ssa.Slice)
				n++
				construct := fmt.Sprintf("%s%s: retained raw bytes %s", name, envTag(c), shortRender(call.Common().Args[1]))
				if !ok || sl.X != ssa.Value(buf) || sl.Low == nil || sl.High == nil {
					r.Fail(rule, construct, call.Pos(), "the retained bytes must be a two-index slice of the input buffer")
					continue
				}
				b, idx := call.Block(), blockIndexOf(call)
				lo := c.lin(sl.Low)
				d, okd := lo.sub(c.lin(start))
				okLo := okd && d.isConst() && d.K == 0
				// list arm: end is the position after the last child (any value ≥ header end); leaf arms: header end + length
				hi := c.lin(sl.High)
				isList := false
				for _, f := range c.facts[b] {
					if bo, ok := f.Cond.(*ssa.BinOp); ok && bo.Op == token.EQL && f.Val {
						if k, ok := constInt(bo.Y); ok && k == e5Codes["List"] && name == "decodeItem" {
							isList = true
						}
					}
				}
				okHi := false
				if isList {
					q, okq := leq(hdrEnd, hi, "")
					okHi = okq && c.proveAt(b, idx, q)
				} else {
					q1, ok1 := leq(hi, end, "")
					q2, ok2 := leq(end, hi, "")
					okHi = ok1 && ok2 && c.proveAt(b, idx, q1) && c.proveAt(b, idx, q2)
				}
				r.Check(okLo && okHi, rule, construct, call.Pos(), "owned[start : header end + length]", fmt.Sprintf("a decoded item must retain exactly its own wire bytes (start ok=%v, end ok=%v): re-encoding it alone would otherwise drop or add bytes", okLo, okHi))
			}
		}
	}
	r.Floor(rule, "setRaw sites", n, 12)
}

func envTag(c *fnCtx) string {
	if c.envS == "" {
		return ""
	}
	return "[" + c.envS + "]"
}

func c01ListArity(r *Run) {
	const rule = "C01-R9-list-arity"
	w := r.W
	nl := w.Fn("secs2", "NewListItem")
	r.Analysed(w.FnName(nl))
	fValues := w.Field("secs2", "ListItem", "values")
	// every append into item.values in NewListItem is dominated by v != nil and by a failed (or nil-yielding) assertion to *EmptyItem
	empty := w.Named("secs2", "EmptyItem")
	n := 0
	facts := bndMustFacts(nl)
	eachInstr(nl, func(in ssa.Instruction) {
		st, ok := in.(*ssa.Store)
		if !ok {
			return
		}
		fa, ok := st.Addr.(*ssa.FieldAddr)
		if !ok || !sameVar(fieldOf(fa), fValues) {
			return
		}
		call, ok := st.Val.(*ssa.Call)
		if !ok || calleeOf(call).Builtin != "append" {
			return
		}
		n++
		nonNil, notEmpty := false, false
		for _, f := range facts[st.Block()] {
			if _, eq, ok := isNilCmp(f.Cond); ok && eq != f.Val {
				// some value known non-nil; make sure it is the child (an interface-typed operand)
				if b, ok := f.Cond.(*ssa.BinOp); ok && types.IsInterface(b.X.Type()) {
					nonNil = true
				}
			}
			// (ok && e != nil) false, where ok/e come from v.(*EmptyItem)
			s := render(f.Cond)
			if strings.Contains(s, ".(*"+empty.Obj().Pkg().Name()+".EmptyItem)") || strings.Contains(s, ".(*EmptyItem)") {
				notEmpty = true
			}
		}
		// the short-circuit `ok && e != nil` lowers to a phi; accept when every path into this block
		// has decided the assertion failed or yielded nil
		if !notEmpty {
			notEmpty = emptyAssertDecided(nl, st.Block(), empty)
		}
		r.Check(nonNil, rule, "NewListItem: nil children are not admitted", st.Pos(), "v != nil before the append", "a nil child would be counted by the list header")
		r.Check(notEmpty, rule, "NewListItem: EmptyItem children are not admitted", st.Pos(), "v.(*EmptyItem) tested before the append", "an EmptyItem child is counted by the list header but emits no bytes: the encoding would announce more children than it contains")
	})
	r.Floor(rule, "appends into ListItem.values in NewListItem", n, 1)
	// the header count is len(values) and every value is emitted once, in order
	at := w.Fn("secs2", "ListItem.AppendTo")
	hs := loopHeaders(at)
	okLoop := len(hs) == 1
	if okLoop {
		inv := 0
		eachInstr(at, func(in ssa.Instruction) {
			if c, ok := in.(*ssa.Call); ok && c.Call.IsInvoke() && c.Call.Method.Name() == "AppendTo" && hs[0].Dominates(c.Block()) {
				inv++
				if !strings.Contains(render(c.Call.Value), ".values[") {
					okLoop = false
				}
			}
		})
		okLoop = okLoop && inv == 1
	}
	r.Check(okLoop, rule, "ListItem.AppendTo emits every element of values exactly once", at.Pos(), "one child.AppendTo per element", "the bytes after the list header must be the encodings of exactly the counted children")
}

// emptyAssertDecided: every path from entry to b passes a branch that decided the
// v.(*EmptyItem) assertion did not yield a non-nil EmptyItem.
func emptyAssertDecided(fn *ssa.Function, b *ssa.BasicBlock, empty *types.Named) bool {
	// find the TypeAssert to *EmptyItem
	var ta *ssa.TypeAssert
	eachInstr(fn, func(in ssa.Instruction) {
		if t, ok := in.(*ssa.TypeAssert); ok && t.CommaOk {
			if p, ok := t.AssertedType.(*types.Pointer); ok {
				if n, ok := p.Elem().(*types.Named); ok && n.Origin() == empty.Origin() {
					ta = t
				}
			}
		}
	})
	if ta == nil {
		return false
	}
	// blocks that continue the loop without appending are fine; the appending block must not be
	// reachable from the assertion along the edge where ok is true and the pointer is non-nil.
	// Conservative structural test: the block that appends is dominated by the assertion's block
	// and is not dominated by any "true" edge of a test on the assertion's results.
	if !ta.Block().Dominates(b) {
		return false
	}
	bad := false
	for _, blk := range fn.Blocks {
		iff, ok := blk.Instrs[len(blk.Instrs)-1].(*ssa.If)
		if !ok {
			continue
		}
		if !mentions(iff.Cond, func(v ssa.Value) bool {
			ex, ok := v.(*ssa.Extract)
			return ok && ex.Tuple == ssa.Value(ta)
		}) {
			continue
		}
		// the final test of the chain (pointer != nil): its true successor must not reach b
		if x, eq, ok := isNilCmp(iff.Cond); ok {
			_ = x
			succ := blk.Succs[0]
			if eq {
				succ = blk.Succs[1]
			}
			seen := blocksReachable(succ, map[*ssa.BasicBlock]bool{ta.Block(): true})
			// reaching b again only through the loop header (next iteration) passes ta.Block() again
			if seen[b] {
				bad = true
			}
		}
	}
	return !bad
}

var _ = sort.Strings
