package main

// IMM — origin analysis for reference-carrying values (slices, maps, raw pointers):
// where does the storage a value refers to come from? Used by the immutability rules
// (C12): what constructors store, what accessors hand out, who writes fields.

import (
	"go/token"
	"go/types"
	"strings"

	"golang.org/x/tools/go/callgraph"
	"golang.org/x/tools/go/ssa"
)

type origin uint8

const (
	oFresh  origin = 1 << iota // allocated (or copied) by the function itself
	oImm                       // immutable data: nil, constants, string contents
	oParam                     // the caller's storage (derived from a parameter)
	oField                     // internal storage of an object (loaded from a struct field)
	oGlobal                    // package-level storage
	oUnknown
)

func (o origin) String() string {
	var p []string
	for _, x := range []struct {
		b origin
		s string
	}{{oFresh, "fresh"}, {oImm, "immutable"}, {oParam, "caller's storage"}, {oField, "internal field storage"}, {oGlobal, "package-level storage"}, {oUnknown, "unknown"}} {
		if o&x.b != 0 {
			p = append(p, x.s)
		}
	}
	if len(p) == 0 {
		return "none"
	}
	return strings.Join(p, "+")
}

// oinfo: where a value's storage may come from; ps is the set of parameter indexes (bit i)
// when oParam is present, flds the struct fields when oField is present.
type oinfo struct {
	o    origin
	ps   uint64
	flds map[*types.Var]bool
}

func (a oinfo) join(b oinfo) oinfo {
	r := oinfo{o: a.o | b.o, ps: a.ps | b.ps}
	if len(a.flds)+len(b.flds) > 0 {
		r.flds = map[*types.Var]bool{}
		for f := range a.flds {
			r.flds[f] = true
		}
		for f := range b.flds {
			r.flds[f] = true
		}
	}
	return r
}

type immCtx struct {
	w     *World
	cg    *callgraph.Graph
	memo  map[ssa.Value]oinfo
	busy  map[ssa.Value]bool
	retM  map[*ssa.Function][]oinfo
	depth int
}

func newImmCtx(w *World) *immCtx {
	return &immCtx{w: w, cg: w.CG(), memo: map[ssa.Value]oinfo{}, busy: map[ssa.Value]bool{}, retM: map[*ssa.Function][]oinfo{}}
}

// isRefType: the value can alias mutable storage (slice, map, raw pointer to basic/array).
func isRefType(t types.Type) bool {
	switch u := t.Underlying().(type) {
	case *types.Slice, *types.Map:
		return true
	case *types.Pointer:
		_, basic := u.Elem().Underlying().(*types.Basic)
		_, arr := u.Elem().Underlying().(*types.Array)
		return basic || arr
	}
	return false
}

// calleesAt returns the functions a call site may invoke (static, or through the VTA call
// graph for interface / function-value calls).
func (c *immCtx) calleesAt(fn *ssa.Function, call ssa.CallInstruction) []*ssa.Function {
	if f := calleeOf(call).Static; f != nil {
		return []*ssa.Function{f}
	}
	var out []*ssa.Function
	if n := c.cg.Nodes[fn]; n != nil {
		for _, e := range n.Out {
			if e.Site == call && e.Callee != nil && e.Callee.Func != nil {
				out = append(out, e.Callee.Func)
			}
		}
	}
	return out
}

func (c *immCtx) of(v ssa.Value) oinfo {
	if o, ok := c.memo[v]; ok {
		return o
	}
	if c.busy[v] {
		return oinfo{}
	}
	c.busy[v] = true
	o := c.of0(v)
	delete(c.busy, v)
	c.memo[v] = o
	return o
}

func paramIndexOf(p *ssa.Parameter) int {
	for i, q := range p.Parent().Params {
		if q == p {
			return i
		}
	}
	return -1
}

func fnPkgPath(f *ssa.Function) string {
	if f.Pkg != nil {
		return f.Pkg.Pkg.Path()
	}
	if o := f.Origin(); o != nil && o.Pkg != nil {
		return o.Pkg.Pkg.Path()
	}
	if f.Object() != nil && f.Object().Pkg() != nil {
		return f.Object().Pkg().Path()
	}
	return ""
}

func fieldInfo(f *types.Var) oinfo {
	return oinfo{o: oField, flds: map[*types.Var]bool{f.Origin(): true}}
}

func (c *immCtx) of0(v ssa.Value) oinfo {
	switch x := v.(type) {
	case *ssa.Const:
		return oinfo{o: oImm}
	case *ssa.MakeSlice, *ssa.MakeMap, *ssa.MakeChan, *ssa.Alloc:
		return oinfo{o: oFresh}
	case *ssa.Parameter:
		i := paramIndexOf(x)
		if i < 0 || i > 62 {
			return oinfo{o: oUnknown}
		}
		return oinfo{o: oParam, ps: 1 << uint(i)}
	case *ssa.FreeVar:
		return oinfo{o: oUnknown}
	case *ssa.Global:
		return oinfo{o: oGlobal}
	case *ssa.Slice:
		if b, ok := x.X.Type().Underlying().(*types.Basic); ok && b.Info()&types.IsString != 0 {
			return oinfo{o: oImm}
		}
		return c.of(x.X)
	case *ssa.Convert:
		_, fromStr := x.X.Type().Underlying().(*types.Basic)
		_, toStr := x.Type().Underlying().(*types.Basic)
		if fromStr || toStr {
			if _, ok := x.Type().Underlying().(*types.Slice); ok {
				return oinfo{o: oFresh}
			}
			if toStr {
				return oinfo{o: oImm}
			}
		}
		return c.of(x.X)
	case *ssa.ChangeType:
		return c.of(x.X)
	case *ssa.MakeInterface:
		return c.of(x.X)
	case *ssa.ChangeInterface:
		return c.of(x.X)
	case *ssa.TypeAssert:
		return c.of(x.X)
	case *ssa.SliceToArrayPointer:
		return c.of(x.X)
	case *ssa.Phi:
		var o oinfo
		for _, e := range x.Edges {
			o = o.join(c.of(e))
		}
		return o
	case *ssa.Extract:
		switch t := x.Tuple.(type) {
		case *ssa.TypeAssert:
			return c.of(t.X)
		case *ssa.Call:
			return c.callResult(t, x.Index)
		case *ssa.Next:
			if r, ok := t.Iter.(*ssa.Range); ok {
				return c.of(r.X)
			}
		case *ssa.Lookup:
			return c.of(t.X)
		}
		return oinfo{o: oUnknown}
	case *ssa.Call:
		return c.callResult(x, 0)
	case *ssa.UnOp:
		if x.Op != token.MUL {
			return oinfo{o: oUnknown}
		}
		switch a := x.X.(type) {
		case *ssa.FieldAddr:
			return fieldInfo(fieldOf(a))
		case *ssa.IndexAddr:
			return c.of(a.X)
		case *ssa.Global:
			return oinfo{o: oGlobal}
		case *ssa.Alloc:
			var o oinfo
			n := 0
			for _, ref := range *a.Referrers() {
				if st, ok := ref.(*ssa.Store); ok && st.Addr == ssa.Value(a) {
					o = o.join(c.of(st.Val))
					n++
				}
			}
			if n == 0 {
				return oinfo{o: oImm}
			}
			return o
		}
		return oinfo{o: oUnknown}
	case *ssa.Lookup:
		return c.of(x.X)
	case *ssa.Index:
		return c.of(x.X)
	case *ssa.Field:
		return fieldInfo(fieldOf(x))
	case *ssa.BinOp:
		return oinfo{o: oImm}
	}
	return oinfo{o: oUnknown}
}

func (c *immCtx) callResult(call *ssa.Call, idx int) oinfo {
	cal := calleeOf(call)
	args := call.Call.Args
	switch cal.Builtin {
	case "append":
		if k, ok := args[0].(*ssa.Const); ok && k.IsNil() {
			return oinfo{o: oFresh}
		}
		o := c.of(args[0])
		if o.o == oImm {
			return oinfo{o: oFresh}
		}
		return o
	case "min", "max", "len", "cap", "copy":
		return oinfo{o: oImm}
	case "SliceData", "Slice", "String", "StringData", "Add":
		return c.of(args[0])
	}
	if cal.Builtin != "" {
		return oinfo{o: oUnknown}
	}
	if f := cal.Static; f != nil && !c.w.InModule(f) {
		p := fnPkgPath(f)
		name := baseName(f)
		switch {
		case (p == "slices" || p == "bytes" || p == "strings" || p == "maps") && name == "Clone":
			return oinfo{o: oFresh}
		case p == "unsafe":
			if len(args) > 0 {
				return c.of(args[0])
			}
		case strings.HasPrefix(name, "Append"):
			// append-style helpers (strconv.AppendInt, binary.BigEndian.AppendUint16, …): the result
			// extends the destination argument — the first slice-typed argument
			for _, a := range args {
				if _, ok := a.Type().Underlying().(*types.Slice); ok {
					return c.of(a)
				}
			}
		case p == "strings" || p == "strconv" || p == "fmt" || p == "errors" || p == "math":
			return oinfo{o: oFresh}
		case p == "slices" && (name == "Grow" || name == "Insert" || name == "Delete"):
			if len(args) > 0 {
				return c.of(args[0])
			}
		}
		return oinfo{o: oUnknown}
	}
	fn := call.Parent()
	callees := c.calleesAt(fn, call)
	if len(callees) == 0 {
		return oinfo{o: oUnknown}
	}
	var o oinfo
	for _, g := range callees {
		if !c.w.InModule(g) || g.Blocks == nil {
			o.o |= oUnknown
			continue
		}
		rs := c.returns(g)
		if idx >= len(rs) {
			o.o |= oUnknown
			continue
		}
		r := rs[idx]
		o = o.join(oinfo{o: r.o &^ oParam, flds: r.flds})
		for pi := 0; pi < 63; pi++ {
			if r.ps&(1<<uint(pi)) == 0 {
				continue
			}
			// invoke-mode calls carry the receiver in Call.Value, not in Args
			if call.Call.IsInvoke() {
				if pi == 0 {
					o = o.join(c.of(call.Call.Value))
				} else if pi-1 < len(args) {
					o = o.join(c.of(args[pi-1]))
				} else {
					o.o |= oUnknown
				}
				continue
			}
			if pi < len(args) {
				o = o.join(c.of(args[pi]))
			} else {
				o.o |= oUnknown
			}
		}
	}
	return o
}

// returns summarises the origins of a function's reference-typed results.
func (c *immCtx) returns(g *ssa.Function) []oinfo {
	if r, ok := c.retM[g]; ok {
		return r
	}
	n := g.Signature.Results().Len()
	out := make([]oinfo, n)
	c.retM[g] = out // recursion sees the partial summary
	if c.depth > 8 {
		for i := range out {
			out[i].o = oUnknown
		}
		return out
	}
	c.depth++
	defer func() { c.depth-- }()
	for _, ret := range returnsOf(g) {
		for i, v := range ret.Results {
			if i >= n || !(isRefType(v.Type()) || types.IsInterface(v.Type())) {
				continue
			}
			out[i] = out[i].join(c.of(v))
		}
	}
	c.retM[g] = out
	return out
}

// paramsOf lists the parameter indexes in an oinfo.
func (o oinfo) params() []int {
	var out []int
	for i := 0; i < 63; i++ {
		if o.ps&(1<<uint(i)) != 0 {
			out = append(out, i)
		}
	}
	return out
}

// rootBase follows FieldAddr/IndexAddr chains (and loads of slice fields for element
// stores) to the object whose storage is being written; returns the base value and the
// outermost struct field touched.
func rootBase(addr ssa.Value) (base ssa.Value, field *types.Var, elem bool) {
	for {
		switch x := addr.(type) {
		case *ssa.FieldAddr:
			f := fieldOf(x)
			field = f
			addr = x.X
		case *ssa.IndexAddr:
			elem = true
			if ld, ok := x.X.(*ssa.UnOp); ok && ld.Op == token.MUL {
				addr = ld.X
			} else {
				addr = x.X
			}
		default:
			return addr, field, elem
		}
	}
}
