package main

import (
	"go/token"
	"go/types"

	"golang.org/x/tools/go/ssa"
)

// sendCtx resolves the anchors of the hsms send path once.
type sendCtx struct {
	w                                                      *World
	sendWaitReply, sendNoReply, sendAsync, writeFrame      *ssa.Function
	drain, dropNS, isSelected, connState, farewell         *ssa.Function
	register, deregister, route                            *ssa.Function
	fCur, fSendCh, fReplies, fCtx, fWriteMu, fTr, fMetrics *types.Var
	dataMsg                                                *types.Named
	trIface                                                *types.Named
	selectedConst                                          int64
}

func newSendCtx(w *World) *sendCtx {
	s := &sendCtx{w: w}
	s.sendWaitReply = w.Fn("hsms", "connection.sendWaitReply")
	s.sendNoReply = w.Fn("hsms", "connection.sendNoReply")
	s.sendAsync = w.Fn("hsms", "connection.SendAsync")
	s.writeFrame = w.Fn("hsms", "connection.writeFrame")
	s.drain = w.Fn("hsms", "connection.drainSendCh")
	s.dropNS = w.Fn("hsms", "connection.dropNotSelected")
	s.isSelected = w.Fn("hsms", "connection.IsSelected")
	s.connState = w.Fn("hsms", "connection.State")
	s.farewell = w.Fn("hsms", "connection.writeFarewellSeparate")
	s.register = w.Fn("hsms", "replyRegistry.register")
	s.deregister = w.Fn("hsms", "replyRegistry.deregister")
	s.route = w.Fn("hsms", "replyRegistry.route")
	s.fCur = w.Field("hsms", "connection", "cur")
	s.fSendCh = w.Field("hsms", "epoch", "sendCh")
	s.fReplies = w.Field("hsms", "epoch", "replies")
	s.fCtx = w.Field("hsms", "epoch", "ctx")
	s.fWriteMu = w.Field("hsms", "epoch", "writeMu")
	s.fTr = w.Field("hsms", "connection", "tr")
	s.fMetrics = w.Field("hsms", "connection", "metrics")
	s.dataMsg = w.Named("hsms", "DataMessage")
	s.trIface = w.Named("hsms", "transport")
	s.selectedConst = w.ConstInt("hsms", "SelectedState")
	return s
}

// isTrMethod: invoke of hsms.transport.<name>.
func (s *sendCtx) isTrMethod(name string) func(Callee) bool {
	return func(c Callee) bool {
		if c.Method == nil || c.Method.Name() != name {
			return false
		}
		recv := c.Method.Type().(*types.Signature).Recv()
		if recv == nil {
			return false
		}
		// interface methods: receiver type is the interface (named or its underlying)
		return types.Identical(recv.Type().Underlying(), s.trIface.Underlying())
	}
}

// dataTest: if v tests "msg is a *DataMessage", returns (polarity of v meaning isData, true).
func (s *sendCtx) dataTest(v ssa.Value) (pos bool, ok bool) {
	isDMAssert := func(x ssa.Value) (*ssa.TypeAssert, bool) {
		ex, isEx := x.(*ssa.Extract)
		if !isEx {
			return nil, false
		}
		ta, isTA := ex.Tuple.(*ssa.TypeAssert)
		if !isTA || !ta.CommaOk {
			return nil, false
		}
		if p, isP := ta.AssertedType.(*types.Pointer); isP && types.Identical(p.Elem(), s.dataMsg) {
			return ta, true
		}
		return nil, false
	}
	if ex, isEx := v.(*ssa.Extract); isEx && ex.Index == 1 {
		if _, ok := isDMAssert(v); ok {
			return true, true
		}
	}
	if x, eq, isCmp := isNilCmp(v); isCmp {
		if ex, isEx := x.(*ssa.Extract); isEx && ex.Index == 0 {
			if _, ok := isDMAssert(x); ok {
				return !eq, true
			}
		}
	}
	return false, false
}

// selTest: if v tests "connection is Selected", returns (polarity, true).
func (s *sendCtx) selTest(v ssa.Value) (pos bool, ok bool) {
	if isCallTo(v, isFn(s.isSelected)) {
		return true, true
	}
	if b, isB := v.(*ssa.BinOp); isB && (b.Op == token.EQL || b.Op == token.NEQ) {
		x, y := b.X, b.Y
		if k, isK := constInt(x); isK {
			x, y = y, x
			_ = k
		}
		if k, isK := constInt(y); isK && k == s.selectedConst {
			if c, isC := x.(*ssa.Call); isC {
				cal := calleeOf(c)
				if isFn(s.connState)(cal) || (cal.Method != nil && cal.Method.Name() == "State") {
					return b.Op == token.EQL, true
				}
			}
		}
	}
	return false, false
}

// openTest: if v tests "current epoch is nil", returns (polarity meaning epoch != nil, true).
func (s *sendCtx) openTest(v ssa.Value) (pos bool, ok bool) {
	if x, eq, isCmp := isNilCmp(v); isCmp && atomicMethodOn(x, s.fCur, "Load") {
		return !eq, true
	}
	return false, false
}

type sendEv struct {
	Kind  string // data? sel? open? drop writeFrame trWrite enqueue? ctxdone? register deregister call:<name>
	Val   bool
	Instr ssa.Instruction
}

// events linearises a path of a send-path function into gate decisions and effects.
func (s *sendCtx) events(p *Path) []sendEv {
	var evs []sendEv
	p.Walk(func(in ssa.Instruction) {
		c, ok := in.(ssa.CallInstruction)
		if !ok {
			return
		}
		cal := calleeOf(c)
		kind := ""
		switch {
		case isFn(s.dropNS)(cal):
			kind = "drop"
		case isFn(s.writeFrame)(cal):
			kind = "writeFrame"
		case s.isTrMethod("Write")(cal):
			kind = "trWrite"
		case isFn(s.register)(cal):
			kind = "register"
		case isFn(s.deregister)(cal):
			kind = "deregister"
		}
		if kind != "" {
			if _, isDefer := in.(*ssa.Defer); isDefer {
				kind = "defer:" + kind
			}
			evs = append(evs, sendEv{Kind: kind, Instr: in})
		}
	}, func(f Fact) {
		in, _ := f.Cond.(ssa.Instruction)
		if pos, ok := s.dataTest(f.Cond); ok {
			evs = append(evs, sendEv{Kind: "data?", Val: pos == f.Val, Instr: in})
			return
		}
		if pos, ok := s.selTest(f.Cond); ok {
			evs = append(evs, sendEv{Kind: "sel?", Val: pos == f.Val, Instr: in})
			return
		}
		if pos, ok := s.openTest(f.Cond); ok {
			evs = append(evs, sendEv{Kind: "open?", Val: pos == f.Val, Instr: in})
			return
		}
		// select outcome: (index == k)
		if b, isB := f.Cond.(*ssa.BinOp); isB && b.Op == token.EQL {
			if ex, isEx := b.X.(*ssa.Extract); isEx && ex.Index == 0 {
				if sel, isSel := ex.Tuple.(*ssa.Select); isSel {
					if k, isK := constInt(b.Y); isK && int(k) < len(sel.States) {
						st := sel.States[k]
						kind := "select:other"
						switch {
						case st.Dir == types.SendOnly && isFieldRef(st.Chan, s.fSendCh):
							kind = "enqueue?"
						case st.Dir == types.RecvOnly && isDoneOf(st.Chan, s.fCtx):
							kind = "gendone?"
						case st.Dir == types.RecvOnly && isFieldRef(st.Chan, s.fSendCh):
							kind = "dequeue?"
						}
						evs = append(evs, sendEv{Kind: kind, Val: f.Val, Instr: sel})
					}
				}
			}
		}
	})
	return evs
}

// isDoneOf: v is X.Done() where X is a load of field ctxField (a context.Context).
func isDoneOf(v ssa.Value, ctxField *types.Var) bool {
	c, ok := v.(*ssa.Call)
	if !ok {
		return false
	}
	cc := c.Common()
	if !cc.IsInvoke() || cc.Method.Name() != "Done" {
		return false
	}
	return isFieldRef(cc.Value, ctxField)
}

// retErr names the error returned on a path: a package-level error variable ("ErrX"),
// "nil", or a rendered expression.
func retErr(p *Path) string {
	rets := p.Rets()
	if len(rets) == 0 {
		return "<panic>"
	}
	v := rets[len(rets)-1]
	if c, ok := v.(*ssa.Const); ok && c.IsNil() {
		return "nil"
	}
	if n := globalLoadName(v); n != "" {
		return n
	}
	return "~" + renderWith(v, p.Resolve)
}
