// secscheck decides structural necessary conditions of the go-secs properties C01..C20
// from /repo's current source (go/packages + go/ssa + call graph). It never executes
// repository code. See /verif/DESIGN.md.
package main

import (
	"encoding/json"
	"flag"
	"fmt"
	"os"
	"path/filepath"
	"sort"
	"strconv"
	"strings"
	"time"
)

// Rule is one named check contributing obligations to a property.
type Rule struct {
	Name     string
	Doc      string // one-line statement of the rule, shown in evidence
	Run      func(r *Run)
	Thorough bool // only in the thorough tier
}

type PropSpec struct {
	ID      string
	Rules   []Rule
	NotDec  []string
	Trusted []string
}

var registry = map[string]*PropSpec{}

func register(p *PropSpec) { registry[p.ID] = p }

func main() {
	prop := flag.String("property", "", "property id (C01..C20) or 'all'")
	tier := flag.String("tier", "quick", "quick|thorough")
	repo := flag.String("repo", "/repo", "repository root")
	verif := flag.String("verif", "/verif", "verif root (evidence, known findings)")
	replay := flag.String("replay", "", "replay file: re-evaluate just that rule instance")
	list := flag.Bool("list", false, "list rules")
	flag.Parse()

	if *list {
		ids := make([]string, 0, len(registry))
		for id := range registry {
			ids = append(ids, id)
		}
		sort.Strings(ids)
		for _, id := range ids {
			for _, ru := range registry[id].Rules {
				fmt.Printf("%s %-28s %s\n", id, ru.Name, ru.Doc)
			}
		}
		return
	}

	var only *replayFile
	if *replay != "" {
		b, err := os.ReadFile(*replay)
		if err != nil {
			fmt.Println("cannot read replay file:", err)
			os.Exit(2)
		}
		only = &replayFile{}
		if err := json.Unmarshal(b, only); err != nil {
			fmt.Println("bad replay file:", err)
			os.Exit(2)
		}
		*prop = only.Property
	}
	if t := os.Getenv("VERIF_TIER"); t != "" && *tier == "" {
		*tier = t
	}
	seed := int64(0)
	if s := os.Getenv("VERIF_SEED"); s != "" {
		seed, _ = strconv.ParseInt(s, 10, 64)
	}
	if *prop == "all" {
		// development aid (seed matrix): every property's quick rules over one loaded program
		os.Exit(runAllQuick(*repo, *verif))
	}
	spec := registry[*prop]
	if spec == nil {
		fmt.Printf("unknown property %q\n", *prop)
		os.Exit(2)
	}
	os.Exit(runProperty(spec, *tier, *repo, *verif, seed, only))
}

func runProperty(spec *PropSpec, tier, repo, verif string, seed int64, only *replayFile) int {
	start := time.Now()
	known, err := loadKnown(filepath.Join(verif, "known_findings.json"))
	if err != nil {
		fmt.Println("cannot read known_findings.json:", err)
		fmt.Printf("VIOLATION property=%s replay=%s\n", spec.ID, "-")
		return 1
	}
	configs := [][2]string{{"", ""}}
	if tier == "thorough" {
		configs = append(configs, [2]string{"linux", "386"}, [2]string{"windows", "amd64"}, [2]string{"darwin", "arm64"})
	}
	if c := os.Getenv("SECSCHECK_ONLY_CONFIG"); c != "" && only == nil {
		// development aid: analyse a single extra build configuration (goos/goarch)
		if g, a, ok := strings.Cut(c, "/"); ok {
			configs = [][2]string{{g, a}}
		}
	}
	if only != nil && only.Config != "" {
		// replay of an obligation that was generated under an extra build configuration
		if g, a, ok := strings.Cut(only.Config, "/"); ok {
			configs = [][2]string{{g, a}}
		}
	}
	var run *Run
	for ci, cfg := range configs {
		w, err := loadWorld(repo, cfg[0], cfg[1])
		if err != nil {
			fmt.Printf("load failed (%s/%s): %v\n", cfg[0], cfg[1], err)
			fmt.Printf("VIOLATION property=%s replay=%s\n", spec.ID, "-")
			writeLoadFailEvidence(verif, spec.ID, tier, seed, start, err)
			return 1
		}
		r := newRun(w, spec.ID, tier, known)
		for _, ru := range spec.Rules {
			if ru.Thorough && tier != "thorough" {
				continue
			}
			ru := ru
			r.Explain = append(r.Explain, ru.Name+": "+ru.Doc)
			r.curRule = ru.Name
			r.runRule(ru.Name, func() { ru.Run(r) })
		}
		r.NotDec = spec.NotDec
		r.Trusted = spec.Trusted
		if ci == 0 {
			run = r
			if only != nil && only.Config != "" {
				for i := range r.Obs {
					r.Obs[i].Config = only.Config
				}
			}
		} else {
			// fold extra-configuration obligations in, tagged by configuration
			for _, o := range r.Obs {
				if o.Status != StOK {
					o.Config = cfg[0] + "/" + cfg[1]
					run.Obs = append(run.Obs, o)
				}
			}
			run.Stats["config:"+cfg[0]+"/"+cfg[1]+":obligations"] = len(r.Obs)
		}
	}
	return run.finish(verif, seed, start, only)
}

func runAllQuick(repo, verif string) int {
	known, err := loadKnown(filepath.Join(verif, "known_findings.json"))
	if err != nil {
		fmt.Println("cannot read known_findings.json:", err)
		return 2
	}
	w, err := loadWorld(repo, "", "")
	if err != nil {
		fmt.Println("load failed:", err)
		return 2
	}
	ids := []string{}
	for id := range registry {
		ids = append(ids, id)
	}
	sort.Strings(ids)
	rc := 0
	for _, id := range ids {
		spec := registry[id]
		start := time.Now()
		r := newRun(w, spec.ID, "quick", known)
		for _, ru := range spec.Rules {
			if ru.Thorough {
				continue
			}
			ru := ru
			r.curRule = ru.Name
			r.runRule(ru.Name, func() { ru.Run(r) })
		}
		r.NotDec = spec.NotDec
		r.Trusted = spec.Trusted
		if r.finish(verif, 0, start, nil) != 0 {
			rc = 1
		}
	}
	return rc
}

func writeLoadFailEvidence(verif, prop, tier string, seed int64, start time.Time, err error) {
	ev := map[string]any{
		"property_id": prop, "tier": tier, "seed": seed, "level": "other",
		"wall_s": time.Since(start).Seconds(), "violations": 1,
		"coverage": map[string]any{"explanation": "load/type-check of /repo failed: " + err.Error() + " — nothing analysed; the check fails closed", "evaluations": 1, "distinct_nontrivial": 0},
	}
	b, _ := json.MarshalIndent(ev, "", " ")
	_ = os.MkdirAll(filepath.Join(verif, "evidence"), 0o755)
	_ = os.WriteFile(filepath.Join(verif, "evidence", prop+".json"), b, 0o644)
}
