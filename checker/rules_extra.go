package main

// Rules added after the first rounds of independently seeded changes: each closes a gap a
// seeded change showed (see DESIGN.md §7 and seeded/MATRIX.md).

import (
	"fmt"
	"go/token"
	"strings"

	"golang.org/x/tools/go/ssa"
)

func init() {
	registry["C07"].Rules = append(registry["C07"].Rules,
		Rule{Name: "C07-R7-receive-after-tcpup", Doc: "in every transport bring-up path the goroutine that reads and dispatches inbound frames is launched only after rt.TCPUp returned: a Select.req (and data pipelined behind it) can never be dispatched while the state is still NotConnected, where the synchronous Selected commit would fail and the data be rejected", Run: c07ReceiveAfterTCPUp})
	registry["C10"].Rules = append(registry["C10"].Rules,
		Rule{Name: "C10-R7-late-socket-closed", Doc: "transport.Stop re-reads the connection field after it joined the accept goroutine (the only asynchronous writer of that field) and closes what it finds: a peer adopted while Stop was closing the listener is not left open", Run: c10LateSocket})
	registry["C10"].Rules = append(registry["C10"].Rules,
		Rule{Name: "C10-R8-close-tears-down-published-epoch", Doc: "Close re-pins the current epoch inside the publishMu fence (after shutdown is set, so no later epoch can be published) and tears that one down, then joins supervisor and reconnect loop in order — an epoch published between Close's entry and its fence is not leaked (shared with C05-R5)", Run: func(r *Run) {
			r.ruleAlias = "C10-R8-close-tears-down-published-epoch"
			defer func() { r.ruleAlias = "" }()
			c05CloseOrder(r)
		}})
	registry["C13"].Rules = append(registry["C13"].Rules,
		Rule{Name: "C13-R6-parsed-values-stored-exactly", Doc: "the SML parser builds numeric items through the secs2 constructors: every value they store is the supplied value itself or the result of the clamp functions (which pass NaN, ±Inf and in-range values through unchanged), never an ad-hoc min/max or a bulk copy — so a value the strict encoder rendered comes back as the same element (shared with C16-R2)", Run: func(r *Run) {
			r.ruleAlias = "C13-R6-parsed-values-stored-exactly"
			defer func() { r.ruleAlias = "" }()
			c16StoredValues(r)
		}})
	registry["C01"].Rules = append(registry["C01"].Rules,
		Rule{Name: "C01-R10-elements-fit-width", Doc: "every element stored in a numeric item fits the item's element width (it is a clamp result, a bound, or a widening that fits the narrowest width the path can be building), so the truncating big-endian encoders write the element's own value and decoding gives it back (shared with C16-R2)", Run: func(r *Run) {
			r.ruleAlias = "C01-R10-elements-fit-width"
			defer func() { r.ruleAlias = "" }()
			c16StoredValues(r)
		}})
	registry["C19"].Rules = append(registry["C19"].Rules,
		Rule{Name: "C19-R4-activity-stamps", Doc: "the receive stamp is stored for every frame read without error, whatever its type, before it is dispatched; the send stamp is stored exactly when the socket write succeeded; no other writer exists besides the per-connection reset", Run: c19ActivityStamps})
	registry["C11"].Rules = append(registry["C11"].Rules,
		Rule{Name: "C11-R5-t8-covers-in-frame-stall", Doc: "a stall anywhere inside a frame is covered by T8: before every Read of a frame in progress the deadline is now()+T8, and the in-frame flag set while reading the length prefix is still set for the header+body read (shared with C04-R4) — so the stall becomes a read error, which C11-R4 funnels into TCPDown and recovery", Run: func(r *Run) {
			r.ruleAlias = "C11-R5-t8-covers-in-frame-stall"
			defer func() { r.ruleAlias = "" }()
			c04ReadPolicy(r)
		}})
	registry["C05"].Rules = append(registry["C05"].Rules,
		Rule{Name: "C05-R9-t7-lifecycle", Doc: "every place that commits Selected successfully cancels the T7 dwell on that same path (responder and initiator alike), and arming T7 first cancels a dwell that is still armed: a session that reached Selected cannot be dropped by a T7 armed before it was selected", Run: c05T7Lifecycle})
}

func c07ReceiveAfterTCPUp(r *Run) {
	const rule = "C07-R7-receive-after-tcpup"
	w := r.W
	n := 0
	for _, pkg := range []string{"hsmsss", "secs1"} {
		for _, fn := range w.FnsInPkg(pkg) {
			if !w.IsProd(fn) {
				continue
			}
			// launches of the receive goroutine: `go t.recvLoop(g)` / `go t.lineEngine(...)`
			var launches []*ssa.Go
			var ups []ssa.Instruction
			eachInstr(fn, func(in ssa.Instruction) {
				switch x := in.(type) {
				case *ssa.Go:
					if g := calleeOf(x).Static; g != nil && (g.Name() == "recvLoop" || g.Name() == "lineEngine") {
						launches = append(launches, x)
					}
				case *ssa.Call:
					if x.Call.IsInvoke() && x.Call.Method.Name() == "TCPUp" {
						ups = append(ups, in)
					}
				}
			})
			for _, l := range launches {
				n++
				r.Analysed(w.FnName(fn))
				ok := false
				for _, u := range ups {
					if instrDominates(u, l) {
						ok = true
					}
				}
				r.Check(ok, rule, fmt.Sprintf("%s: receive goroutine launched after rt.TCPUp", w.FnName(fn)), l.Pos(), "TCPUp dominates the launch", "a frame could be dispatched before the state left NotConnected: the peer's Select.req would be answered 'already active' without selecting and pipelined data rejected")
			}
		}
	}
	r.Floor(rule, "receive-goroutine launch sites", n, 3)
}

func c10LateSocket(r *Run) {
	const rule = "C10-R7-late-socket-closed"
	w := r.W
	for _, pkg := range []string{"hsmsss", "secs1"} {
		stop := w.Fn(pkg, "transport.Stop")
		fConn := w.Field(pkg, "transport", "conn")
		r.Analysed(w.FnName(stop))
		// the accept goroutine is the asynchronous writer of t.conn
		asyncWriter := false
		for _, fu := range w.fieldUses(fConn) {
			if fu.Kind == "store" && w.IsProd(fu.Fn) && strings.Contains(fu.Fn.Name(), "accept") {
				asyncWriter = true
			}
		}
		if !asyncWriter {
			r.Trivial(rule, pkg+": no asynchronous writer of transport.conn", stop.Pos(), "nothing to re-read")
			continue
		}
		var wait ssa.Instruction
		eachInstr(stop, func(in ssa.Instruction) {
			if c, ok := in.(*ssa.Call); ok && isMethodNamed("sync", "WaitGroup", "Wait")(calleeOf(c)) && strings.HasSuffix(render(c.Call.Args[0]), ".accept") {
				wait = in
			}
		})
		if wait == nil {
			r.Fail(rule, pkg+".transport.Stop joins the accept goroutine", stop.Pos(), "no accept.Wait() found in Stop")
			continue
		}
		closed := false
		eachInstr(stop, func(in ssa.Instruction) {
			c, ok := in.(*ssa.Call)
			if !ok || !c.Call.IsInvoke() || c.Call.Method.Name() != "Close" {
				return
			}
			ld, ok := c.Call.Value.(*ssa.UnOp)
			if !ok || ld.Op != token.MUL || !isFieldRef(ld.X, fConn) {
				return
			}
			if instrDominates(wait, ld) {
				closed = true
			}
		})
		r.Check(closed, rule, pkg+".transport.Stop closes the connection it finds after joining the accept goroutine", wait.Pos(), "re-read t.conn, Close()", "a peer accepted while Stop was closing the listener is adopted after the first read of t.conn: nothing would ever close that socket (and its read loop parks without a deadline)")
	}
}

func c19ActivityStamps(r *Run) {
	const rule = "C19-R4-activity-stamps"
	w := r.W
	fRecv := w.Field("hsmsss", "transport", "lastRecvStamp")
	fSend := w.Field("hsmsss", "transport", "lastSendStamp")
	rl := w.Fn("hsmsss", "transport.recvLoop")
	rf := w.Fn("hsmsss", "transport.readFrame")
	df := w.Fn("hsmsss", "transport.dispatchFrame")
	wr := w.Fn("hsmsss", "transport.Write")
	r.Analysed(w.FnName(rl))
	r.Analysed(w.FnName(wr))
	// writers
	for _, f := range []*struct {
		fld  interface{ Name() string }
		okIn []string
	}{} {
		_ = f
	}
	for _, fu := range w.fieldUses(fRecv) {
		if !w.IsProd(fu.Fn) || !strings.HasPrefix(fu.Kind, "method:Store") {
			continue
		}
		n := fu.Fn.Name()
		r.Check(n == "recvLoop" || n == "resetActivityStamps", rule, "lastRecvStamp stored in "+w.FnName(fu.Fn), fu.Pos(), "receive loop / per-connection reset", "the receive stamp may be written only where a frame was received (and by the per-connection reset)")
	}
	for _, fu := range w.fieldUses(fSend) {
		if !w.IsProd(fu.Fn) || !strings.HasPrefix(fu.Kind, "method:Store") {
			continue
		}
		n := fu.Fn.Name()
		r.Check(n == "Write" || n == "resetActivityStamps", rule, "lastSendStamp stored in "+w.FnName(fu.Fn), fu.Pos(), "socket write / per-connection reset", "the send stamp may be written only where a frame was written")
	}
	// recvLoop: on every iteration path with a successful read: exactly one Store, before dispatch, unconditional
	hs := loopHeaders(rl)
	if len(hs) != 1 {
		r.Undecided(rule, "recvLoop: one loop", rl.Pos(), "found %d", len(hs))
		return
	}
	paths, ok := enumIterPaths(rl, hs[0], 500)
	if !ok {
		r.Undecided(rule, "recvLoop iteration paths", rl.Pos(), "too many")
		return
	}
	n := 0
	for _, p := range paths {
		reads := p.Calls(isFn(rf))
		if len(reads) != 1 {
			continue
		}
		ev := errResultOf(reads[0])
		okRead := false
		for _, f := range p.Conds {
			if x, eq, ok := isNilCmp(f.Cond); ok && x == ev && eq == f.Val {
				okRead = true
			}
		}
		if !okRead {
			continue
		}
		n++
		var stores, disp []ssa.Instruction
		extraConds := 0
		afterRead := false
		p.Walk(func(in ssa.Instruction) {
			if in == ssa.Instruction(reads[0].(*ssa.Call)) {
				afterRead = true
			}
			if c, ok := in.(*ssa.Call); ok {
				if callIsAtomicMethodOn(c, fRecv, "Store") {
					stores = append(stores, in)
				}
				if isFn(df)(calleeOf(c)) {
					disp = append(disp, in)
				}
			}
		}, func(f Fact) {
			// decisions between the successful read and the stamp (other than the error test itself)
			if afterRead && len(stores) == 0 {
				if x, _, ok := isNilCmp(f.Cond); ok && x == ev {
					return
				}
				extraConds++
			}
		})
		construct := "recvLoop: a frame read without error stamps receive activity before dispatch"
		okp := len(stores) == 1 && len(disp) == 1 && extraConds == 0
		if okp {
			okp = false
			seenStore := false
			for _, in := range p.Instrs() {
				if in == stores[0] {
					seenStore = true
				}
				if in == disp[0] && seenStore {
					okp = true
				}
			}
		}
		r.Check(okp, rule, construct, reads[0].Pos(), "one unconditional Store, then dispatch", fmt.Sprintf("every complete inbound frame — control responses included — is proof of link life: stores=%d dispatches=%d decisions before the stamp=%d", len(stores), len(disp), extraConds))
	}
	r.Floor(rule, "recvLoop paths with a successful read", n, 1)
	// Write: stamp iff the write returned nil
	wp, ok := enumPaths(wr, 100)
	if ok {
		for _, p := range wp {
			var wcall *ssa.Call
			st := 0
			for _, in := range p.Instrs() {
				if c, ok := in.(*ssa.Call); ok {
					if g := calleeOf(c).Static; g != nil && g.Name() == "WriteTo" {
						wcall = c
					}
					if callIsAtomicMethodOn(c, fSend, "Store") {
						st++
					}
				}
			}
			if wcall == nil {
				r.Check(st == 0, rule, "transport.Write without a socket write does not stamp", p.Exit.Pos(), "no stamp", "no frame was written on this path")
				continue
			}
			ev := errResultOf(wcall)
			okW := -1
			for _, f := range p.Conds {
				if x, eq, ok := isNilCmp(f.Cond); ok && x == ev {
					okW = boolInt(eq == f.Val)
				}
			}
			r.Check((okW == 1 && st == 1) || (okW == 0 && st == 0), rule, fmt.Sprintf("transport.Write stamps send activity iff the write succeeded (write ok=%d)", okW), p.Exit.Pos(), "stamp ⇔ err == nil", fmt.Sprintf("stores=%d", st))
		}
	}
}

func c05T7Lifecycle(r *Run) {
	const rule = "C05-R9-t7-lifecycle"
	w := r.W
	cancel := w.Fn("hsmsss", "transport.cancelT7")
	n := 0
	for _, fn := range w.FnsInPkg("hsmsss") {
		if !w.IsProd(fn) {
			continue
		}
		eachInstr(fn, func(in ssa.Instruction) {
			c, ok := in.(*ssa.Call)
			if !ok || !c.Call.IsInvoke() || c.Call.Method.Name() != "CommitSelected" {
				return
			}
			n++
			r.Analysed(w.FnName(fn))
			// the branch on the commit's result: every path through the success edge calls cancelT7
			var iff *ssa.If
			for _, ref := range *c.Referrers() {
				if i2, ok := ref.(*ssa.If); ok {
					iff = i2
				}
			}
			if iff == nil {
				r.Fail(rule, w.FnName(fn)+": the result of CommitSelected is tested", c.Pos(), "the commit's outcome is not branched on: a successful commit cannot be told from a duplicate")
				return
			}
			succ := iff.Block().Succs[0]
			okc := false
			for _, in2 := range succ.Instrs {
				if c2, ok := in2.(*ssa.Call); ok && isFn(cancel)(calleeOf(c2)) {
					okc = true
				}
			}
			r.Check(okc, rule, w.FnName(fn)+": a successful Selected commit cancels the T7 dwell", c.Pos(), "cancelT7 on the success edge", "the T7 armed at TCP-up would survive into the Selected session and fire the next time the session is merely NotSelected again (e.g. after a Deselect), dropping it early")
		})
	}
	r.Floor(rule, "CommitSelected call sites in hsmsss", n, 2)
	// armT7: a still-armed dwell is cancelled before the new one is stored
	arm := w.Fn("hsmsss", "transport.armT7")
	r.Analysed(w.FnName(arm))
	fT7 := w.Field("hsmsss", "transport", "t7Cancel")
	var store ssa.Instruction
	var oldCall ssa.Instruction
	eachInstr(arm, func(in ssa.Instruction) {
		if st, ok := in.(*ssa.Store); ok && isFieldRef(st.Addr, fT7) {
			store = in
		}
		if c, ok := in.(*ssa.Call); ok && calleeOf(c).Dynamic {
			if ld, ok := c.Call.Value.(*ssa.UnOp); ok && ld.Op == token.MUL && isFieldRef(ld.X, fT7) {
				oldCall = in
			}
		}
	})
	okArm := store != nil && oldCall != nil
	if okArm {
		// the old cancel is called under (t7Cancel != nil) on a path that precedes the store
		okArm = canReachWithout(oldCall, store, nil)
		nonNil := false
		for _, f := range bndMustFacts(arm)[oldCall.Block()] {
			if x, eq, ok := isNilCmp(f.Cond); ok && eq != f.Val && isFieldRef(stripConv(x), fT7) {
				nonNil = true
			}
			if x, eq, ok := isNilCmp(f.Cond); ok && eq != f.Val {
				if ld, ok := x.(*ssa.UnOp); ok && isFieldRef(ld.X, fT7) {
					nonNil = true
				}
			}
		}
		okArm = okArm && nonNil
	}
	r.Check(okArm, rule, "armT7 cancels a still-armed dwell before arming the next", arm.Pos(), "old cancel called, then the new one stored", "two dwell timers would be live at once; the older one fires on a later NotSelected period it was not armed for")
}
