package main

// C10-R16 / C09-R8: guarded-by. The transports keep their per-generation handles (socket,
// listener, generation context, cancel functions) in fields that are read and written only
// while connMu is held. The table below was inferred from the tree (every access of these
// fields outside the constructor is inside a connMu region), confirmed by reading, and frozen:
// an access outside the lock is a data race between Stop / Start / the accept goroutine — the
// kind of bug a reordering introduces and no test notices.

import (
	"fmt"
	"os"
	"sort"
	"strings"

	"golang.org/x/tools/go/ssa"
)

var guardedByConnMu = map[string][]string{
	"hsmsss": {"conn", "listener", "genCtx", "procCancel", "linktestCancel", "t7Cancel"},
	"secs1":  {"conn", "listener", "engineCancel"},
}

func init() {
	registry["C10"].Rules = append(registry["C10"].Rules,
		Rule{Name: "C10-R16-guarded-by-connMu", Doc: "the transports' per-generation handles (hsmsss: conn, listener, genCtx, procCancel, linktestCancel, t7Cancel; secs1: conn, listener, engineCancel) are read and written only while the transport's connMu is held (constructor excepted): Stop, Start and the accept goroutine never see a half-updated set of handles, so teardown always finds the socket and listener of the generation it ends", Run: c10GuardedBy})
}

func init() {
	registry["C03"].Rules = append(registry["C03"].Rules,
		Rule{Name: "C03-R8-api-argument-roles", Doc: "every place in the library that builds a data message hands NewDataMessage a stream where the stream goes, a function where the function goes and a W-bit where the W-bit goes (the caller's own stream / function / replyExpected parameters, or the Stream / Function / WaitBit accessors of the message it derives from; a reply uses the primary's function + 1 and no W-bit): S1F13 is not sent as S13F1", Run: c03ArgumentRoles})
}

func c03ArgumentRoles(r *Run) {
	const rule = "C03-R8-api-argument-roles"
	w := r.W
	ndm := w.Fn("hsms", "NewDataMessage")
	ro := c03Roles(w, ndm)
	idx := func(p *ssa.Parameter) int {
		for i, q := range ndm.Params {
			if q == p {
				return i
			}
		}
		return -1
	}
	// what an argument expression denotes, by the caller's parameter name or the accessor it calls
	kindOf := func(v ssa.Value) string {
		v = stripConv(v)
		if b, ok := v.(*ssa.BinOp); ok && b.Op.String() == "+" {
			if k, isK := constInt(b.Y); isK && k == 1 {
				v = stripConv(b.X)
			}
		}
		v = resolveCell(v)
		name := ""
		switch x := v.(type) {
		case *ssa.Parameter:
			name = x.Name()
		case *ssa.Call:
			if x.Call.IsInvoke() {
				name = x.Call.Method.Name()
			} else if g := calleeOf(x).Static; g != nil {
				name = g.Name()
			}
		case *ssa.UnOp:
			if fa, ok := x.X.(*ssa.FieldAddr); ok {
				name = fieldOf(fa).Name()
			}
		case *ssa.Const:
			return "const"
		}
		l := strings.ToLower(name)
		switch {
		case strings.Contains(l, "stream"):
			return "stream"
		case strings.Contains(l, "function"):
			return "function"
		case strings.Contains(l, "wait") || strings.Contains(l, "reply") || strings.Contains(l, "wbit"):
			return "wbit"
		}
		return "?" + name
	}
	n := 0
	for _, u := range w.usesOf(ndm) {
		if !w.IsProd(u.Fn) {
			continue
		}
		c, ok := u.Instr.(ssa.CallInstruction)
		if !ok {
			continue
		}
		n++
		r.Analysed(w.FnName(u.Fn))
		a := c.Common().Args
		for role, p := range map[string]*ssa.Parameter{"stream": ro.stream, "function": ro.function, "wbit": ro.wbit} {
			i := idx(p)
			if i < 0 || i >= len(a) {
				continue
			}
			got := kindOf(a[i])
			good := got == role || (role == "wbit" && got == "const")
			if !good && got == "const" {
				// a constant is what a caller without any stream / function of its own can pass
				hasOwn := false
				for _, cp := range u.Fn.Params {
					if strings.Contains(strings.ToLower(cp.Name()), role) {
						hasOwn = true
					}
				}
				good = !hasOwn
			}
			if !good && strings.HasPrefix(got, "?") {
				// taken from a wire header: decided bit by bit (E37: W|stream in byte 2, function in byte 3)
				var hdr *ssa.Parameter
				for _, cp := range u.Fn.Params {
					if n, isArr := arrayLenOf(cp.Type()); isArr && n == 10 {
						hdr = cp
					}
				}
				if hdr != nil {
					e := newBitEval(&Path{Fn: u.Fn, Blocks: []*ssa.BasicBlock{u.Fn.Blocks[0]}})
					e.run() // the header parameter is spilled into a local array in the entry block
					bits := e.eval(a[i])
					hb := func(k int) bv { return atomBV(fmt.Sprintf("$%s[%d]", hdr.Name(), k), 8) }
					var want bv
					switch role {
					case "stream":
						want = hb(2)
						want[7] = bsrc{}
					case "function":
						want = hb(3)
					case "wbit":
						want = bv{hb(2)[7]}
					}
					good = bitsEqual(bits, want)
					got = bits.String()
				}
			}
			r.Check(good, rule, fmt.Sprintf("%s: NewDataMessage's %s argument", w.FnName(u.Fn), role), c.Pos(), role, fmt.Sprintf("the %s parameter of NewDataMessage is given %s (%s): the message goes out with its header fields exchanged", role, got, shortRender(a[i])))
		}
	}
	r.Floor(rule, "NewDataMessage call sites", n, 5)
}

// connMuHeld returns the instructions of fn that execute while the receiver's connMu is held.
func connMuHeld(fn *ssa.Function) map[ssa.Instruction]bool { return mutexHeld(fn, "connMu") }

// mutexHeld returns the instructions of fn that execute while the receiver's mutex field of
// that name is held (Lock or RLock).
func mutexHeld(fn *ssa.Function, mutex string) map[ssa.Instruction]bool {
	held := map[ssa.Instruction]bool{}
	type site struct {
		call ssa.CallInstruction
		base string
	}
	var locks, unlocks []site
	eachInstr(fn, func(in ssa.Instruction) {
		c, ok := in.(ssa.CallInstruction)
		if !ok {
			return
		}
		if _, isDefer := in.(*ssa.Defer); isDefer {
			return
		}
		key, base, m, ok := mutexCall(c)
		if !ok || !strings.HasSuffix(key, "."+mutex) {
			return
		}
		switch m {
		case "Lock", "RLock":
			locks = append(locks, site{c, base})
		case "Unlock", "RUnlock":
			unlocks = append(unlocks, site{c, base})
		}
	})
	for _, l := range locks {
		barrier := map[ssa.Instruction]bool{}
		for _, u := range unlocks {
			if u.base == l.base {
				barrier[u.call.(ssa.Instruction)] = true
			}
		}
		for _, in := range heldRegion(l.call.(ssa.Instruction), barrier, false) {
			held[in] = true
		}
	}
	return held
}

func c10GuardedBy(r *Run) {
	const rule = "C10-R16-guarded-by-connMu"
	w := r.W
	debug := os.Getenv("SECSCHECK_DEBUG") != ""
	n := 0
	for _, pkg := range []string{"hsmsss", "secs1"} {
		guarded := map[string]bool{}
		for _, f := range guardedByConnMu[pkg] {
			guarded[f] = true
			if w.Field(pkg, "transport", f) == nil {
				r.Fail(rule, pkg+".transport."+f+" exists", 0, "a field of the guarded-by table no longer exists")
			}
		}
		stats := map[string][2]int{}
		for _, fn := range w.FnsInPkg(pkg) {
			if !w.IsProd(fn) || fn.Name() == "newTransport" {
				continue
			}
			root := fn
			for root.Parent() != nil {
				root = root.Parent()
			}
			held := connMuHeld(fn)
			eachInstr(fn, func(in ssa.Instruction) {
				var fa *ssa.FieldAddr
				kind := ""
				switch x := in.(type) {
				case *ssa.Store:
					fa, _ = x.Addr.(*ssa.FieldAddr)
					kind = "write"
				case *ssa.UnOp:
					fa, _ = x.X.(*ssa.FieldAddr)
					kind = "read"
				}
				if fa == nil {
					return
				}
				own := ownerOf(fa)
				if own == nil || own.Name() != "transport" || own.Pkg() == nil || !strings.HasSuffix(own.Pkg().Path(), "/"+pkg) {
					return
				}
				fname := fieldOf(fa).Name()
				s := stats[fname]
				if held[in] {
					s[0]++
				} else {
					s[1]++
				}
				stats[fname] = s
				if !guarded[fname] {
					return
				}
				n++
				r.Analysed(w.FnName(fn))
				r.Check(held[in], rule, fmt.Sprintf("%s: %s of t.%s under connMu", w.FnName(fn), kind, fname), in.Pos(), "inside a connMu.Lock/RLock … Unlock region", "this "+kind+" of a per-generation handle happens without connMu: it races with Stop / Start / the accept goroutine, which update the handles together under that lock")
			})
		}
		if debug {
			var names []string
			for f := range stats {
				names = append(names, f)
			}
			sort.Strings(names)
			for _, f := range names {
				fmt.Printf("  guarded-by stats %s.transport.%s: under connMu %d, outside %d\n", pkg, f, stats[f][0], stats[f][1])
			}
		}
	}
	r.Floor(rule, "accesses of guarded transport fields", n, 20)
}

// ---- startGate-guarded state and calls into the core under connMu ----

func init() {
	registry["C10"].Rules = append(registry["C10"].Rules,
		Rule{Name: "C10-R17-seal-under-startGate", Doc: "the transports' Stop seal (the stopping flag) is read and written only while startGate is held: a bring-up that holds the read side sees the seal either before Stop set it or after, never in between — the ordering the Add-before-Wait argument of Close rests on", Run: c10SealUnderGate},
		Rule{Name: "C10-R18-no-core-call-under-connMu", Doc: "no call into the core runtime (rt.…) is made while a transport's connMu is held: connMu is a short critical section around the handle fields, and the core takes its own locks and may call back into the transport", Run: c10NoCoreCallUnderConnMu})
}

func c10SealUnderGate(r *Run) {
	const rule = "C10-R17-seal-under-startGate"
	w := r.W
	n := 0
	for _, pkg := range []string{"hsmsss", "secs1"} {
		fStop := w.Field(pkg, "transport", "stopping")
		for _, fn := range w.FnsInPkg(pkg) {
			if !w.IsProd(fn) || fn.Name() == "newTransport" {
				continue
			}
			held := mutexHeld(fn, "startGate")
			eachInstr(fn, func(in ssa.Instruction) {
				var addr ssa.Value
				kind := ""
				switch x := in.(type) {
				case *ssa.Store:
					addr, kind = x.Addr, "write"
				case *ssa.UnOp:
					addr, kind = x.X, "read"
				}
				if addr == nil || !isFieldRef(addr, fStop) {
					return
				}
				n++
				r.Analysed(w.FnName(fn))
				r.Check(held[in], rule, fmt.Sprintf("%s: %s of t.stopping under startGate", w.FnName(fn), kind), in.Pos(), "inside a startGate Lock/RLock region", "the seal is "+kind+" outside startGate: a bring-up can pass its seal check and register goroutines while Stop is already past its joins")
			})
		}
	}
	r.Floor(rule, "accesses of the stopping flag", n, 6)
}

func c10NoCoreCallUnderConnMu(r *Run) {
	const rule = "C10-R18-no-core-call-under-connMu"
	w := r.W
	n, nHeld := 0, 0
	for _, pkg := range []string{"hsmsss", "secs1"} {
		fRT := w.Field(pkg, "transport", "rt")
		for _, fn := range w.FnsInPkg(pkg) {
			if !w.IsProd(fn) {
				continue
			}
			held := connMuHeld(fn)
			if len(held) > 0 {
				nHeld++
			}
			eachInstr(fn, func(in ssa.Instruction) {
				c, ok := in.(ssa.CallInstruction)
				if !ok || !c.Common().IsInvoke() {
					return
				}
				ld, ok := c.Common().Value.(*ssa.UnOp)
				if !ok || !isFieldRef(ld.X, fRT) {
					return
				}
				n++
				r.Check(!held[in], rule, fmt.Sprintf("%s: rt.%s outside connMu", w.FnName(fn), c.Common().Method.Name()), in.Pos(), "connMu not held", "the core is called while connMu is held: the core takes its own locks and calls back into the transport (Stop, Write), which need connMu")
			})
		}
	}
	r.Floor(rule, "calls into the core runtime", n, 20)
	r.Floor(rule, "functions with a connMu section", nHeld, 6)
}
