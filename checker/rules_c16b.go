package main

// C16-R8 (the clamp bounds are the E5 ranges for every element width), C16-R9 (clampF4 lets
// NaN and ±Inf through), C16-R10 (every accepted scalar argument contributes exactly one
// element).

import (
	"fmt"
	"go/constant"
	"go/token"
	"go/types"
	"math/big"
	"strings"

	"golang.org/x/tools/go/ssa"
)

func init() {
	registry["C16"].Rules = append(registry["C16"].Rules,
		Rule{Name: "C16-R8-bounds-table", Doc: "for every element width k ∈ {1,2,4,8} the bounds handed to clampInt64 are −2^(8k−1) and 2^(8k−1)−1 and the bound handed to clampUint64 is 2^(8k)−1, at every call site (the bound expressions are evaluated for each k, following the branches that k decides, through the callers where they are parameters)", Run: c16BoundsTable},
		Rule{Name: "C16-R9-clampF4-nonfinite", Doc: "clampF4 returns NaN and ±Inf unchanged: every path on which IsNaN or IsInf was found true returns the argument itself (±Inf is representable in an F4 item and must not be turned into ±MaxFloat32)", Run: c16ClampF4NonFinite},
		Rule{Name: "C16-R10-one-element-per-scalar", Doc: "in the combine*Values loops every accepted scalar argument appends exactly one element to the item's values and every rejected one returns an error: no accepted argument is dropped or doubled, so the values come out in the order and number supplied", Run: c16OnePerScalar})
}

func init() {
	registry["C16"].Rules = append(registry["C16"].Rules,
		Rule{Name: "C16-R11-int-to-float-exact", Doc: "a 64-bit integer argument becomes a float element only when |v| ≤ 2^53 was established (every such integer is exactly representable), and ±2^53 themselves are still accepted: an integer outside that range yields an error instead of a silently rounded value", Run: c16IntToFloatExact})
}

func init() {
	registry["C16"].Rules = append(registry["C16"].Rules,
		Rule{Name: "C16-R13-numeric-string-errors", Doc: "a numeric string that does not parse yields an error and stores nothing unless the parse error is strconv's range error — only then is the (saturated) parse result clamped and stored: garbage text is never turned into a bound, and an out-of-range literal is clamped like any other out-of-range argument", Run: c16NumericStringErrors})
}

func c16NumericStringErrors(r *Run) {
	const rule = "C16-R13-numeric-string-errors"
	w := r.W
	n := 0
	for _, name := range []string{"IntItem.combineIntValuesSlow", "UintItem.combineUintValuesSlow"} {
		fn := w.Fn("secs2", name)
		r.Analysed(w.FnName(fn))
		paths, ok := enumPaths(fn, 50000)
		if !ok {
			r.Undecided(rule, name+" paths", fn.Pos(), "too many")
			continue
		}
		for _, p := range paths {
			ret, isRet := p.Exit.(*ssa.Return)
			if !isRet {
				continue
			}
			var parse *ssa.Call
			nParse := 0
			for _, in := range p.Instrs() {
				if c, ok := in.(*ssa.Call); ok {
					if g := calleeOf(c).Static; g != nil && fnPkgPath(g) == "strconv" && strings.HasPrefix(g.Name(), "Parse") {
						parse = c
						nParse++
					}
				}
			}
			if parse == nil || nParse != 1 {
				continue
			}
			errNonNil, asOK, isRange := 0, 0, 0
			for _, f := range p.Conds {
				if x, eq, ok := isNilCmp(f.Cond); ok {
					if ex, ok := x.(*ssa.Extract); ok && ex.Tuple == ssa.Value(parse) && ex.Index == 1 {
						if eq != f.Val {
							errNonNil = 1
						} else {
							errNonNil = -1
						}
					}
				}
				if c, ok := f.Cond.(*ssa.Call); ok {
					if g := calleeOf(c).Static; g != nil && fnPkgPath(g) == "errors" {
						v := -1
						if f.Val {
							v = 1
						}
						switch g.Name() {
						case "As":
							asOK = v
						case "Is":
							// the target must be strconv.ErrRange
							if strings.Contains(render(c.Call.Args[1]), "ErrRange") {
								isRange = v
							} else {
								isRange = -2
							}
						}
					}
				}
			}
			// what happens after the parse
			appends := 0
			after := false
			for _, in := range p.Instrs() {
				if in == ssa.Instruction(parse) {
					after = true
				}
				if !after {
					continue
				}
				if st, ok := in.(*ssa.Store); ok {
					if c, ok := st.Val.(*ssa.Call); ok && calleeOf(c).Builtin == "append" {
						appends++
					}
				}
			}
			failed := len(ret.Results) > 0 && !isNilConst(p.Resolve(ret.Results[len(ret.Results)-1]))
			n++
			construct := fmt.Sprintf("%s: numeric string [%s]", name, shortCond(p))
			switch {
			case errNonNil == -1:
				r.Check(appends == 1 && !failed, rule, construct+": parsed → one element", ret.Pos(), "stored", fmt.Sprintf("a string that parsed must contribute exactly one element (appends=%d, error=%v)", appends, failed))
			case errNonNil == 1 && asOK == 1 && isRange == 1:
				r.Check(appends == 1 && !failed, rule, construct+": out of range → clamped and stored", ret.Pos(), "stored", fmt.Sprintf("an out-of-range literal must be clamped like any other out-of-range argument (appends=%d, error=%v)", appends, failed))
			case errNonNil == 1:
				r.Check(appends == 0 && failed, rule, construct+": unparsable → error, nothing stored", ret.Pos(), "error", fmt.Sprintf("a parse failure that is not strconv's range error must be reported and store nothing (errors.As=%d errors.Is(ErrRange)=%d appends=%d error=%v)", asOK, isRange, appends, failed))
			default:
				r.Fail(rule, construct, ret.Pos(), "the outcome of the parse is not decided before its result is used")
			}
		}
	}
	r.Floor(rule, "numeric-string paths", n, 6)
}

func c16IntToFloatExact(r *Run) {
	const rule = "C16-R11-int-to-float-exact"
	w := r.W
	n := 0
	for _, name := range []string{"FloatItem.combineFloatValues", "FloatItem.combineFloatValuesSlow"} {
		fn := w.Fn("secs2", name)
		r.Analysed(w.FnName(fn))
		e := newBndEngine(w, "c16-i2f-"+name, []*ssa.Function{fn}, nil)
		e.entries[fn] = true
		e.run()
		if len(e.ctxs[fn]) == 0 {
			r.Undecided(rule, name+" analysed", fn.Pos(), "no context")
			continue
		}
		c := e.ctxs[fn][0]
		eachInstr(fn, func(in ssa.Instruction) {
			cv, ok := in.(*ssa.Convert)
			if !ok || !isIntType(cv.X.Type()) || typeBits(cv.X.Type()) < 64 {
				return
			}
			if b, ok := cv.Type().Underlying().(*types.Basic); !ok || b.Info()&types.IsFloat == 0 {
				return
			}
			if sb, ok := cv.X.Type().Underlying().(*types.Basic); ok && e.is32() && (sb.Kind() == types.Int || sb.Kind() == types.Uint || sb.Kind() == types.Uintptr) {
				return // int is 32 bits wide on this target: every value is exactly representable
			}
			n++
			v := c.lin(cv.X)
			b, idx := cv.Block(), blockIndexOf(cv)
			what := shortRender(cv.X) + " in " + name
			lim := int64(1) << 53
			lo := -lim
			if isUnsigned(cv.X.Type()) {
				lo = 0
			}
			q1, ok1 := leq(linConst(lo), v, "")
			q2, ok2 := leq(v, linConst(lim), "")
			r.Check(ok1 && c.proveAt(b, idx, q1), rule, fmt.Sprintf("converted to float only when ≥ %d: %s", lo, what), cv.Pos(), "lower bound established", "an integer below −2^53 would be rounded silently")
			r.Check(ok2 && c.proveAt(b, idx, q2), rule, "converted to float only when ≤ 2^53: "+what, cv.Pos(), "upper bound established", "an integer above 2^53 would be rounded silently")
			for _, edge := range []int64{lo, lim} {
				qa, _ := leq(v, linConst(edge), "")
				qb, _ := leq(linConst(edge), v, "")
				fs := c.factsAt(b, idx)
				fs.ineqs = append(fs.ineqs, qa, qb)
				r.Check(!c.entailsSat(fs, Ineq{linConst(1), ""}), rule, fmt.Sprintf("the value %d is still accepted: %s", edge, what), cv.Pos(), "boundary value reachable", fmt.Sprintf("the guards refuse %d, which is exactly representable", edge))
			}
		})
	}
	r.Floor(rule, "64-bit integer → float conversions", n, 4)
}

// kEval evaluates integer SSA expressions that depend only on the element width.
type kEval struct {
	fn    *ssa.Function
	k     int64
	facts map[*ssa.BasicBlock][]Fact
	depth int
}

func wrapTo(x *big.Int, t types.Type) *big.Int {
	b, ok := t.Underlying().(*types.Basic)
	if !ok || b.Info()&types.IsInteger == 0 {
		return x
	}
	bits := uint(typeBits(t))
	if bits == 0 {
		return x
	}
	mod := new(big.Int).Lsh(big.NewInt(1), bits)
	r := new(big.Int).Mod(x, mod)
	if b.Info()&types.IsUnsigned == 0 {
		half := new(big.Int).Lsh(big.NewInt(1), bits-1)
		if r.Cmp(half) >= 0 {
			r.Sub(r, mod)
		}
	}
	return r
}

func (e *kEval) isWidth(v ssa.Value) bool {
	v = stripConv(v)
	if p, ok := v.(*ssa.Parameter); ok {
		return strings.Contains(strings.ToLower(p.Name()), "bytesize")
	}
	if u, ok := v.(*ssa.UnOp); ok && u.Op == token.MUL {
		if fa, ok := u.X.(*ssa.FieldAddr); ok {
			return fieldOf(fa).Name() == "byteSize"
		}
	}
	return false
}

func (e *kEval) eval(v ssa.Value) (*big.Int, bool) {
	e.depth++
	defer func() { e.depth-- }()
	if e.depth > 40 {
		return nil, false
	}
	if e.isWidth(v) {
		return wrapTo(big.NewInt(e.k), v.Type()), true
	}
	switch x := v.(type) {
	case *ssa.Const:
		if x.Value == nil || x.Value.Kind() != constant.Int {
			return nil, false
		}
		bi, ok := new(big.Int).SetString(x.Value.ExactString(), 10)
		return bi, ok
	case *ssa.Convert:
		a, ok := e.eval(x.X)
		if !ok {
			return nil, false
		}
		return wrapTo(a, x.Type()), true
	case *ssa.ChangeType:
		return e.eval(x.X)
	case *ssa.UnOp:
		if x.Op == token.SUB {
			a, ok := e.eval(x.X)
			if !ok {
				return nil, false
			}
			return wrapTo(new(big.Int).Neg(a), x.Type()), true
		}
		return nil, false
	case *ssa.BinOp:
		a, ok1 := e.eval(x.X)
		b, ok2 := e.eval(x.Y)
		if !ok1 || !ok2 {
			return nil, false
		}
		r := new(big.Int)
		switch x.Op {
		case token.ADD:
			r.Add(a, b)
		case token.SUB:
			r.Sub(a, b)
		case token.MUL:
			r.Mul(a, b)
		case token.SHL:
			if b.Sign() < 0 || b.Cmp(big.NewInt(200)) > 0 {
				return nil, false
			}
			r.Lsh(a, uint(b.Int64()))
		case token.SHR:
			if b.Sign() < 0 || b.Cmp(big.NewInt(200)) > 0 {
				return nil, false
			}
			r.Rsh(a, uint(b.Int64()))
		default:
			return nil, false
		}
		return wrapTo(r, x.Type()), true
	case *ssa.Phi:
		var val *big.Int
		for i, edge := range x.Edges {
			if !e.edgeFeasible(x.Block().Preds[i], x.Block()) {
				continue
			}
			a, ok := e.eval(edge)
			if !ok {
				return nil, false
			}
			if val != nil && val.Cmp(a) != 0 {
				return nil, false // two feasible edges disagree: not a function of the width
			}
			val = a
		}
		return val, val != nil
	}
	return nil, false
}

// condTruth evaluates a comparison that depends only on the width.
func (e *kEval) condTruth(c ssa.Value) (bool, bool) {
	b, ok := c.(*ssa.BinOp)
	if !ok {
		return false, false
	}
	x, ok1 := e.eval(b.X)
	y, ok2 := e.eval(b.Y)
	if !ok1 || !ok2 {
		return false, false
	}
	cmp := x.Cmp(y)
	switch b.Op {
	case token.EQL:
		return cmp == 0, true
	case token.NEQ:
		return cmp != 0, true
	case token.LSS:
		return cmp < 0, true
	case token.LEQ:
		return cmp <= 0, true
	case token.GTR:
		return cmp > 0, true
	case token.GEQ:
		return cmp >= 0, true
	}
	return false, false
}

func (e *kEval) edgeFeasible(p, s *ssa.BasicBlock) bool {
	check := func(f Fact) bool {
		if t, ok := e.condTruth(f.Cond); ok && t != f.Val {
			return false
		}
		return true
	}
	for _, f := range e.facts[p] {
		if !check(f) {
			return false
		}
	}
	if iff, ok := p.Instrs[len(p.Instrs)-1].(*ssa.If); ok && p.Succs[0] != p.Succs[1] {
		if !check(normFact(iff.Cond, s == p.Succs[0])) {
			return false
		}
	}
	return true
}

func c16BoundsTable(r *Run) {
	const rule = "C16-R8-bounds-table"
	w := r.W
	ci, cu := w.Fn("secs2", "clampInt64"), w.Fn("secs2", "clampUint64")
	want := func(signed bool, which string, k int64) *big.Int {
		bits := uint(8 * k)
		one := big.NewInt(1)
		switch {
		case signed && which == "min":
			return new(big.Int).Neg(new(big.Int).Lsh(one, bits-1))
		case signed:
			return new(big.Int).Sub(new(big.Int).Lsh(one, bits-1), one)
		default:
			return new(big.Int).Sub(new(big.Int).Lsh(one, bits), one)
		}
	}
	type site struct {
		fn    *ssa.Function
		v     ssa.Value
		which string
		sign  bool
		pos   token.Pos
	}
	var sites []site
	seen := map[string]bool{}
	var addSite func(fn *ssa.Function, v ssa.Value, which string, signed bool, pos token.Pos, depth int)
	addSite = func(fn *ssa.Function, v ssa.Value, which string, signed bool, pos token.Pos, depth int) {
		if p, ok := v.(*ssa.Parameter); ok && depth < 3 {
			// a bound received as a parameter: decided at the callers
			idx := -1
			for i, q := range fn.Params {
				if q == p {
					idx = i
				}
			}
			n := 0
			for _, u := range w.usesOf(fn) {
				c, ok := u.Instr.(ssa.CallInstruction)
				if !ok || !w.IsProd(u.Fn) || idx < 0 || idx >= len(c.Common().Args) {
					continue
				}
				n++
				addSite(u.Fn, c.Common().Args[idx], which, signed, c.Pos(), depth+1)
			}
			if n == 0 {
				r.Fail(rule, fmt.Sprintf("%s: %s bound parameter has a caller", w.FnName(fn), which), pos, "the bound arrives as a parameter of a function nobody calls")
			}
			return
		}
		key := fmt.Sprintf("%p/%s/%s", v, which, w.FnName(fn))
		if seen[key] {
			return
		}
		seen[key] = true
		sites = append(sites, site{fn, v, which, signed, pos})
	}
	for _, fn := range w.FnsInPkg("secs2") {
		if !w.IsProd(fn) {
			continue
		}
		for _, c := range callsIn(fn, func(cl Callee) bool { return cl.Static == ci || cl.Static == cu }) {
			a := c.Common().Args
			if calleeOf(c).Static == ci {
				addSite(fn, a[1], "min", true, c.Pos(), 0)
				addSite(fn, a[2], "max", true, c.Pos(), 0)
			} else {
				addSite(fn, a[1], "max", false, c.Pos(), 0)
			}
		}
	}
	for _, s := range sites {
		r.Analysed(w.FnName(s.fn))
		facts := bndMustFacts(s.fn)
		for _, k := range []int64{1, 2, 4, 8} {
			e := &kEval{fn: s.fn, k: k, facts: facts}
			got, ok := e.eval(s.v)
			kind := map[bool]string{true: "signed", false: "unsigned"}[s.sign]
			construct := fmt.Sprintf("%s: %s %s bound for width %d (%s)", w.FnName(s.fn), kind, s.which, k, shortRender(s.v))
			if !ok {
				r.Undecided(rule, construct, s.pos, "the bound is not a function of the element width alone")
				continue
			}
			// compare as the clamp's parameter type sees it
			exp := want(s.sign, s.which, k)
			r.Check(got.Cmp(exp) == 0, rule, construct, s.pos, exp.String(), fmt.Sprintf("the bound must be %s, the code computes %s: values would be clamped to the wrong range", exp, got))
		}
	}
	r.Floor(rule, "distinct clamp bound expressions", len(sites), 4)
}

func c16ClampF4NonFinite(r *Run) {
	const rule = "C16-R9-clampF4-nonfinite"
	w := r.W
	cf := w.Fn("secs2", "clampF4")
	r.Analysed(w.FnName(cf))
	paths, ok := enumPaths(cf, 200)
	if !ok {
		r.Undecided(rule, "clampF4 paths", cf.Pos(), "too many")
		return
	}
	seen := map[string]bool{}
	for _, p := range paths {
		for _, f := range p.Conds {
			c, ok := f.Cond.(*ssa.Call)
			if !ok || !f.Val {
				continue
			}
			g := calleeOf(c).Static
			if g == nil || fnPkgPath(g) != "math" || (g.Name() != "IsNaN" && g.Name() != "IsInf") || stripConv(c.Call.Args[0]) != ssa.Value(cf.Params[0]) {
				continue
			}
			seen[g.Name()] = true
			ret := p.Rets()[0]
			r.Check(ret == ssa.Value(cf.Params[0]), rule, fmt.Sprintf("clampF4 passes the argument through when %s is true [%s]", g.Name(), shortCond(p)), p.Exit.Pos(), "returns v", "a non-finite value must come back unchanged, this path returns "+render(ret))
		}
	}
	r.Check(seen["IsNaN"], rule, "clampF4 tests IsNaN on its own", cf.Pos(), "a path with IsNaN true", "no path is taken on IsNaN alone: NaN would reach the ordered comparisons only by accident")
	r.Check(seen["IsInf"], rule, "clampF4 tests IsInf on its own", cf.Pos(), "a path with IsInf true", "no path is taken on IsInf alone: ±Inf would be clamped to ±MaxFloat32")
}

func c16OnePerScalar(r *Run) {
	const rule = "C16-R10-one-element-per-scalar"
	w := r.W
	n := 0
	for _, name := range []string{"IntItem.combineIntValues", "IntItem.combineIntValuesSlow", "UintItem.combineUintValues", "UintItem.combineUintValuesSlow", "FloatItem.combineFloatValues", "FloatItem.combineFloatValuesSlow", "BinaryItem.combineBinaryValues", "BooleanItem.combineBoolValues"} {
		fn := w.Fn("secs2", name)
		if fn == nil {
			continue
		}
		r.Analysed(w.FnName(fn))
		var fValues *types.Var
		if recv := fn.Signature.Recv(); recv != nil {
			if st, ok := derefType(recv.Type()).Underlying().(*types.Struct); ok {
				for i := 0; i < st.NumFields(); i++ {
					if st.Field(i).Name() == "values" {
						fValues = st.Field(i)
					}
				}
			}
		}
		if fValues == nil {
			r.Undecided(rule, name+": values field", fn.Pos(), "not found")
			continue
		}
		paths, ok := enumPaths(fn, 50000)
		if !ok {
			r.Undecided(rule, name+" paths", fn.Pos(), "too many")
			continue
		}
		for _, p := range paths {
			if _, isRet := p.Exit.(*ssa.Return); !isRet {
				continue
			}
			// the scalar arm taken on this path: a successful type assertion to a non-slice type
			var scalarT types.Type
			nAssert := 0
			for _, f := range p.Conds {
				ex, ok := f.Cond.(*ssa.Extract)
				if !ok || ex.Index != 1 || !f.Val {
					continue
				}
				ta, ok := ex.Tuple.(*ssa.TypeAssert)
				if !ok {
					continue
				}
				nAssert++
				if _, isSlice := ta.AssertedType.Underlying().(*types.Slice); !isSlice {
					scalarT = ta.AssertedType
				}
			}
			if scalarT == nil || nAssert != 1 {
				continue // no argument processed, a slice arm, or more than one argument on this path
			}
			rets := p.Rets()
			failed := len(rets) > 0 && !isNilConst(rets[len(rets)-1])
			appends := 0
			for _, in := range p.Instrs() {
				st, ok := in.(*ssa.Store)
				if !ok {
					continue
				}
				fa, ok := st.Addr.(*ssa.FieldAddr)
				if !ok || !sameVar(fieldOf(fa), fValues) {
					continue
				}
				if c, ok := st.Val.(*ssa.Call); ok && calleeOf(c).Builtin == "append" {
					appends++
				}
			}
			n++
			construct := fmt.Sprintf("%s: one %s argument [%s]", name, typeShort(scalarT), shortCond(p))
			if failed {
				r.Check(appends == 0, rule, construct+" refused", p.Exit.Pos(), "error, nothing stored", fmt.Sprintf("a refused argument still stored %d element(s)", appends))
			} else {
				r.Check(appends == 1, rule, construct+" accepted", p.Exit.Pos(), "exactly one element appended", fmt.Sprintf("an accepted scalar argument must contribute exactly one element, this path appends %d", appends))
			}
		}
	}
	r.Floor(rule, "single-scalar-argument paths through the combine functions", n, 30)
}
