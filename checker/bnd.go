package main

// BND — bounds / allocation-size / divisor obligations over a fragment of functions,
// decided by linear integer arithmetic (linarith.go) over SSA values, with contracts
// (pre/postconditions, loop-phi and struct-field invariants) inferred by the Houdini
// scheme: every candidate drawn from a fixed template family is assumed, every candidate
// that cannot be re-established everywhere it has to hold is dropped, and the analysis
// repeats until the surviving set is inductive. Obligations are then discharged against
// the surviving contracts. Nothing is executed.
//
// Soundness notes (trusted base): machine integers are treated as mathematical integers
// for + − and multiplication by constants on values that are lengths/offsets (the
// fragments analysed bound them by buffer sizes < 2^31); conversions are value-preserving
// only when the source range fits the destination type for the configured GOARCH.

import (
	"fmt"
	"go/constant"
	"go/token"
	"go/types"
	"sort"

	"golang.org/x/tools/go/ssa"
)

// ---------- per-function context ----------

type fnCtx struct {
	e    *bndEngine
	fn   *ssa.Function
	env  map[ssa.Value]int64 // constant specialisation of parameters
	envS string              // rendered env ("" when none)

	ids     map[ssa.Value]string
	linMemo map[ssa.Value]Lin
	lenMemo map[ssa.Value]Lin
	defs    []Ineq     // definitional facts (hold wherever the value is defined)
	lemmas  []lemma    // conditional definitional facts
	splits  [][][]Ineq // case splits: one of the alternatives (each a conjunction) holds
	defSeen map[string]bool

	facts map[*ssa.BasicBlock][]Fact // branch must-facts at block entry (kill-aware)

	// tracked struct (receiver) field versions
	recv      *ssa.Parameter
	tracked   *trackedStruct
	verIn     map[*ssa.BasicBlock]map[int]string // field index -> version id at block entry
	verAt     map[ssa.Instruction]map[int]string // state just BEFORE the instruction (only for instrs that matter)
	verAfter  map[ssa.Instruction]map[int]string
	storeVers map[string]ssa.Value // version id created by a store -> stored value

	verOut   map[*ssa.BasicBlock]map[int]string
	unstable map[int]bool

	domMemo    map[*ssa.BasicBlock][]*ssa.BasicBlock
	blockCands map[*ssa.BasicBlock][]*cand
	rev        map[string]ssa.Value
}

type lemma struct {
	cond []Ineq // all must be entailed
	then []Ineq
	key  string
}

// trackedStruct describes a struct type whose receiver-field loads are versioned and for
// which invariant candidates are inferred.
type trackedStruct struct {
	named  *types.Named
	fields []*types.Var // by index
}

func (c *fnCtx) id(v ssa.Value) string {
	if s, ok := c.ids[v]; ok {
		return s
	}
	var s string
	switch x := v.(type) {
	case *ssa.Parameter:
		s = "$" + x.Name()
	case *ssa.FreeVar:
		s = "^" + x.Name()
	default:
		s = v.Name()
		if s == "" {
			s = fmt.Sprintf("v%d", len(c.ids))
		}
	}
	// disambiguate
	for used := true; used; {
		used = false
		for _, o := range c.ids {
			if o == s {
				s += "'"
				used = true
				break
			}
		}
	}
	c.ids[v] = s
	if c.rev == nil {
		c.rev = map[string]ssa.Value{}
	}
	c.rev[s] = v
	return s
}

func (c *fnCtx) addDef(q Ineq, ok bool) {
	if !ok {
		return
	}
	k := q.L.String()
	if c.defSeen[k] {
		return
	}
	c.defSeen[k] = true
	c.defs = append(c.defs, q)
}

func (c *fnCtx) intSize() int {
	if c.e.w.GOARCH == "386" || c.e.w.GOARCH == "arm" {
		return 32
	}
	return 64
}

// typeRange returns the value range of an integer type (ok=false when unbounded for our
// purposes: 64-bit types).
func (c *fnCtx) typeRange(t types.Type) (lo, hi int64, okLo, okHi bool) {
	b, ok := t.Underlying().(*types.Basic)
	if !ok || b.Info()&types.IsInteger == 0 {
		return 0, 0, false, false
	}
	bitsN := 0
	uns := b.Info()&types.IsUnsigned != 0
	switch b.Kind() {
	case types.Int8, types.Uint8:
		bitsN = 8
	case types.Int16, types.Uint16:
		bitsN = 16
	case types.Int32, types.Uint32:
		bitsN = 32
	case types.Int64, types.Uint64:
		bitsN = 64
	case types.Int, types.Uint, types.Uintptr:
		bitsN = c.intSize()
	case types.UntypedInt, types.UntypedRune:
		return 0, 0, false, false
	}
	if uns {
		if bitsN >= 63 {
			return 0, 0, true, false
		}
		return 0, int64(1)<<uint(bitsN) - 1, true, true
	}
	if bitsN >= 63 {
		return 0, 0, false, false
	}
	return -(int64(1) << uint(bitsN-1)), int64(1)<<uint(bitsN-1) - 1, true, true
}

type ival struct {
	lo, hi     int64
	okLo, okHi bool
}

func (c *fnCtx) ival(v ssa.Value) ival { return c.ivalD(v, 0, map[ssa.Value]bool{}) }

func (c *fnCtx) ivalD(v ssa.Value, d int, seen map[ssa.Value]bool) ival {
	tr := func() ival {
		lo, hi, a, b := c.typeRange(v.Type())
		return ival{lo, hi, a, b}
	}
	if d > 12 || seen[v] {
		return tr()
	}
	if k, ok := c.env[v]; ok {
		return ival{k, k, true, true}
	}
	meet := func(a, b ival) ival { // intersection
		r := a
		if b.okLo && (!r.okLo || b.lo > r.lo) {
			r.lo, r.okLo = b.lo, true
		}
		if b.okHi && (!r.okHi || b.hi < r.hi) {
			r.hi, r.okHi = b.hi, true
		}
		return r
	}
	switch x := v.(type) {
	case *ssa.Const:
		if k, ok := constInt(x); ok {
			return ival{k, k, true, true}
		}
	case *ssa.Convert:
		src := c.ivalD(x.X, d+1, seen)
		dst := tr()
		if _, isInt := x.X.Type().Underlying().(*types.Basic); isInt && c.fits(src, dst) {
			return meet(src, dst)
		}
		return dst
	case *ssa.ChangeType:
		return c.ivalD(x.X, d+1, seen)
	case *ssa.BinOp:
		a := c.ivalD(x.X, d+1, seen)
		b := c.ivalD(x.Y, d+1, seen)
		t := tr()
		switch x.Op {
		case token.AND:
			r := t
			if b.okLo && b.okHi && b.lo == b.hi && b.lo >= 0 {
				r = meet(r, ival{0, b.lo, true, true})
			}
			if a.okLo && a.okHi && a.lo == a.hi && a.lo >= 0 {
				r = meet(r, ival{0, a.lo, true, true})
			}
			if a.okLo && a.lo >= 0 && a.okHi {
				r = meet(r, ival{0, a.hi, true, true})
			}
			return r
		case token.SHR:
			if a.okLo && a.lo >= 0 {
				r := ival{0, 0, true, false}
				if a.okHi {
					r.hi, r.okHi = a.hi, true
					if b.okLo && b.lo >= 0 && b.lo < 62 {
						r.hi = a.hi >> uint(b.lo)
					}
				}
				return meet(r, t)
			}
		case token.SHL:
			if a.okLo && a.lo >= 0 && a.okHi && b.okLo && b.okHi && b.lo == b.hi && b.lo >= 0 && b.lo < 40 && a.hi < 1<<20 {
				return meet(ival{a.lo << uint(b.lo), a.hi << uint(b.lo), true, true}, t)
			}
		case token.OR, token.XOR:
			if a.okLo && a.lo >= 0 && b.okLo && b.lo >= 0 {
				r := ival{0, 0, true, false}
				if a.okHi && b.okHi && a.hi < 1<<40 && b.hi < 1<<40 {
					r.hi, r.okHi = a.hi+b.hi, true
				}
				return meet(r, t)
			}
		case token.ADD:
			r := ival{}
			if a.okLo && b.okLo && abs64(a.lo) < 1<<40 && abs64(b.lo) < 1<<40 {
				r.lo, r.okLo = a.lo+b.lo, true
			}
			if a.okHi && b.okHi && abs64(a.hi) < 1<<40 && abs64(b.hi) < 1<<40 {
				r.hi, r.okHi = a.hi+b.hi, true
			}
			// only trust when the sum fits the type (no wrap)
			if c.fits(r, t) {
				return r
			}
		case token.REM:
			if b.okLo && b.lo > 0 && b.okHi && a.okLo && a.lo >= 0 {
				return ival{0, b.hi - 1, true, true}
			}
		case token.QUO:
			if b.okLo && b.lo > 0 && a.okLo && a.lo >= 0 {
				r := ival{0, 0, true, false}
				if a.okHi {
					r.hi, r.okHi = a.hi, true
				}
				return r
			}
		}
		return t
	case *ssa.Phi:
		seen[x] = true
		defer delete(seen, x)
		var r ival
		for i, e := range x.Edges {
			iv := c.ivalD(e, d+1, seen)
			if i == 0 {
				r = iv
				continue
			}
			if !(r.okLo && iv.okLo) {
				r.okLo = false
			} else if iv.lo < r.lo {
				r.lo = iv.lo
			}
			if !(r.okHi && iv.okHi) {
				r.okHi = false
			} else if iv.hi > r.hi {
				r.hi = iv.hi
			}
		}
		return meet(r, tr())
	case *ssa.Call:
		if calleeOf(x).Builtin == "len" || calleeOf(x).Builtin == "cap" {
			return ival{0, 0, true, false}
		}
	}
	return tr()
}

// fits: every value of a is inside b.
func (c *fnCtx) fits(a, b ival) bool {
	if b.okLo && !(a.okLo && a.lo >= b.lo) {
		return false
	}
	if b.okHi && !(a.okHi && a.hi <= b.hi) {
		return false
	}
	return true
}

func isIntType(t types.Type) bool {
	b, ok := t.Underlying().(*types.Basic)
	return ok && b.Info()&types.IsInteger != 0
}

// atom returns the opaque atom for an integer value, adding its range facts.
func (c *fnCtx) atom(v ssa.Value) Lin {
	a := c.id(v)
	iv := c.ival(v)
	if iv.okLo && abs64(iv.lo) < 1<<61 {
		c.addDef(leq(linConst(iv.lo), linAtom(a), "range of "+a))
	}
	if iv.okHi && abs64(iv.hi) < 1<<61 {
		c.addDef(leq(linAtom(a), linConst(iv.hi), "range of "+a))
	}
	return linAtom(a)
}

// lin linearises an integer-typed SSA value.
func (c *fnCtx) lin(v ssa.Value) Lin {
	if l, ok := c.linMemo[v]; ok {
		return l
	}
	// placeholder guards against cycles through phis
	c.linMemo[v] = linAtom(c.id(v))
	l := c.lin0(v)
	c.linMemo[v] = l
	return l
}

func (c *fnCtx) lin0(v ssa.Value) Lin {
	if k, ok := c.env[v]; ok {
		return linConst(k)
	}
	switch x := v.(type) {
	case *ssa.Const:
		if k, ok := constInt(x); ok {
			return linConst(k)
		}
		if x.Value != nil && x.Value.Kind() == constant.Int {
			return c.atom(v)
		}
		return linConst(0)
	case *ssa.ChangeType:
		return c.lin(x.X)
	case *ssa.Convert:
		if isIntType(x.X.Type()) && isIntType(x.Type()) {
			src := c.ival(x.X)
			lo, hi, a, b := c.typeRange(x.Type())
			if c.fits(src, ival{lo, hi, a, b}) {
				return c.lin(x.X)
			}
			// not known to fit from the types alone: the conversion preserves the value wherever
			// the guards in force bound the operand by the destination type's range
			r := c.atom(v)
			sl := c.lin(x.X)
			var conds []Ineq
			okAll := true
			if a {
				q, ok := leq(linConst(lo), sl, "operand ≥ min of destination type")
				okAll = okAll && ok
				conds = append(conds, q)
			}
			if b {
				q, ok := leq(sl, linConst(hi), "operand ≤ max of destination type")
				okAll = okAll && ok
				conds = append(conds, q)
			}
			if srcLo, _, okSrcLo, _ := c.typeRange(x.X.Type()); okSrcLo && srcLo == 0 && !a {
				// unsigned source into an unbounded-below destination: nothing to require below
			}
			e1, ok1 := leq(r, sl, "value-preserving conversion")
			e2, ok2 := leq(sl, r, "value-preserving conversion")
			if okAll && ok1 && ok2 && len(conds) > 0 {
				c.lemmas = append(c.lemmas, lemma{cond: conds, then: []Ineq{e1, e2}, key: "conv:" + c.id(v)})
			}
			return r
		}
		return c.atom(v)
	case *ssa.BinOp:
		switch x.Op {
		case token.ADD, token.SUB:
			a, b := c.lin(x.X), c.lin(x.Y)
			s := int64(1)
			if x.Op == token.SUB {
				s = -1
			}
			if r, ok := a.addScaled(b, s); ok && !isUnsigned(x.Type()) {
				return r
			} else if ok {
				// unsigned subtraction may wrap; addition of small values does not in our fragments:
				// accept ADD, keep SUB opaque unless provably non-negative (left to the atom range).
				if x.Op == token.ADD {
					return r
				}
			}
			return c.atom(v)
		case token.MUL:
			a, b := c.lin(x.X), c.lin(x.Y)
			if a.isConst() {
				if r, ok := b.scale(a.K); ok {
					return r
				}
			}
			if b.isConst() {
				if r, ok := a.scale(b.K); ok {
					return r
				}
			}
			r := c.atom(v)
			c.addLemmaNonneg(r, []Lin{a, b})
			return r
		case token.SHL:
			b := c.lin(x.Y)
			if b.isConst() && b.K >= 0 && b.K < 40 {
				// value-preserving only if the result fits the type
				iv := c.ival(v)
				src := c.ival(x.X)
				if src.okLo && src.okHi && src.lo >= 0 && iv.okHi && src.hi<<uint(b.K) <= iv.hi {
					if r, ok := c.lin(x.X).scale(int64(1) << uint(b.K)); ok {
						return r
					}
				}
			}
			return c.atom(v)
		case token.QUO:
			r := c.atom(v)
			a, b := c.lin(x.X), c.lin(x.Y)
			if b.isConst() && b.K == 1 {
				return a
			}
			if b.isConst() && b.K > 1 {
				// x ≥ 0 ⇒ k·q ≤ x ≤ k·q + k − 1 ∧ q ≥ 0
				kq, ok := r.scale(b.K)
				if ok {
					lo, ok1 := leq(kq, a, "k·(x/k) ≤ x")
					up, ok2 := kq.add(linConst(b.K - 1))
					hi, ok3 := leq(a, up, "x ≤ k·(x/k)+k−1")
					nn, ok4 := leq(linConst(0), r, "x/k ≥ 0")
					cond, ok5 := leq(linConst(0), a, "x ≥ 0")
					if ok1 && ok2 && ok3 && ok4 && ok5 {
						c.lemmas = append(c.lemmas, lemma{cond: []Ineq{cond}, then: []Ineq{lo, hi, nn}, key: "quo:" + c.id(v)})
					}
				}
			}
			return r
		case token.OR:
			r := c.atom(v)
			a, b := c.ival(x.X), c.ival(x.Y)
			if a.okLo && a.lo >= 0 && b.okLo && b.lo >= 0 {
				la, lb := c.lin(x.X), c.lin(x.Y)
				c.addDef(leq(la, r, "a|b ≥ a"))
				c.addDef(leq(lb, r, "a|b ≥ b"))
				if s, ok := la.add(lb); ok {
					c.addDef(leq(r, s, "a|b ≤ a+b"))
				}
			}
			return r
		case token.AND:
			r := c.atom(v)
			a := c.ival(x.X)
			if a.okLo && a.lo >= 0 {
				c.addDef(leq(r, c.lin(x.X), "a&b ≤ a"))
			}
			b := c.ival(x.Y)
			if b.okLo && b.lo >= 0 {
				c.addDef(leq(r, c.lin(x.Y), "a&b ≤ b"))
			}
			return r
		case token.SHR:
			r := c.atom(v)
			a := c.ival(x.X)
			if a.okLo && a.lo >= 0 {
				c.addDef(leq(r, c.lin(x.X), "a>>k ≤ a"))
			}
			return r
		}
		return c.atom(v)
	case *ssa.UnOp:
		switch x.Op {
		case token.SUB:
			if r, ok := c.lin(x.X).scale(-1); ok {
				return r
			}
		case token.MUL:
			if a, ok := c.fieldLoadAtom(x); ok {
				return a
			}
			if l, ok := c.roTableLoad(x); ok {
				return l
			}
			// a variable captured by a closure and never written once the closure exists: every
			// load of it inside the closure reads the same value
			if fv, ok := x.X.(*ssa.FreeVar); ok && stableCapturedCell(fv) {
				return c.atom(fv)
			}
		}
		return c.atom(v)
	case *ssa.Call:
		cal := calleeOf(x)
		if cal.Method != nil && len(x.Call.Args) == 0 {
			// contract of the module's own length-reporting interface methods (wire.Body.Len,
			// Item.EncodedLen, Item.Size): a length is never negative (trusted base, DESIGN.md §6)
			switch cal.Method.Name() {
			case "Len", "EncodedLen", "Size":
				if isIntType(x.Type()) {
					r := c.atom(v)
					c.addDef(leq(linConst(0), r, cal.Method.Name()+"() ≥ 0"))
					return r
				}
			}
		}
		switch cal.Builtin {
		case "len":
			return c.linLen(x.Call.Args[0])
		case "cap":
			r := c.atom(v)
			c.addDef(leq(c.linLen(x.Call.Args[0]), r, "cap ≥ len"))
			return r
		case "min", "max":
			r := c.atom(v)
			allNonneg := true
			// the result equals one of the arguments: remembered as a case split
			var alts [][]Ineq
			for _, a := range x.Call.Args {
				la := c.lin(a)
				q1, ok1 := leq(r, la, "min/max = arg")
				q2, ok2 := leq(la, r, "min/max = arg")
				if ok1 && ok2 {
					alts = append(alts, []Ineq{q1, q2})
				}
			}
			if len(alts) == len(x.Call.Args) {
				c.splits = append(c.splits, alts)
			}
			for _, a := range x.Call.Args {
				la := c.lin(a)
				if cal.Builtin == "min" {
					c.addDef(leq(r, la, "min ≤ arg"))
				} else {
					c.addDef(leq(la, r, "max ≥ arg"))
				}
				if iv := c.ival(a); !(iv.okLo && iv.lo >= 0) {
					allNonneg = false
				}
			}
			if cal.Builtin == "min" {
				// min ≥ 0 when every argument is ≥ 0 (lemma: conditions checked by the prover)
				var conds []Ineq
				okAll := true
				for _, a := range x.Call.Args {
					q, ok := leq(linConst(0), c.lin(a), "arg ≥ 0")
					okAll = okAll && ok
					conds = append(conds, q)
				}
				if nn, ok := leq(linConst(0), r, "min ≥ 0"); ok && okAll {
					if allNonneg {
						c.addDef(nn, true)
					} else {
						c.lemmas = append(c.lemmas, lemma{cond: conds, then: []Ineq{nn}, key: "min:" + c.id(v)})
					}
				}
			}
			return r
		}
		if cal.Static != nil {
			if idxFn, sArg := indexLikeCallee(cal.Static); idxFn {
				r := c.atom(v)
				c.addDef(leq(linConst(-1), r, "index result ≥ −1"))
				if sArg < len(x.Call.Args) {
					if up, ok := c.linLen(x.Call.Args[sArg]).add(linConst(-1)); ok {
						c.addDef(leq(r, up, "index result < len"))
					}
				}
				return r
			}
		}
		return c.atom(v)
	case *ssa.Extract:
		r := c.atom(v)
		// io.Reader / io.Writer contract (trusted): Read(p) / Write(p) report 0 ≤ n ≤ len(p)
		if call, ok := x.Tuple.(*ssa.Call); ok && x.Index == 0 {
			var buf ssa.Value
			if call.Call.IsInvoke() && len(call.Call.Args) == 1 {
				if m := call.Call.Method.Name(); m == "Read" || m == "Write" {
					buf = call.Call.Args[0]
				}
			} else if g := calleeOf(call).Static; g != nil && !c.e.w.InModule(g) && g.Signature.Recv() != nil && len(call.Call.Args) == 2 && (g.Name() == "Read" || g.Name() == "Write") {
				// a standard-library reader/writer (bufio.Reader, net.TCPConn, …)
				buf = call.Call.Args[1]
			}
			if buf != nil && hasLen(buf.Type()) {
				c.addDef(leq(linConst(0), r, "io contract: n ≥ 0"))
				c.addDef(leq(r, c.linLen(buf), "io contract: n ≤ len(p)"))
			}
		}
		return r
	}
	if isIntType(v.Type()) {
		return c.atom(v)
	}
	return linAtom(c.id(v))
}

// addLemmaNonneg: product of non-negative factors is non-negative.
func (c *fnCtx) addLemmaNonneg(r Lin, fs []Lin) {
	var conds []Ineq
	for _, f := range fs {
		q, ok := leq(linConst(0), f, "factor ≥ 0")
		if !ok {
			return
		}
		conds = append(conds, q)
	}
	if nn, ok := leq(linConst(0), r, "product ≥ 0"); ok {
		c.lemmas = append(c.lemmas, lemma{cond: conds, then: []Ineq{nn}, key: "mul:" + r.String()})
	}
}

// indexLikeCallee recognises strings/bytes search functions whose result r satisfies
// −1 ≤ r < len(arg sArg).
func indexLikeCallee(f *ssa.Function) (bool, int) {
	if f.Pkg == nil || f.Object() == nil {
		return false, 0
	}
	p := f.Pkg.Pkg.Path()
	if p != "strings" && p != "bytes" {
		return false, 0
	}
	switch f.Name() {
	case "Index", "IndexByte", "IndexAny", "IndexRune", "IndexFunc", "LastIndex", "LastIndexByte", "LastIndexAny", "LastIndexFunc":
		return true, 0
	}
	return false, 0
}

// roTableLoad: load of an element of a package-level array/slice variable that is never
// written outside its initialiser: the element lies within the literal's value range.
func (c *fnCtx) roTableLoad(ld *ssa.UnOp) (Lin, bool) {
	ia, ok := ld.X.(*ssa.IndexAddr)
	if !ok {
		return Lin{}, false
	}
	g, ok := ia.X.(*ssa.Global)
	if !ok {
		return Lin{}, false
	}
	lo, hi, ok := c.e.roTableRange(g)
	if !ok {
		return Lin{}, false
	}
	a := c.id(ld)
	c.addDef(leq(linConst(lo), linAtom(a), "read-only table "+g.Name()+" min"))
	c.addDef(leq(linAtom(a), linConst(hi), "read-only table "+g.Name()+" max"))
	return linAtom(a), true
}

// linLen returns the length of a slice/string/array(-pointer) value as a Lin.
// canonLoad maps repeated loads of one element of a slice parameter (p[k], constant k) to the
// first such load, when nothing in the function stores into p's elements and p is not handed to
// a call before the later load: go/ssa does not CSE them, but they read the same value.
func (c *fnCtx) canonLoad(v ssa.Value) ssa.Value {
	u, ok := v.(*ssa.UnOp)
	if !ok || u.Op != token.MUL {
		return v
	}
	ia, ok := u.X.(*ssa.IndexAddr)
	if !ok {
		return v
	}
	p, ok := ia.X.(*ssa.Parameter)
	k, isK := constInt(ia.Index)
	if !ok || !isK {
		return v
	}
	var rep *ssa.UnOp
	var cands []*ssa.UnOp
	clean := true
	eachInstr(c.fn, func(in ssa.Instruction) {
		switch x := in.(type) {
		case *ssa.Store:
			if a, ok := x.Addr.(*ssa.IndexAddr); ok && a.X == ssa.Value(p) {
				clean = false
			}
		case *ssa.UnOp:
			if x.Op != token.MUL {
				return
			}
			if a, ok := x.X.(*ssa.IndexAddr); ok && a.X == ssa.Value(p) {
				if kk, isKK := constInt(a.Index); isKK && kk == k {
					cands = append(cands, x)
				}
			}
		case ssa.CallInstruction:
			if b := calleeOf(x).Builtin; b == "len" || b == "cap" {
				return
			}
			for _, a := range x.Common().Args {
				if a == ssa.Value(p) && instrDominates(in, u) {
					clean = false // the callee may have written the elements before this load
				}
			}
		}
	})
	// the representative: the load that dominates this one and is dominated by no other candidate
	for _, cd := range cands {
		if cd == u || !instrDominates(cd, u) {
			continue
		}
		if rep == nil || instrDominates(cd, rep) {
			rep = cd
		}
	}
	if !clean || rep == nil {
		return v
	}
	return rep
}

func (c *fnCtx) linLen(v ssa.Value) Lin {
	v = c.canonLoad(v)
	if l, ok := c.lenMemo[v]; ok {
		return l
	}
	c.lenMemo[v] = linAtom("len(" + c.id(v) + ")")
	l := c.linLen0(v)
	c.lenMemo[v] = l
	return l
}

func arrayLenOf(t types.Type) (int64, bool) {
	if p, ok := t.Underlying().(*types.Pointer); ok {
		t = p.Elem()
	}
	if a, ok := t.Underlying().(*types.Array); ok {
		return a.Len(), true
	}
	return 0, false
}

func (c *fnCtx) lenAtom(v ssa.Value) Lin {
	a := "len(" + c.id(v) + ")"
	c.addDef(leq(linConst(0), linAtom(a), "len ≥ 0"))
	if c.e.checkWrap {
		c.addDef(leq(linAtom(a), linConst(c.e.lenCap()), "assumption: no buffer longer than the cap"))
	}
	return linAtom(a)
}

func (c *fnCtx) linLen0(v ssa.Value) Lin {
	if n, ok := arrayLenOf(v.Type()); ok {
		return linConst(n)
	}
	switch x := v.(type) {
	case *ssa.Const:
		if x.Value == nil {
			return linConst(0)
		}
		if x.Value.Kind() == constant.String {
			return linConst(int64(len(constant.StringVal(x.Value))))
		}
	case *ssa.Slice:
		lo := linConst(0)
		if x.Low != nil {
			lo = c.lin(x.Low)
		}
		var hi Lin
		if x.High != nil {
			hi = c.lin(x.High)
		} else {
			hi = c.linLen(x.X)
		}
		if r, ok := hi.sub(lo); ok {
			return r
		}
	case *ssa.MakeSlice:
		return c.lin(x.Len)
	case *ssa.ChangeType:
		return c.linLen(x.X)
	case *ssa.Convert:
		// string <-> []byte keep the length
		return c.linLen(x.X)
	case *ssa.UnOp:
		if x.Op == token.MUL {
			if a, ok := c.fieldLenAtom(x); ok {
				return a
			}
		}
	case *ssa.Call:
		if f := calleeOf(x).Static; f != nil && f.Pkg != nil {
			p := f.Pkg.Pkg.Path()
			if (p == "bytes" || p == "slices" || p == "strings") && f.Name() == "Clone" && len(x.Call.Args) == 1 {
				return c.linLen(x.Call.Args[0])
			}
		}
		if calleeOf(x).Builtin == "append" && len(x.Call.Args) == 2 {
			// len(append(a, b...)) = len(a) + len(b)
			if s, ok := c.linLen(x.Call.Args[0]).add(c.linLen(x.Call.Args[1])); ok {
				return s
			}
		}
	}
	return c.lenAtom(v)
}

// ---------- dominators / must-facts ----------

// mustFacts: branch decisions that hold on every path to a block's entry. A fact about a
// condition defined inside the region a block heads is dropped when it flows into that
// block over a back edge (the value is recomputed before it can be used again).
func bndMustFacts(fn *ssa.Function) map[*ssa.BasicBlock][]Fact {
	in := map[*ssa.BasicBlock]factSet{}
	if len(fn.Blocks) == 0 {
		return nil
	}
	defBlock := func(v ssa.Value) *ssa.BasicBlock {
		if i, ok := v.(ssa.Instruction); ok {
			return i.Block()
		}
		return nil
	}
	edgeFacts := func(p, s *ssa.BasicBlock) factSet {
		out := factSet{}
		for f := range in[p] {
			out[f] = true
		}
		if iff, ok := p.Instrs[len(p.Instrs)-1].(*ssa.If); ok && p.Succs[0] != p.Succs[1] {
			if s == p.Succs[0] {
				out[normFact(iff.Cond, true)] = true
			} else {
				out[normFact(iff.Cond, false)] = true
			}
		}
		if s.Dominates(p) { // back edge
			for f := range out {
				if db := defBlock(f.Cond); db != nil && s.Dominates(db) {
					delete(out, f)
				}
			}
		}
		return out
	}
	in[fn.Blocks[0]] = factSet{}
	for changed := true; changed; {
		changed = false
		for _, b := range fn.Blocks[1:] {
			var acc factSet
			first := true
			for _, p := range b.Preds {
				if in[p] == nil {
					continue
				}
				ef := edgeFacts(p, b)
				if first {
					acc, first = ef, false
				} else {
					for f := range acc {
						if !ef[f] {
							delete(acc, f)
						}
					}
				}
			}
			if first {
				continue
			}
			if in[b] == nil || len(in[b]) != len(acc) {
				in[b] = acc
				changed = true
			}
		}
	}
	out := map[*ssa.BasicBlock][]Fact{}
	for b, fs := range in {
		var l []Fact
		for f := range fs {
			l = append(l, f)
		}
		sort.Slice(l, func(i, j int) bool { return render(l[i].Cond) < render(l[j].Cond) })
		out[b] = l
	}
	return out
}

// factIneqs turns one branch fact into linear inequalities; a disequality d ≠ 0 is
// returned separately (the prover sharpens it once one side is known).
func (c *fnCtx) factIneqs(f Fact) (out []Ineq, neq []Lin) {
	b, ok := f.Cond.(*ssa.BinOp)
	if !ok || !isIntType(b.X.Type()) {
		return nil, nil
	}
	switch b.Op {
	case token.LSS, token.LEQ, token.GTR, token.GEQ, token.EQL, token.NEQ:
	default:
		return nil, nil
	}
	x, y := c.lin(b.X), c.lin(b.Y)
	why := render(f.Cond) + fmt.Sprintf("=%v", f.Val)
	op := b.Op
	if !f.Val {
		switch op {
		case token.LSS:
			op = token.GEQ
		case token.LEQ:
			op = token.GTR
		case token.GTR:
			op = token.LEQ
		case token.GEQ:
			op = token.LSS
		case token.EQL:
			op = token.NEQ
		case token.NEQ:
			op = token.EQL
		}
	}
	add := func(q Ineq, ok bool) {
		if ok {
			out = append(out, q)
		}
	}
	switch op {
	case token.LSS:
		add(lt(x, y, why))
	case token.LEQ:
		add(leq(x, y, why))
	case token.GTR:
		add(lt(y, x, why))
	case token.GEQ:
		add(leq(y, x, why))
	case token.EQL:
		add(leq(x, y, why))
		add(leq(y, x, why))
	case token.NEQ:
		if d, ok := x.sub(y); ok {
			neq = append(neq, d)
		}
	}
	return out, neq
}
