// mutgen enumerates small syntactic mutants of selected functions of a Go source tree and writes
// each as a unified diff. Development aid for finding blind spots of the checker (never used by a
// registered command).
//
// usage: mutgen -repo DIR -out DIR -funcs FILE [-max N]
// FILE lines: <relative package dir> <receiver type or -> <function name>
package main

import (
	"bufio"
	"bytes"
	"flag"
	"fmt"
	"go/ast"
	"go/format"
	"go/parser"
	"go/token"
	"os"
	"os/exec"
	"path/filepath"
	"strings"
)

type target struct{ dir, recv, name string }

func recvName(fd *ast.FuncDecl) string {
	if fd.Recv == nil || len(fd.Recv.List) == 0 {
		return "-"
	}
	t := fd.Recv.List[0].Type
	for {
		switch x := t.(type) {
		case *ast.StarExpr:
			t = x.X
			continue
		case *ast.IndexExpr:
			t = x.X
			continue
		case *ast.IndexListExpr:
			t = x.X
			continue
		case *ast.Ident:
			return x.Name
		}
		return "?"
	}
}

var skipCall = []string{"log", "Log", "Debug", "Info", "Warn", "Error", "Errorf", "trace", "Trace", "Sprintf", "Grow"}

func isSkippedCall(e ast.Expr) bool {
	c, ok := e.(*ast.CallExpr)
	if !ok {
		return true
	}
	var name string
	switch f := c.Fun.(type) {
	case *ast.Ident:
		name = f.Name
	case *ast.SelectorExpr:
		name = f.Sel.Name
		if x, ok := f.X.(*ast.SelectorExpr); ok {
			name = x.Sel.Name + "." + name
		} else if x, ok := f.X.(*ast.Ident); ok {
			name = x.Name + "." + name
		}
	}
	for _, s := range skipCall {
		if strings.Contains(name, s) {
			return true
		}
	}
	return false
}

func main() {
	repo := flag.String("repo", "/repo", "")
	out := flag.String("out", "/tmp/mut", "")
	funcsFile := flag.String("funcs", "", "")
	maxPer := flag.Int("max", 10, "max mutants per function")
	ops := flag.String("ops", "basic", "basic | order (statement swaps and argument swaps)")
	phase := flag.Int("phase", 0, "0: sites 0, step, 2·step…; 1: sites step/2, step/2+step… (a second, disjoint sample)")
	flag.Parse()
	var targets []target
	f, err := os.Open(*funcsFile)
	if err != nil {
		panic(err)
	}
	sc := bufio.NewScanner(f)
	for sc.Scan() {
		p := strings.Fields(sc.Text())
		if len(p) == 3 {
			targets = append(targets, target{p[0], p[1], p[2]})
		}
	}
	os.MkdirAll(*out, 0o755)
	byDir := map[string][]target{}
	for _, t := range targets {
		byDir[t.dir] = append(byDir[t.dir], t)
	}
	id := 0
	index, _ := os.Create(filepath.Join(*out, "INDEX.tsv"))
	defer index.Close()
	for dir, ts := range byDir {
		want := map[string]bool{}
		for _, t := range ts {
			want[t.recv+"."+t.name] = true
		}
		files, _ := filepath.Glob(filepath.Join(*repo, dir, "*.go"))
		for _, file := range files {
			if strings.HasSuffix(file, "_test.go") {
				continue
			}
			src, _ := os.ReadFile(file)
			fset := token.NewFileSet()
			af, err := parser.ParseFile(fset, file, src, parser.ParseComments)
			if err != nil {
				continue
			}
			for _, d := range af.Decls {
				fd, ok := d.(*ast.FuncDecl)
				if !ok || fd.Body == nil || !want[recvName(fd)+"."+fd.Name.Name] {
					continue
				}
				// enumerate mutation sites
				type site struct {
					op    string
					apply func() func() // applies, returns undo
					pos   token.Pos
				}
				var sites []site
				simple := func(st ast.Stmt) bool {
					switch s := st.(type) {
					case *ast.ExprStmt:
						return !isSkippedCall(s.X)
					case *ast.AssignStmt:
						return s.Tok != token.DEFINE
					case *ast.IncDecStmt, *ast.DeferStmt, *ast.GoStmt:
						return true
					}
					return false
				}
				if *ops == "order" {
					ast.Inspect(fd.Body, func(n ast.Node) bool {
						switch x := n.(type) {
						case *ast.BlockStmt:
							for i := 0; i+1 < len(x.List); i++ {
								i, x := i, x
								if simple(x.List[i]) && simple(x.List[i+1]) {
									sites = append(sites, site{"swap-stmts", func() func() {
										x.List[i], x.List[i+1] = x.List[i+1], x.List[i]
										return func() { x.List[i], x.List[i+1] = x.List[i+1], x.List[i] }
									}, x.List[i].Pos()})
								}
							}
						case *ast.CallExpr:
							_ = x
							if len(x.Args) >= 2 && !isSkippedCall(x) {
								sites = append(sites, site{"swap-args", func() func() {
									x.Args[0], x.Args[1] = x.Args[1], x.Args[0]
									return func() { x.Args[0], x.Args[1] = x.Args[1], x.Args[0] }
								}, x.Pos()})
							}
						}
						return true
					})
				}
				ast.Inspect(fd.Body, func(n ast.Node) bool {
					if *ops == "order" {
						return false
					}
					switch x := n.(type) {
					case *ast.IfStmt:
						_ = x
						sites = append(sites, site{"negate-if", func() func() {
							old := x.Cond
							x.Cond = &ast.UnaryExpr{Op: token.NOT, X: &ast.ParenExpr{X: old}}
							return func() { x.Cond = old }
						}, x.Pos()})
					case *ast.BinaryExpr:
						_ = x
						var repl token.Token
						switch x.Op {
						case token.LSS:
							repl = token.LEQ
						case token.LEQ:
							repl = token.LSS
						case token.GTR:
							repl = token.GEQ
						case token.GEQ:
							repl = token.GTR
						case token.EQL:
							repl = token.NEQ
						case token.NEQ:
							repl = token.EQL
						case token.LAND:
							repl = token.LOR
						case token.LOR:
							repl = token.LAND
						case token.ADD:
							repl = token.SUB
						case token.SUB:
							repl = token.ADD
						}
						if repl != token.ILLEGAL {
							// skip string concatenation
							if x.Op == token.ADD {
								if bl, ok := x.X.(*ast.BasicLit); ok && bl.Kind == token.STRING {
									return true
								}
								if bl, ok := x.Y.(*ast.BasicLit); ok && bl.Kind == token.STRING {
									return true
								}
							}
							old := x.Op
							sites = append(sites, site{"op " + old.String() + "→" + repl.String(), func() func() {
								x.Op = repl
								return func() { x.Op = old }
							}, x.OpPos})
						}
						for _, side := range []*ast.Expr{&x.X, &x.Y} {
							if bl, ok := (*side).(*ast.BasicLit); ok && bl.Kind == token.INT {
								bl := bl
								sites = append(sites, site{"const+1 " + bl.Value, func() func() {
									old := bl.Value
									bl.Value = "(" + old + " + 1)"
									return func() { bl.Value = old }
								}, bl.Pos()})
							}
						}
					case *ast.BlockStmt:
						for i, st := range x.List {
							i, st, x := i, st, x
							del := false
							switch s := st.(type) {
							case *ast.ExprStmt:
								del = !isSkippedCall(s.X)
							case *ast.AssignStmt:
								del = s.Tok != token.DEFINE
							case *ast.IncDecStmt:
								del = true
							case *ast.DeferStmt:
								del = !isSkippedCall(s.Call)
							case *ast.GoStmt:
								del = false
							}
							if del {
								sites = append(sites, site{"delete-stmt", func() func() {
									x.List[i] = &ast.EmptyStmt{Semicolon: st.Pos(), Implicit: false}
									return func() { x.List[i] = st }
								}, st.Pos()})
							}
						}
					}
					return true
				})
				// deterministic sample
				step := 1
				if len(sites) > *maxPer {
					step = (len(sites) + *maxPer - 1) / *maxPer
				}
				start := 0
				if *phase == 1 {
					if step < 2 {
						continue // every site was already taken in phase 0
					}
					start = step / 2
				}
				for si := start; si < len(sites); si += step {
					s := sites[si]
					undo := s.apply()
					var buf bytes.Buffer
					if err := format.Node(&buf, fset, af); err != nil {
						undo()
						continue
					}
					undo()
					id++
					tmp := filepath.Join(*out, fmt.Sprintf("m%04d.go", id))
					os.WriteFile(tmp, buf.Bytes(), 0o644)
					rel, _ := filepath.Rel(*repo, file)
					cmd := exec.Command("diff", "-u", "--label", "a/"+rel, "--label", "b/"+rel, file, tmp)
					diff, _ := cmd.Output()
					os.Remove(tmp)
					if len(diff) == 0 {
						continue
					}
					os.WriteFile(filepath.Join(*out, fmt.Sprintf("m%04d.diff", id)), diff, 0o644)
					fmt.Fprintf(index, "m%04d\t%s\t%s.%s\t%s\t%d\n", id, rel, recvName(fd), fd.Name.Name, s.op, fset.Position(s.pos).Line)
				}
			}
		}
	}
	fmt.Println(id, "mutants")
}
