module mutgen
go 1.23
