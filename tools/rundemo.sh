#!/bin/bash
# usage: rundemo.sh <dir-with-_test.go> [repo-dir]  — runs a demonstration test against a go-secs tree
# in a scratch module outside /repo and /verif, then removes it.
set -u
src=$1; repo=${2:-/repo}
d=$(mktemp -d /tmp/demo.XXXXXX)
cp $src/*.go $d/
cat > $d/go.mod <<EOM
module demo
go 1.26.0
require github.com/arloliu/go-secs/v2 v2.0.0
replace github.com/arloliu/go-secs/v2 => $repo
EOM
cp $repo/go.sum $d/
(cd $d && GOFLAGS=-mod=mod GOPROXY=off go test -count=1 ./... > $d/out.txt 2>&1)
rc=$?
tail -${3:-8} $d/out.txt
rm -rf $d
exit $rc
