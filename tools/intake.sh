#!/bin/bash
# usage: intake.sh <PROP> <offset> [n...]  — confirms the changes a seed agent left in
# /tmp/wt/out/<PROP>/<n> (in the agent's own scratch worktree /tmp/wt/<PROP>) and stores the
# confirmed ones as /verif/seeded/<PROP>-<n+offset>.
set -u
prop=$1; off=$2; shift 2
ns=${*:-1 2 3}
for n in $ns; do
  src=/tmp/wt/out/$prop/$n
  [ -f $src/patch.diff ] || { echo "$prop/$n: no patch"; continue; }
  /verif/tools/confirm_seed.sh $src /tmp/wt/$prop > /tmp/wt/out/$prop/confirm_$n.log 2>&1
  tail -1 /tmp/wt/out/$prop/confirm_$n.log
  python3 - "$prop" "$n" "$off" <<'PY'
import json, os, shutil, sys
prop, n, off = sys.argv[1], int(sys.argv[2]), int(sys.argv[3])
src = f"/tmp/wt/out/{prop}/{n}"
key = f"{prop}-{n+off}"
head = os.popen("git -C /repo rev-parse --short HEAD").read().strip()
if not os.path.exists(src + "/confirm.json"):
    print("unconfirmed", key); sys.exit()
conf = json.load(open(src + "/confirm.json"))
good = conf["applies"] == "yes" and conf["builds"] == "yes" and conf["suite_with_patch"] == "pass" and conf["demo_with_patch"] == "fail" and conf["demo_without_patch"] == "pass"
if not good:
    print("NOT CONFIRMED", key, conf); sys.exit()
dst = f"/verif/seeded/{key}"
os.makedirs(dst, exist_ok=True)
for f in os.listdir(src):
    if f.endswith(".go") or f == "patch.diff":
        shutil.copy(os.path.join(src, f), dst)
meta = json.load(open(src + "/meta.json"))
out = {"id": key, "property": prop, "summary": meta.get("summary"), "why_breaks": meta.get("why_breaks"),
  "needs": meta.get("needs"), "demo_dir": meta.get("demo_dir"), "demo_cmd": conf["demo_cmd"],
  "author": "independent sub-agent given only the property text and a scratch worktree",
  "confirmed_by_me": {"how": f"tools/confirm_seed.sh in a scratch worktree of /repo@{head}: git apply, go build ./..., full suite (go test -vet=off -count=1 ./...) with the patch, demonstration with the patch, demonstration without it", **conf}}
json.dump(out, open(dst + "/meta.json", "w"), indent=1, ensure_ascii=False)
print("stored", key)
PY
done
