#!/bin/bash
# usage: trydet.sh <patch.diff> [property|all]  — applies a patch to a scratch worktree of /repo
# under /tmp (never /repo), runs the checker's quick rules on it and prints the rules that fire.
set -u
patch=$(readlink -f "$1"); prop=${2:-all}
bin=${SECSCHECK:-/verif/bin/secscheck}
wt=$(mktemp -d /tmp/trydet.XXXXXX); tmp=$(mktemp -d /tmp/trydetv.XXXXXX); cp /verif/known_findings.json $tmp/
git -C /repo worktree add --detach $wt/r HEAD >/dev/null 2>&1
if git -C $wt/r apply "$patch"; then
  $bin -property $prop -repo $wt/r -verif $tmp > $tmp/out.txt 2>&1; echo "exit=$?"
  grep -E "\[(violation|undecided)\]" $tmp/out.txt | cut -c1-${WIDTH:-300} | head -${LINES_MAX:-12}
else echo "patch does not apply"; fi
git -C /repo worktree remove --force $wt/r >/dev/null 2>&1; rm -rf $wt $tmp
