#!/bin/bash
# usage: mutrun.sh <worker> <nworkers>  — runs the checker against every (worker-th) mutant in
# /tmp/mut on a private scratch copy of /repo; appends one TSV line per mutant to /tmp/mut/RESULT.<worker>.tsv
# Development aid (blind-spot hunting), not used by any registered command.
set -u
w=$1; nw=$2
export GOFLAGS=-mod=mod GOPROXY=off
d=/tmp/mutw.$w; rm -rf $d; mkdir -p $d/r; rsync -a --exclude .git /repo/ $d/r/
v=$d/v; mkdir -p $v; cp /verif/known_findings.json $v/
out=/tmp/mut/RESULT.$w.tsv; : > $out
i=0
while IFS=$'\t' read -r id file fn op line; do
  i=$((i+1)); [ $((i % nw)) -eq $((w % nw)) ] || continue
  ( cd $d/r && patch -s -p1 < /tmp/mut/$id.diff ) || { echo -e "$id\tpatchfail" >> $out; continue; }
  pkg=$(dirname $file)
  if ! ( cd $d/r && go build ./$pkg >/dev/null 2>&1 ); then
    echo -e "$id\tnocompile" >> $out
  else
    props=$(python3 - "$file" "$fn" <<'PY'
import json,sys,os
m=json.load(open('/tmp/mut_funcs.json'))
file,fn=sys.argv[1],sys.argv[2]
pkg=os.path.dirname(file); recv,name=fn.split('.',1)
print(' '.join(m.get(f"{pkg} {recv} {name}",[])))
PY
)
    res=""
    for p in $props; do
      /verif/bin/secscheck -property $p -tier quick -repo $d/r -verif $v > $d/out.txt 2>&1; rc=$?
      rules=$(grep -oE "C[0-9]{2}-R[0-9]+[a-z0-9-]*" $d/out.txt | sort -u | tr '\n' ',' )
      fired=$(grep -E "\[(violation|undecided)\]" $d/out.txt | grep -oE "C[0-9]{2}-R[0-9]+[a-z0-9-]*" | sort -u | tr '\n' ',')
      res="$res $p:rc=$rc:$fired"
    done
    echo -e "$id\tok\t$res" >> $out
  fi
  ( cd $d/r && patch -s -R -p1 < /tmp/mut/$id.diff )
done < /tmp/mut/INDEX.tsv
rm -rf $d
echo "worker $w done"
