#!/bin/bash
# usage: trymut.sh <patch.diff> <prop> [<prop>...]
# Applies the patch to /repo, runs the quick checks of the given properties, shows the
# verdicts and always restores /repo (git checkout) afterwards.
set -u
patch="$1"; shift
cd /repo || exit 2
if ! git diff --quiet; then echo "/repo is dirty; refusing"; exit 2; fi
if ! git apply "$patch"; then echo "patch does not apply"; exit 2; fi
trap 'git -C /repo checkout -- . ; git -C /repo clean -fdq' EXIT
mkdir -p /tmp/trymut.$$; cp /verif/known_findings.json /tmp/trymut.$$/
for p in "$@"; do
  ( out=$(/verif/bin/secscheck -property $p -tier quick -verif /tmp/trymut.$$ 2>&1); rc=$?
    echo "== $p exit=$rc"; echo "$out" | grep -A1 -E "^VIOLATION" | grep -v '^--' | grep -v '^VIOLATION' | cut -c1-400 | head -3 ) &
done
wait
rm -rf /tmp/trymut.$$
