#!/bin/bash
# usage: confirm_seed.sh <srcdir containing patch.diff, meta.json, demo files> <scratch worktree>
# Confirms a seeded change independently: patch applies, builds, the whole suite passes with it,
# the demonstration fails with it and passes without it. Writes <srcdir>/confirm.json.
set -u
src="$1"; wt="$2"
export GOFLAGS=-mod=mod GOPROXY=off
cd "$wt" || exit 2
git checkout -q -- . ; git clean -fdq
ddir=$(jq -r .demo_dir "$src/meta.json")
dcmd=$(jq -r .demo_cmd "$src/meta.json" | sed -E 's#cd /tmp/wt/[A-Za-z0-9]+ *&& *##')
res() { jq -n --arg a "$1" --arg b "$2" --arg c "$3" --arg d "$4" --arg e "$5" --arg cmd "$dcmd" \
  '{applies:$a, builds:$b, suite_with_patch:$c, demo_with_patch:$d, demo_without_patch:$e, demo_cmd:$cmd}' > "$src/confirm.json"; }
git apply "$src/patch.diff" || { res no - - - -; exit 1; }
go build ./... >/dev/null 2>&1 || { res yes no - - -; git checkout -q -- .; exit 1; }
suite=fail
for try in 1 2 3; do
  if go test -vet=off -count=1 ./... > /tmp/suite.$$.log 2>&1; then suite=pass; break; fi
done
[ $suite = fail ] && grep -E "^(--- FAIL|FAIL)" /tmp/suite.$$.log | head -5 > "$src/suite_fail.txt"
rm -f /tmp/suite.$$.log
cp "$src"/*_test.go "$ddir"/ 2>/dev/null
for f in "$src"/*.go; do case "$f" in *_test.go) ;; *) [ -f "$f" ] && cp "$f" "$ddir"/ ;; esac; done
if ( eval "$dcmd" ) > /tmp/demo.$$.log 2>&1; then dw=pass; else dw=fail; fi
git checkout -q -- .
dwo=fail
for try in 1 2; do if ( eval "$dcmd" ) > /tmp/demo0.$$.log 2>&1; then dwo=pass; break; fi; done
rm -f /tmp/demo.$$.log /tmp/demo0.$$.log
git checkout -q -- . ; git clean -fdq
res yes yes $suite $dw $dwo
cat "$src/confirm.json" | jq -c .
