#!/bin/bash
# usage: mutate.sh <property> <file> <perl-substitution>  — applies the edit to a scratch copy
# of /repo (never /repo itself), builds it, runs the property check against the copy, removes it.
set -u
prop=$1; file=$2; expr=$3
d=$(mktemp -d /tmp/mut.XXXXXX)
rsync -a --exclude .git /repo/ $d/
perl -0pi -e "$expr" $d/$file
if diff -q /repo/$file $d/$file >/dev/null; then echo "MUTATION DID NOT APPLY"; rm -rf $d; exit 2; fi
(cd $d && GOFLAGS=-mod=mod GOPROXY=off go build ./... 2>&1 | head -5)
${SECSCHECK:-/verif/bin/secscheck} -property $prop -repo $d -verif $d/.verif 2>&1 | grep -A1 -E "^VIOLATION" | grep -v "^--" | cut -c1-400 | head -${4:-6}
echo "exit=${PIPESTATUS[0]}"
rm -rf $d
