#!/bin/bash
# usage: muttest.sh <worker> <nworkers> — for every surviving mutant (compiled, no check fired) not yet
# tested, runs the tests of the mutated package on a scratch copy; appends "<id> pass|fail" to /tmp/mut/TESTS.<worker>.tsv
set -u
w=$1; nw=$2
export GOFLAGS=-mod=mod GOPROXY=off
d=/tmp/mutt.$w; rm -rf $d; mkdir -p $d/r; rsync -a --exclude .git /repo/ $d/r/
out=/tmp/mut/TESTS.$w.tsv; touch $out
i=0
/verif/tools/mutsurv.py 2>/dev/null | while read -r id file rest; do
  i=$((i+1)); [ $((i % nw)) -eq $((w % nw)) ] || continue
  grep -q "^$id	" /tmp/mut/TESTS.*.tsv 2>/dev/null && continue
  ( cd $d/r && patch -s -p1 < /tmp/mut/$id.diff ) || continue
  pkg=$(dirname $file)
  if ( cd $d/r && timeout 300 go test -vet=off -count=1 ./$pkg >/dev/null 2>&1 ); then r=pass; else r=fail; fi
  echo -e "$id\t$r" >> $out
  ( cd $d/r && patch -s -R -p1 < /tmp/mut/$id.diff )
done
rm -rf $d
