#!/usr/bin/env python3
"""Copies confirmed seeded changes from /tmp/wt/out/<prop>/<n> into /verif/seeded/<prop>-<n>/."""
import json, os, shutil, glob, sys
base = sys.argv[1] if len(sys.argv) > 1 else "/tmp/wt/out"
head = os.popen("git -C /repo rev-parse --short HEAD").read().strip()
for src in sorted(glob.glob(base + "/C*/[0-9]")):
    prop = src.split("/")[-2]; n = src.split("/")[-1]
    key = f"{prop}-{n}"
    if not os.path.exists(os.path.join(src, "confirm.json")):
        print("skip (unconfirmed)", key); continue
    conf = json.load(open(os.path.join(src, "confirm.json")))
    good = conf["applies"] == "yes" and conf["builds"] == "yes" and conf["suite_with_patch"] == "pass" and conf["demo_with_patch"] == "fail" and conf["demo_without_patch"] == "pass"
    if not good:
        print("skip (not confirmed)", key, conf); continue
    dst = f"/verif/seeded/{key}"
    os.makedirs(dst, exist_ok=True)
    for f in os.listdir(src):
        if f.endswith(".go") or f == "patch.diff":
            shutil.copy(os.path.join(src, f), dst)
    meta = json.load(open(os.path.join(src, "meta.json")))
    out = {
      "id": key, "property": prop, "summary": meta.get("summary"), "why_breaks": meta.get("why_breaks"),
      "needs": meta.get("needs"), "demo_dir": meta.get("demo_dir"), "demo_cmd": conf["demo_cmd"],
      "author": "independent sub-agent given only the property text and a scratch worktree",
      "confirmed_by_me": {"how": f"tools/confirm_seed.sh in a scratch worktree of /repo@{head}: git apply, go build ./..., full suite (go test -vet=off -count=1 ./...) with the patch, demonstration with the patch, demonstration without it", **conf},
    }
    old = os.path.join(dst, "meta.json")
    if os.path.exists(old):
        o = json.load(open(old))
        for k in ("detected_by_quick_checks", "status"):
            if k in o: out[k] = o[k]
    json.dump(out, open(old, "w"), indent=1)
    print("stored", key)
