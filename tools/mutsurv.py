#!/usr/bin/env python3
"""Lists mutants of the campaign in /tmp/mut that compiled and were not reported by any check."""
import glob,sys
idx={}
for l in open('/tmp/mut/INDEX.tsv'):
    p=l.rstrip('\n').split('\t'); idx[p[0]]=p
seen=set(sys.argv[1:])
tot=ok=surv=0
for f in sorted(glob.glob('/tmp/mut/RESULT.*.tsv')):
    for l in open(f):
        p=l.rstrip('\n').split('\t')
        tot+=1
        if p[1]!='ok': continue
        ok+=1
        res=p[2].split()
        det=[x for x in res if ':rc=0:' not in x]
        if det: continue
        surv+=1
        i=idx[p[0]]
        print(p[0],i[1],i[2],i[3],'line',i[4],'props',','.join(x.split(':')[0] for x in res) or '-')
print(f"# total {tot} compiled {ok} survivors {surv}", file=sys.stderr)
