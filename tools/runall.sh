#!/bin/bash
# Runs every claimed check of one tier (default quick) against /repo, N at a time, and prints
# one line per property. usage: runall.sh [quick|thorough] [parallelism]
tier=${1:-quick}; par=${2:-5}
cd /verif
out=$(mktemp -d /tmp/runall.XXXXXX)
jq -r '.checks[].property_id' MANIFEST.json | xargs -P $par -I{} sh -c "/usr/bin/time -f '%es %MKB' /verif/bin/secscheck -property {} -tier $tier > $out/{}.out 2>&1; echo \$? > $out/{}.rc"
bad=0
for p in $(jq -r '.checks[].property_id' MANIFEST.json); do
  rc=$(cat $out/$p.rc); [ "$rc" != 0 ] && bad=1
  echo "$p rc=$rc $(grep -E '^property=' $out/$p.out | sed 's/property=[A-Z0-9]* //') $(tail -1 $out/$p.out) $(grep -c KNOWN-FINDING $out/$p.out) known"
  grep -E "VIOLATION|\[violation\]|\[undecided\]" $out/$p.out | head -5
done
rm -rf $out
exit $bad
